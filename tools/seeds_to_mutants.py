#!/usr/bin/env python3
"""For every kept seeded change, record it as a patch mutant of its property's thorough tier:
mutants/<id>/seeds.json = [{name, patch, expect}], where expect is the obligation (rule/construct,
ordinal stripped) that fails when the change is applied. Seeds no rule reports are skipped and listed."""
import fnmatch, glob, json, os, re, subprocess, sys
os.chdir('/verif')
by = {}
missed = []
# optional arguments: shell patterns of seed names to (re)compute; all other
# entries are kept as recorded
pats = sys.argv[1:]
old = {}
for fn in glob.glob('mutants/*/seeds.json'):
    for m in json.load(open(fn)):
        old[m['name']] = m
for name in sorted(os.listdir('seeded')):
    pid = name.split('-')[0]
    if pats and not any(fnmatch.fnmatch(name, p) for p in pats):
        if 'seed-' + name in old:
            by.setdefault(pid, []).append(old['seed-' + name])
        continue
    patch = f'/verif/seeded/{name}/patch.diff'
    if subprocess.run(['git', '-C', '/repo', 'apply', '--check', patch]).returncode != 0:
        print('NOAPPLY', name); continue
    subprocess.run(['git', '-C', '/repo', 'apply', patch], check=True)
    try:
        out = subprocess.run(['./run.sh', pid, 'quick'], capture_output=True, text=True).stdout
    finally:
        subprocess.run(['git', '-C', '/repo', 'checkout', '--', '.'], check=True)
    keys = []
    for l in out.splitlines():
        m = re.match(r'\s*(VIOLATED|UNDECIDED)\s+(?:[\w./-]+:\d+\s+)?([A-Z]+/.*?)#\d+: ', l)
        if m:
            keys.append((m.group(1), m.group(2)))
    real = [k for st, k in keys if st == 'VIOLATED'] or [k for st, k in keys if not k.startswith('BASELINE/')] or [k for st, k in keys]
    if not real:
        missed.append(name); continue
    k = real[0]
    k = re.sub(r'/guard$', '', k)
    by.setdefault(pid, []).append({'name': 'seed-' + name, 'patch': f'seeded/{name}/patch.diff', 'expect': k,
                                   'note': 'independently seeded change kept under seeded/' + name})
    print(name, '->', k)
for pid, ms in by.items():
    os.makedirs(f'mutants/{pid}', exist_ok=True)
    json.dump(ms, open(f'mutants/{pid}/seeds.json', 'w'), indent=1)
print('missed:', missed)
