#!/bin/bash
# run every registered property's quick (or given tier) check; one line each
tier=${1:-quick}
cd /verif; ./run.sh build || exit 2
fail=0
for id in $(bin/gethsa -list); do
  out=$(./run.sh $id $tier 2>&1); rc=$?
  echo "$id rc=$rc $(echo "$out" | grep -m1 "^$id $tier")"
  if [ $rc -ne 0 ]; then fail=1; echo "$out" | grep -v "^  discharged" | grep -v "^$id $tier" | head -8 | cut -c1-300; fi
done
exit $fail
