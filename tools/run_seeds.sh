#!/bin/bash
# Applies every kept seeded change to /repo in turn, runs the seeded property's
# quick check, records the outcome, and restores /repo. Output: tab-separated
# id, rc, first failing obligation (or "-").
cd /verif
for d in seeded/C*/; do
  id=$(basename $d)
  if ! git -C /repo apply --check /verif/$d/patch.diff 2>/dev/null; then
    echo -e "$id\tNOAPPLY\t-"; continue
  fi
  git -C /repo apply /verif/$d/patch.diff
  out=$(./run.sh $id quick 2>&1); rc=$?
  git -C /repo checkout -- . >/dev/null 2>&1
  first=$(echo "$out" | grep -E "VIOLATED|UNDECIDED" | head -1 | sed -E 's/^ *(VIOLATED|UNDECIDED) +[^ ]* +//' | cut -c1-160)
  n=$(echo "$out" | grep -cE "VIOLATED|UNDECIDED")
  echo -e "$id\t$rc\t$n\t${first:--}"
done
git -C /repo status --short | head -3
