#!/bin/bash
# Applies every kept seeded change to /repo in turn, runs the seeded property's
# quick check, records the outcome, and restores /repo. Output: tab-separated
# id, rc, first failing obligation (or "-").
cd /verif
# usage: run_seeds.sh [glob]   (default: every seed; e.g. 'C*-r2')
for d in seeded/${1:-C*}/; do
  name=$(basename $d); id=${name%%-*}
  if ! git -C /repo apply --check /verif/$d/patch.diff 2>/dev/null; then
    echo -e "$name\tNOAPPLY\t-"; continue
  fi
  git -C /repo apply /verif/$d/patch.diff
  out=$(./run.sh $id quick 2>&1); rc=$?
  git -C /repo checkout -- . >/dev/null 2>&1
  first=$(echo "$out" | grep -E "VIOLATED|UNDECIDED" | head -1 | sed -E 's/^ *(VIOLATED|UNDECIDED) +[^ ]* +//' | cut -c1-160)
  n=$(echo "$out" | grep -cE "VIOLATED|UNDECIDED")
  echo -e "$name\t$rc\t$n\t${first:--}"
done
git -C /repo status --short | head -3
