#!/bin/bash
# Applies every kept seeded change in turn, runs the seeded property's quick check, records the outcome and
# undoes the change. Output: tab-separated name, rc, number of failing obligations, first failing obligation.
# usage: run_seeds.sh [glob]   (default: every seed; e.g. 'C*-r2')
# By default the change is applied to /repo itself (git apply … ; git checkout -- .). With SEEDS_WT=1 it is
# applied to a scratch worktree of /repo's HEAD under /tmp instead (used while another run reads /repo).
cd /verif
target=/repo
if [ -n "${SEEDS_WT:-}" ]; then
  target=/tmp/wtchk
  git -C /repo worktree remove --force $target >/dev/null 2>&1
  git -C /repo worktree add -f --detach $target HEAD >/dev/null 2>&1 || { echo "cannot create $target"; exit 2; }
  export VERIF_REPO=$target
fi
for d in seeded/${1:-C*}/; do
  name=$(basename $d); id=${name%%-*}
  if ! git -C $target apply --check /verif/$d/patch.diff 2>/dev/null; then
    echo -e "$name\tNOAPPLY\t-"; continue
  fi
  git -C $target apply /verif/$d/patch.diff
  # the evidence file describes the unchanged tree: keep it across the seeded run
  cp evidence/$id.json /tmp/evidence_$id.keep 2>/dev/null
  out=$(./run.sh $id quick 2>&1); rc=$?
  git -C $target checkout -- . >/dev/null 2>&1
  [ -f /tmp/evidence_$id.keep ] && mv /tmp/evidence_$id.keep evidence/$id.json
  rm -rf evidence/violations/$id-*.json 2>/dev/null
  first=$(echo "$out" | grep -E "VIOLATED|UNDECIDED" | grep -v BASELINE | head -1 | sed -E 's/^ *(VIOLATED|UNDECIDED) +[^ ]* +//' | cut -c1-160)
  [ -z "$first" ] && first=$(echo "$out" | grep -E "VIOLATED|UNDECIDED" | head -1 | sed -E 's/^ *(VIOLATED|UNDECIDED) +[^ ]* +//' | cut -c1-160)
  n=$(echo "$out" | grep -cE "VIOLATED|UNDECIDED")
  echo -e "$name\t$rc\t$n\t${first:--}"
done
git -C $target status --short | head -3
[ -n "${SEEDS_WT:-}" ] && git -C /repo worktree remove --force $target >/dev/null 2>&1
