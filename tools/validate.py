#!/usr/bin/env python3
import json, sys, glob, jsonschema
m=json.load(open('/verif/MANIFEST.json'))
jsonschema.validate(m, json.load(open('/root/.vp/MANIFEST.schema.json')))
print('manifest ok: claimed', len(m['checks']), 'not_applicable', len(m['not_applicable']))
es=json.load(open('/root/.vp/EVIDENCE.schema.json'))
for ch in m['checks']:
    f=ch['evidence_file']
    try:
        jsonschema.validate(json.load(open(f)), es)
    except Exception as ex:
        print('EVIDENCE INVALID', f, str(ex)[:200]); sys.exit(1)
print('evidence ok')
