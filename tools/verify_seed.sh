#!/bin/bash
# verify_seed.sh <name> : confirm a seeded change delivered in /tmp/seed/<name> using a FRESH scratch
# worktree: (1) patch applies and touched packages' tests compile+pass with it, (2) demo fails with the
# patch, (3) demo passes without it. On success copies it to /verif/seeded/<name>/ and removes worktrees.
set -u
name=$1
src=/tmp/seed/$name
wt=/tmp/wtv/$name
export GOFLAGS=-mod=mod GOPROXY=off
log=$src/verify.log
: > $log
[ -f $src/patch.diff ] && [ -f $src/meta.json ] || { echo "$name: missing deliverables"; exit 1; }
rm -rf $wt; git -C /repo worktree prune; git -C /repo worktree add -f --detach $wt HEAD >>$log 2>&1 || exit 1
cd $wt
python3 - "$src" "$wt" <<'PY' || { echo "$name: demo copy failed"; exit 1; }
import json,sys,shutil,os
src,wt=sys.argv[1],sys.argv[2]
m=json.load(open(src+'/meta.json'))
for f,dst in m['demo_files'].items():
    p=os.path.join(src,'demo',f)
    if not os.path.exists(p): p=os.path.join(src,f)
    d=os.path.join(wt,dst)
    os.makedirs(os.path.dirname(d),exist_ok=True)
    shutil.copy(p,d)
open(src+'/demo_cmd.txt','w').write(m['demo_cmd'])
pk=sorted({'./'+os.path.dirname(t) for t in m.get('touched_files',[])})
open(src+'/touched_pkgs.txt','w').write(' '.join(pk))
PY
demo=$(cat $src/demo_cmd.txt)
pkgs=$(cat $src/touched_pkgs.txt)
echo "== demo WITHOUT patch (must pass)" >>$log
( eval "$demo" ) >>$log 2>&1; r0=$?
git apply $src/patch.diff >>$log 2>&1 || { echo "$name: patch does not apply"; exit 1; }
echo "== demo WITH patch (must fail)" >>$log
( eval "$demo" ) >>$log 2>&1; r1=$?
echo "== existing tests of touched packages WITH patch, demo removed (must pass)" >>$log
python3 - "$src" "$wt" <<'PY'
import json,sys,os
src,wt=sys.argv[1],sys.argv[2]
m=json.load(open(src+'/meta.json'))
for f,dst in m['demo_files'].items():
    os.remove(os.path.join(wt,dst))
PY
go test -vet=off -count=1 -p 4 $pkgs >>$log 2>&1; r2=$?
cd /; git -C /repo worktree remove --force $wt
echo "$name: demo-without=$r0 (want 0) demo-with=$r1 (want !=0) tests-with=$r2 (want 0)"
if [ $r0 -eq 0 ] && [ $r1 -ne 0 ] && [ $r2 -eq 0 ]; then
  mkdir -p /verif/seeded/$name
  cp $src/patch.diff /verif/seeded/$name/
  cp -r $src/demo /verif/seeded/$name/ 2>/dev/null
  python3 - "$src" "$name" "$pkgs" <<'PY'
import json,sys
src,name,pkgs=sys.argv[1:4]
m=json.load(open(src+'/meta.json'))
m['verified_by_main']={'fresh_worktree':True,'demo_without_patch':'pass','demo_with_patch':'fail','existing_tests_with_patch':'go test -vet=off -count=1 -p 4 '+pkgs+' : pass'}
json.dump(m,open('/verif/seeded/'+name+'/meta.json','w'),indent=1)
PY
  [ -d /tmp/wt/$name ] && git -C /repo worktree remove --force /tmp/wt/$name
  echo "$name: KEPT"
else
  echo "$name: REJECTED (see $log)"
fi
