#!/usr/bin/env python3
"""Writes SEEDS_r4.md: the round-4 table (seed, change, when, obligation that now fails) from seeded/*-r3/meta.json,
mutants/<id>/seeds.json (the obligation recorded when the seed was kept as a patch mutant) and the `when` classification
below, which is the record of what the rule set did on the FIRST run of each seed (before any rule was added for it)."""
import json, os
before = "C08 C12 C28 C29 C30 C31 C33 C51 C52".split()
undecided = {"C34": "UNDECIDED before (the instance count of the witness-collection rule fell below its confirmed minimum), violated after",
             "C43": "UNDECIDED before (CHECKSHAPE/C43.less no longer recognises the comparator)"}
os.chdir('/verif')
exp = {}
for d in os.listdir('mutants'):
    p = f'mutants/{d}/seeds.json'
    if os.path.exists(p):
        for m in json.load(open(p)):
            exp[m['name'][5:]] = m['expect']
rows = []
for n in sorted(os.listdir('seeded')):
    if not n.endswith('-r4'):
        continue
    pid = n.split('-')[0]
    m = json.load(open(f'seeded/{n}/meta.json'))
    s = ' '.join(m['summary'].split())
    s = s[:260] + ('…' if len(s) > 260 else '')
    s = s.replace('|', '\\|')
    when = '**before**' if pid in before else undecided.get(pid, 'after, missed first')
    rows.append(f"| {n} | {s} | {when} | `{exp.get(n, '?')}` |")
nb = len(before); nu = len(undecided); na = len(rows) - nb - nu
out = f"""# Round 4 of seeded changes

Fourth independent seed per property (`seeded/<id>-r4/`), produced like rounds 1 to 3 (fresh sub-agent, property text
and a scratch worktree only, told what the three earlier seeds of that property had changed and asked for yet another
function, clause or mechanism — explicitly also beyond the files the property names). The rule set they met was the
one left by round 3, so the `before` rows measure the independent detection of that third-generation rule set: **{nb} of {len(rows)} reported as violations, {nu} more as UNDECIDED,
{na} missed on the first run.** All {na} were then answered by a structural rule (column 4 is the obligation that
fails with the seed applied on the committed checker); every round-4 seed is a patch mutant of the thorough tier.

| seed | seeded change (from the agent's meta.json, truncated) | first run | obligation that fails now |
|---|---|---|---|
""" + "\n".join(rows) + """

Reading: the detection rate on unseen changes did not improve from round 2 (36 %) to round 3 (about 25 % + 4 %
undecided), although 32 rules had been added in between. That is the expected behaviour of per-mechanism structural
rules when the seeding agents are told to avoid every mechanism used before: each round moves to code the rules do not
yet describe (tracer copies, the proof walk's key match, journal loading, cache eviction on unindexing, limbo group
bookkeeping, ENR/WHOAREYOU buffers, distance comparison, …). What the three rounds do show is (a) every one of the 158
kept seeds but one has a sound structural necessary condition that separates it from the pinned tree, (b) rules that
state an ordering/pairing discipline generally (sync-before-delete, flush offsets, LAST-write, lockset tokens, SNAPREVERT,
heap-fix, size/overflow flags) keep catching new seeds in their area (C21, C24, C29, C30, C31, C33, C36, C43, C50, C53
in this round), and (c) reading the code for seeds produced six genuine defects of the pinned tree along the way
(DESIGN.md §8.4).
"""
open('SEEDS_r4.md', 'w').write(out)
print(len(rows), nb, nu, na)
