#!/bin/bash
# Re-record baseline/<id>.keys (rule instances generated on /repo's current tree) for every property, or
# for the ids given. Only to be run on the pinned tree after the instances were re-confirmed by reading.
cd /verif
export PATH=/opt/veriftools/go1.26.8/bin:$PATH GOTOOLCHAIN=local GOFLAGS=-mod=mod GOPROXY=off GOSUMDB=off
unset GOWORK
./run.sh build
ids=${@:-$(bin/gethsa -list)}
echo $ids | tr ' ' '\n' | xargs -P 8 -I{} bin/gethsa -prop {} -baseline -repo /repo
