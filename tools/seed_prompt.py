#!/usr/bin/env python3
"""Print the prompt handed to an independent breakage-seeding sub-agent.

The prompt contains only the property text and the agent's own scratch
worktree; nothing from /verif's machinery (by construction: this script reads
properties.jsonl only).
usage: seed_prompt.py C24 [variant-hint]
"""
import json, sys

pid = sys.argv[1]
hint = sys.argv[2] if len(sys.argv) > 2 else ""
# optional third argument: free-text focus hint; then argv[2] is only the name
# suffix of the worktree / delivery directory (second and later rounds)
suffix = hint
if len(sys.argv) > 3:
    hint = sys.argv[3]
prop = None
for l in open('/verif/properties.jsonl'):
    p = json.loads(l)
    if p['id'] == pid:
        prop = p
assert prop, pid
wt = f"/tmp/wt/{pid}{('-' + suffix) if suffix else ''}"
out = f"/tmp/seed/{pid}{('-' + suffix) if suffix else ''}"
anchors = prop['anchors']
print(f"""You are helping to evaluate a verification framework for go-ethereum by producing ONE realistic, subtle bug ("seeded change").

Your private scratch git worktree of go-ethereum is at {wt} (already created; work ONLY there and in {out}; never touch /repo or /verif, and do not read /verif).

Environment for every shell command (env does not persist): `export GOFLAGS=-mod=mod GOPROXY=off` (no network; do NOT set GOTOOLCHAIN). Run go commands from inside {wt}. There are 16 cores shared with other jobs: use `-p 4` for go test.

The property (id {pid}): "{prop['title']}"
Statement: {prop['statement']}
Quantified over: {prop['quantifier']['text']}
Why the existing tests cannot settle it: {prop['why_tests_cant']}
Relevant files: {', '.join(anchors['files'])}
Mechanisms meant to make it hold: {json.dumps(anchors.get('mechanism', []))}

Task: make a small change to the non-test Go source in {wt} that BREAKS this property while
  (a) the repository still compiles (`go build ./...` and `go vet` not required, but `go test -vet=off -count=1 -run '^$' ./...` style compilation of the touched packages' tests must succeed),
  (b) the EXISTING unit tests of every package you touched, and of the packages that directly exercise that code, still pass unchanged (run them: `go test -vet=off -count=1 -p 4 <pkgs>`; you may not edit or delete existing tests),
  (c) the bug needs something specific to manifest: a particular interleaving, a crash or fault at a particular point, a multi-step sequence of operations, an unusual input, an error path, or two cooperating sites that each look fine alone. NOT something ordinary use exposes at once. Think of the kind of regression a plausible refactor or "optimisation" by a maintainer would introduce: a dropped lock on one path, a removed or reordered sync/flush, a missing revert/undo on one error path, a field forgotten in a copy/reset/codec, a check weakened or moved after the effect, a cache keyed by the wrong thing, a bound off by one, an error silently ignored, etc. Prefer changes to the mechanism itself over changes to constants. {('Focus hint: ' + hint + '.') if hint else ''}
  (d) you also write a demonstration: a new Go test file (or small program) that FAILS with your change applied and PASSES on the unmodified tree. The demonstration may use internal package APIs (put it in the package as a _test.go file), may inject faults, force interleavings with channels/sleeps/GOMAXPROCS, or run under -race if a data race is the manifestation (say so).

Deliver in {out}/ :
  - patch.diff : `git -C {wt} diff` of the source change ONLY (not the demo)
  - demo/ : the demonstration file(s), with the path inside the repo they must be copied to noted in meta.json
  - meta.json : {{"property": "{pid}", "summary": "...what was changed...", "needs": "...what it needs in order to manifest...", "demo_files": {{"<file in demo/>": "<destination path relative to repo root>"}}, "demo_cmd": "go test ... (run from repo root)", "tests_run": "commands you ran for (b) and their result", "touched_files": [...]}}
Verify yourself before finishing: with patch applied the demo fails; revert the patch with `git diff -- . ':!*_demo_test.go' > {out}/patch.diff; git apply -R {out}/patch.diff` (NEVER use `git stash`: the stash is shared with other agents' worktrees) and the demo passes; re-apply with `git apply {out}/patch.diff`; existing tests pass with the patch. Leave the worktree with the patch applied and the demo file in place. Keep the change minimal (a few lines). Report briefly what you did.

Separately from the seeded change: if, while reading the UNMODIFIED code, you notice behaviour that already seems to violate the property as stated (independently of your change), describe it in a few lines in {out}/observations.md and at the end of your report under the heading "Observations on the unmodified tree" (file, function, the input/sequence you think fails). Do not spend time proving it and do not seed it.""")
