#!/bin/bash
# usage: run.sh <Cxx> <quick|thorough>   |   run.sh --replay <violation.json>   |  run.sh build
# Every run re-loads /repo's current working tree (go/packages), builds SSA and
# decides the rule instances; nothing under /repo is executed.
set -u
cd "$(dirname "$0")"
export PATH=/opt/veriftools/go1.26.8/bin:$PATH
export GOTOOLCHAIN=local GOFLAGS=-mod=mod GOPROXY=off GOSUMDB=off CGO_ENABLED=1
unset GOWORK
REPO=${VERIF_REPO:-/repo}
build() {
  mkdir -p bin
  (cd checker && go build -o ../bin/gethsa .) || { echo "build of checker failed"; exit 2; }
}
if [ "${1:-}" = "build" ]; then build; exit 0; fi
if [ ! -x bin/gethsa ] || [ -n "$(find checker -name '*.go' -newer bin/gethsa -not -path '*/testdata/*' | head -1)" ]; then build; fi
if [ "${1:-}" = "--replay" ]; then
  id=$(basename "$2" | sed 's/-.*//')
  exec bin/gethsa -prop "$id" -tier quick -repo "$REPO"
fi
id=$1; tier=${2:-${VERIF_TIER:-quick}}
exec bin/gethsa -prop "$id" -tier "$tier" -repo "$REPO"
