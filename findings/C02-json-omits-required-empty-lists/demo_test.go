// Demonstration: the JSON form of a transaction omits `authorizationList` and
// `blobVersionedHashes` when they are empty (omitempty on a slice), while
// UnmarshalJSON treats both as required fields. A set-code transaction with an
// empty authorization list, or a blob transaction without blob hashes - both
// accepted by the binary decoder - therefore do not survive a JSON round trip.
//
// Copy to core/types/ and run:
//   go test -vet=off -count=1 -run TestFindingJSONOmitsRequiredEmptyLists ./core/types/

package types

import (
	"testing"

	"github.com/ethereum/go-ethereum/common"
	"github.com/holiman/uint256"
)

func TestFindingJSONOmitsRequiredEmptyLists(t *testing.T) {
	one := uint256.NewInt(1)
	txs := map[string]*Transaction{
		"set-code tx, empty authorization list": NewTx(&SetCodeTx{ChainID: one, Nonce: 1, GasTipCap: one, GasFeeCap: one, Gas: 21000,
			To: common.HexToAddress("0xaa"), Value: new(uint256.Int), V: new(uint256.Int), R: one, S: one}),
		"blob tx, no blob hashes": NewTx(&BlobTx{ChainID: one, Nonce: 1, GasTipCap: one, GasFeeCap: one, Gas: 21000,
			To: common.HexToAddress("0xaa"), Value: new(uint256.Int), BlobFeeCap: one, V: new(uint256.Int), R: one, S: one}),
	}
	for name, tx := range txs {
		bin, err := tx.MarshalBinary()
		if err != nil {
			t.Fatalf("%s: %v", name, err)
		}
		var fromBin Transaction
		if err := fromBin.UnmarshalBinary(bin); err != nil {
			t.Fatalf("%s: binary envelope rejected: %v", name, err)
		}
		js, err := fromBin.MarshalJSON()
		if err != nil {
			t.Fatalf("%s: %v", name, err)
		}
		var fromJSON Transaction
		if err := fromJSON.UnmarshalJSON(js); err != nil {
			t.Errorf("%s: accepted in binary form, but its own JSON does not decode: %v", name, err)
			continue
		}
		if fromJSON.Hash() != tx.Hash() {
			t.Errorf("%s: hash changed across JSON", name)
		}
	}
}
