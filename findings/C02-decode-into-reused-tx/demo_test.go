package types

import (
	"bytes"
	"math/big"
	"testing"

	"github.com/ethereum/go-ethereum/common"
	"github.com/ethereum/go-ethereum/crypto"
)

// Decoding into a transaction object that was used before must not keep the
// hash, size or sender cached for its previous contents.
func TestDecodeIntoReusedTransactionDemo(t *testing.T) {
	key, _ := crypto.GenerateKey()
	signer := LatestSignerForChainID(big.NewInt(1))
	mk := func(nonce uint64, data []byte) []byte {
		tx := MustSignNewTx(key, signer, &DynamicFeeTx{ChainID: big.NewInt(1), Nonce: nonce, Gas: 21000, GasFeeCap: big.NewInt(1), GasTipCap: big.NewInt(1), To: &common.Address{1}, Data: data})
		b, _ := tx.MarshalBinary()
		return b
	}
	a, b := mk(1, nil), mk(2, bytes.Repeat([]byte{7}, 100))

	var tx Transaction
	if err := tx.UnmarshalBinary(a); err != nil {
		t.Fatal(err)
	}
	_ = tx.Hash()
	_ = tx.Size()
	if err := tx.UnmarshalBinary(b); err != nil {
		t.Fatal(err)
	}
	if want := crypto.Keccak256Hash(b); tx.Hash() != want {
		t.Errorf("hash after decoding other bytes into the same object: have %x, want %x", tx.Hash(), want)
	}
	if tx.Size() != uint64(len(b)) {
		t.Errorf("size: have %d, want %d", tx.Size(), len(b))
	}
	// JSON path passes size 0: the size cached for the previous contents must not survive
	var tx2 Transaction
	tx2.UnmarshalBinary(b)
	_ = tx2.Size()
	var fromA Transaction
	fromA.UnmarshalBinary(a)
	ja, _ := fromA.MarshalJSON()
	if err := tx2.UnmarshalJSON(ja); err != nil {
		t.Fatal(err)
	}
	if tx2.Size() != uint64(len(a)) {
		t.Errorf("size after JSON decode into a used object: have %d, want %d", tx2.Size(), len(a))
	}
}
