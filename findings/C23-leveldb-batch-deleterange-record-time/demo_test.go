package leveldb

import (
	"testing"

	"github.com/ethereum/go-ethereum/ethdb"
	"github.com/ethereum/go-ethereum/ethdb/memorydb"
	"github.com/ethereum/go-ethereum/ethdb/pebble"
)

// Within one batch, a range deletion recorded after a Put of a key in the range
// removes that key on memorydb and pebble (operations apply in order at Write).
func TestBatchPutThenDeleteRangeDemo(t *testing.T) {
	ldb, err := New(t.TempDir(), 0, 0, "", false)
	if err != nil {
		t.Fatal(err)
	}
	defer ldb.Close()
	pdb, err := pebble.New(t.TempDir(), 16, 16, "", false)
	if err != nil {
		t.Fatal(err)
	}
	defer pdb.Close()
	for name, db := range map[string]ethdb.KeyValueStore{"memorydb": memorydb.New(), "pebble": pdb, "leveldb": ldb} {
		b := db.NewBatch()
		b.Put([]byte("k1"), []byte("v"))
		if err := b.DeleteRange([]byte("k0"), []byte("k9")); err != nil {
			t.Fatal(err)
		}
		if err := b.Write(); err != nil {
			t.Fatal(err)
		}
		if ok, _ := db.Has([]byte("k1")); ok {
			t.Errorf("%s: key put before a covering DeleteRange in the same batch survived the batch", name)
		}
	}
}
