package crypto

// Demonstration for the C03 finding. Copy to crypto/recid_demo_test.go and run with both backends:
//   go test -vet=off -count=1 -run TestEcrecoverRejectsRecoveryIDAbove3Demo ./crypto/                 (cgo: passes before and after)
//   CGO_ENABLED=0 go test -vet=off -count=1 -run TestEcrecoverRejectsRecoveryIDAbove3Demo ./crypto/   (pure Go: fails before ad82c2a48f, passes after)

import "testing"

// Both secp256k1 backends must refuse a recovery id outside 0..3.
func TestEcrecoverRejectsRecoveryIDAbove3Demo(t *testing.T) {
	key, _ := GenerateKey()
	msg := Keccak256([]byte("backend agreement"))
	sig, err := Sign(msg, key)
	if err != nil {
		t.Fatal(err)
	}
	for id := byte(4); id <= 7; id++ {
		bad := append([]byte{}, sig...)
		bad[64] = id
		if pub, err := Ecrecover(msg, bad); err == nil {
			t.Errorf("Ecrecover accepted recovery id %d (returned %x…)", id, pub[:8])
		}
		if _, err := SigToPub(msg, bad); err == nil {
			t.Errorf("SigToPub accepted recovery id %d", id)
		}
	}
}
