package types

// Demonstration for the C03 known finding. Copy to core/types/eip155_zero_demo_test.go:
//   go test -vet=off -count=1 -run TestEIP155SignerChainIDZeroDemo ./core/types/     (fails on the pinned tree)

import (
	"math/big"
	"testing"

	"github.com/ethereum/go-ethereum/common"
	"github.com/ethereum/go-ethereum/crypto"
)

// Signing with a signer and recovering with the same signer must return the key's address,
// also for chain id 0.
func TestEIP155SignerChainIDZeroDemo(t *testing.T) {
	key, _ := crypto.GenerateKey()
	addr := crypto.PubkeyToAddress(key.PublicKey)
	for _, signer := range []Signer{NewEIP155Signer(nil), NewEIP155Signer(big.NewInt(0))} {
		tx, err := SignNewTx(key, signer, &LegacyTx{Nonce: 1, Gas: 21000, GasPrice: big.NewInt(1), To: &common.Address{1}, Value: big.NewInt(1)})
		if err != nil {
			t.Fatal(err)
		}
		from, err := Sender(signer, tx)
		if err != nil {
			t.Fatalf("recovery failed: %v", err)
		}
		if from != addr {
			t.Errorf("recovered %x, signed with %x (V=%v)", from, addr, tx.inner.(*LegacyTx).V)
		}
	}
}
