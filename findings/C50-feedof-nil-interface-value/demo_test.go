// Demonstration: FeedOf[T].Send builds the value to deliver with
// reflect.ValueOf(value). For an interface element type and a nil value that
// is the zero reflect.Value, so the send panics - after the send lock was
// taken, which is never handed back: every later Send on the feed blocks.
//
// Copy to event/ and run:
//   go test -vet=off -count=1 -run TestFindingFeedOfNilInterfaceValue ./event/

package event

import (
	"testing"
	"time"
)

func TestFindingFeedOfNilInterfaceValue(t *testing.T) {
	var (
		feed FeedOf[error]
		ch   = make(chan error, 1)
	)
	sub := feed.Subscribe(ch) // not unsubscribed on failure: Unsubscribe needs the send lock too

	func() {
		defer func() {
			if r := recover(); r != nil {
				t.Errorf("Send(nil) on FeedOf[error] panics: %v", r)
			}
		}()
		if n := feed.Send(nil); n != 1 {
			t.Errorf("Send(nil) delivered to %d subscribers, want 1", n)
		}
	}()
	select {
	case v := <-ch:
		if v != nil {
			t.Errorf("received %v, want nil", v)
		}
	default:
		t.Errorf("nil value was not delivered")
	}
	// the feed must still be usable
	done := make(chan int, 1)
	go func() { done <- feed.Send(nil) }()
	select {
	case <-done:
		<-ch
		sub.Unsubscribe()
	case <-time.After(2 * time.Second):
		t.Fatal("a later Send blocks forever: the send lock was not handed back")
	}
}
