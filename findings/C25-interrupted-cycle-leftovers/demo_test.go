// Demonstration: a freeze cycle deletes key-value data only for the range
// [first, frozen) where `first` is the freezer's head at the START OF THAT
// cycle. If the node stops between copying a range to the freezer (and syncing
// it) and deleting it from the key-value store, the next start finds the range
// frozen already, the next cycle begins behind it, and the side-chain blocks
// (and canonical copies) of the interrupted range stay in the key-value store
// for good.
//
// Copy to core/rawdb/ and run:
//   go test -vet=off -count=1 -run TestFindingInterruptedCycleLeftovers ./core/rawdb/

package rawdb

import (
	"math/big"
	"testing"

	"github.com/ethereum/go-ethereum/common"
	"github.com/ethereum/go-ethereum/core/types"
	"github.com/ethereum/go-ethereum/ethdb"
	"github.com/ethereum/go-ethereum/ethdb/memorydb"
)

// findingKeepOpenKV lets the key-value store survive a Close of the database
// wrapper, so that the same store can be combined again with the on-disk
// freezer (a restart of the node).
type findingKeepOpenKV struct {
	ethdb.KeyValueStore
}

func (findingKeepOpenKV) Close() error { return nil }

func findingBlock(number uint64, parent common.Hash, extra string) (*types.Block, types.Receipts) {
	tx := types.NewTx(&types.LegacyTx{
		Nonce:    number,
		GasPrice: big.NewInt(1),
		Gas:      21000,
		To:       &common.Address{0x42},
		Value:    big.NewInt(int64(number)),
		Data:     []byte(extra),
	})
	header := &types.Header{
		Number:      new(big.Int).SetUint64(number),
		ParentHash:  parent,
		Extra:       []byte(extra),
		UncleHash:   types.EmptyUncleHash,
		TxHash:      types.EmptyTxsHash,
		ReceiptHash: types.EmptyReceiptsHash,
		Difficulty:  big.NewInt(1),
	}
	block := types.NewBlockWithHeader(header).WithBody(types.Body{Transactions: types.Transactions{tx}})
	receipts := types.Receipts{{Status: types.ReceiptStatusSuccessful, CumulativeGasUsed: 21000, TxHash: tx.Hash(), Logs: []*types.Log{}}}
	return block, receipts
}


func TestFindingInterruptedCycleLeftovers(t *testing.T) {
	var (
		kv    = findingKeepOpenKV{memorydb.New()}
		frdir = t.TempDir()
	)
	db, err := Open(kv, OpenOptions{Ancient: frdir})
	if err != nil {
		t.Fatal(err)
	}
	if err := db.(*freezerdb).Freeze(); err != nil { // parks the background freezer
		t.Fatal(err)
	}
	// canonical #0..#10, side chain #5'..#7' forking off at #4
	var (
		canon  []*types.Block
		side   []*types.Block
		parent common.Hash
	)
	for n := uint64(0); n <= 10; n++ {
		block, receipts := findingBlock(n, parent, "canonical")
		WriteBlock(db, block)
		WriteReceipts(db, block.Hash(), n, receipts)
		WriteCanonicalHash(db, block.Hash(), n)
		canon = append(canon, block)
		parent = block.Hash()
	}
	parent = canon[4].Hash()
	for n := uint64(5); n <= 7; n++ {
		block, receipts := findingBlock(n, parent, "side")
		WriteBlock(db, block)
		WriteReceipts(db, block.Hash(), n, receipts)
		side = append(side, block)
		parent = block.Hash()
	}
	WriteHeadHeaderHash(db, canon[10].Hash())
	WriteHeadFastBlockHash(db, canon[10].Hash())
	WriteHeadBlockHash(db, canon[10].Hash())
	WriteFinalizedBlockHash(db, canon[8].Hash())

	// first cycle: #0..#8 are copied and synced, then the node stops
	frdb := db.(*freezerdb)
	if _, err := frdb.chainFreezer.freezeRange(&nofreezedb{KeyValueStore: kv}, 0, 8); err != nil {
		t.Fatal(err)
	}
	if err := frdb.SyncAncient(); err != nil {
		t.Fatal(err)
	}
	if err := db.Close(); err != nil {
		t.Fatal(err)
	}
	// restart; finality advances to the head; complete freeze cycles run
	db, err = Open(kv, OpenOptions{Ancient: frdir})
	if err != nil {
		t.Fatal(err)
	}
	defer db.Close()
	frdb = db.(*freezerdb)
	if err := frdb.Freeze(); err != nil {
		t.Fatal(err)
	}
	WriteFinalizedBlockHash(db, canon[10].Hash())
	if err := frdb.Freeze(); err != nil {
		t.Fatal(err)
	}
	frozen, _ := db.Ancients()
	if frozen != 11 {
		t.Fatalf("frozen %d, want 11", frozen)
	}
	for _, b := range side {
		if b.NumberU64() < frozen && func() bool { has, _ := kv.Has(headerKey(b.NumberU64(), b.Hash())); return has }() {
			t.Errorf("side-chain block #%d %x is still in the key-value store below the frozen boundary %d", b.NumberU64(), b.Hash(), frozen)
		}
	}
	for n := uint64(1); n < frozen; n++ {
		if hashes := ReadAllHashes(kv, n); len(hashes) != 0 {
			t.Errorf("block data left in the key-value store at #%d: %d header(s)", n, len(hashes))
		}
	}
}
