// Demonstration: when the head block lags behind the head header (after a
// SetHead to a block without state, or after the start-up repair), importing a
// different child of the head block is treated as a plain chain extension:
// writeBlockAndSetHead calls reorg only if the parent is not the current head
// block. The canonical markers above the new head - still pointing at the old
// chain - are never removed, so GetBlockByNumber serves blocks whose parents are
// not canonical, above the head.
//
// Copy to core/ and run:
//   go test -vet=off -count=1 -run TestFindingForkOnLaggingHeadBlock ./core/

package core

import (
	"context"
	"math/big"
	"testing"

	"github.com/ethereum/go-ethereum/common"
	"github.com/ethereum/go-ethereum/consensus/ethash"
	"github.com/ethereum/go-ethereum/core/rawdb"
	"github.com/ethereum/go-ethereum/params"
)

func TestFindingForkOnLaggingHeadBlock(t *testing.T) {
	for _, variant := range []string{"InsertChain", "SetCanonical", "KnownBlock"} {
		t.Run(variant, func(t *testing.T) { testFindingForkOnLaggingHeadBlock(t, variant) })
	}
}

func testFindingForkOnLaggingHeadBlock(t *testing.T, variant string) {
	var (
		engine = ethash.NewFaker()
		gspec  = &Genesis{Config: params.TestChainConfig, BaseFee: big.NewInt(params.InitialBaseFee)}
		db     = rawdb.NewMemoryDatabase()
		cfg    = DefaultConfig().WithStateScheme(rawdb.HashScheme)
	)
	cfg.SnapshotLimit = 0
	genDb, chainA, _ := GenerateChainWithGenesis(gspec, engine, 10, func(i int, gen *BlockGen) { gen.SetCoinbase(common.Address{0xa}) })
	// a two-block fork on top of A5
	fork, _ := GenerateChain(gspec.Config, chainA[4], engine, genDb, 2, func(i int, gen *BlockGen) { gen.SetCoinbase(common.Address{0xc}) })

	open := func() *BlockChain {
		chain, err := NewBlockChain(db, gspec, engine, cfg)
		if err != nil {
			t.Fatal(err)
		}
		return chain
	}
	// only the states of A4, A5, A9, A10 reach the disk
	chain := open()
	if _, err := chain.InsertChain(chainA[:5]); err != nil {
		t.Fatal(err)
	}
	chain.Stop()
	chain = open()
	if _, err := chain.InsertChain(chainA[5:]); err != nil {
		t.Fatal(err)
	}
	chain.Stop()
	chain = open()
	defer chain.Stop()
	if err := chain.SetHead(8); err != nil {
		t.Fatal(err)
	}
	if chain.CurrentBlock().Number.Uint64() != 5 || chain.CurrentHeader().Number.Uint64() != 8 {
		t.Skipf("unexpected starting point: block #%d header #%d", chain.CurrentBlock().Number, chain.CurrentHeader().Number)
	}
	want := fork[1]
	switch variant {
	case "InsertChain": // writeBlockAndSetHead
		if _, err := chain.InsertChain(fork); err != nil {
			t.Fatalf("fork import: %v", err)
		}
	case "SetCanonical":
		want = fork[0]
		if _, err := chain.InsertBlockWithoutSetHead(context.Background(), fork[0], false); err != nil {
			t.Fatalf("fork import: %v", err)
		}
		if _, err := chain.SetCanonical(fork[0]); err != nil {
			t.Fatalf("set canonical: %v", err)
		}
	case "KnownBlock": // writeKnownBlock
		want = fork[0]
		if _, err := chain.InsertBlockWithoutSetHead(context.Background(), fork[0], false); err != nil {
			t.Fatalf("fork import: %v", err)
		}
		if _, err := chain.InsertChain(fork[:1]); err != nil {
			t.Fatalf("known block import: %v", err)
		}
	}
	head := chain.CurrentBlock()
	if head.Hash() != want.Hash() {
		t.Fatalf("head is #%d %x, want the fork block #%d", head.Number, head.Hash(), want.NumberU64())
	}
	// the index must be a parent-linked chain ending at the head
	for n := head.Number.Uint64() + 1; n <= 10; n++ {
		if h := chain.GetCanonicalHash(n); h != (common.Hash{}) {
			b := chain.GetBlockByNumber(n)
			t.Errorf("canonical marker #%d = %x survives above the head #%d (block served by number, parent %x is not canonical)", n, h, head.Number, b.ParentHash())
		}
	}
	for n := uint64(1); n <= head.Number.Uint64(); n++ {
		b := chain.GetBlockByNumber(n)
		if b == nil {
			t.Fatalf("no canonical block #%d", n)
		}
		if n > 1 && b.ParentHash() != chain.GetCanonicalHash(n-1) {
			t.Errorf("canonical #%d is not the child of canonical #%d", n, n-1)
		}
	}
}
