// Demonstration: ExecuteStateless never looks at the memoised database error
// of its StateDB. A state read that hits a node missing from the witness
// returns a zero value, execution continues, and the function returns a state
// root computed from the wrong pre-state together with a nil error - unless the
// gas or bloom self-checks happen to notice. Here the contract copies
// slot[A]+1 into slot[B] (both non-zero before and after, so the gas is the
// same for any value read) and the witness lacks the leaf of slot A.
//
// Copy to core/ and run:
//   go test -vet=off -count=1 -run TestFindingStatelessIgnoresStateReadErrors ./core/

package core

import (
	"context"
	"math/big"
	"testing"

	"github.com/ethereum/go-ethereum/common"
	"github.com/ethereum/go-ethereum/consensus/beacon"
	"github.com/ethereum/go-ethereum/consensus/ethash"
	"github.com/ethereum/go-ethereum/core/rawdb"
	"github.com/ethereum/go-ethereum/core/types"
	"github.com/ethereum/go-ethereum/crypto"
	"github.com/ethereum/go-ethereum/params"
	"github.com/ethereum/go-ethereum/trie"
	"github.com/ethereum/go-ethereum/trie/trienode"
)

func TestFindingStatelessIgnoresStateReadErrors(t *testing.T) {
	var (
		key, _   = crypto.HexToECDSA("b71c71a67e1177ad4e901695e1b4b9ee17ae16c6668d313eac2f96dbcda3f291")
		sender   = crypto.PubkeyToAddress(key.PublicKey)
		contract = common.HexToAddress("0x00000000000000000000000000000000000c34bb")
		config   = *params.MergedTestChainConfig
		signer   = types.LatestSigner(&config)
		engine   = beacon.New(ethash.NewFaker())
		slotA    = common.BigToHash(big.NewInt(0))
		slotB    = common.BigToHash(big.NewInt(1))
	)
	// sstore(calldataload(32), sload(calldataload(0)) + 1)
	code := common.FromHex("5f35546001016020355500")
	storage := make(map[common.Hash]common.Hash)
	for i := 0; i < 32; i++ {
		storage[common.BigToHash(big.NewInt(int64(i)))] = common.BigToHash(big.NewInt(int64(0x1000 + 16*i)))
	}
	gspec := &Genesis{
		Config: &config,
		Alloc: types.GenesisAlloc{
			sender:                           {Balance: big.NewInt(params.Ether)},
			contract:                         {Balance: big.NewInt(1), Code: code, Storage: storage},
			params.BeaconRootsAddress:        {Code: params.BeaconRootsCode},
			params.HistoryStorageAddress:     {Code: params.HistoryStorageCode},
			params.WithdrawalQueueAddress:    {Code: params.WithdrawalQueueCode},
			params.ConsolidationQueueAddress: {Code: params.ConsolidationQueueCode},
		},
	}
	_, blocks, _ := GenerateChainWithGenesis(gspec, engine, 1, func(i int, b *BlockGen) {
		b.AddTx(types.MustSignNewTx(key, signer, &types.DynamicFeeTx{
			ChainID: config.ChainID, Nonce: 0, To: &contract, Gas: 100_000, GasFeeCap: newGwei(5), GasTipCap: big.NewInt(2),
			Data: append(common.CopyBytes(slotA[:]), slotB[:]...),
		}))
	})
	block := blocks[0]
	chain, err := NewBlockChain(rawdb.NewMemoryDatabase(), gspec, engine, nil)
	if err != nil {
		t.Fatal(err)
	}
	defer chain.Stop()

	// the leaf of slot A in the pre-state storage trie
	pre, err := chain.StateAt(chain.Genesis().Header())
	if err != nil {
		t.Fatal(err)
	}
	stRoot := pre.GetStorageRoot(contract)
	st, err := trie.NewStateTrie(trie.StorageTrieID(chain.Genesis().Root(), crypto.Keccak256Hash(contract[:]), stRoot), chain.TrieDB())
	if err != nil {
		t.Fatal(err)
	}
	proofA, proofB := trienode.NewProofSet(), trienode.NewProofSet()
	if err := st.Prove(crypto.Keccak256(slotA[:]), proofA); err != nil {
		t.Fatal(err)
	}
	if err := st.Prove(crypto.Keccak256(slotB[:]), proofB); err != nil {
		t.Fatal(err)
	}
	var victim []byte
	for _, node := range proofA.List() {
		if has, _ := proofB.Has(crypto.Keccak256(node)); !has {
			victim = node // deepest node only slot A needs
		}
	}
	if victim == nil {
		t.Skip("slots share their whole path")
	}
	witness, err := chain.InsertBlockWithoutSetHead(context.Background(), block, true)
	if err != nil || witness == nil {
		t.Fatalf("witness: %v", err)
	}
	if _, ok := witness.State[string(victim)]; !ok {
		t.Fatal("the witness does not contain the node the execution read")
	}
	delete(witness.State, string(victim))

	header := block.Header()
	header.Root, header.ReceiptHash = common.Hash{}, common.Hash{}
	task := types.NewBlockWithHeader(header).WithBody(*block.Body())
	root, _, err := ExecuteStateless(context.Background(), &config, chain.cfg.VmConfig, task, witness)
	if err == nil {
		t.Fatalf("stateless execution with a required node removed from the witness reported success; state root %x (full execution: %x)", root, block.Root())
	}
}
