package memorydb

// Demonstration for the C23 finding. Copy to ethdb/memorydb/emptykey_demo_test.go.
// On the tree before 8396709a5f it fails (memorydb wipes "a" and "b"; Replay wipes the target);
// on the repaired tree it passes:   go test -vet=off -count=1 -run TestBatchDeleteEmptyKeyDemo ./ethdb/memorydb/

import (
	"testing"

	"github.com/ethereum/go-ethereum/ethdb"
	"github.com/ethereum/go-ethereum/ethdb/leveldb"
)

// A batched Delete of the empty key must remove that key only, as the direct
// Delete does and as the LevelDB backend does.
func TestBatchDeleteEmptyKeyDemo(t *testing.T) {
	ldb, err := leveldb.New(t.TempDir(), 0, 0, "", false)
	if err != nil {
		t.Fatal(err)
	}
	defer ldb.Close()
	for name, db := range map[string]ethdb.KeyValueStore{"memorydb": New(), "leveldb": ldb} {
		db.Put([]byte("a"), []byte("1"))
		db.Put([]byte("b"), []byte("2"))
		db.Put([]byte{}, []byte("empty"))
		b := db.NewBatch()
		if err := b.Delete([]byte{}); err != nil {
			t.Fatal(err)
		}
		if err := b.Write(); err != nil {
			t.Fatal(err)
		}
		if ok, _ := db.Has([]byte{}); ok {
			t.Errorf("%s: empty key still present", name)
		}
		for _, k := range []string{"a", "b"} {
			if ok, _ := db.Has([]byte(k)); !ok {
				t.Errorf("%s: batched Delete(\"\") also removed key %q", name, k)
			}
		}
	}
	// Replay has the same dispatch
	src := New()
	b := src.NewBatch()
	b.Delete([]byte{})
	dst := New()
	dst.Put([]byte("a"), []byte("1"))
	if err := b.Replay(dst); err != nil {
		t.Fatal(err)
	}
	if ok, _ := dst.Has([]byte("a")); !ok {
		t.Errorf("replayed Delete(\"\") removed key \"a\" from the target")
	}
}
