// Demonstration: CommitteeChain.InsertUpdate checks the period, the score and
// the sync-committee signature over the attested header, but never
// LightClientUpdate.Validate(), i.e. never the Merkle branch that ties
// NextSyncCommitteeRoot to the signed header's state root. A genuine, properly
// signed header can therefore be combined with any next-committee root: the
// forged committee enters the chain and headers signed by it verify.
// (The API layer validates updates it downloads; the chain itself does not.)
//
// Copy to beacon/light/ and run:
//   go test -vet=off -count=1 -run TestFindingInsertUpdateSkipsMerkleProofs ./beacon/light/

package light

import (
	"testing"

	"github.com/ethereum/go-ethereum/beacon/types"
)

func TestFindingInsertUpdateSkipsMerkleProofs(t *testing.T) {
	c := newCommitteeChainTest(t, tfBase, 300, false)
	c.addFixedCommitteeRoot(tcBase, 3, nil)
	c.addCommittee(tcBase, 3, nil)
	c.insertUpdate(tcBase, 3, true, nil) // genuine: committee 4 is known now

	// a genuine update of period 4, signed by 400 members of the genuine committee 4
	genuine := GenerateTestUpdate(&tcBase.config, 4, tcBase.periods[4].committee, tcBase.periods[5].committee, 400, false)
	if err := genuine.Validate(); err != nil {
		t.Fatalf("test update invalid: %v", err)
	}
	// the forgery: same signed header and branch, another next committee
	forgedCommittee := GenerateTestCommittee()
	forged := *genuine
	forged.NextSyncCommitteeRoot = forgedCommittee.Root()
	if err := forged.Validate(); err == nil {
		t.Fatal("forged update passes Validate, bad test")
	}
	if err := c.chain.InsertUpdate(&forged, forgedCommittee); err != nil {
		return // rejected, as the property demands
	}
	slot := types.SyncPeriodStart(5) + 10
	signed := GenerateTestSignedHeader(types.Header{Slot: slot}, &tcBase.config, forgedCommittee, slot+1, 400)
	ok, _, _ := c.chain.VerifySignedHeader(signed)
	t.Fatalf("update with a wrong next-committee branch was inserted; header of period 5 signed by the forged committee verifies: %v", ok)
}
