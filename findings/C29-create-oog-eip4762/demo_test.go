// Copyright 2026 The go-ethereum Authors
// This file is part of the go-ethereum library.
//
// The go-ethereum library is free software: you can redistribute it and/or modify
// it under the terms of the GNU Lesser General Public License as published by
// the Free Software Foundation, either version 3 of the License, or
// (at your option) any later version.
//
// The go-ethereum library is distributed in the hope that it will be useful,
// but WITHOUT ANY WARRANTY; without even the implied warranty of
// MERCHANTABILITY or FITNESS FOR A PARTICULAR PURPOSE. See the
// GNU Lesser General Public License for more details.
//
// You should have received a copy of the GNU Lesser General Public License
// along with the go-ethereum library. If not, see <http://www.gnu.org/licenses/>.

// Location: core/vm/create_oog_eip4762_test.go (package vm)

package vm

import (
	"errors"
	"math/big"
	"testing"

	"github.com/ethereum/go-ethereum/common"
	"github.com/ethereum/go-ethereum/core/state"
	"github.com/ethereum/go-ethereum/core/tracing"
	"github.com/ethereum/go-ethereum/core/types"
	"github.com/ethereum/go-ethereum/crypto"
	"github.com/ethereum/go-ethereum/params"
	"github.com/holiman/uint256"
)

func eip4762TestConfig() *params.ChainConfig {
	zero := uint64(0)
	return &params.ChainConfig{
		ChainID:                 big.NewInt(1),
		HomesteadBlock:          big.NewInt(0),
		EIP150Block:             big.NewInt(0),
		EIP155Block:             big.NewInt(0),
		EIP158Block:             big.NewInt(0),
		ByzantiumBlock:          big.NewInt(0),
		ConstantinopleBlock:     big.NewInt(0),
		PetersburgBlock:         big.NewInt(0),
		IstanbulBlock:           big.NewInt(0),
		MuirGlacierBlock:        big.NewInt(0),
		BerlinBlock:             big.NewInt(0),
		LondonBlock:             big.NewInt(0),
		ShanghaiTime:            &zero,
		UBTTime:                 &zero,
		TerminalTotalDifficulty: common.Big0,
		EnableUBTAtGenesis:      true,
	}
}

// TestCreateInitWitnessOOGRevertsState checks that a contract creation frame
// which runs out of gas while paying the EIP-4762 contract-init witness gas
// (the charge performed after the new account has already been created, flagged
// as a new contract and given nonce 1) leaves no trace of the half-created
// account: an exceptionally halting frame must only consume gas.
func TestCreateInitWitnessOOGRevertsState(t *testing.T) {
	// Cold pre-check cost: read basic-data leaf (branch + chunk) and read the
	// code-hash leaf (chunk only, same branch).
	preCheck := params.WitnessBranchReadCost + params.WitnessChunkReadCost + params.WitnessChunkReadCost
	// Init cost: write basic-data leaf (branch + chunk) and code-hash leaf (chunk).
	initCost := params.WitnessBranchWriteCost + params.WitnessChunkWriteCost + params.WitnessChunkWriteCost

	for _, tc := range []struct {
		name string
		gas  uint64
	}{
		{"one-short", preCheck + initCost - 1},
		{"zero-left-after-precheck", preCheck},
		{"first-leaf-only", preCheck + params.WitnessBranchWriteCost + params.WitnessChunkWriteCost},
	} {
		t.Run(tc.name, func(t *testing.T) {
			caller := common.BytesToAddress([]byte("creator"))
			statedb, _ := state.New(types.EmptyRootHash, state.NewDatabaseForTesting())
			statedb.CreateAccount(caller)
			statedb.SetNonce(caller, 7, tracing.NonceChangeUnspecified)
			statedb.Finalise(params.Rules{IsEIP158: true})

			ctx := BlockContext{
				CanTransfer: func(StateDB, common.Address, *uint256.Int) bool { return true },
				Transfer:    func(StateDB, common.Address, common.Address, *uint256.Int, *params.Rules) {},
				BlockNumber: big.NewInt(0),
				Time:        0,
				Random:      &common.Hash{},
			}
			evm := NewEVM(ctx, statedb, eip4762TestConfig(), Config{})
			if !evm.chainRules.IsEIP4762 {
				t.Fatal("test setup: EIP-4762 rules not active")
			}
			evm.SetTxContext(TxContext{Origin: caller})
			if evm.AccessEvents == nil {
				t.Fatal("test setup: access events not initialised")
			}
			evm.AccessEvents.AddTxOrigin(caller)

			wantAddr := crypto.CreateAddress(caller, statedb.GetNonce(caller))
			if statedb.Exist(wantAddr) {
				t.Fatal("test setup: contract address already exists")
			}

			// Init code: STOP (never reached).
			_, _, result, err := evm.Create(caller, []byte{0x00}, NewGasBudget(tc.gas, 0), new(uint256.Int))
			if !errors.Is(err, ErrOutOfGas) {
				t.Fatalf("gas %d: want ErrOutOfGas, got %v", tc.gas, err)
			}
			if result.ExecutionGas != 0 {
				t.Fatalf("gas %d: halted frame must burn all gas, %d left", tc.gas, result.ExecutionGas)
			}
			// The creator nonce bump is specified to persist.
			if got := statedb.GetNonce(caller); got != 8 {
				t.Fatalf("creator nonce: want 8, got %d", got)
			}
			// Everything done inside the frame must be rolled back.
			if statedb.Exist(wantAddr) {
				t.Errorf("gas %d: account %x still exists after exceptional halt of the create frame", tc.gas, wantAddr)
			}
			if got := statedb.GetNonce(wantAddr); got != 0 {
				t.Errorf("gas %d: account %x has nonce %d after exceptional halt of the create frame, want 0", tc.gas, wantAddr, got)
			}
			if statedb.IsNewContract(wantAddr) {
				t.Errorf("gas %d: account %x still flagged as new contract after exceptional halt", tc.gas, wantAddr)
			}
		})
	}

	// Control: with exactly enough gas the creation succeeds, which pins down
	// that the failing runs above died at the init charge and not earlier.
	t.Run("control-exact-gas", func(t *testing.T) {
		caller := common.BytesToAddress([]byte("creator"))
		statedb, _ := state.New(types.EmptyRootHash, state.NewDatabaseForTesting())
		statedb.CreateAccount(caller)
		statedb.SetNonce(caller, 7, tracing.NonceChangeUnspecified)
		statedb.Finalise(params.Rules{IsEIP158: true})
		ctx := BlockContext{
			CanTransfer: func(StateDB, common.Address, *uint256.Int) bool { return true },
			Transfer:    func(StateDB, common.Address, common.Address, *uint256.Int, *params.Rules) {},
			BlockNumber: big.NewInt(0),
			Random:      &common.Hash{},
		}
		evm := NewEVM(ctx, statedb, eip4762TestConfig(), Config{})
		evm.SetTxContext(TxContext{Origin: caller})
		evm.AccessEvents.AddTxOrigin(caller)
		// Empty init code: nothing to execute, no code chunks to pay for.
		_, addr, _, err := evm.Create(caller, nil, NewGasBudget(preCheck+initCost, 0), new(uint256.Int))
		if err != nil {
			t.Fatalf("control: unexpected error %v", err)
		}
		if statedb.GetNonce(addr) != 1 {
			t.Fatalf("control: created account nonce %d, want 1", statedb.GetNonce(addr))
		}
	})
}
