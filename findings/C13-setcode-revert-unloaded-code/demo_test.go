// Demonstration: stateObject.SetCode journals the cached code field (s.code),
// which is empty until the code was loaded in this StateDB. Reverting a SetCode
// on a contract whose code was never read restores "no code": the account loses
// its code and code hash although the snapshot predates the change.
//
// Copy to core/state/ and run:
//   go test -vet=off -count=1 -run TestFindingSetCodeRevertUnloadedCode ./core/state/

package state

import (
	"bytes"
	"testing"

	"github.com/ethereum/go-ethereum/common"
	"github.com/ethereum/go-ethereum/core/tracing"
	"github.com/ethereum/go-ethereum/core/types"
	"github.com/ethereum/go-ethereum/crypto"
	"github.com/ethereum/go-ethereum/params"
)

func TestFindingSetCodeRevertUnloadedCode(t *testing.T) {
	var (
		db   = NewDatabaseForTesting()
		addr = common.HexToAddress("0xaa")
		code = []byte{0x60, 0x00, 0x60, 0x00, 0xf3}
	)
	st, _ := New(types.EmptyRootHash, db)
	st.SetNonce(addr, 1, tracing.NonceChangeUnspecified)
	st.SetCode(addr, code, tracing.CodeChangeUnspecified)
	root, err := st.Commit(params.Rules{IsEIP158: true}, 0)
	if err != nil {
		t.Fatal(err)
	}
	for _, preload := range []bool{true, false} {
		st2, err := New(root, db)
		if err != nil {
			t.Fatal(err)
		}
		if preload {
			st2.GetCode(addr)
		}
		snap := st2.Snapshot()
		st2.SetCode(addr, []byte{0x01, 0x02, 0x03}, tracing.CodeChangeUnspecified)
		st2.RevertToSnapshot(snap)

		if got := st2.GetCode(addr); !bytes.Equal(got, code) {
			t.Errorf("preload=%v: code after revert = %x, want %x", preload, got, code)
		}
		if got := st2.GetCodeHash(addr); got != crypto.Keccak256Hash(code) {
			t.Errorf("preload=%v: code hash after revert = %x, want %x", preload, got, crypto.Keccak256Hash(code))
		}
	}
}
