// Demonstration: ServiceGetStorageRangesQuery attaches Merkle proofs only when
// the origin is non-zero or the byte budget cut the reply short. A request that
// starts at the zero origin but carries a Limit below the account's last slot
// stops at the limit with `abort` still false: the reply is a strict prefix of
// the storage trie without any proof. The client treats a proof-less reply as
// the complete trie, so its range verification rejects the reply.
//
// Copy to eth/protocols/snap/ and run:
//   go test -vet=off -count=1 -run TestFindingStorageRangeLimitWithoutProof ./eth/protocols/snap/

package snap

import (
	"math/big"
	"sort"
	"testing"

	"github.com/ethereum/go-ethereum/common"
	"github.com/ethereum/go-ethereum/consensus/ethash"
	"github.com/ethereum/go-ethereum/core"
	"github.com/ethereum/go-ethereum/core/rawdb"
	"github.com/ethereum/go-ethereum/core/types"
	"github.com/ethereum/go-ethereum/crypto"
	"github.com/ethereum/go-ethereum/params"
	"github.com/ethereum/go-ethereum/trie"
	"github.com/ethereum/go-ethereum/trie/trienode"
)

func TestFindingStorageRangeLimitWithoutProof(t *testing.T) {
	for _, scheme := range []string{rawdb.HashScheme, rawdb.PathScheme} {
		t.Run(scheme, func(t *testing.T) {
			var (
				contract = common.HexToAddress("0xc0de000000000000000000000000000000000001")
				storage  = make(map[common.Hash]common.Hash)
				hashes   []common.Hash
			)
			for i := 1; i <= 12; i++ {
				k := common.BigToHash(big.NewInt(int64(i)))
				storage[k] = common.BigToHash(big.NewInt(int64(i * 1000)))
				hashes = append(hashes, crypto.Keccak256Hash(k[:]))
			}
			sort.Slice(hashes, func(i, j int) bool { return hashes[i].Cmp(hashes[j]) < 0 })
			gspec := &core.Genesis{
				Config:  params.TestChainConfig,
				BaseFee: big.NewInt(params.InitialBaseFee),
				Alloc:   types.GenesisAlloc{contract: {Balance: big.NewInt(1), Code: []byte{0x00}, Storage: storage}},
			}
			options := core.DefaultConfig().WithStateScheme(scheme)
			if scheme == rawdb.PathScheme {
				options.SnapshotLimit = 0
			}
			chain, err := core.NewBlockChain(rawdb.NewMemoryDatabase(), gspec, ethash.NewFaker(), options)
			if err != nil {
				t.Fatal(err)
			}
			defer chain.Stop()

			root := chain.CurrentBlock().Root
			accHash := crypto.Keccak256Hash(contract[:])
			accTrie, err := trie.NewStateTrie(trie.StateTrieID(root), chain.TrieDB())
			if err != nil {
				t.Fatal(err)
			}
			acc, err := accTrie.GetAccountByHash(accHash)
			if err != nil || acc == nil {
				t.Fatalf("account: %v", err)
			}
			// origin: zero; limit: the 5th slot; budget: ample
			limit := hashes[4]
			slots, proof := ServiceGetStorageRangesQuery(chain, &GetStorageRangesPacket{
				Root:     root,
				Accounts: []common.Hash{accHash},
				Origin:   common.Hash{}.Bytes(),
				Limit:    limit.Bytes(),
				Bytes:    softResponseLimit,
			})
			if len(slots) != 1 {
				t.Fatalf("no slots served")
			}
			var keys, vals [][]byte
			for _, s := range slots[0] {
				keys = append(keys, common.CopyBytes(s.Hash[:]))
				vals = append(vals, s.Body)
			}
			t.Logf("served %d of 12 slots, %d proof nodes", len(keys), len(proof))
			// the client's check (eth/protocols/snap/sync.go, OnStorage)
			if len(proof) == 0 {
				_, err = trie.VerifyRangeProof(acc.Root, nil, keys, vals, nil)
			} else {
				proofdb := trienode.NewProofSet()
				for _, node := range proof {
					proofdb.Put(crypto.Keccak256(node), node)
				}
				_, err = trie.VerifyRangeProof(acc.Root, common.Hash{}.Bytes(), keys, vals, proofdb)
			}
			if err != nil {
				t.Errorf("the reply to (origin=0, limit=5th slot) does not pass the client's verification: %v", err)
			}
		})
	}
}
