package blobpool

import (
	"crypto/ecdsa"
	"sync"
	"sync/atomic"
	"testing"

	"github.com/ethereum/go-ethereum/core/state"
	"github.com/ethereum/go-ethereum/core/tracing"
	"github.com/ethereum/go-ethereum/core/types"
	"github.com/ethereum/go-ethereum/crypto"
	"github.com/ethereum/go-ethereum/params"
	"github.com/holiman/uint256"
)

// TestGetRaceDemo demonstrates that BlobPool.Get reads p.lookup without holding
// p.lock in its decode-error branch, racing with lookup.track done by Add under
// the write lock. Only fails when run with -race.
func TestGetRaceDemo(t *testing.T) {
	const writers = 24

	// Fund one victim account plus a set of accounts used by the concurrent adder.
	keys := make([]*ecdsa.PrivateKey, writers+1)
	statedb, _ := state.New(types.EmptyRootHash, state.NewDatabaseForTesting())
	for i := range keys {
		keys[i], _ = crypto.GenerateKey()
		statedb.AddBalance(crypto.PubkeyToAddress(keys[i].PublicKey), uint256.NewInt(1_000_000_000), tracing.BalanceChangeUnspecified)
	}
	statedb.Commit(params.Rules{IsEIP158: true}, 0)

	chain := &testBlockChain{
		config:  params.MainnetChainConfig,
		basefee: uint256.NewInt(1),
		blobfee: uint256.NewInt(1),
		statedb: statedb,
	}
	pool := New(Config{Datadir: t.TempDir()}, chain, nil)
	if err := pool.Init(1, chain.CurrentBlock(), newReserver()); err != nil {
		t.Fatalf("failed to create blob pool: %v", err)
	}
	defer pool.Close()

	// Add one valid blob transaction and make sure Get works on it.
	victim := makeTx(0, 1, 100, 100, keys[0])
	if errs := pool.Add([]*types.Transaction{victim}, true); errs[0] != nil {
		t.Fatalf("failed to add victim tx: %v", errs[0])
	}
	hash := victim.Hash()
	if pool.Get(hash) == nil {
		t.Fatalf("victim tx not retrievable before corruption")
	}

	// Corrupt the stored entry: store some undecodable garbage and point the
	// lookup entry of the victim at it, so that Get reaches the decode-error path.
	pool.lock.Lock()
	garbage := make([]byte, 1024)
	for i := range garbage {
		garbage[i] = 0xff
	}
	gid, err := pool.store.Put(garbage)
	if err != nil {
		pool.lock.Unlock()
		t.Fatalf("failed to store garbage: %v", err)
	}
	pool.lookup.txIndex[hash].id = gid
	pool.lock.Unlock()

	if data := pool.getRLP(hash); len(data) == 0 {
		t.Fatalf("garbage entry not retrievable")
	}
	if pool.Get(hash) != nil {
		t.Fatalf("corrupted entry unexpectedly decoded")
	}

	// Pre-build the transactions to add concurrently.
	txs := make([]*types.Transaction, writers)
	for i := range txs {
		txs[i] = makeTx(0, 1, 100, 100, keys[i+1])
	}

	var (
		wg    sync.WaitGroup
		done  atomic.Bool
		added atomic.Int64
		gets  atomic.Int64
	)
	wg.Add(2)
	go func() {
		defer wg.Done()
		for !done.Load() {
			pool.Get(hash) // decode error -> p.lookup.storeidOfTx(hash) without p.lock
			gets.Add(1)
		}
	}()
	go func() {
		defer wg.Done()
		defer done.Store(true)
		for _, tx := range txs {
			if errs := pool.Add([]*types.Transaction{tx}, true); errs[0] == nil {
				added.Add(1) // lookup.track under p.lock
			}
		}
	}()
	wg.Wait()

	t.Logf("concurrent Get calls: %d, successful concurrent adds: %d", gets.Load(), added.Load())
	if added.Load() == 0 {
		t.Fatalf("no concurrent add succeeded, race not exercised")
	}
}
