// Demonstration: a tail truncation that stays inside the current tail file
// persists the new virtual tail without syncing the table. If the new tail lies
// among items appended after the last sync, a crash (here: the files as they are
// while the process is alive, i.e. a plain process kill) leaves metadata with
// virtualTail above the item count the index is cut back to, and the table can
// no longer be opened: newTable fails with EOF.
//
// Copy to core/rawdb/ and run:
//   go test -vet=off -count=1 -run TestFindingVirtualTailAboveRecoveredHead ./core/rawdb/

package rawdb

import (
	"io"
	"os"
	"path/filepath"
	"testing"

	"github.com/ethereum/go-ethereum/metrics"
)

func TestFindingVirtualTailAboveRecoveredHead(t *testing.T) {
	var (
		dir   = t.TempDir()
		crash = t.TempDir()
		cfg   = freezerTableConfig{noSnappy: true, tailGroup: "demo"}
		open  = func(dir string) (*freezerTable, error) {
			return newTable(dir, "demo", metrics.NewMeter(), metrics.NewMeter(), metrics.NewGauge(), 1<<20, cfg, false)
		}
	)
	tab, err := open(dir)
	if err != nil {
		t.Fatal(err)
	}
	write := func(from, to uint64) {
		batch := tab.newBatch()
		for i := from; i < to; i++ {
			if err := batch.AppendRaw(i, []byte{byte(i), 1, 2, 3}); err != nil {
				t.Fatal(err)
			}
		}
		if err := batch.commit(); err != nil {
			t.Fatal(err)
		}
	}
	write(0, 35)
	if err := tab.Sync(); err != nil {
		t.Fatal(err)
	}
	write(35, 45)
	if err := tab.truncateTail(42); err != nil {
		t.Fatal(err)
	}
	// crash: what is on disk right now
	entries, _ := os.ReadDir(dir)
	for _, e := range entries {
		if !e.Type().IsRegular() {
			continue
		}
		in, _ := os.Open(filepath.Join(dir, e.Name()))
		out, _ := os.Create(filepath.Join(crash, e.Name()))
		io.Copy(out, in)
		in.Close()
		out.Close()
	}
	tab.Close()

	re, err := open(crash)
	if err != nil {
		t.Fatalf("table cannot be reopened after the crash: %v", err)
	}
	defer re.Close()
	if re.itemHidden.Load() > re.items.Load() {
		t.Fatalf("reopened with tail %d above head %d", re.itemHidden.Load(), re.items.Load())
	}
}
