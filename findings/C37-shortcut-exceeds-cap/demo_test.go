package gasestimator

import (
	"context"
	"math/big"
	"testing"

	"github.com/ethereum/go-ethereum/common"
	"github.com/ethereum/go-ethereum/consensus"
	"github.com/ethereum/go-ethereum/consensus/ethash"
	"github.com/ethereum/go-ethereum/core"
	"github.com/ethereum/go-ethereum/core/state"
	"github.com/ethereum/go-ethereum/core/tracing"
	"github.com/ethereum/go-ethereum/core/types"
	"github.com/ethereum/go-ethereum/params"
	"github.com/holiman/uint256"
)

type capDemoChain struct{ cfg *params.ChainConfig }

func (c *capDemoChain) Config() *params.ChainConfig                 { return c.cfg }
func (c *capDemoChain) CurrentHeader() *types.Header                { return nil }
func (c *capDemoChain) GetHeader(common.Hash, uint64) *types.Header { return nil }
func (c *capDemoChain) GetHeaderByNumber(uint64) *types.Header      { return nil }
func (c *capDemoChain) GetHeaderByHash(common.Hash) *types.Header   { return nil }
func (c *capDemoChain) Engine() consensus.Engine                    { return ethash.NewFaker() }

// The estimate must never exceed the gas cap: a plain transfer under a cap
// below 21000 cannot be given 21000.
func TestPlainTransferEstimateRespectsGasCapDemo(t *testing.T) {
	cfg := params.MergedTestChainConfig
	sdb, err := state.New(types.EmptyRootHash, state.NewDatabaseForTesting())
	if err != nil {
		t.Fatal(err)
	}
	from, to := common.HexToAddress("0xf001"), common.HexToAddress("0xc001")
	sdb.SetBalance(from, uint256.MustFromDecimal("1000000000000000000000000"), tracing.BalanceChangeUnspecified)
	header := &types.Header{Number: big.NewInt(1), Time: 1, GasLimit: 60_000_000, Difficulty: big.NewInt(0), BaseFee: big.NewInt(0)}
	opts := &Options{Config: cfg, Chain: &capDemoChain{cfg}, Header: header, State: sdb}
	call := &core.Message{From: from, To: &to, Value: uint256.NewInt(1), GasPrice: new(uint256.Int), GasFeeCap: new(uint256.Int), GasTipCap: new(uint256.Int),
		SkipNonceChecks: true, SkipTransactionChecks: true}
	const gasCap = 10_000
	est, _, err := Estimate(context.Background(), call, opts, gasCap)
	if err == nil && est > gasCap {
		t.Fatalf("estimate %d exceeds the gas cap %d", est, gasCap)
	}
	if err == nil {
		t.Fatalf("a transfer cannot fit in %d gas, got estimate %d without error", gasCap, est)
	}
	t.Logf("estimate=%d err=%v", est, err)
}
