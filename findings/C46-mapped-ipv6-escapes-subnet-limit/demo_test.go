// Demonstration: a node record that announces an IPv4 address in its IPv4-mapped
// IPv6 form (ip6 = ::ffff:a.b.c.d) keeps the mapped form as its address
// (enode.setIP6 hands it to setIP4 unchanged), and netutil.DistinctNetSet keys
// addresses by the first Subnet bits of whatever form they have - for a mapped
// address that is ::/24. Such nodes are therefore never counted together with
// plain IPv4 nodes of the same /24: a bucket accepts more than bucketIPLimit
// nodes of one /24.
//
// Copy to p2p/discover/ and run:
//   go test -vet=off -count=1 -run TestFindingMappedIPv6EscapesSubnetLimit ./p2p/discover/

package discover

import (
	"net"
	"net/netip"
	"testing"

	"github.com/ethereum/go-ethereum/p2p/enode"
	"github.com/ethereum/go-ethereum/p2p/enr"
)

func TestFindingMappedIPv6EscapesSubnetLimit(t *testing.T) {
	transport := newPingRecorder()
	tab, db := newTestTable(transport, Config{})
	defer db.Close()
	defer tab.close()

	const dist = 250
	var nodes []*enode.Node
	// two plain IPv4 nodes of 203.0.113.0/24 ...
	nodes = append(nodes, nodeAtDistance(tab.self().ID(), dist, net.IP{203, 0, 113, 1}))
	nodes = append(nodes, nodeAtDistance(tab.self().ID(), dist, net.IP{203, 0, 113, 2}))
	// ... and two more of the same /24, announced in mapped form
	for _, last := range []byte{3, 4} {
		var r enr.Record
		r.Set(enr.IPv6(net.ParseIP("::ffff:203.0.113." + string('0'+last))))
		r.Set(enr.UDP6(30303))
		nodes = append(nodes, enode.SignNull(&r, idAtDistance(tab.self().ID(), dist)))
	}
	for _, n := range nodes {
		tab.addFoundNode(n, true)
	}
	subnet := netip.MustParsePrefix("203.0.113.0/24")
	count := 0
	b := tab.bucket(nodes[0].ID())
	tab.mutex.Lock()
	for _, e := range b.entries {
		if subnet.Contains(e.IPAddr().Unmap()) {
			count++
		}
	}
	tab.mutex.Unlock()
	if count > bucketIPLimit {
		t.Fatalf("bucket holds %d nodes of %v, the limit is %d", count, subnet, bucketIPLimit)
	}
}
