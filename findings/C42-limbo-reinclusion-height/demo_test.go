// Demonstration: when a reorg re-includes a blob transaction at a different
// height, the limbo entry keeps the old block number. BlobPool.reorg refreshes
// the limbo only for TxDifference(included, discarded), i.e. for transactions
// that are in the new chain and NOT in the old one; a transaction present in
// both chains is in neither difference. If the new height is greater, finality
// of the old height drops the blobs while the including block is not final.
//
// Copy to core/txpool/blobpool/ and run:
//   go test -vet=off -count=1 -run TestFindingLimboReinclusionHeight ./core/txpool/blobpool/

package blobpool

import (
	"math/big"
	"testing"

	"github.com/ethereum/go-ethereum/common"
	"github.com/ethereum/go-ethereum/core/state"
	"github.com/ethereum/go-ethereum/core/tracing"
	"github.com/ethereum/go-ethereum/core/types"
	"github.com/ethereum/go-ethereum/crypto"
	"github.com/ethereum/go-ethereum/params"
	"github.com/holiman/uint256"
)

// findingReorgChain wraps the package's mocked chain with a hash-addressed block
// set, so that two competing blocks can live at the same height.
type findingReorgChain struct {
	*testBlockChain
	byHash map[common.Hash]*types.Block
}

func (bc *findingReorgChain) GetBlock(hash common.Hash, number uint64) *types.Block {
	if block, ok := bc.byHash[hash]; ok {
		return block
	}
	return bc.testBlockChain.GetBlock(hash, number)
}


func TestFindingLimboReinclusionHeight(t *testing.T) {
	storage := t.TempDir()
	var (
		keyA, _ = crypto.GenerateKey()
		addrA   = crypto.PubkeyToAddress(keyA.PublicKey)
		txA     = makeTx(0, 10, 1000, 100, keyA)
	)
	statedb, _ := state.New(types.EmptyRootHash, state.NewDatabaseForTesting())
	statedb.AddBalance(addrA, uint256.NewInt(1_000_000_000), tracing.BalanceChangeUnspecified)
	statedb.Commit(params.Rules{IsEIP158: true}, 0)

	chain := &findingReorgChain{
		testBlockChain: &testBlockChain{config: params.MainnetChainConfig, basefee: uint256.NewInt(1), blobfee: uint256.NewInt(1), statedb: statedb},
		byHash:         make(map[common.Hash]*types.Block),
	}
	head0 := chain.CurrentBlock()
	pool := New(Config{Datadir: storage}, chain, nil)
	if err := pool.Init(1, head0, newReserver()); err != nil {
		t.Fatal(err)
	}
	defer pool.Close()

	mkBlock := func(parent *types.Header, extra string, txs ...*types.Transaction) *types.Block {
		header := *head0
		header.Number = new(big.Int).Add(parent.Number, big.NewInt(1))
		header.ParentHash = parent.Hash()
		header.Extra = []byte(extra)
		block := types.NewBlockWithHeader(&header).WithBody(types.Body{Transactions: txs})
		chain.byHash[block.Hash()] = block
		return block
	}
	var (
		oldBlock  = mkBlock(head0, "old: includes A at +1", txA)
		newEmpty  = mkBlock(head0, "new: empty at +1")
		newWithA  = mkBlock(newEmpty.Header(), "new: includes A at +2", txA)
		oldHeight = oldBlock.NumberU64()
		newHeight = newWithA.NumberU64()
	)
	if errs := pool.Add([]*types.Transaction{txA}, true); errs[0] != nil {
		t.Fatal(errs[0])
	}
	statedb.SetNonce(addrA, 1, tracing.NonceChangeUnspecified)
	pool.Reset(head0, oldBlock.Header())
	id, ok := pool.limbo.index[txA.Hash()]
	if !ok {
		t.Fatal("included transaction not in limbo")
	}
	if _, ok := pool.limbo.groups[oldHeight][id]; !ok {
		t.Fatalf("limbo does not track A under its inclusion height %d", oldHeight)
	}
	// reorg: A is included again, one block higher (its nonce stays consumed)
	pool.Reset(oldBlock.Header(), newWithA.Header())

	id, ok = pool.limbo.index[txA.Hash()]
	if !ok {
		t.Fatal("re-included transaction left the limbo")
	}
	if _, ok := pool.limbo.groups[newHeight][id]; !ok {
		_, old := pool.limbo.groups[oldHeight][id]
		t.Fatalf("A is now included at height %d, but the limbo still tracks it under height %d (%v): its blobs are dropped when height %d finalizes", newHeight, oldHeight, old, oldHeight)
	}
}
