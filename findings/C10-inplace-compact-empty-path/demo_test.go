// Demonstration: hexToCompact maps the empty nibble path (even length, no
// terminator) to the single byte 0x00; the in-place variant writes that first
// byte into hex[0] unconditionally and panics on the empty input.
//
// Copy to trie/ and run:
//   go test -vet=off -count=1 -run TestFindingInPlaceCompactEmptyPath ./trie/

package trie

import (
	"bytes"
	"testing"
)

func TestFindingInPlaceCompactEmptyPath(t *testing.T) {
	want := hexToCompact([]byte{})
	var got []byte
	func() {
		defer func() {
			if r := recover(); r != nil {
				t.Fatalf("hexToCompactInPlace(empty path) panics: %v (hexToCompact gives %x)", r, want)
			}
		}()
		got = hexToCompactInPlace([]byte{})
	}()
	if !bytes.Equal(got, want) {
		t.Fatalf("in-place %x, copying %x", got, want)
	}
}
