package trie

import (
	"bytes"
	"testing"

	"github.com/ethereum/go-ethereum/core/rawdb"
	"github.com/ethereum/go-ethereum/ethdb/memorydb"
)

// An honest run with honest edge proofs must be verified (or at least refused)
// without a panic, also when the trie holds a key that extends an edge key.
func TestRangeProofPrefixKeyNoPanicDemo(t *testing.T) {
	tr := NewEmpty(newTestDatabase(rawdb.NewMemoryDatabase(), rawdb.HashScheme))
	val := bytes.Repeat([]byte{0xab}, 40)
	keys := [][]byte{{0x10}, {0x12}, {0x12, 0x34}, {0x20}}
	for _, k := range keys {
		tr.MustUpdate(k, val)
	}
	root := tr.Hash()
	proof := memorydb.New()
	if err := tr.Prove([]byte{0x10}, proof); err != nil {
		t.Fatal(err)
	}
	if err := tr.Prove([]byte{0x12}, proof); err != nil {
		t.Fatal(err)
	}
	defer func() {
		if r := recover(); r != nil {
			t.Fatalf("VerifyRangeProof panicked on an honest run: %v", r)
		}
	}()
	more, err := VerifyRangeProof(root, []byte{0x10}, [][]byte{{0x10}, {0x12}}, [][]byte{val, val}, proof)
	t.Logf("more=%v err=%v", more, err)
}
