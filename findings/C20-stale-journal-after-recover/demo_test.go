// Demonstration: the layer journal written at a clean shutdown is never removed.
// After a restart, a Recover that rolls the disk layer back inside its write
// buffer leaves the persisted root unchanged but truncates the state histories.
// If the process then dies before a new journal is written, the next start
// finds the OLD journal, accepts it (its disk root still matches the persisted
// root) and restores a disk layer whose state id lies above the state history
// head; pathdb.New then stops the process in repairHistory ("gap between state
// and state history", log.Crit). The test asserts the condition New relies on:
// a journal that loadJournal accepts must not name a disk layer above the
// history head.
//
// Copy to triedb/pathdb/ and run:
//   go test -vet=off -count=1 -run TestFindingStaleJournalAfterRecover ./triedb/pathdb/

package pathdb

import (
	"bytes"
	"testing"

	"github.com/ethereum/go-ethereum/common"
	"github.com/ethereum/go-ethereum/core/rawdb"
	"github.com/ethereum/go-ethereum/rlp"
)

func TestFindingStaleJournalAfterRecover(t *testing.T) {
	maxDiffLayers = 4
	defer func() { maxDiffLayers = 128 }()

	tester := newTester(t, &testerConfig{layers: 12})
	defer tester.release()

	// clean shutdown and restart
	if err := tester.db.Journal(tester.lastHash()); err != nil {
		t.Fatal(err)
	}
	tester.db.Close()
	tester.db = New(tester.db.diskdb, tester.db.config, false)

	// roll back three transitions; they are still in the disk layer's write buffer
	bottom := tester.bottomIndex()
	if bottom < 4 {
		t.Skip("not enough transitions in the disk layer")
	}
	if err := tester.db.Recover(tester.roots[bottom-3]); err != nil {
		t.Fatalf("recover: %v", err)
	}
	// crash: nothing else is written. What would the next start see?
	disk := tester.db.diskdb
	journal := rawdb.ReadTrieJournal(disk)
	if len(journal) == 0 {
		return // journal invalidated: the next start rebuilds from the persisted state
	}
	var (
		r        = rlp.NewStream(bytes.NewReader(journal), 0)
		diskRoot common.Hash
		root     common.Hash
		id       uint64
	)
	if _, err := r.Uint64(); err != nil {
		t.Fatal(err)
	}
	if err := r.Decode(&diskRoot); err != nil {
		t.Fatal(err)
	}
	if err := r.Decode(&root); err != nil {
		t.Fatal(err)
	}
	if err := r.Decode(&id); err != nil {
		t.Fatal(err)
	}
	persisted, err := tester.db.hasher(rawdb.ReadAccountTrieNode(disk, nil))
	if err != nil {
		t.Fatal(err)
	}
	if diskRoot != persisted {
		return // journal would be rejected as unmatched
	}
	head, err := tester.db.stateFreezer.Ancients()
	if err != nil {
		t.Fatal(err)
	}
	if id > head {
		t.Fatalf("the journal left by the previous shutdown is still accepted (disk root matches) and restores a disk layer with state id %d, but the state histories were truncated to %d: pathdb.New fails with a gap between state and state history", id, head)
	}
}
