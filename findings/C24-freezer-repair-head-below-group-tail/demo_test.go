// Demonstration: Freezer.repair aligns all tables to the smallest recovered
// head, but a sibling table of the same tail group can already have dropped the
// items below the group's tail. TruncateTail syncs a table only when the
// truncation crosses a data file, so after a crash one table of the group comes
// back with (head 35, tail 15) and the other with head 5; repair then calls
// truncateHead(5) on the first, which fails with "truncation below tail", and
// the freezer cannot be opened any more.
//
// Copy to core/rawdb/ and run:
//   go test -vet=off -count=1 -run TestFindingRepairHeadBelowGroupTail ./core/rawdb/

package rawdb

import (
	"io"
	"os"
	"path/filepath"
	"testing"

	"github.com/ethereum/go-ethereum/ethdb"
)

func TestFindingRepairHeadBelowGroupTail(t *testing.T) {
	var (
		dir    = t.TempDir()
		crash  = t.TempDir()
		tables = map[string]freezerTableConfig{
			"big":   {noSnappy: true, tailGroup: "g"},
			"small": {noSnappy: true, tailGroup: "g"},
		}
		big = make([]byte, 10)
	)
	f, err := NewFreezer(dir, "", false, 100, tables) // 100-byte data files
	if err != nil {
		t.Fatal(err)
	}
	write := func(from, to uint64) {
		if _, err := f.ModifyAncients(func(op ethdb.AncientWriteOp) error {
			for i := from; i < to; i++ {
				if err := op.AppendRaw("big", i, big); err != nil {
					return err
				}
				if err := op.AppendRaw("small", i, []byte{byte(i)}); err != nil {
					return err
				}
			}
			return nil
		}); err != nil {
			t.Fatal(err)
		}
	}
	write(0, 5)
	if err := f.SyncAncient(); err != nil {
		t.Fatal(err)
	}
	write(5, 35)
	if _, err := f.TruncateTail("g", 15); err != nil {
		t.Fatal(err)
	}
	// crash: the files as they are on disk now
	entries, _ := os.ReadDir(dir)
	for _, e := range entries {
		if !e.Type().IsRegular() || e.Name() == "FLOCK" {
			continue
		}
		in, _ := os.Open(filepath.Join(dir, e.Name()))
		out, _ := os.Create(filepath.Join(crash, e.Name()))
		io.Copy(out, in)
		in.Close()
		out.Close()
	}
	f.Close()

	re, err := NewFreezer(crash, "", false, 100, tables)
	if err != nil {
		t.Fatalf("freezer cannot be reopened after the crash: %v", err)
	}
	defer re.Close()
	head, _ := re.Ancients()
	tail, _ := re.Tail("g")
	if tail > head {
		t.Fatalf("reopened with tail %d above head %d", tail, head)
	}
}
