// Demonstration: when InsertChain is handed blocks that are already known (with
// state) but not canonical, they become canonical through writeKnownBlock. The
// reorg inside it announces the old chain's logs as removed, but the known
// blocks themselves get neither a ChainEvent nor their logs on the logs feed:
// reorg covers newChain[1:] only and writeKnownBlock, unlike
// writeBlockAndSetHead and SetCanonical, sends nothing for the block it writes.
//
// Copy to core/ and run:
//   go test -vet=off -count=1 -run TestFindingKnownBlocksNoAddedEvents ./core/

package core

import (
	"context"
	"math/big"
	"testing"
	"time"

	"github.com/ethereum/go-ethereum/common"
	"github.com/ethereum/go-ethereum/consensus/ethash"
	"github.com/ethereum/go-ethereum/core/rawdb"
	"github.com/ethereum/go-ethereum/core/types"
	"github.com/ethereum/go-ethereum/crypto"
	"github.com/ethereum/go-ethereum/params"
)

func TestFindingKnownBlocksNoAddedEvents(t *testing.T) {
	var (
		key, _   = crypto.HexToECDSA("b71c71a67e1177ad4e901695e1b4b9ee17ae16c6668d313eac2f96dbcda3f291")
		sender   = crypto.PubkeyToAddress(key.PublicKey)
		contract = common.HexToAddress("0x00000000000000000000000000000000000c38cc")
		engine   = ethash.NewFaker()
		gspec    = &Genesis{
			Config:  params.TestChainConfig,
			BaseFee: big.NewInt(params.InitialBaseFee),
			Alloc: types.GenesisAlloc{
				sender:   {Balance: big.NewInt(params.Ether)},
				contract: {Code: common.FromHex("60006000a000")}, // log0(0,0); stop
			},
		}
		signer = types.LatestSigner(gspec.Config)
	)
	mk := func(coinbase byte) []*types.Block {
		_, blocks, _ := GenerateChainWithGenesis(gspec, engine, 3, func(i int, gen *BlockGen) {
			gen.SetCoinbase(common.Address{coinbase})
			tx, _ := types.SignTx(types.NewTx(&types.LegacyTx{Nonce: uint64(i), To: &contract, Gas: 50000,
				GasPrice: new(big.Int).Mul(gen.BaseFee(), big.NewInt(2))}), signer, key)
			gen.AddTx(tx)
		})
		return blocks
	}
	chainA, chainB := mk(0xa), mk(0xb)

	chain, err := NewBlockChain(rawdb.NewMemoryDatabase(), gspec, engine, nil)
	if err != nil {
		t.Fatal(err)
	}
	defer chain.Stop()
	if _, err := chain.InsertChain(chainA); err != nil {
		t.Fatal(err)
	}
	if r := chain.GetReceiptsByHash(chainA[0].Hash()); len(r) != 1 || len(r[0].Logs) != 1 {
		t.Fatalf("test chain carries no logs: %v", r)
	}
	for _, b := range chainB { // known, with state, not canonical
		if _, err := chain.InsertBlockWithoutSetHead(context.Background(), b, false); err != nil {
			t.Fatal(err)
		}
	}
	var (
		logsCh   = make(chan []*types.Log, 16)
		rmLogsCh = make(chan RemovedLogsEvent, 16)
		chainCh  = make(chan ChainEvent, 16)
	)
	defer chain.SubscribeLogsEvent(logsCh).Unsubscribe()
	defer chain.SubscribeRemovedLogsEvent(rmLogsCh).Unsubscribe()
	defer chain.SubscribeChainEvent(chainCh).Unsubscribe()

	if _, err := chain.InsertChain(chainB); err != nil {
		t.Fatal(err)
	}
	if chain.CurrentBlock().Hash() != chainB[2].Hash() {
		t.Skip("the known fork did not become canonical")
	}
	var added, removed, events int
	timeout := time.After(500 * time.Millisecond)
loop:
	for {
		select {
		case l := <-logsCh:
			added += len(l)
		case ev := <-rmLogsCh:
			removed += len(ev.Logs)
		case <-chainCh:
			events++
		case <-timeout:
			break loop
		}
	}
	if removed != 3 {
		t.Errorf("removed logs announced: %d, want 3 (A1..A3)", removed)
	}
	if added != 3 {
		t.Errorf("added logs announced: %d, want 3 (B1..B3 became canonical)", added)
	}
	if events != 3 {
		t.Errorf("chain events: %d, want 3", events)
	}
}
