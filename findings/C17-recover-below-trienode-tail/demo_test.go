// Copyright 2025 The go-ethereum Authors
// This file is part of the go-ethereum library.
//
// The go-ethereum library is free software: you can redistribute it and/or modify
// it under the terms of the GNU Lesser General Public License as published by
// the Free Software Foundation, either version 3 of the License, or
// (at your option) any later version.
//
// The go-ethereum library is distributed in the hope that it will be useful,
// but WITHOUT ANY WARRANTY; without even the implied warranty of
// MERCHANTABILITY or FITNESS FOR A PARTICULAR PURPOSE. See the
// GNU Lesser General Public License for more details.
//
// You should have received a copy of the GNU Lesser General Public License
// along with the go-ethereum library. If not, see <http://www.gnu.org/licenses/>.

package pathdb

import (
	"testing"

	"github.com/ethereum/go-ethereum/core/rawdb"
)

// newTrienodeTailTester builds a database which keeps the entire state history
// but only the most recent `trienodeLimit` trienode histories, and pushes
// `layers` state transitions through it.
func newTrienodeTailTester(t *testing.T, layers int, trienodeLimit int64, index bool) *tester {
	env := newTester(t, &testerConfig{layers: 0})

	// Re-open the (still empty) database with a bounded trienode history. The
	// tester helper has no knob for it.
	env.db.Close()
	env.db = New(env.db.diskdb, &Config{
		StateHistory:        0, // entire chain
		TrienodeHistory:     trienodeLimit,
		EnableStateIndexing: index,
		TrieCleanSize:       256 * 1024,
		StateCleanSize:      256 * 1024,
		WriteBufferSize:     256 * 1024,
		NoAsyncFlush:        true,
		NoHistoryIndexDelay: true,
	}, false)
	env.extend(layers)
	return env
}

// rewindTester resets the in-memory bookkeeping of the tester to the state
// with the given index, so that new transitions can be generated on top.
func rewindTester(env *tester, index int) {
	root := env.roots[index]
	env.roots = env.roots[:index+1]
	env.nodes = env.nodes[:index+1]
	env.states = env.states[:index+1]
	env.accounts = copyAccounts(env.snapAccounts[root])
	env.storages = copyStorages(env.snapStorages[root])
}

// deepestRecoverable returns the index of the oldest state root which is
// reported as recoverable by the database, -1 if there is none.
func deepestRecoverable(env *tester) int {
	for i, root := range env.roots {
		if env.db.Recoverable(root) {
			return i
		}
	}
	return -1
}

// TestRecoverBelowTrienodeHistoryTail checks that a state which is reported as
// recoverable can actually be recovered, even if the (optional, independently
// bounded) trienode history has already been pruned past it.
func TestRecoverBelowTrienodeHistoryTail(t *testing.T) {
	maxDiffLayers = 4
	defer func() { maxDiffLayers = 128 }()

	env := newTrienodeTailTester(t, 32, 4, false)
	defer env.release()

	var (
		bottom   = env.bottomIndex() // index of the disk layer root
		diskID   = env.db.tree.bottom().stateID()
		stail, _ = env.db.stateFreezer.Tail(rawdb.DefaultHistoryGroup)
		shead, _ = env.db.stateFreezer.Ancients()
		ttail, _ = env.db.trienodeFreezer.Tail(rawdb.DefaultHistoryGroup)
		thead, _ = env.db.trienodeFreezer.Ancients()
	)
	t.Logf("disk layer id=%d, state history (tail=%d, head=%d), trienode history (tail=%d, head=%d)", diskID, stail, shead, ttail, thead)
	if ttail == 0 {
		t.Fatalf("trienode history tail was not pruned, scenario not established")
	}
	// The state right below the trienode history tail is covered by the state
	// history but not by the trienode history. Whatever Recoverable says about
	// it, Recover has to agree.
	below := env.roots[int(ttail)-3] // state id = ttail-2
	t.Logf("Recoverable(state id %d) = %v, trienode history tail = %d", ttail-2, env.db.Recoverable(below), ttail)

	// Pick the oldest state which is reported as recoverable, roots[i] has
	// the state id i+1.
	target := deepestRecoverable(env)
	if target < 0 || target >= bottom {
		t.Fatalf("no recoverable state found (bottom %d, trienode tail %d)", bottom, ttail)
	}
	root := env.roots[target]
	t.Logf("oldest state reported as recoverable: id %d", target+1)

	err := env.db.Recover(root)
	if got := env.db.tree.bottom().rootHash(); got != root {
		t.Errorf("disk layer root mismatch after Recover: got %x (id %d), want %x (id %d)", got, env.db.tree.bottom().stateID(), root, target+1)
	} else {
		t.Logf("disk layer is at the target root (id %d) after Recover", env.db.tree.bottom().stateID())
	}
	nshead, _ := env.db.stateFreezer.Ancients()
	nthead, _ := env.db.trienodeFreezer.Ancients()
	nttail, _ := env.db.trienodeFreezer.Tail(rawdb.DefaultHistoryGroup)
	t.Logf("after Recover: state history head=%d, trienode history (tail=%d, head=%d)", nshead, nttail, nthead)
	if err != nil {
		t.Fatalf("Recover of a recoverable state failed: %v", err)
	}
	if err := env.verifyState(root); err != nil {
		t.Fatalf("recovered state is invalid: %v", err)
	}
	// Both histories must be aligned with the disk layer again, otherwise the
	// next state transition can't be persisted.
	if nshead != uint64(target+1) || nthead != uint64(target+1) {
		t.Fatalf("histories are not aligned with the disk layer, state head %d, trienode head %d, want %d", nshead, nthead, target+1)
	}
	// The database must remain usable: build new states on top and flush them.
	rewindTester(env, target)
	env.extend(16)
	if err := env.verifyState(env.lastHash()); err != nil {
		t.Fatalf("state on top of the recovered one is invalid: %v", err)
	}
}

// TestRecoverBelowTrienodeHistoryTailIndexed is the same scenario with the
// history indexers enabled. There the rollback additionally has to unindex
// every reverted history, which needs the (pruned) trienode history as well.
func TestRecoverBelowTrienodeHistoryTailIndexed(t *testing.T) {
	maxDiffLayers = 4
	defer func() { maxDiffLayers = 128 }()

	env := newTrienodeTailTester(t, 32, 4, true)
	defer env.release()

	// Wait until the initial indexing is done, so that the unindexing
	// happens synchronously within the rollback.
	waitIndexing(env.db)
	<-env.db.trienodeIndexer.initer.done

	ttail, _ := env.db.trienodeFreezer.Tail(rawdb.DefaultHistoryGroup)
	if ttail == 0 {
		t.Fatalf("trienode history tail was not pruned, scenario not established")
	}
	target := deepestRecoverable(env)
	if target < 0 {
		t.Fatalf("no recoverable state found")
	}
	root := env.roots[target]
	t.Logf("oldest state reported as recoverable: id %d, trienode history tail = %d", target+1, ttail)

	err := env.db.Recover(root)
	if got := env.db.tree.bottom().rootHash(); got != root {
		t.Errorf("disk layer root mismatch after Recover: got id %d, want id %d", env.db.tree.bottom().stateID(), target+1)
	}
	if err != nil {
		t.Fatalf("Recover of a recoverable state failed: %v", err)
	}
	if err := env.verifyState(root); err != nil {
		t.Fatalf("recovered state is invalid: %v", err)
	}
	rewindTester(env, target)
	env.extend(16)
	if err := env.verifyState(env.lastHash()); err != nil {
		t.Fatalf("state on top of the recovered one is invalid: %v", err)
	}
}
