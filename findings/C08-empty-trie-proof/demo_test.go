package trie

import (
	"testing"

	"github.com/ethereum/go-ethereum/core/rawdb"
	"github.com/ethereum/go-ethereum/ethdb/memorydb"
)

// The proof an empty trie produces must verify: every key is absent.
func TestEmptyTrieProofVerifiesDemo(t *testing.T) {
	tr := NewEmpty(newTestDatabase(rawdb.NewMemoryDatabase(), rawdb.HashScheme))
	proof := memorydb.New()
	if err := tr.Prove([]byte("key"), proof); err != nil {
		t.Fatal(err)
	}
	val, err := VerifyProof(tr.Hash(), []byte("key"), proof)
	if err != nil || val != nil {
		t.Fatalf("proof of an absent key in the empty trie: value %x, err %v; want nil, nil", val, err)
	}
}
