// Demonstration: trie.Sync never compares a delivered blob with the hash it
// requested. ProcessNode only requires the blob to decode as a node,
// ProcessCode requires nothing: both store the blob under the requested
// hash/path and Commit writes it. (The snap syncer hashes the deliveries itself
// before it calls these methods; the scheduler's own contract does not.)
//
// Copy to trie/ and run:
//   go test -vet=off -count=1 -run TestFindingSyncAcceptsMismatchingDelivery ./trie/

package trie

import (
	"testing"

	"github.com/ethereum/go-ethereum/common"
	"github.com/ethereum/go-ethereum/core/rawdb"
	"github.com/ethereum/go-ethereum/crypto"
	"github.com/ethereum/go-ethereum/rlp"
)

func TestFindingSyncAcceptsMismatchingDelivery(t *testing.T) {
	_, srcDb, srcTrie, _ := makeTestTrie(rawdb.HashScheme)
	root := srcTrie.Hash()

	// --- a trie node ---
	disk := rawdb.NewMemoryDatabase()
	sched := NewSync(root, disk, nil, srcDb.Scheme())
	paths, hashes, _ := sched.Missing(1)
	if len(paths) != 1 || hashes[0] != root {
		t.Fatalf("unexpected first request: %v %x", paths, hashes)
	}
	// a well-formed node that is not the requested one: a leaf
	wrong, _ := rlp.EncodeToBytes([]interface{}{[]byte{0x20, 0x01, 0x02, 0x03}, []byte("not the node you asked for")})
	if crypto.Keccak256Hash(wrong) == root {
		t.Fatal("bad test")
	}
	err := sched.ProcessNode(NodeSyncResult{Path: paths[0], Data: wrong})
	if err == nil {
		batch := disk.NewBatch()
		if err := sched.Commit(batch); err != nil {
			t.Fatal(err)
		}
		batch.Write()
		stored := rawdb.ReadLegacyTrieNode(disk, root)
		t.Errorf("node delivery with hash %x was accepted for request %x; pending=%d; stored under the requested hash: %x",
			crypto.Keccak256Hash(wrong), root, sched.Pending(), stored)
	}

	// --- contract code ---
	disk2 := rawdb.NewMemoryDatabase()
	sched2 := NewSync(root, disk2, nil, srcDb.Scheme())
	codeHash := crypto.Keccak256Hash([]byte{0x60, 0x00})
	sched2.AddCodeEntry(codeHash, nil, common.Hash{}, nil)
	if err := sched2.ProcessCode(CodeSyncResult{Hash: codeHash, Data: []byte("some other code")}); err == nil {
		batch := disk2.NewBatch()
		sched2.Commit(batch)
		batch.Write()
		t.Errorf("code delivery with hash %x was accepted for request %x; stored: %q",
			crypto.Keccak256Hash([]byte("some other code")), codeHash, rawdb.ReadCode(disk2, codeHash))
	}
}
