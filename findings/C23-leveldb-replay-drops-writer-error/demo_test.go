package leveldb

import (
	"errors"
	"testing"

	"github.com/ethereum/go-ethereum/ethdb"
	"github.com/ethereum/go-ethereum/ethdb/memorydb"
)

var errWriterFailed = errors.New("target writer failed")

// failingWriter refuses every write.
type failingWriter struct{}

func (failingWriter) Put(key, value []byte) error { return errWriterFailed }
func (failingWriter) Delete(key []byte) error     { return errWriterFailed }

// Replay must report the failure of the target writer, like the in-memory backend does.
func TestReplayReportsWriterErrorDemo(t *testing.T) {
	ldb, err := New(t.TempDir(), 0, 0, "", false)
	if err != nil {
		t.Fatal(err)
	}
	defer ldb.Close()
	for name, db := range map[string]ethdb.KeyValueStore{"memorydb": memorydb.New(), "leveldb": ldb} {
		b := db.NewBatch()
		b.Put([]byte("k"), []byte("v"))
		b.Delete([]byte("x"))
		if err := b.Replay(failingWriter{}); !errors.Is(err, errWriterFailed) {
			t.Errorf("%s: Replay into a failing writer returned %v, want %v", name, err, errWriterFailed)
		}
	}
}
