package rpc

import (
	"bytes"
	"context"
	"io"
	"strings"
	"testing"
	"time"
)

type notifDemoConn struct {
	io.Reader
	out bytes.Buffer
}

func (c *notifDemoConn) Write(p []byte) (int, error)      { return c.out.Write(p) }
func (c *notifDemoConn) Close() error                     { return nil }
func (c *notifDemoConn) SetWriteDeadline(time.Time) error { return nil }

// A notification (a request without id) must never be answered, also not when
// the request timeout fires while its method is still running.
func TestTimedOutNotificationGetsNoResponseDemo(t *testing.T) {
	server := newTestServer()
	defer server.Stop()

	ctx, cancel := context.WithTimeout(context.Background(), 200*time.Millisecond)
	defer cancel()
	// test_sleep with 600ms, sent as a notification: no "id" member
	req := `{"jsonrpc":"2.0","method":"test_sleep","params":[600000000]}`
	conn := &notifDemoConn{Reader: strings.NewReader(req)}
	server.serveSingleRequest(ctx, NewCodec(conn))
	if out := strings.TrimSpace(conn.out.String()); out != "" {
		t.Fatalf("server answered a notification: %s", out)
	}
}
