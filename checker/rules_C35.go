package main

import (
	"go/constant"
	"go/token"
	"go/types"

	"golang.org/x/tools/go/ssa"
)

func init() {
	Register(&Prop{
		ID:   "C35",
		Pkgs: []string{"consensus/misc", "consensus/misc/eip1559", "consensus/misc/eip4844", "core"},
		Decided: "header verification accepts only after comparing the header with the recomputed value (gas limit bounds with the strict |Δ| < parent/1024 and ≥ 5000 tests; base fee present and equal to CalcBaseFee(parent); excess blob gas present and equal to CalcExcessBlobGas; blob gas used present, ≤ max and a multiple of the per-blob gas); CalcBaseFee takes the unchanged/increase/decrease arm under exactly ==, > and < of gasUsed vs target, floors the increase at 1 and the decrease at 0 and divides by target then by the change denominator in both arms; calcExcessBlobGas returns 0 exactly when excess < target, takes the EIP-7918 arm only post-Osaka and exactly when reservePrice > blobPrice (strict), else excess − target; no unsigned subtraction in these functions, CalcGasLimit, VerifyGaslimit, IntrinsicGas and FloorDataGas can wrap (each is dominated by the establishing comparison) and every gas accumulation term a×k is preceded by its (MaxUint64 − acc)/k < a overflow reject; fakeExponential divides the accumulated sum by the denominator on return.",
		NotDec: "numerical equality with the specification's formulas for all inputs (value-level); the constants' values; big.Int arithmetic itself.",
		Rules:  "DOM verify chains; CHECKSHAPE exact comparison operators (incl. big.Int Cmp normalisation); GUARDSUB; GUARDMAC multiply-accumulate guards",
		MinObs: 60,
		Run:    c35,
	})
}

func c35(c *Ctx) {
	H := "core/types.Header."
	e1559, e4844, misc := "consensus/misc/eip1559", "consensus/misc/eip4844", "consensus/misc"

	// ---- verification chains ----------------------------------------------------------------------
	c.Rule("DOM/C35.verify")
	if v := c.Fn(e1559, "VerifyEIP1559Header"); v != nil {
		vg := c.Calls(v, misc+".VerifyGaslimit")
		cb := c.Calls(v, e1559+".CalcBaseFee")
		c.Dom("1559", v, c.SuccessReturns(v), "accept",
			GErrChecked("VerifyGaslimit succeeded", vg).
				Then(GCond("header.BaseFee != nil", v, Cmp(FieldOf(H+"BaseFee", Param("header")), token.NEQ, Nil()))).
				Then(GCond("header.BaseFee == CalcBaseFee(config, parent)", v, Cmp(FieldOf(H+"BaseFee", Param("header")), token.EQL, CallRes(e1559+".CalcBaseFee")))))
		c.ArgIs("1559-calc-parent", v, cb, "CalcBaseFee(parent)", 1, Param("parent"), "the parent header")
		c.ArgIs("1559-limit-header", v, vg, "VerifyGaslimit(header limit)", 1, FieldOf(H+"GasLimit", Param("header")), "header.GasLimit")
		// parent limit: parent.GasLimit, scaled by the elasticity multiplier at the fork block
		for _, s := range vg {
			a := s.Instr.(*ssa.Call).Call.Args[0]
			okp := false
			if phi, ok := a.(*ssa.Phi); ok && len(phi.Edges) == 2 {
				plain, scaled := false, false
				for _, e := range phi.Edges {
					if FieldOf(H+"GasLimit", Param("parent"))(e) {
						plain = true
					}
					if b, ok := e.(*ssa.BinOp); ok && b.Op == token.MUL && FieldOf(H+"GasLimit", Param("parent"))(b.X) && CallRes("(*params.ChainConfig).ElasticityMultiplier")(b.Y) {
						scaled = true
					}
				}
				okp = plain && scaled
			}
			c.Check(okp, "1559-limit-parent/"+fnName(v), s.Pos(), "the parent limit is parent.GasLimit, scaled by the elasticity multiplier on the fork block", "the gas-limit bound is not taken against the parent's (fork-adjusted) gas limit")
		}
		c.Dom("1559-parent-basefee", v, cb, "CalcBaseFee",
			GCond("!IsLondon(parent)", v, False(CallRes("(*params.ChainConfig).IsLondon"))),
			GCond("parent.BaseFee != nil", v, Cmp(FieldOf(H+"BaseFee", Param("parent")), token.NEQ, Nil())))
	}
	if vg := c.Fn(misc, "VerifyGaslimit"); vg != nil {
		isLimit := func(v ssa.Value) bool {
			b, ok := v.(*ssa.BinOp)
			return ok && b.Op == token.QUO && Param("parentGasLimit")(b.X) && constIs(b.Y, 1024)
		}
		c.Dom("gaslimit-bound", vg, c.SuccessReturns(vg), "accept",
			GCond("|parent − header| < parent/1024", vg, Cmp(Mentions(Param("headerGasLimit")), token.LSS, isLimit)).
				Then(GCond("header >= 5000", vg, Cmp(Param("headerGasLimit"), token.GEQ, func(v ssa.Value) bool { return constIs(v, 5000) }))))
	}
	if v := c.Fn(e4844, "VerifyEIP4844Header"); v != nil {
		ce := c.Calls(v, e4844+".CalcExcessBlobGas")
		ex := FieldOf(H+"ExcessBlobGas", Param("header"))
		bu := FieldOf(H+"BlobGasUsed", Param("header"))
		deref := func(p VPat) VPat {
			return func(v ssa.Value) bool {
				u, ok := v.(*ssa.UnOp)
				return ok && u.Op == token.MUL && p(u.X)
			}
		}
		c.Dom("4844", v, c.SuccessReturns(v), "accept",
			GCond("header.ExcessBlobGas != nil", v, Cmp(ex, token.NEQ, Nil())).
				Then(GCond("header.BlobGasUsed != nil", v, Cmp(bu, token.NEQ, Nil()))).
				Then(GCond("*BlobGasUsed <= maxBlobGas", v, Cmp(deref(bu), token.LEQ, CallRes("(*"+e4844+".BlobConfig).maxBlobGas")))).
				Then(GCond("*BlobGasUsed % perBlob == 0", v, Cmp(func(v ssa.Value) bool {
					b, ok := v.(*ssa.BinOp)
					return ok && b.Op == token.REM && deref(bu)(b.X) && constIs(b.Y, 131072)
				}, token.EQL, ConstInt(0)))).
				Then(GCond("*ExcessBlobGas == CalcExcessBlobGas(config, parent, header.Time)", v, Cmp(deref(ex), token.EQL, CallRes(e4844+".CalcExcessBlobGas")))))
		c.ArgIs("4844-calc-parent", v, ce, "CalcExcessBlobGas(parent)", 1, Param("parent"), "the parent header")
		c.ArgIs("4844-calc-time", v, ce, "CalcExcessBlobGas(time)", 2, FieldOf(H+"Time", Param("header")), "the header's own timestamp")
	}

	// ---- exact arms -----------------------------------------------------------------------------------
	c.Rule("CHECKSHAPE/C35.basefee")
	if f := c.Fn(e1559, "CalcBaseFee"); f != nil {
		c.Funcs[f] = true
		used := FieldOf(H+"GasUsed", Param("parent"))
		target := func(v ssa.Value) bool {
			b, ok := v.(*ssa.BinOp)
			return ok && b.Op == token.QUO && FieldOf(H+"GasLimit", Param("parent"))(b.X) && CallRes("(*params.ChainConfig).ElasticityMultiplier")(b.Y)
		}
		pbf := FieldOf(H+"BaseFee", Param("parent"))
		gt := EdgesWhere(f, Cmp(used, token.GTR, target))
		le := EdgesWhere(f, Cmp(used, token.LEQ, target))
		eq := EdgesWhere(f, Cmp(used, token.EQL, target))
		ne := EdgesWhere(f, Cmp(used, token.NEQ, target))
		domBy := func(in ssa.Instruction, sets ...map[Edge]bool) bool {
			for _, set := range sets {
				ok := false
				for e := range set {
					if edgeDominates(e, in.Block()) {
						ok = true
					}
				}
				if !ok {
					return false
				}
			}
			return true
		}
		var nUnch, nInc, nDec int
		for _, r := range c.Returns(f) {
			v := retVal(r.Instr.(*ssa.Return), 0)
			if phi, ok := v.(*ssa.Phi); ok {
				// decrease arm: φ(Sub result, Big0) under baseFee < 0
				okClamp := len(phi.Edges) == 2
				var sub *ssa.Call
				for _, e := range phi.Edges {
					if call, ok := e.(*ssa.Call); ok && calleeName(&call.Call) == "(*math/big.Int).Sub" {
						sub = call
					} else if !Global("common.Big0")(e) {
						okClamp = false
					}
				}
				nDec++
				if c.Check(okClamp && sub != nil, "decrease-floor/"+fnName(f), r.Pos(), "the decreased fee is clamped at zero", "the decrease arm does not clamp at zero") {
					c.Check(pbf(sub.Call.Args[1]), "decrease-from-parent/"+fnName(f), sub.Pos(), "decrease = parent.BaseFee − delta", "the decrease is not taken from the parent's base fee")
					c.Check(domBy(sub, le, ne), "decrease-arm/"+fnName(f), sub.Pos(), "the decrease arm runs exactly when gasUsed < target", "the decrease arm is not guarded by gasUsed < target (strictly)")
					zeroEdges := EdgesWhere(f, Cmp(Is(sub), token.LSS, Global("common.Big0")))
					okz := false
					for i, e := range phi.Edges {
						if Global("common.Big0")(e) {
							for ze := range zeroEdges {
								if ze.From == phi.Block().Preds[i] || edgeDominates(ze, phi.Block().Preds[i]) {
									okz = true
								}
							}
						}
					}
					c.Check(okz, "decrease-floor-cond/"+fnName(f), r.Pos(), "zero replaces the result only when it is negative", "the zero clamp is applied under a condition other than result < 0")
				}
				continue
			}
			call, ok := v.(*ssa.Call)
			if !ok {
				c.Undecided("arm/"+fnName(f), r.Pos(), "unrecognised return shape in CalcBaseFee")
				continue
			}
			switch calleeName(&call.Call) {
			case "(*math/big.Int).SetUint64":
				// initial base fee
				c.Check(domBy(call, EdgesWhere(f, False(CallRes("(*params.ChainConfig).IsLondon")))), "initial/"+fnName(f), r.Pos(), "the initial base fee is returned only for the first London block", "the initial base fee is returned for a post-London parent")
			case "(*math/big.Int).Set":
				nUnch++
				c.Check(pbf(call.Call.Args[1]) && domBy(call, eq), "unchanged/"+fnName(f), r.Pos(), "unchanged exactly when gasUsed == target", "the unchanged arm is not guarded by gasUsed == target")
			case "(*math/big.Int).Add":
				nInc++
				c.Check(pbf(call.Call.Args[1]) && domBy(call, gt), "increase-arm/"+fnName(f), r.Pos(), "the increase arm adds to parent.BaseFee exactly when gasUsed > target", "the increase arm is not guarded by gasUsed > target (strictly) or does not add to the parent's base fee")
				if Global("common.Big1")(call.Call.Args[2]) {
					lt1 := false
					for e := range EdgesWhere(f, Cmp(Any(), token.LSS, Global("common.Big1"))) {
						if edgeDominates(e, call.Block()) {
							lt1 = true
						}
					}
					c.Check(lt1, "increase-floor/"+fnName(f), r.Pos(), "the minimum increase of 1 applies exactly when the computed delta is < 1", "the floor of 1 is applied under a different condition")
				}
			default:
				c.Undecided("arm/"+fnName(f), r.Pos(), "unrecognised return shape in CalcBaseFee")
			}
		}
		c.Check(nUnch == 1 && nInc == 2 && nDec == 1, "arms/"+fnName(f), f.Pos(), "unchanged, increase (floor 1 / delta) and decrease (clamped) arms are all present", "an arm of the base fee update is missing")
		// both arms divide by the target and by the change denominator
		nT, nD := 0, 0
		for _, s := range c.Calls(f, "(*math/big.Int).Div") {
			a := s.Instr.(*ssa.Call).Call.Args[2]
			if su, ok := a.(*ssa.Call); ok && calleeName(&su.Call) == "(*math/big.Int).SetUint64" {
				if target(su.Call.Args[1]) {
					nT++
				} else if CallRes("(*params.ChainConfig).BaseFeeChangeDenominator")(su.Call.Args[1]) {
					nD++
				}
			}
		}
		c.Check(nT == 2 && nD == 2, "divisors/"+fnName(f), f.Pos(), "each arm divides by the gas target and by the change denominator", "an arm does not divide by both the gas target and the base-fee change denominator")
	}
	c.Rule("CHECKSHAPE/C35.excess")
	if f := c.Fn(e4844, "calcExcessBlobGas"); f != nil {
		c.Funcs[f] = true
		var zero, scaled, classic []Site
		for _, r := range c.Returns(f) {
			v := retVal(r.Instr.(*ssa.Return), 0)
			if ConstInt(0)(v) {
				zero = append(zero, r)
			} else if b, ok := v.(*ssa.BinOp); ok && b.Op == token.SUB {
				classic = append(classic, r)
			} else if ok && b.Op == token.ADD {
				scaled = append(scaled, r)
			} else {
				c.Undecided("arm/"+fnName(f), r.Pos(), "unrecognised return shape")
			}
		}
		if c.Check(len(zero) == 1 && len(scaled) == 1 && len(classic) == 1, "arms/"+fnName(f), f.Pos(), "zero, EIP-7918 and classic arms are present", "an arm of the excess blob gas update is missing") {
			sub := retVal(classic[0].Instr.(*ssa.Return), 0).(*ssa.BinOp)
			exc, tgt := Is(sub.X), Is(sub.Y)
			tb, okT := sub.Y.(*ssa.BinOp)
			c.Check(okT && tb.Op == token.MUL && Mentions(Fld(e4844+".BlobConfig.Target"))(tb.X) && constIs(tb.Y, 131072), "target/"+fnName(f), sub.Pos(), "target gas = Target × gas per blob", "the subtracted target is not Target × gas-per-blob")
			eb, okE := sub.X.(*ssa.BinOp)
			c.Check(okE && eb.Op == token.ADD, "excess/"+fnName(f), sub.Pos(), "excess = parent excess + parent blob gas used", "the running excess is not parent excess + parent used")
			c.Dom("CHECKSHAPE/C35.excess/zero", f, zero, "return 0", GCond("excess < target", f, Cmp(exc, token.LSS, tgt)))
			c.Dom("CHECKSHAPE/C35.excess/nonzero", f, cat(scaled, classic), "non-zero return", GCond("excess >= target", f, Cmp(exc, token.GEQ, tgt)))
			reserve := CallRes("(*math/big.Int).Mul")
			blob := CallRes("(*" + e4844 + ".BlobConfig).blobPrice")
			c.Dom("CHECKSHAPE/C35.excess/7918", f, scaled, "EIP-7918 return",
				GCond("isOsaka", f, True(Param("isOsaka"))).Then(GCond("reservePrice > blobPrice", f, Cmp(reserve, token.GTR, blob))))
			c.Dom("CHECKSHAPE/C35.excess/classic", f, classic, "classic return",
				GCond("!isOsaka", f, False(Param("isOsaka"))), GCond("reservePrice <= blobPrice", f, Cmp(reserve, token.LEQ, blob)))
			// reserve price = BLOB_BASE_COST × parent base fee; blob price at the parent's excess
			for _, s := range c.Calls(f, "(*math/big.Int).Mul") {
				a := s.Instr.(*ssa.Call).Call.Args
				c.Check(CallRes("math/big.NewInt")(a[1]) && FieldOf(H+"BaseFee", Param("parent"))(a[2]), "reserve/"+fnName(f), s.Pos(), "reserve price = base cost × parent.BaseFee", "the reserve price is not base cost × the parent's base fee")
			}
		}
	}
	if f := c.Fn(e4844, "fakeExponential"); f != nil {
		for _, r := range c.Returns(f) {
			call, ok := retVal(r.Instr.(*ssa.Return), 0).(*ssa.Call)
			c.Check(ok && calleeName(&call.Call) == "(*math/big.Int).Div" && Param("denominator")(call.Call.Args[2]), "fakeexp/"+fnName(f), r.Pos(), "the accumulated sum is divided by the denominator", "fakeExponential does not return output / denominator")
		}
	}

	// ---- unsigned subtractions -----------------------------------------------------------------------
	c.Rule("GUARDSUB/C35")
	ns := 0
	for _, fn := range []struct{ rel, name string }{
		{e1559, "CalcBaseFee"}, {e4844, "calcExcessBlobGas"}, {misc, "VerifyGaslimit"},
		{corep, "CalcGasLimit"}, {corep, "IntrinsicGas"}, {corep, "FloorDataGas"}, {corep, "toWordSize"},
	} {
		f := c.Fn(fn.rel, fn.name)
		if f == nil {
			continue
		}
		ns += c.GuardSub("sub", f, nil, func(b *ssa.BinOp) string {
			// len(data) − count of zero bytes in data
			if CallRes("bytes.Count")(stripConv(b.Y)) {
				return "the subtrahend counts bytes of the same slice whose length is the minuend"
			}
			// parent/1024 − 1 and limit − 1 in messages: parent gas limits are ≥ 5000 by VerifyGaslimit
			if constIs(b.Y, 1) {
				if q, ok := b.X.(*ssa.BinOp); ok && q.Op == token.QUO && constIs(q.Y, 1024) {
					return "gas limits are ≥ MinGasLimit (5000) for every verified header, so limit/1024 ≥ 4"
				}
			}
			// parentGasLimit − delta with delta = parentGasLimit/1024 − 1 < parentGasLimit
			if q, ok := b.Y.(*ssa.BinOp); ok && q.Op == token.SUB {
				if qq, ok := q.X.(*ssa.BinOp); ok && qq.Op == token.QUO && sameValue(qq.X, b.X) {
					return "delta is parentGasLimit/1024 − 1, smaller than parentGasLimit"
				}
			}
			return ""
		})
	}
	c.Expect(12, ns, "unsigned subtractions in the fee/gas arithmetic")

	// ---- multiply-accumulate guards --------------------------------------------------------------------
	c.Rule("GUARDMAC/C35")
	nm := 0
	for _, name := range []string{"IntrinsicGas", "FloorDataGas"} {
		f := c.Fn(corep, name)
		if f == nil {
			continue
		}
		c.Funcs[f] = true
		eachInstr(f, func(in ssa.Instruction) {
			m, ok := in.(*ssa.BinOp)
			if !ok || m.Op != token.MUL || !isUnsigned(m.Type()) {
				return
			}
			if _, c1 := m.X.(*ssa.Const); c1 {
				if _, c2 := m.Y.(*ssa.Const); c2 {
					return
				}
			}
			nm++
			if Len(Param("authList"))(stripConv(m.X)) || Len(Param("authList"))(stripConv(m.Y)) {
				c.Exempt("mac/"+fnName(f), m.Pos(), "len(authList) × per-authorization cost: the list length is bounded by the transaction size limit, far below 2^64/25000")
				return
			}
			// accumulator the product is added to (if any)
			var acc ssa.Value
			for _, r := range *m.Referrers() {
				// `acc += a*k` is ADD(acc, product); a product in the X position starts an accumulator
				if a, ok := r.(*ssa.BinOp); ok && a.Op == token.ADD && a.Y == ssa.Value(m) {
					acc = a.X
				}
			}
			guarded := false
			for _, pr := range [][2]ssa.Value{{m.X, m.Y}, {m.Y, m.X}} {
				a, k := pr[0], pr[1]
				quo := func(v ssa.Value) bool {
					if kc, isK := k.(*ssa.Const); isK && acc == nil {
						// MaxUint64/k is folded to a constant by the compiler front end
						if vc, ok := v.(*ssa.Const); ok && vc.Value != nil && kc.Value != nil {
							kv, e1 := constant.Uint64Val(kc.Value)
							vv, e2 := constant.Uint64Val(vc.Value)
							if e1 && e2 && kv != 0 && vv == ^uint64(0)/kv {
								return true
							}
						}
					}
					q, ok := v.(*ssa.BinOp)
					if !ok || q.Op != token.QUO || !sameValue(q.Y, k) {
						return false
					}
					if acc == nil {
						return constIsMaxU64(q.X)
					}
					s, ok := q.X.(*ssa.BinOp)
					return ok && s.Op == token.SUB && constIsMaxU64(s.X) && sameValue(s.Y, acc)
				}
				for e := range EdgesWhere(f, Cmp(quo, token.GEQ, Is(a))) {
					if edgeDominates(e, m.Block()) {
						guarded = true
					}
				}
			}
			c.Check(guarded, "mac/"+fnName(f), m.Pos(), "the product is preceded by its (MaxUint64 − acc)/k < a overflow reject", "gas term "+valDesc(m)+" can overflow uint64: no dominating (MaxUint64 − acc)/k < a reject for it")
		})
		// plain additions of a variable: tokens += z
		eachInstr(f, func(in ssa.Instruction) {
			a, ok := in.(*ssa.BinOp)
			if !ok || a.Op != token.ADD || !isUnsigned(a.Type()) {
				return
			}
			for _, pr := range [][2]ssa.Value{{a.X, a.Y}, {a.Y, a.X}} {
				z, acc := pr[0], pr[1]
				if !CallRes("bytes.Count")(stripConv(z)) {
					continue
				}
				nm++
				room := func(v ssa.Value) bool {
					s, ok := v.(*ssa.BinOp)
					return ok && s.Op == token.SUB && constIsMaxU64(s.X) && sameValue(s.Y, acc)
				}
				g := false
				for e := range EdgesWhere(f, Cmp(room, token.GEQ, Is(z))) {
					if edgeDominates(e, a.Block()) {
						g = true
					}
				}
				c.Check(g, "acc/"+fnName(f), a.Pos(), "the addition is preceded by its MaxUint64 − acc < z reject", "token accumulation can overflow uint64")
			}
		})
	}
	c.Expect(12, nm, "multiply-accumulate terms")
}

func constIs(v ssa.Value, n int64) bool {
	k, ok := v.(*ssa.Const)
	if !ok || k.Value == nil || k.Value.Kind() != constant.Int {
		return false
	}
	x, exact := constant.Int64Val(k.Value)
	return exact && x == n
}

func constIsMaxU64(v ssa.Value) bool {
	k, ok := v.(*ssa.Const)
	if !ok || k.Value == nil || k.Value.Kind() != constant.Int {
		return false
	}
	x, exact := constant.Uint64Val(k.Value)
	return exact && x == ^uint64(0)
}

func stripConv(v ssa.Value) ssa.Value {
	for {
		cv, ok := v.(*ssa.Convert)
		if !ok {
			return v
		}
		v = cv.X
	}
}

var _ = types.Typ
