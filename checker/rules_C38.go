package main

import (
	"go/token"

	"golang.org/x/tools/go/ssa"
)

func init() {
	Register(&Prop{
		ID:   "C38",
		Pkgs: []string{"core", "eth"},
		Decided: "head markers, canonical hash and transaction lookups of a new head are written through one batch whose write (fatal on error) precedes every in-memory head update; the canonical head is only moved to a block whose state is present or was just recovered; the functions that mutate the canonical chain (reorg, writeHeadBlock, writeBlockWithState, writeBlockAndSetHead, setHeadBeyondRoot, insertChain, …) run only with chainmu held; chain and head events are sent only after the head was written; a reorg deletes stale lookups and canonical hashes through one batch, deletes exactly the difference deleted−reborn, and purges the lookup cache after the write.",
		NotDec: "that the number→hash index is a parent-linked chain ending at the head for arbitrary block trees, and that the events describe exactly the chain switch (value-level over histories).",
		Rules:  "ATOMIC same-batch argument identity, ORDER/DOM must-pass-through per store/send site, LOCKSET-REQUIRES (requirement propagation through the in-package call graph with chainmu TryLock/Unlock as lock operations)",
		MinObs: 52,
		Run:    c38,
	})
}

const corep = "core"

func c38(c *Ctx) {
	bcT := "(*" + corep + ".BlockChain)."
	// ---- writeHeadBlock --------------------------------------------------------------
	w := c.Fn(corep, "(*BlockChain).writeHeadBlock")
	c.Rule("ATOMIC/C38.head")
	batch := CallRes("(ethdb.Batcher).NewBatch")
	var writes []Site
	for _, n := range []string{"WriteHeadHeaderHash", "WriteHeadFastBlockHash", "WriteCanonicalHash", "WriteTxLookupEntriesByBlock", "WriteHeadBlockHash"} {
		s := c.Calls(w, "core/rawdb."+n)
		c.Expect(1, len(s), n+" in writeHeadBlock")
		writes = append(writes, s...)
	}
	c.ArgIs("batch", w, writes, "head-marker-write", 0, batch, "the batch from bc.db.NewBatch()")
	bw := c.CallsWhere(w, "(ethdb.Batch).Write", func(cc *ssaCall) bool { return batch(cc.Value) })
	c.Expect(1, len(bw), "batch.Write in writeHeadBlock")
	for _, s := range writes {
		c.Dom("all-in-batch", w, bw, "batch.Write", GCall("marker write", []Site{s}))
	}
	mem := cat(c.Calls(w, "(*"+corep+".HeaderChain).SetCurrentHeader"), c.Calls(w, "(*sync/atomic.Pointer[core/types.Header]).Store|(*sync/atomic.Pointer).Store"))
	mem = cat(mem, c.Calls(w, "(*sync/atomic.Pointer[T]).Store"))
	c.Expect(3, len(mem), "in-memory head updates in writeHeadBlock")
	c.Dom("disk-before-memory", w, mem, "in-memory-head", GErrChecked("batch.Write() (fatal on error)", bw))
	// every marker carries the same block's hash
	c.Each("same-block", w, writes, "head-marker-write", func(s Site) (bool, string) {
		as := callArgs(s.Instr.(*ssa.Call).Common())
		return Mentions(Param("block"))(as[1]), "the value written derives from the block being made head"
	})

	// ---- SetCanonical ------------------------------------------------------------------
	sc := c.Fn(corep, "(*BlockChain).SetCanonical")
	c.Rule("DOM/C38.state")
	whb := c.Calls(sc, bcT+"writeHeadBlock")
	c.Dom("state-available", sc, whb, "writeHeadBlock(head)",
		GCond("bc.HasState(head.Root())", sc, True(CallRes(bcT+"HasState"))),
		GErrChecked("bc.recoverAncestors", c.Calls(sc, bcT+"recoverAncestors")))
	c.Dom("reorg-ok", sc, whb, "writeHeadBlock(head)",
		GCond("head.ParentHash()==current", sc, Cmp(CallRes("(*core/types.Block).ParentHash"), token.EQL, Any())),
		GErrChecked("bc.reorg", c.Calls(sc, bcT+"reorg")))

	// ---- events after the write ---------------------------------------------------------------
	c.Rule("ORDER/C38.events")
	for _, fn := range []string{"SetCanonical", "writeBlockAndSetHead"} {
		f := c.Fn(corep, "(*BlockChain)."+fn)
		var sends []Site
		for _, s := range c.Calls(f, "(*event.Feed).Send|(*event.FeedOf).Send") {
			r := callRecv(s.Instr.(*ssa.Call).Common())
			if fa, ok := r.(*ssa.FieldAddr); ok {
				switch fieldAddrName(fa) {
				case corep + ".BlockChain.chainFeed", corep + ".BlockChain.chainHeadFeed", corep + ".BlockChain.logsFeed":
					sends = append(sends, s)
				}
			}
		}
		c.Expect(3, len(sends), "chain event sends in "+fn)
		c.Dom("after-head-write", f, sends, "event-send", GCall("bc.writeHeadBlock", c.Calls(f, bcT+"writeHeadBlock")))
	}
	wbs := c.Fn(corep, "(*BlockChain).writeBlockAndSetHead")
	c.Dom("block-written-first", wbs, c.Calls(wbs, bcT+"writeHeadBlock"), "writeHeadBlock", GErrChecked("bc.writeBlockWithState", c.Calls(wbs, bcT+"writeBlockWithState")))
	c.Dom("reorg-ok", wbs, c.Calls(wbs, bcT+"writeHeadBlock"), "writeHeadBlock",
		GCond("block.ParentHash()==current", wbs, Cmp(CallRes("(*core/types.Block).ParentHash"), token.EQL, Any())),
		GErrChecked("bc.reorg", c.Calls(wbs, bcT+"reorg")))

	// ---- reorg ---------------------------------------------------------------------------------
	ro := c.Fn(corep, "(*BlockChain).reorg")
	c.Rule("ATOMIC/C38.reorg")
	dels := cat(c.Calls(ro, "core/rawdb.DeleteTxLookupEntry"), c.Calls(ro, "core/rawdb.DeleteCanonicalHash"))
	c.Expect(2, len(dels), "index deletions in reorg")
	c.ArgIs("batch", ro, dels, "index-delete", 0, batch, "the batch from bc.db.NewBatch()")
	rbw := c.CallsWhere(ro, "(ethdb.Batch).Write", func(cc *ssaCall) bool { return batch(cc.Value) })
	c.Expect(1, len(rbw), "batch.Write in reorg")
	c.Followed("deletes-written", ro, dels, "index-delete", rbw, "batch.Write()", c.SuccessReturns(ro))
	c.Dom("purge-after-write", ro, c.Calls(ro, "(*common/lru.Cache[K, V]).Purge"), "txLookupCache.Purge", GErrChecked("batch.Write() (fatal on error)", rbw))
	// every reorg that deleted index entries ends with the lookup cache emptied
	c.Followed("cache-purged", ro, rbw, "batch.Write", c.Calls(ro, "(*common/lru.Cache[K, V]).Purge"), "bc.txLookupCache.Purge()", c.SuccessReturns(ro))
	c.Rule("SAMEVAL/C38.lookup")
	c.Each("difference", ro, c.Calls(ro, "core/rawdb.DeleteTxLookupEntry"), "DeleteTxLookupEntry", func(s Site) (bool, string) {
		as := callArgs(s.Instr.(*ssa.Call).Common())
		return Mentions(CallRes("core/types.HashDifference"))(as[1]), "only hashes of HashDifference(deletedTxs, rebirthTxs) are un-indexed"
	})

	// ---- chainmu ---------------------------------------------------------------------------------
	req := map[string]bool{}
	for _, n := range []string{"reorg", "writeHeadBlock", "writeBlockWithState", "writeBlockAndSetHead", "insertChain", "recoverAncestors", "insertSideChain"} {
		req[bcT+n] = true
	}
	mu := Fld(corep + ".BlockChain.chainmu")
	c.Lockset(LockSpec{
		Name: "C38.chainmu", Pkg: corep, Mutex: "BlockChain.chainmu",
		MutexIs: func(v ssa.Value) bool { return mu(v) },
		CustomLock: map[string]int{
			"(*internal/syncx.ClosableMutex).TryLock":  3,
			"(*internal/syncx.ClosableMutex).MustLock": 2,
			"(*internal/syncx.ClosableMutex).Unlock":   -1,
		},
		AccessOf: func(in ssa.Instruction) (string, bool, bool) {
			if call, ok := in.(*ssa.Call); ok {
				n := calleeName(&call.Call)
				if req[n] {
					return "call:" + n[len(bcT):], true, true
				}
			}
			return "", false, false
		},
		Held: map[string]string{
			bcT + "ProcessBlock": "entered with chainmu held by insertChain; its two chain-writing calls sit behind config.WriteState (rule DOM/C38.processblock) and the only caller outside package core passes WriteState:false (rule CONSTARG/C38.external)",
		},
		Exempt: map[string]string{
			corep + ".NewBlockChain": "constructor: the chain object is not published yet, no other goroutine can hold a reference",
		},
		MinSites: 12,
	})

	pb := c.Fn(corep, "(*BlockChain).ProcessBlock")
	c.Rule("DOM/C38.processblock")
	c.Dom("behind-WriteState", pb, cat(c.Calls(pb, bcT+"writeBlockWithState"), c.Calls(pb, bcT+"writeBlockAndSetHead")), "chain-write",
		GCond("config.WriteState", pb, True(Fld(corep+".ExecuteConfig.WriteState"))))
	c.Rule("CONSTARG/C38.external")
	n := 0
	for _, f := range c.AllFuncs("eth") {
		for _, call := range c.Calls(f, bcT+"ProcessBlock") {
			n++
			cfg := callArgs(call.Instr.(*ssa.Call).Common())[3]
			ok := false
			if u, isU := cfg.(*ssa.UnOp); isU {
				if al, isA := u.X.(*ssa.Alloc); isA {
					ok = true
					for _, r := range *al.Referrers() {
						fa, isFA := r.(*ssa.FieldAddr)
						if !isFA || fieldAddrName(fa) != corep+".ExecuteConfig.WriteState" {
							continue
						}
						for _, rr := range *fa.Referrers() {
							if st, isSt := rr.(*ssa.Store); isSt && !ConstBool(false)(st.Val) {
								ok = false
							}
						}
					}
				}
			}
			c.Check(ok, "external/"+fnName(f)+"/ProcessBlock", call.Pos(), "external caller passes ExecuteConfig with WriteState=false", "a caller outside package core runs ProcessBlock with a config that may write the chain without chainmu")
		}
	}
	c.Expect(1, n, "ProcessBlock callers in package eth")
}
