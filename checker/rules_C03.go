package main

import (
	"fmt"
	"go/ast"
	"go/parser"
	"go/token"
	"go/types"
	"path/filepath"
	"sort"
	"strings"

	"golang.org/x/tools/go/ssa"
)

func init() {
	Register(&Prop{
		ID:   "C03",
		Pkgs: []string{"core/types", "crypto"},
		Decided: "no signing hash reads the signature fields (V, R, S) of its transaction / authorization or hands the object whole to an encoder, and each reads every other payload field (chain id from the signer's parameter); recovery narrows V to a byte only after rejecting values wider than 8 bits, validates (V, R, S) — with the strict low-s rule on every signer except Frontier — before it recovers, and checks the recovered key's format; typed and replay-protected legacy transactions are recovered only after the transaction's chain id compared equal to the signer's, and only for types the signer supports; ValidateSignatureValues accepts only 1 <= r,s < N, s <= N/2 under the strict rule and v in {0,1}; signature sanity checks of decoded transactions use it; set-code authorizations validate strictly before recovering; the cgo and the pure-Go secp256k1 files export the same functions with the same signatures.",
		NotDec: "that recovery inverts signing for every key and message and that the two secp256k1 backends agree on every input (run-time; different libraries).",
		Rules:  "FIELDCOV reads-none/reads-all for sigHash; ORDER validate≺recover; NARROW V; DOM chain id / type support; CONSTARG strict flag; CHECKSHAPE ValidateSignatureValues; VARIANT exported API of the two backends (AST)",
		MinObs: 128,
		Run:    c03,
	})
}

func c03(c *Ctx) {
	ct := "core/types"
	// ---- signing hashes --------------------------------------------------------------------------------
	c.Rule("FIELDCOV/C03.sighash")
	nsh := 0
	for _, tn := range []string{"LegacyTx", "AccessListTx", "DynamicFeeTx", "BlobTx", "SetCodeTx"} {
		T := c.Type(ct, tn)
		f := c.Fn(ct, "(*"+tn+").sigHash")
		if T == nil || f == nil {
			continue
		}
		nsh++
		c.CovReads("sighash", f, T, ExFields(map[string]string{
			"ChainID": "the chain id signed over is the signer's (the parameter), not the transaction's own field",
			"Sidecar": "blobs travel outside the signed payload; the signed payload commits to them through BlobHashes",
		}), []string{"V", "R", "S"}, true)
		// the chain id parameter is part of the hashed list
		hs := cat(c.Calls(f, ct+".prefixedRlpHash"), c.Calls(f, ct+".rlpHash"))
		if c.Check(len(hs) == 1, "hash-call/"+tn, f.Pos(), "one hash over the field list", "sigHash does not consist of one hash over the field list") {
			a := hs[0].Instr.(*ssa.Call).Call.Args
			c.Check(listContains(a[len(a)-1], Param("chainID")), "chainid-param/"+tn, hs[0].Pos(), "the signer's chain id is hashed", "the signing hash does not include the signer's chain id")
			if tn != "LegacyTx" {
				want := map[string]int64{"AccessListTx": 1, "DynamicFeeTx": 2, "BlobTx": 3, "SetCodeTx": 4}[tn]
				c.Check(constIs(a[0], want), "prefix/"+tn, hs[0].Pos(), "the hash is prefixed with the transaction's own type byte", "the signing hash of "+tn+" is prefixed with a different type byte")
			}
		}
	}
	c.Expect(5, nsh, "sigHash methods")
	if T := c.Type(ct, "SetCodeAuthorization"); T != nil {
		if f := c.Fn(ct, "(*SetCodeAuthorization).SigHash"); f != nil {
			c.CovReads("sighash", f, T, nil, []string{"V", "R", "S"}, true)
		}
		if au := c.Fn(ct, "(*SetCodeAuthorization).Authority"); au != nil {
			vs := c.Calls(au, "crypto.ValidateSignatureValues")
			c.Dom("auth-validated", au, c.Calls(au, "crypto.Ecrecover"), "Ecrecover", GCond("signature values valid", au, True(CallRes("crypto.ValidateSignatureValues"))))
			c.ArgIs("auth-strict", au, vs, "ValidateSignatureValues(homestead)", 3, ConstBool(true), "true (low-s required)")
		}
	}

	// ---- recovery ------------------------------------------------------------------------------------
	c.Rule("ORDER/C03.validate")
	if rp := c.Fn(ct, "recoverPlain"); rp != nil {
		vs := c.Calls(rp, "crypto.ValidateSignatureValues")
		ec := c.Calls(rp, "crypto.Ecrecover")
		c.Expect(1, len(vs), "ValidateSignatureValues in recoverPlain")
		c.Expect(1, len(ec), "Ecrecover in recoverPlain")
		c.Dom("validated", rp, ec, "Ecrecover", GCond("signature values valid", rp, True(CallRes("crypto.ValidateSignatureValues"))))
		// narrowing of V
		var narrow []Site
		eachInstr(rp, func(in ssa.Instruction) {
			if cv, ok := in.(*ssa.Convert); ok && cv.Type().String() == "byte" {
				if Mentions(CallRes("(*math/big.Int).Uint64"))(cv.X) {
					narrow = append(narrow, Site{rp, in})
				}
			}
		})
		c.Expect(1, len(narrow), "narrowing of V to a byte")
		bl := func(v ssa.Value) bool {
			call, ok := v.(*ssa.Call)
			return ok && calleeName(&call.Call) == "(*math/big.Int).BitLen" && Param("Vb")(call.Call.Args[0])
		}
		c.Dom("v-fits-byte", rp, narrow, "byte(V)", GCond("Vb.BitLen() <= 8", rp, Cmp(bl, token.LEQ, func(v ssa.Value) bool { return constIs(v, 8) })))
		for _, s := range vs {
			a := s.Instr.(*ssa.Call).Call.Args
			okV := false
			if len(narrow) == 1 {
				okV = a[0] == narrow[0].Instr.(ssa.Value)
			}
			c.Check(okV && Param("R")(a[1]) && Param("S")(a[2]) && Param("homestead")(a[3]), "validate-args/"+fnName(rp), s.Pos(), "validates exactly the values it recovers with", "the values validated are not the ones used for recovery")
		}
		for _, s := range ec {
			c.Check(ErrCheckedSite(s), "recover-err/"+fnName(rp), s.Pos(), "a failed recovery is reported", "Ecrecover's error is ignored")
			a := s.Instr.(*ssa.Call).Call.Args
			c.Check(Mentions(Param("sighash"))(a[0]) || paramCell(a[0], "sighash"), "recover-hash/"+fnName(rp), s.Pos(), "recovers over the given signing hash", "recovery does not use the given signing hash")
		}
		c.Dom("pubkey-format", rp, c.SuccessReturns(rp), "address", GErrChecked("recovered", ec).Then(GCond("uncompressed key", rp, Cmp(Any(), token.EQL, func(v ssa.Value) bool { return constIs(v, 4) }))))
	}
	c.Rule("DOM/C03.chainid")
	type sg struct {
		fn, chain string
		strict    bool
	}
	for _, s := range []sg{
		{"(*modernSigner).Sender", ct + ".modernSigner.chainID", true},
		{"(EIP155Signer).Sender", ct + ".EIP155Signer.chainId", true},
		{"(HomesteadSigner).Sender", "", true},
		{"(FrontierSigner).Sender", "", false},
	} {
		f := c.Fn(ct, s.fn)
		if f == nil {
			continue
		}
		rp := c.Calls(f, ct+".recoverPlain")
		if !c.Check(len(rp) == 1, "recover/"+s.fn, f.Pos(), "one recovery", "expected one recoverPlain call in "+s.fn) {
			continue
		}
		c.ArgIs("strict/"+s.fn, f, rp, "recoverPlain(homestead)", 4, ConstBool(s.strict), fmt.Sprintf("the constant %v", s.strict))
		if s.chain != "" {
			c.Dom("chain/"+s.fn, f, rp, "recoverPlain", GCond("tx.ChainId() == signer chain id", f, Cmp(CallRes("(*"+ct+".Transaction).ChainId"), token.EQL, Mentions(Fld(s.chain)))))
		}
		if strings.Contains(s.fn, "modern") {
			c.Dom("type/"+s.fn, f, rp, "recoverPlain", GCond("supportsType", f, True(CallRes("(*"+ct+".modernSigner).supportsType"))))
		} else {
			c.Dom("type/"+s.fn, f, rp, "recoverPlain", GCond("legacy type", f, Cmp(CallRes("(*"+ct+".Transaction).Type"), token.EQL, ConstInt(0))))
		}
		// the hash recovered over is this signer's hash of this transaction
		a := rp[0].Instr.(*ssa.Call).Call.Args
		okH := false
		if hc, ok := a[0].(*ssa.Call); ok && strings.HasSuffix(calleeName(&hc.Call), ".Hash") {
			okH = Param("tx")(hc.Call.Args[len(hc.Call.Args)-1])
		}
		c.Check(okH, "hash/"+s.fn, rp[0].Pos(), "recovers over the signer's own hash of the transaction", "the sender is recovered over a hash other than the signer's hash of this transaction")
	}
	if f := c.Fn(ct, "(*modernSigner).SignatureValues"); f != nil {
		ds := c.Calls(f, ct+".decodeSignature")
		c.Dom("sign-type", f, ds, "decodeSignature", GCond("supportsType", f, True(CallRes("(*"+ct+".modernSigner).supportsType"))))
		c.Dom("sign-chain", f, ds, "decodeSignature",
			GCond("unspecified chain id", f, Cmp(CallRes("(*math/big.Int).Sign"), token.EQL, ConstInt(0))),
			GCond("tx chain id == signer chain id", f, Cmp(Any(), token.EQL, Mentions(Fld(ct+".modernSigner.chainID")))))
	}

	// ---- value validation ---------------------------------------------------------------------------------
	c.Rule("CHECKSHAPE/C03.values")
	if vf := c.Fn("crypto", "ValidateSignatureValues"); vf != nil {
		c.Funcs[vf] = true
		type want struct {
			name string
			cd   Cond
		}
		for _, w := range []want{
			{"r>=1", Cmp(Param("r"), token.LSS, Global("common.Big1"))},
			{"s>=1", Cmp(Param("s"), token.LSS, Global("common.Big1"))},
			{"low-s", Cmp(Param("s"), token.GTR, Global("crypto.secp256k1halfN"))},
			{"r<N", Cmp(Param("r"), token.LSS, Global("crypto.secp256k1N"))},
			{"s<N", Cmp(Param("s"), token.LSS, Global("crypto.secp256k1N"))},
			{"v==0", Cmp(Param("v"), token.EQL, ConstInt(0))},
			{"v==1", Cmp(Param("v"), token.EQL, ConstInt(1))},
		} {
			n := len(EdgesWhere(vf, w.cd))
			if n == 0 {
				// the last operand of the final && chain is not a branch but the value returned
				eachInstr(vf, func(in ssa.Instruction) {
					if b, ok := in.(*ssa.BinOp); ok && w.cd.polarity(b) == +1 {
						n++
					}
				})
			}
			c.Check(n == 1, "test/"+w.name, vf.Pos(), "the test "+w.name+" is present with its exact operator", "ValidateSignatureValues lost or changed its "+w.name+" test")
		}
		// v is compared with exactly the recovery ids 0 and 1
		var vs []string
		eachInstr(vf, func(in ssa.Instruction) {
			if b, ok := in.(*ssa.BinOp); ok && Param("v")(b.X) {
				if k, ok := b.Y.(*ssa.Const); ok && k.Value != nil {
					vs = append(vs, b.Op.String()+k.Value.ExactString())
				}
			}
		})
		sort.Strings(vs)
		c.Check(strings.Join(vs, " ") == "==0 ==1", "v-set", vf.Pos(), "the only accepted recovery ids are 0 and 1", "the recovery id is tested against ["+strings.Join(vs, " ")+"], not exactly {0, 1}")
		// low-s applies under homestead only, and rejects
		for e := range EdgesWhere(vf, Cmp(Param("s"), token.GTR, Global("crypto.secp256k1halfN"))) {
			okRej := false
			for _, in := range e.From.Succs[e.Succ].Instrs {
				if r, ok := in.(*ssa.Return); ok && ConstBool(false)(retVal(r, 0)) {
					okRej = true
				}
			}
			c.Check(okRej, "low-s-rejects", e.From.Instrs[len(e.From.Instrs)-1].Pos(), "a high s is rejected", "a high s value is detected but not rejected")
			dom := false
			for he := range EdgesWhere(vf, True(Param("homestead"))) {
				if he.From.Succs[he.Succ] == e.From || edgeDominates(he, e.From) {
					dom = true
				}
			}
			c.Check(dom, "low-s-strict-only", e.From.Instrs[len(e.From.Instrs)-1].Pos(), "the low-s rule applies under the strict flag", "the low-s test is not tied to the strict flag")
		}
		// small r/s reject
		for _, p := range []string{"r", "s"} {
			for e := range EdgesWhere(vf, Cmp(Param(p), token.LSS, Global("common.Big1"))) {
				okRej := false
				for _, in := range e.From.Succs[e.Succ].Instrs {
					if r, ok := in.(*ssa.Return); ok && ConstBool(false)(retVal(r, 0)) {
						okRej = true
					}
				}
				c.Check(okRej, "zero-rejects/"+p, e.From.Instrs[len(e.From.Instrs)-1].Pos(), "zero is rejected", "a zero "+p+" is detected but not rejected")
			}
		}
	}
	if sc := c.Fn(ct, "sanityCheckSignature"); sc != nil {
		c.Dom("sanity", sc, c.SuccessReturns(sc), "accept", GCond("signature values valid", sc, True(CallRes("crypto.ValidateSignatureValues"))))
	}

	// ---- two backends ------------------------------------------------------------------------------------
	c.Rule("VARIANT/C03.backends")
	api := func(file string) (map[string]string, error) {
		fset := token.NewFileSet()
		path := filepath.Join(c.Repo, "crypto", file)
		var src any
		if ov, ok := c.Overlay[path]; ok {
			src = ov
		}
		af, err := parser.ParseFile(fset, path, src, parser.SkipObjectResolution)
		if err != nil {
			return nil, err
		}
		out := map[string]string{}
		for _, d := range af.Decls {
			fd, ok := d.(*ast.FuncDecl)
			if !ok || fd.Recv != nil || !fd.Name.IsExported() {
				continue
			}
			out[fd.Name.Name] = sigString(fd.Type)
		}
		return out, nil
	}
	a, errA := api("signature_cgo.go")
	b, errB := api("signature_nocgo.go")
	if errA != nil || errB != nil {
		c.Undecided("parse", token.NoPos, fmt.Sprintf("cannot parse the backend files: %v %v", errA, errB))
	} else {
		var names []string
		for n := range a {
			names = append(names, n)
		}
		for n := range b {
			if _, ok := a[n]; !ok {
				names = append(names, n)
			}
		}
		sort.Strings(names)
		for _, n := range names {
			sa, oa := a[n]
			sb, ob := b[n]
			c.Check(oa && ob && sa == sb, "api/"+n, token.NoPos, "exported by both backends with the same signature "+sa, fmt.Sprintf("crypto.%s differs between the backends: cgo %q (present %v), nocgo %q (present %v)", n, sa, oa, sb, ob))
		}
		c.Expect(7, len(names), "exported functions of the secp256k1 backends: "+strings.Join(names, ","))
	}
	_ = types.Typ
}

// sigString renders a function type's parameter and result types (names dropped).
func sigString(ft *ast.FuncType) string {
	var list func(fl *ast.FieldList) string
	list = func(fl *ast.FieldList) string {
		if fl == nil {
			return ""
		}
		var parts []string
		for _, f := range fl.List {
			n := len(f.Names)
			if n == 0 {
				n = 1
			}
			for i := 0; i < n; i++ {
				parts = append(parts, types.ExprString(f.Type))
			}
		}
		return strings.Join(parts, ",")
	}
	return "(" + list(ft.Params) + ")(" + list(ft.Results) + ")"
}

// listContains: the variadic/any-slice value v is built from an array literal one of
// whose elements (possibly boxed in an interface) matches p.
func listContains(v ssa.Value, p VPat) bool {
	if mi, ok := v.(*ssa.MakeInterface); ok {
		v = mi.X
	}
	sl, ok := v.(*ssa.Slice)
	if !ok {
		return false
	}
	al, ok := sl.X.(*ssa.Alloc)
	if !ok {
		return false
	}
	for _, r := range *al.Referrers() {
		ia, ok := r.(*ssa.IndexAddr)
		if !ok {
			continue
		}
		for _, rr := range *ia.Referrers() {
			st, ok := rr.(*ssa.Store)
			if !ok || st.Addr != ssa.Value(ia) {
				continue
			}
			val := st.Val
			if mi, ok := val.(*ssa.MakeInterface); ok {
				val = mi.X
			}
			if ci, ok := val.(*ssa.ChangeInterface); ok {
				val = ci.X
			}
			if p(val) {
				return true
			}
		}
	}
	return false
}
