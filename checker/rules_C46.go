package main

import (
	"go/token"

	"golang.org/x/tools/go/ssa"
)

func init() {
	Register(&Prop{
		ID:   "C46",
		Pkgs: []string{"p2p/discover"},
		Decided: "buckets, their entries/replacements and the IP sets are touched only under Table.mutex; nothing is appended to a bucket's entries without the not-self reject, the capacity reject and a successful addIP; a replacement is pushed only behind the duplicate reject and a successful addIP, and a node pushed out of the replacement list releases its IP; deleting an entry releases its IP; an endpoint update that removed the old IP either counts the new one or restores the old one on every path; addIP undoes the table-level add when the bucket-level add fails; the bucket index is derived from LogDist(self,id) with the low distances clamped into bucket 0.",
		NotDec: "that closest-node queries return the XOR-nearest nodes in order, and the capacity/limit invariants as value properties over arbitrary histories.",
		Rules:  "LOCKSET over p2p/discover; DOM must-pass-through per bucket mutation; PAIR removal ↔ removeIP and removeIP ↔ addIP restoration",
		MinObs: 62,
		Run:    c46,
	})
}

func c46(c *Ctx) {
	d := "p2p/discover"
	tb := d + ".Table."
	bk := d + ".bucket."
	T := "(*" + d + ".Table)."
	c.Lockset(LockSpec{
		Name: "C46", Pkg: d, Mutex: tb + "mutex",
		Fields: []string{tb + "buckets", tb + "nursery", tb + "ips", bk + "entries", bk + "replacements", bk + "ips"},
		Exempt: map[string]string{
			d + ".newTable":        "constructor: the table is not published yet",
			d + ".newMeteredTable": "constructor",
		},
		WriteOnly: map[string]string{
			tb + "buckets": "the array of *bucket pointers is filled once in newTable and never reassigned; what the mutex protects is the content of each bucket (entries, replacements, ips)",
			tb + "nursery": "written only by setFallbackNodes (under the mutex) while the table is being set up, before the loop goroutine that reads it in loadSeedNodes is started",
		},
		MinSites: 40,
	})
	// Table.rand is not in the guarded set: reseedingRandom carries its own mutex (checked here)
	c.Lockset(LockSpec{Name: "C46.rand", Pkg: d, Mutex: d + ".reseedingRandom.mu", Fields: []string{d + ".reseedingRandom.cur"}, MinSites: 4})

	// ---- admission to a bucket ------------------------------------------------------------------
	c.Rule("DOM/C46.add")
	ha := c.Fn(d, "(*Table).handleAddNode")
	var app []Site
	for _, s := range c.Stores(ha, bk+"entries") {
		if len(appendChain(s.Instr.(*ssa.Store).Val)) > 0 {
			app = append(app, s)
		}
	}
	c.Expect(1, len(app), "b.entries = append(…) in handleAddNode")
	c.Dom("not-self", ha, app, "append entry", GCond("id!=self", ha, Cmp(CallRes("(*p2p/enode.Node).ID"), token.NEQ, CallRes("(*p2p/enode.Node).ID"))))
	c.Dom("capacity", ha, app, "append entry", GCond("len(b.entries)<bucketSize", ha, Cmp(Len(Fld(bk+"entries")), token.LSS, ConstInt(16))))
	c.Dom("ip-limit", ha, app, "append entry", GOkChecked("tab.addIP(b, ip)", c.Calls(ha, T+"addIP"), 0))
	c.Dom("not-already-present", ha, app, "append entry", GCond("bumpInBucket found nothing", ha, Cmp(CallResN(T+"bumpInBucket", 0), token.EQL, Nil())))
	ar := c.Fn(d, "(*Table).addReplacement")
	push := c.Calls(ar, d+".pushNode")
	c.Expect(1, len(push), "pushNode in addReplacement")
	c.Dom("replacement-ip-limit", ar, push, "pushNode", GOkChecked("tab.addIP(b, ip)", c.Calls(ar, T+"addIP"), 0))
	c.Dom("replacement-not-duplicate", ar, push, "pushNode", GCond("!containsID", ar, False(CallRes(d+".containsID"))))

	// ---- IP accounting moves with membership --------------------------------------------------------------
	c.Rule("PAIR/C46.ip")
	c.Dom("pushed-out-releases-ip", ar, c.Returns(ar), "return", GCond("already contained", ar, True(CallRes(d+".containsID"))),
		GCond("addIP failed", ar, False(CallRes(T+"addIP"))),
		GCond("removed==nil", ar, Cmp(CallResN(d+".pushNode", 1), token.EQL, Nil())),
		GCall("tab.removeIP(b, removed.IPAddr())", c.Calls(ar, T+"removeIP")))
	di := c.Fn(d, "(*Table).deleteInBucket")
	var del []Site
	for _, s := range c.Stores(di, bk+"entries") {
		if CallRes("slices.Delete")(s.Instr.(*ssa.Store).Val) {
			del = append(del, s)
		}
	}
	c.Expect(1, len(del), "b.entries = slices.Delete(…) in deleteInBucket")
	c.Followed("delete-releases-ip", di, del, "delete entry", c.Calls(di, T+"removeIP"), "tab.removeIP(b, n.IPAddr())", c.Returns(di))
	bi := c.Fn(d, "(*Table).bumpInBucket")
	rm := c.Calls(bi, T+"removeIP")
	adds := c.Calls(bi, T+"addIP")
	c.Expect(1, len(rm), "removeIP in bumpInBucket")
	c.Expect(2, len(adds), "addIP calls in bumpInBucket")
	okEdges := map[Edge]bool{}
	var restore []Site
	for _, a := range adds {
		te := ResultTrueEdges(a.Instr.(*ssa.Call), 0)
		if len(te) > 0 {
			for e := range te {
				okEdges[e] = true
			}
		} else {
			restore = append(restore, a)
		}
	}
	for _, r := range rm {
		hit := ReachesBefore(r.Instr, sitesToSet(restore), okEdges, sitesToSet(c.Returns(bi)))
		c.Check(len(restore) == 1 && hit == nil, "endpoint-update-keeps-count/"+fnName(bi), r.Pos(),
			"after removing the old IP every path counts the new IP or restores the old one", "an endpoint update can leave the node in its bucket with no IP counted (removeIP without a successful addIP or a restoring addIP)")
	}
	ai := c.Fn(d, "(*Table).addIP")
	var bucketAdd []Site
	for _, s := range c.Calls(ai, "(*p2p/netutil.DistinctNetSet).AddAddr") {
		if FldAddr(bk + "ips")(callRecv(s.Instr.(*ssa.Call).Common())) {
			bucketAdd = append(bucketAdd, s)
		}
	}
	c.Expect(1, len(bucketAdd), "b.ips.AddAddr in addIP")
	var tabAdd, tabRemove []Site
	for _, x := range c.Calls(ai, "(*p2p/netutil.DistinctNetSet).AddAddr") {
		if FldAddr(tb + "ips")(callRecv(x.Instr.(*ssa.Call).Common())) {
			tabAdd = append(tabAdd, x)
		}
	}
	for _, x := range c.Calls(ai, "(*p2p/netutil.DistinctNetSet).RemoveAddr") {
		if FldAddr(tb + "ips")(callRecv(x.Instr.(*ssa.Call).Common())) {
			tabRemove = append(tabRemove, x)
		}
	}
	c.Expect(1, len(tabAdd), "tab.ips.AddAddr in addIP")
	falseRets := c.ReturnsWhere(ai, 0, ConstBool(false))
	for _, ta := range tabAdd {
		for e := range ResultTrueEdges(ta.Instr.(*ssa.Call), 0) {
			start := e.From.Succs[e.Succ]
			bad := mustPassFrom(ai, start, 0, falseRets, []Guard{GCall("tab.ips.RemoveAddr(ip)", tabRemove)})
			c.Check(len(tabRemove) > 0 && len(bad) == 0, "bucket-limit-failure-undoes-table-add/"+fnName(ai), ta.Pos(),
				"once the table-level set accepted the address, every failing exit removes it again", "addIP can fail after the table-level add without undoing it (table-wide IP count leaks)")
		}
	}

	// ---- bucket index ---------------------------------------------------------------------------------------
	c.Rule("DOM/C46.bucket")
	bf := c.Fn(d, "(*Table).bucket")
	c.ArgIs("distance-from-self", bf, c.Calls(bf, T+"bucketAtDistance"), "bucketAtDistance", 0, CallRes("p2p/enode.LogDist", CallRes("(*p2p/enode.Node).ID", nil)), "enode.LogDist(self.ID(), id)")
	ba := c.Fn(d, "(*Table).bucketAtDistance")
	var idx []Site
	eachInstr(ba, func(in ssa.Instruction) {
		if ia, ok := in.(*ssa.IndexAddr); ok && FldAddr(tb+"buckets")(ia.X) {
			idx = append(idx, Site{ba, in})
		}
	})
	c.Expect(2, len(idx), "bucket index expressions")
	for _, s := range idx {
		ia := s.Instr.(*ssa.IndexAddr)
		if ConstInt(0)(ia.Index) {
			c.OK("clamped-low/"+fnName(ba), s.Pos(), "low distances map to bucket 0")
			continue
		}
		c.Dom("index-positive", ba, []Site{s}, "buckets[d-min-1]", GCond("d>bucketMinDistance", ba, Cmp(Param("d"), token.GTR, Any())))
	}
}
