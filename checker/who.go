package main

import (
	"sort"
	"strings"

	"golang.org/x/tools/go/ssa"
)

// nestedFieldName: for FieldAddr(FieldAddr(x, data), Balance) returns
// "pkg.T.data.Balance"; for plain fields "pkg.T.f".
func nestedFieldName(fa *ssa.FieldAddr) string {
	name := fieldAddrName(fa)
	if inner, ok := fa.X.(*ssa.FieldAddr); ok {
		outer := fieldAddrName(inner)
		if outer != "" {
			return outer + "." + name[strings.LastIndex(name, ".")+1:]
		}
	}
	return name
}

// fieldWriters maps each listed field to the functions of the package that
// write it (store, map update/delete through it, element store, append back).
func (c *Ctx) fieldWriters(rel string, fields []string) map[string]map[string]ssa.Instruction {
	want := map[string]bool{}
	for _, f := range fields {
		want[f] = true
	}
	out := map[string]map[string]ssa.Instruction{}
	for _, fn := range c.AllFuncs(rel) {
		eachInstr(fn, func(in ssa.Instruction) {
			fa, ok := in.(*ssa.FieldAddr)
			if !ok {
				return
			}
			n := nestedFieldName(fa)
			if !want[n] {
				n = fieldAddrName(fa)
				if !want[n] {
					return
				}
			}
			if freshBase(fa.X) {
				return // construction of an object not yet published
			}
			if isWriteUse(fa) {
				if out[n] == nil {
					out[n] = map[string]ssa.Instruction{}
				}
				if _, seen := out[n][fnName(fn)]; !seen {
					out[n][fnName(fn)] = in
				}
			}
		})
	}
	return out
}

// WhoWrites: the set of functions writing each field is contained in the
// allowed table (function -> reason). One obligation per (field, writer).
func (c *Ctx) WhoWrites(name, rel string, allowed map[string]map[string]string) {
	var fields []string
	for f := range allowed {
		fields = append(fields, f)
	}
	sort.Strings(fields)
	ws := c.fieldWriters(rel, fields)
	for _, f := range fields {
		var fns []string
		for fn := range ws[f] {
			fns = append(fns, fn)
		}
		sort.Strings(fns)
		if len(fns) == 0 {
			c.Undecided(name+"/"+f, 0, "no writer of this field found (field renamed or rule vacuous)")
			continue
		}
		short := f[strings.Index(f, ".")+1:]
		for _, fn := range fns {
			in := ws[f][fn]
			pos := Site{in.Parent(), in}.Pos()
			if why, ok := allowed[f][fn]; ok {
				c.OK(name+"/"+short+"/"+fn, pos, "allowed writer: "+why)
			} else {
				c.Bad(name+"/"+short+"/"+fn, pos, fn+" writes "+f+" but is not one of the functions allowed to (journaled mutators, their undo entries, construction/copy, finalise/commit)")
			}
		}
		c.Sites += len(fns)
	}
}
