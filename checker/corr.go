package main

import (
	"go/token"

	"golang.org/x/tools/go/ssa"
)

// stripNot removes leading negations: returns the underlying value and
// whether an odd number of negations was removed.
func stripNot(v ssa.Value) (ssa.Value, bool) {
	neg := false
	for {
		u, ok := v.(*ssa.UnOp)
		if !ok || u.Op != token.NOT {
			return v, neg
		}
		v = u.X
		neg = !neg
	}
}

var corrCache = map[*ssa.Function]map[ssa.Value]int{}

// corrConds returns the condition values (negations stripped) that control
// two or more Ifs of f, indexed densely (at most 16 are tracked).
func corrConds(f *ssa.Function) map[ssa.Value]int {
	if m, ok := corrCache[f]; ok {
		return m
	}
	count := map[ssa.Value]int{}
	var order []ssa.Value
	for _, b := range f.Blocks {
		if len(b.Instrs) == 0 {
			continue
		}
		iff, ok := b.Instrs[len(b.Instrs)-1].(*ssa.If)
		if !ok {
			continue
		}
		v, _ := stripNot(iff.Cond)
		if _, isConst := v.(*ssa.Const); isConst {
			continue
		}
		if count[v] == 0 {
			order = append(order, v)
		}
		count[v]++
	}
	m := map[ssa.Value]int{}
	for _, v := range order {
		if count[v] >= 2 && len(m) < 16 {
			m[v] = len(m)
		}
	}
	corrCache[f] = m
	return m
}
