package main

import (
	"go/token"

	"golang.org/x/tools/go/ssa"
)

// stripNot removes leading negations: returns the underlying value and
// whether an odd number of negations was removed.
func stripNot(v ssa.Value) (ssa.Value, bool) {
	neg := false
	for {
		u, ok := v.(*ssa.UnOp)
		if !ok || u.Op != token.NOT {
			return v, neg
		}
		v = u.X
		neg = !neg
	}
}

type corrInfo struct {
	idx    map[ssa.Value]int
	resets map[*ssa.BasicBlock][]int
}

var corrCache = map[*ssa.Function]*corrInfo{}

// storedFields: fields written anywhere in f (loads of those are not treated
// as equal across program points).
func fieldsStoredIn(f *ssa.Function) map[string]bool {
	out := map[string]bool{}
	eachInstr(f, func(in ssa.Instruction) {
		if st, ok := in.(*ssa.Store); ok {
			if fa, ok := st.Addr.(*ssa.FieldAddr); ok {
				out[fieldAddrName(fa)] = true
			}
		}
	})
	return out
}

// mentionsStoredField: the expression loads a field that f also stores.
func mentionsStored(v ssa.Value, stored map[string]bool, d int) bool {
	if v == nil || d > 6 {
		return false
	}
	switch x := v.(type) {
	case *ssa.UnOp:
		if fa, ok := x.X.(*ssa.FieldAddr); ok && x.Op == token.MUL {
			if stored[fieldAddrName(fa)] {
				return true
			}
			return mentionsStored(fa.X, stored, d+1)
		}
		if _, ok := x.X.(*ssa.Alloc); ok && x.Op == token.MUL {
			return true // mutable local cell
		}
		return mentionsStored(x.X, stored, d+1)
	case *ssa.BinOp:
		return mentionsStored(x.X, stored, d+1) || mentionsStored(x.Y, stored, d+1)
	case *ssa.Call:
		if _, ok := x.Call.Value.(*ssa.Builtin); ok {
			for _, a := range x.Call.Args {
				if mentionsStored(a, stored, d+1) {
					return true
				}
			}
			return false
		}
		return false // distinct calls are never merged anyway (SSA identity only)
	case *ssa.IndexAddr:
		return mentionsStored(x.X, stored, d+1) || mentionsStored(x.Index, stored, d+1)
	case *ssa.Convert:
		return mentionsStored(x.X, stored, d+1)
	}
	return false
}

func phisIn(v ssa.Value, out map[*ssa.Phi]bool, d int) {
	if v == nil || d > 6 {
		return
	}
	switch x := v.(type) {
	case *ssa.Phi:
		out[x] = true
	case *ssa.UnOp:
		phisIn(x.X, out, d+1)
	case *ssa.BinOp:
		phisIn(x.X, out, d+1)
		phisIn(x.Y, out, d+1)
	case *ssa.Call:
		for _, a := range x.Call.Args {
			phisIn(a, out, d+1)
		}
	case *ssa.IndexAddr:
		phisIn(x.X, out, d+1)
		phisIn(x.Index, out, d+1)
	case *ssa.FieldAddr:
		phisIn(x.X, out, d+1)
	case *ssa.Convert:
		phisIn(x.X, out, d+1)
	case *ssa.Extract:
		phisIn(x.Tuple, out, d+1)
	}
}

// corrOf computes the correlated conditions of f: condition values (negations
// stripped) that control two or more Ifs. Two textually separate but
// structurally identical pure conditions (same operator over the same SSA
// operands / unstored field loads / len of those) count as the same condition.
func corrOf(f *ssa.Function) *corrInfo {
	if ci, ok := corrCache[f]; ok {
		return ci
	}
	stored := fieldsStoredIn(f)
	var reps []ssa.Value
	count := []int{}
	member := map[ssa.Value]int{}
	for _, b := range f.Blocks {
		if len(b.Instrs) == 0 {
			continue
		}
		iff, ok := b.Instrs[len(b.Instrs)-1].(*ssa.If)
		if !ok {
			continue
		}
		v, _ := stripNot(iff.Cond)
		if _, isConst := v.(*ssa.Const); isConst {
			continue
		}
		if _, seen := member[v]; seen {
			count[member[v]]++
			continue
		}
		g := -1
		if !mentionsStored(v, stored, 0) {
			for i, r := range reps {
				if r != v && sameValue(r, v) && !mentionsStored(r, stored, 0) {
					g = i
					break
				}
			}
		}
		if g < 0 {
			reps = append(reps, v)
			count = append(count, 0)
			g = len(reps) - 1
		}
		member[v] = g
		count[g]++
	}
	ci := &corrInfo{idx: map[ssa.Value]int{}, resets: map[*ssa.BasicBlock][]int{}}
	dense := map[int]int{}
	for v, g := range member {
		if count[g] < 2 {
			continue
		}
		d, ok := dense[g]
		if !ok {
			if len(dense) >= 16 {
				continue
			}
			d = len(dense)
			dense[g] = d
		}
		ci.idx[v] = d
		// knowledge dies where an input is redefined: the blocks of the phis the
		// condition mentions, and for a condition that is itself an instruction,
		// a back edge into its own block is covered by the phi rule (a loop-variant
		// condition necessarily depends on a phi or on memory, which is excluded).
		ph := map[*ssa.Phi]bool{}
		phisIn(v, ph, 0)
		for p := range ph {
			ci.resets[p.Block()] = append(ci.resets[p.Block()], d)
		}
	}
	corrCache[f] = ci
	return ci
}

func corrConds(f *ssa.Function) map[ssa.Value]int { return corrOf(f).idx }

func corrResets(f *ssa.Function) map[*ssa.BasicBlock][]int { return corrOf(f).resets }

// blocksBetween: blocks dominated by from that lie on a path from `from` to
// `to` (both inclusive).
func blocksBetween(from, to *ssa.BasicBlock) map[*ssa.BasicBlock]bool {
	fwd := map[*ssa.BasicBlock]bool{}
	var walk func(b *ssa.BasicBlock)
	walk = func(b *ssa.BasicBlock) {
		if fwd[b] || !(b == from || from.Dominates(b)) {
			return
		}
		fwd[b] = true
		for _, s := range b.Succs {
			walk(s)
		}
	}
	walk(from)
	out := map[*ssa.BasicBlock]bool{}
	var back func(b *ssa.BasicBlock)
	back = func(b *ssa.BasicBlock) {
		if out[b] || !fwd[b] {
			return
		}
		out[b] = true
		for _, p := range b.Preds {
			back(p)
		}
	}
	back(to)
	return out
}
