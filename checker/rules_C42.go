package main

import (
	"go/token"
	"go/types"
	"strings"

	"golang.org/x/tools/go/ssa"
)

func init() {
	Register(&Prop{
		ID:   "C42",
		Pkgs: []string{"core/txpool/blobpool"},
		Decided: "pool bookkeeping (index, spent, stored, lookup, eviction heap, gapped queue, state, limbo indices) is touched only under BlobPool.lock (writes under the write lock); the stored-size counter and the lookup table move together (every `stored +=` with lookup.track, every `stored -=` with lookup.untrack, in both directions); every lookup.untrack is matched by a store.Delete in the same function and every lookup.track outside the start-up indexer is dominated by an error-checked store.Put, so disk and index describe the same transactions; removing an account from the index also removes its spent entry, releases the reservation and removes it from the eviction heap; expenditure values reachable from spent/blobTxMeta are never mutated in place (spent may alias a transaction's costCap); included blobs are offloaded to limbo before their store entry is deleted; limbo.finalize deletes only groups not above the finalized number and limbo index/store updates are paired.",
		NotDec: "nonce contiguity, total affordability, eviction order = priority order and reopen equality as value-level facts over histories; the heap comparator's arithmetic; billy's own crash behaviour.",
		Rules:  "LOCKSET BlobPool.lock; PAIR stored↔track/untrack; PAIR untrack↔store.Delete, track↔store.Put (DOM, error-checked); PAIR delete(index)↔delete(spent)/Release/heap removal; IMMUT uint256 receivers; ORDER offload≺Delete; DOM limbo.finalize; PAIR limbo index↔store",
		MinObs: 330,
		Run:    c42,
	})
}

// u256ReadOnly: methods of *uint256.Int that do not write their receiver.
var u256ReadOnly = map[string]bool{
	"Cmp": true, "CmpUint64": true, "CmpBig": true, "Lt": true, "Gt": true, "Eq": true, "Slt": true, "Sgt": true,
	"LtUint64": true, "GtUint64": true, "IsZero": true, "IsUint64": true, "Uint64": true, "Uint64WithOverflow": true,
	"ToBig": true, "IntoBig": true, "Sign": true, "BitLen": true, "ByteLen": true, "Bytes": true, "Bytes32": true, "Bytes20": true,
	"Hex": true, "String": true, "Dec": true, "Clone": true, "Float64": true, "Log10": true, "MarshalText": true,
	"MarshalJSON": true, "EncodeRLP": true, "WriteToSlice": true, "WriteToArray32": true, "WriteToArray20": true,
	"PaddedBytes": true, "PutUint256": true, "Format": true, "PrettyDec": true, "Value": true, "MarshalSSZ": true,
	"MarshalSSZTo": true, "MarshalSSZInto": true, "MarshalSSZAppend": true, "SizeSSZ": true, "HashTreeRoot": true, "Byte": false,
}

func c42(c *Ctx) {
	bp := "core/txpool/blobpool"
	P := bp + ".BlobPool."
	BP := "(*" + bp + ".BlobPool)."
	c.Lockset(LockSpec{Name: "C42.pool", Pkg: bp, Mutex: P + "lock", RW: true,
		Fields: []string{P + "index", P + "spent", P + "stored", P + "evict", P + "lookup", P + "state", P + "gapped", P + "gappedSource",
			bp + ".limbo.index", bp + ".limbo.groups", bp + ".lookup.txIndex", bp + ".lookup.blobIndex"},
		Exempt: map[string]string{
			bp + ".New":       "constructor",
			bp + ".newLookup": "constructor",
			bp + ".newLimbo":  "constructor: the limbo is not yet attached to the pool",
			"(*" + bp + ".limbo).parseBlob": "indexing callback run by billy.Open inside newLimbo, before the limbo is attached to the pool",
			BP + "Init":   "initialisation: runs before the pool is handed to the tx pool and before any of its goroutines exist (SetGasTip, which it calls, locks for itself)",
			BP + "Init$1": "indexing callback run synchronously by billy.Open inside Init",
			"(*" + bp + ".lookup).sizeOfTx": "test-only helper: no caller in the non-test program",
		},
		Held: map[string]string{
			BP + "validateTx$1": "callback in the validation options, invoked synchronously by txpool.ValidateTransactionWithState inside validateTx, which requires the lock itself",
			BP + "validateTx$2": "as validateTx$1",
			BP + "validateTx$3": "as validateTx$1",
			BP + "validateTx$4": "as validateTx$1",
		},
		MinSites: 150})

	track := "(*" + bp + ".lookup).track"
	untrack := "(*" + bp + ".lookup).untrack"
	// ---- stored counter ↔ lookup table -------------------------------------------------------------
	c.Rule("PAIR/C42.size")
	nsz := 0
	paired := func(x ssa.Instruction, q []Site, exits []Site) bool {
		for _, s := range q {
			if s.Instr.Block() == x.Block() {
				return true
			}
		}
		return len(q) > 0 && ReachesBefore(x, sitesToSet(q), nil, sitesToSet(exits)) == nil
	}
	for _, f := range c.AllFuncs(bp) {
		st := c.Stores(f, P+"stored")
		tr, un := c.Calls(f, track), c.Calls(f, untrack)
		if len(st)+len(tr)+len(un) == 0 || f.Name() == "Clear" {
			continue
		}
		var adds, subs []Site
		for _, s := range st {
			v := strip(s.Instr.(*ssa.Store).Val)
			b, ok := v.(*ssa.BinOp)
			if !ok || !(b.Op == token.ADD || b.Op == token.SUB) || !Fld(P+"stored")(b.X) {
				c.Bad("shape/"+fnName(f), s.Pos(), "stored is assigned something other than stored ± size")
				continue
			}
			nsz++
			if b.Op == token.SUB {
				subs = append(subs, s)
				c.Check(paired(s.Instr, un, c.Returns(f)), "dec/"+fnName(f), s.Pos(), "stored -= size is accompanied by lookup.untrack", "the size counter shrinks but the transaction stays in the lookup table")
				continue
			}
			adds = append(adds, s)
			c.Check(paired(s.Instr, tr, c.Returns(f)), "inc/"+fnName(f), s.Pos(), "stored += size is accompanied by lookup.track", "the size counter grows but the transaction is not entered in the lookup table")
			if y, ok := strip(b.Y).(*ssa.BinOp); ok && y.Op == token.SUB {
				// replacement: stored += new - old
				subs = append(subs, s)
				c.Check(paired(s.Instr, un, c.Returns(f)), "swap/"+fnName(f), s.Pos(), "stored += new-old is accompanied by lookup.untrack of the old entry", "a replaced transaction's size leaves the counter but its lookup entry stays")
			}
		}
		for _, t := range tr {
			nsz++
			c.Check(paired(t.Instr, adds, c.Returns(f)), "track/"+fnName(f), t.Pos(), "lookup.track is accompanied by stored += size", "a transaction enters the lookup table without the size counter growing (Datacap eviction would lag)")
		}
		for _, t := range un {
			nsz++
			c.Check(paired(t.Instr, subs, c.Returns(f)), "untrack/"+fnName(f), t.Pos(), "lookup.untrack is accompanied by stored -= size", "a transaction leaves the lookup table without the size counter shrinking")
		}
	}
	c.Expect(27, nsz, "stored/track/untrack sites")

	// ---- disk ↔ index ------------------------------------------------------------------------------
	c.Rule("PAIR/C42.disk")
	nd := 0
	for _, f := range c.AllFuncs(bp) {
		un := c.Calls(f, untrack)
		if len(un) > 0 {
			dels := invokeOn(c, f, P+"store", "Delete")
			// the ids are collected and deleted in a loop after the bookkeeping: passing the
			// head of that loop counts (its trip count is the number of collected ids)
			q := append([]Site(nil), dels...)
			for _, d := range dels {
				if h := innermostLoopHeader(f, d.Instr.Block()); h != nil {
					q = append(q, Site{f, h.Instrs[len(h.Instrs)-1]})
				}
			}
			for _, u := range un {
				nd++
				ok := false
				for _, d := range dels {
					if instrDominates(d.Instr, u.Instr) {
						ok = true
					}
				}
				if !ok {
					ok = len(q) > 0 && ReachesBefore(u.Instr, sitesToSet(q), nil, sitesToSet(c.Returns(f))) == nil
				}
				c.Check(ok, "delete/"+fnName(f), u.Pos(), "a store.Delete (or the id-deletion loop) precedes or follows the untrack on every path", "a transaction is dropped from the in-memory index while its entry stays in the on-disk store (it would be resurrected on restart)")
			}
		}
		tr := c.Calls(f, track)
		if len(tr) > 0 && f.Name() != "trackTransaction" {
			nd += len(tr)
			c.Dom("PAIR/C42.disk/put", f, tr, "lookup.track", GErrChecked("store.Put succeeded", invokeOn(c, f, P+"store", "Put")))
		}
	}
	c.Expect(13, nd, "track/untrack sites (disk pairing)")
	// trackTransaction indexes what is already on disk: only the start-up indexer may call it
	for _, f := range c.AllFuncs(bp) {
		for _, s := range c.Calls(f, BP+"trackTransaction") {
			c.Check(f.Name() == "parseTransaction", "indexer/"+fnName(f), s.Pos(), "trackTransaction is called by the billy indexing callback", "trackTransaction (which indexes without writing to disk) is called outside the start-up indexer")
		}
	}
	if pt := c.Fn(bp, "(*BlobPool).parseTransaction"); pt != nil {
		// an undecodable or unsigned entry is reported to Init (which deletes it), not indexed
		c.Dom("PAIR/C42.disk/parse", pt, c.Calls(pt, BP+"trackTransaction"), "trackTransaction",
			GErrChecked("rlp.DecodeBytes succeeded", c.Calls(pt, "rlp.DecodeBytes")).Then(GErrChecked("types.Sender succeeded", c.Calls(pt, "core/types.Sender"))))
	}
	if in := c.TryFn(bp, "(*BlobPool).Init$1"); in != nil {
		// parse failures (other than legacy entries) are queued for deletion
		pcs := c.Calls(in, BP+"parseTransaction")
		errEdges := map[Edge]bool{}
		if len(pcs) == 1 {
			if call, ok := pcs[0].Instr.(*ssa.Call); ok {
				errEdges = ErrNilEdges(call)
			}
		}
		c.Check(len(errEdges) > 0, "init-fail/"+fnName(in), in.Pos(), "the indexing callback tests parseTransaction's error", "parse failures are not collected for deletion")
	}

	// ---- account removal ---------------------------------------------------------------------------
	c.Rule("PAIR/C42.acct")
	na := 0
	for _, f := range c.AllFuncs(bp) {
		dels := c.MapWrites(f, P+"index", true)
		if len(dels) == 0 {
			continue
		}
		sp := c.MapWrites(f, P+"spent", true)
		rel := c.Calls(f, "(core/txpool.Reserver).Release")
		hp := cat(c.Calls(f, "container/heap.Remove"), c.Calls(f, "container/heap.Pop"))
		// at start-up (inclusions == nil) the heap does not exist yet
		noHeap := EdgesWhere(f, Cmp(Param("inclusions"), token.EQL, Nil()))
		for _, d := range dels {
			na++
			ex := sitesToSet(c.Returns(f))
			c.Check(len(sp) > 0 && ReachesBefore(d.Instr, sitesToSet(sp), nil, ex) == nil, "spent/"+fnName(f), d.Pos(), "delete(p.spent, addr) follows on every path", "an account leaves the index but its expenditure entry stays (a later first transaction would be added on top of it)")
			c.Check(len(rel) > 0 && ReachesBefore(d.Instr, sitesToSet(rel), nil, ex) == nil, "release/"+fnName(f), d.Pos(), "reserver.Release(addr) follows on every path", "an account leaves the index but stays reserved by the blob pool")
			c.Check(len(hp) > 0 && ReachesBefore(d.Instr, sitesToSet(hp), noHeap, ex) == nil, "heap/"+fnName(f), d.Pos(), "heap.Remove/heap.Pop follows on every path (except at start-up, before the heap exists)", "an account leaves the index but stays in the eviction heap (drop() would index a missing account)")
		}
	}
	c.Expect(4, na, "delete(p.index, addr) sites")
	// a new account enters the heap
	for _, name := range []string{"(*BlobPool).addLocked", "(*BlobPool).reinject"} {
		f := c.Fn(bp, name)
		if f == nil {
			continue
		}
		push := cat(c.Calls(f, "container/heap.Push"), c.Calls(f, "(*"+bp+".evictHeap).Push"))
		c.Check(len(push) > 0, "push/"+fnName(f), f.Pos(), "the function pushes new accounts on the eviction heap", "new accounts are never pushed on the eviction heap")
	}

	// ---- expenditure values are immutable ------------------------------------------------------------
	c.Rule("IMMUT/C42.spent")
	ni := 0
	for _, f := range c.AllFuncs(bp) {
		eachInstr(f, func(in ssa.Instruction) {
			call, ok := in.(ssa.CallInstruction)
			if !ok {
				return
			}
			cc := call.Common()
			n := calleeName(cc)
			const pre = "(*github.com/holiman/uint256.Int)."
			if !strings.HasPrefix(n, pre) || cc.IsInvoke() || len(cc.Args) == 0 {
				return
			}
			m := strings.TrimPrefix(n, pre)
			if u256ReadOnly[m] {
				return
			}
			ni++
			c.Funcs[f] = true
			src := sharedU256(cc.Args[0], 0)
			c.Check(src == "", "recv/"+fnName(f)+"/"+m, in.Pos(), "receiver of the in-place uint256 operation is not a pooled expenditure value", "in-place uint256."+m+" on "+src+": spent entries and transactions' cost caps are shared pointers (reinject stores meta.costCap as the account's spent), so this corrupts another holder's value")
		})
	}
	c.Expect(20, ni, "mutating uint256 calls")

	// ---- limbo -----------------------------------------------------------------------------------
	c.Rule("ORDER/C42.limbo")
	if rc := c.Fn(bp, "(*BlobPool).recheck"); rc != nil {
		off := c.Calls(rc, BP+"offload")
		dels := invokeOn(c, rc, P+"store", "Delete")
		c.Expect(2, len(off), "offload calls in recheck")
		for _, d := range dels {
			hit := ReachesBefore(d.Instr, nil, nil, sitesToSet(off))
			c.Check(hit == nil, "offload-first/"+fnName(rc), d.Pos(), "no offload (which reads the blob back from the store) is reachable after this delete", "a store entry is deleted before the included blob is offloaded to limbo: the blob is lost and cannot be reinjected after a reorg")
		}
		// included transactions are offloaded: both `p.stored -=` loops that run under
		// inclusions != nil contain an offload
		c.Check(len(off) >= 2, "offload-present/"+fnName(rc), rc.Pos(), "filled and overlapped transactions are offloaded", "included transactions are no longer moved to limbo")
	}
	if of := c.Fn(bp, "(*BlobPool).offload"); of != nil {
		c.Dom("ORDER/C42.limbo/push", of, c.Calls(of, "(*"+bp+".limbo).push"), "limbo.push",
			GErrChecked("store.Get succeeded", invokeOn(c, of, P+"store", "Get")).Then(GErrChecked("decode succeeded", c.Calls(of, "rlp.DecodeBytes"))))
	}
	L := bp + ".limbo."
	if fz := c.Fn(bp, "(*limbo).finalize"); fz != nil {
		tg := cat(invokeOn(c, fz, L+"store", "Delete"), c.MapWrites(fz, L+"index", true), c.MapWrites(fz, L+"groups", true))
		c.Expect(3, len(tg), "finalize deletions")
		c.Dom("ORDER/C42.limbo/final", fz, tg, "limbo deletion",
			GCond("final != nil", fz, Cmp(Param("final"), token.NEQ, Nil())).Then(GCond("block <= final.Number", fz, Cmp(Any(), token.LEQ, CallRes("(*math/big.Int).Uint64")))))
		// the store entry and both indices go together
		for _, d := range invokeOn(c, fz, L+"store", "Delete") {
			again := sitesToSet(c.Returns(fz))
			again[d.Instr] = true
			hit := ReachesBefore(d.Instr, sitesToSet(c.MapWrites(fz, L+"index", true)), nil, again)
			c.Check(hit == nil, "final-pair/"+fnName(fz), d.Pos(), "delete(l.index, owner) follows the store.Delete before the next entry or return", "finalize deletes the blob from the store but keeps it indexed")
		}
	}
	if gd := c.Fn(bp, "(*limbo).getAndDrop"); gd != nil {
		ix := c.MapWrites(gd, L+"index", true)
		c.Followed("ORDER/C42.limbo/drop", gd, ix, "delete(l.index, hash)", invokeOn(c, gd, L+"store", "Delete"), "l.store.Delete(id)", c.Returns(gd))
		c.Dom("ORDER/C42.limbo/drop", gd, ix, "delete(l.index, hash)", GErrChecked("store.Get succeeded", invokeOn(c, gd, L+"store", "Get")))
	}
	if si := c.Fn(bp, "(*limbo).setAndIndex"); si != nil {
		ix := cat(c.MapWrites(si, L+"index", false), c.MapWrites(si, L+"groups", false))
		c.Dom("ORDER/C42.limbo/set", si, ix, "limbo index write", GErrChecked("store.Put succeeded", invokeOn(c, si, L+"store", "Put")))
		// both indices are written before a success return
		c.Followed("ORDER/C42.limbo/set", si, c.MapWrites(si, L+"index", false), "l.index[hash] = id", groupWrites(si), "l.groups[block][id] = hash", c.Returns(si))
	}
	if rs := c.Fn(bp, "(*BlobPool).Reset"); rs != nil {
		fin := c.Calls(rs, "(*"+bp+".limbo).finalize")
		c.Check(len(fin) == 1, "reset-finalizes/"+fnName(rs), rs.Pos(), "Reset flushes finalized blobs from limbo", "Reset no longer finalizes the limbo: included blobs are kept forever")
		c.ArgIs("ORDER/C42.limbo", rs, fin, "limbo.finalize", 0, CallRes("(core/txpool/blobpool.BlockChain).CurrentFinalBlock"), "chain.CurrentFinalBlock()")
	}
}

// sharedU256 describes v when it is (a phi/copy of) a value loaded from the
// spent map or from a blobTxMeta field; "" otherwise.
func sharedU256(v ssa.Value, d int) string {
	if d > 5 {
		return ""
	}
	v = strip(v)
	switch x := v.(type) {
	case *ssa.Phi:
		for _, e := range x.Edges {
			if s := sharedU256(e, d+1); s != "" {
				return s
			}
		}
	case *ssa.Lookup:
		if Fld("core/txpool/blobpool.BlobPool.spent")(x.X) {
			return "a value of p.spent"
		}
	case *ssa.Extract:
		if l, ok := x.Tuple.(*ssa.Lookup); ok && Fld("core/txpool/blobpool.BlobPool.spent")(l.X) {
			return "a value of p.spent"
		}
	case *ssa.UnOp:
		if fa, ok := x.X.(*ssa.FieldAddr); ok && x.Op == token.MUL {
			if n := fieldAddrName(fa); strings.HasPrefix(n, "core/txpool/blobpool.blobTxMeta.") {
				if _, isPtr := x.Type().(*types.Pointer); isPtr {
					return "the shared " + strings.TrimPrefix(n, "core/txpool/blobpool.")
				}
			}
		}
	}
	return ""
}

func firstBlockOf(ss []Site) *ssa.BasicBlock {
	if len(ss) == 0 {
		return nil
	}
	return ss[0].Instr.Block()
}

// groupWrites: l.groups[block][id] = hash (a MapUpdate on a lookup of limbo.groups).
func groupWrites(f *ssa.Function) []Site {
	var out []Site
	eachInstr(f, func(in ssa.Instruction) {
		if mu, ok := in.(*ssa.MapUpdate); ok {
			if l, ok := strip(mu.Map).(*ssa.Lookup); ok && Fld("core/txpool/blobpool.limbo.groups")(l.X) {
				out = append(out, Site{f, in})
			}
		}
	})
	return out
}

// innermostLoopHeader: header of the innermost natural loop containing b, or nil.
func innermostLoopHeader(f *ssa.Function, b *ssa.BasicBlock) *ssa.BasicBlock {
	var best *ssa.BasicBlock
	bestSize := 0
	for _, h := range f.Blocks {
		for _, p := range h.Preds {
			if !h.Dominates(p) {
				continue
			}
			body := loopBlocks(h)
			if body[b] && (best == nil || len(body) < bestSize) {
				best, bestSize = h, len(body)
			}
		}
	}
	return best
}

// instrDominates: a executes before b on every path that reaches b.
func instrDominates(a, b ssa.Instruction) bool {
	if a.Block() == b.Block() {
		return instrIndex(a) < instrIndex(b)
	}
	return a.Block().Dominates(b.Block())
}

// invokeOn: interface method calls named method whose receiver is loaded from field.
func invokeOn(c *Ctx, f *ssa.Function, field, method string) []Site {
	var out []Site
	eachInstr(f, func(in ssa.Instruction) {
		if ci, ok := in.(ssa.CallInstruction); ok {
			cc := ci.Common()
			if cc.IsInvoke() && cc.Method.Name() == method && Fld(field)(cc.Value) {
				out = append(out, Site{f, in})
			}
		}
	})
	c.Sites += len(out)
	return out
}
