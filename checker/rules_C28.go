package main

import (
	"go/token"
	"strings"

	"golang.org/x/tools/go/ssa"
)

func init() {
	Register(&Prop{
		ID:   "C28",
		Pkgs: []string{"core/vm", "core"},
		Decided: "a Memory goes back to the pool only fully reset: every field is reset, the clear covers the whole used buffer (the buffer is not re-sliced before it is cleared), and the reset precedes Put (Resize relies on pooled buffers being zero up to their capacity when it re-slices instead of allocating); a frame's stack slice of the shared arena is released and its memory freed by the same deferred function on every exit of Run, the arena's top is rewound before it is pooled, and Stack.get/push hand out the slot at the arena top and advance it; jump-destination analyses are cached under the hash of the very code analysed (every SetCallCode pairs resolveCodeHash(a) with resolveCode(a) of one address, or the zero hash for initcode), initcode analyses stay local to the contract, and the cached and local branch compute the same codeBitmap(c.Code); the shared precompile cache guards its maps with its mutexes, is consulted only for precompiles that declare themselves cacheable, under a key derived from the call's own input and a scope made of the active precompile set and the called address, stores only successful outputs, copies results in and out, and gas charging/touching happen before and independently of a hit.",
		NotDec: "equality of execution results across histories and schedules (run-time); thread-safety internals of the lru caches; that precompiles declaring themselves cacheable are pure.",
		Rules:  "POOLRESET Memory.Free (FIELDCOV + ORDER + full clear); PAIR release/Free in Run; SAMEVAL code/hash pairing; LOCKSET precompile cache; DOM cache eligibility; COPY in/out",
		MinObs: 54,
		Run:    c28,
	})
}

func c28(c *Ctx) {
	M := vmp + ".Memory."
	// ---- pooled memory ------------------------------------------------------------------------------
	c.Rule("POOLRESET/C28.memory")
	if fr := c.Fn(vmp, "(*Memory).Free"); fr != nil {
		c.Funcs[fr] = true
		put := c.Calls(fr, "(*sync.Pool).Put")
		c.Expect(1, len(put), "memoryPool.Put in Free")
		var clr []Site
		eachInstr(fr, func(in ssa.Instruction) {
			if call, ok := in.(*ssa.Call); ok {
				if b, ok := call.Call.Value.(*ssa.Builtin); ok && b.Name() == "clear" && Fld(M + "store")(call.Call.Args[0]) {
					clr = append(clr, Site{fr, in})
				}
			}
		})
		st := c.Stores(fr, M+"store")
		gc := c.Stores(fr, M+"lastGasCost")
		c.Dom("cleared", fr, put, "Put", GSites("clear(m.store)", clr).Then(GSites("m.store = m.store[:0]", st)))
		c.Dom("gas-reset", fr, put, "Put", GSites("m.lastGasCost = 0", gc))
		for _, s := range gc {
			c.Check(ConstInt(0)(s.Instr.(*ssa.Store).Val), "gas-zero/"+fnName(fr), s.Pos(), "the gas watermark returns to zero", "the memory gas watermark is not reset to zero")
		}
		// the clear sees the buffer as the frame left it: no re-slice of m.store can precede it
		for _, k := range clr {
			for _, s := range st {
				c.Check(!instrReaches(s.Instr, k.Instr), "full-clear/"+fnName(fr), s.Pos(), "the buffer is cleared before it is re-sliced", "m.store is re-sliced before clear(m.store): bytes beyond the new length stay dirty and a later frame's Resize exposes them as memory it never wrote")
			}
		}
		for _, s := range st {
			sl, ok := s.Instr.(*ssa.Store).Val.(*ssa.Slice)
			c.Check(ok && Fld(M+"store")(sl.X) && sl.Low == nil && sl.High != nil && ConstInt(0)(sl.High), "truncate/"+fnName(fr), s.Pos(), "the pooled buffer has length zero", "the pooled buffer keeps a non-zero length")
		}
		if T := c.Type(vmp, "Memory"); T != nil {
			c.CovReset("reset", fr, T, nil)
		}
	}
	if nm := c.Fn(vmp, "NewMemory"); nm != nil {
		c.Check(len(c.Calls(nm, "(*sync.Pool).Get")) == 1, "get/"+fnName(nm), nm.Pos(), "memories come from the pool", "NewMemory no longer uses the pool")
	}
	if rs := c.Fn(vmp, "(*Memory).Resize"); rs != nil {
		// growth within capacity re-slices (relies on zeroed capacity), otherwise appends fresh zero bytes
		n := 0
		for _, s := range c.Stores(rs, M+"store") {
			n++
			v := s.Instr.(*ssa.Store).Val
			_, isSl := v.(*ssa.Slice)
			okApp := false
			for _, ap := range appendChain(v) {
				if len(ap.Call.Args) == 2 {
					if _, isMk := ap.Call.Args[1].(*ssa.MakeSlice); isMk {
						okApp = true
					}
				}
			}
			c.Check(isSl || okApp, "grow/"+fnName(rs), s.Pos(), "memory grows by re-slicing or by appending a fresh zero slice", "memory grows with bytes that are not fresh zeroes")
		}
		c.Expect(2, n, "growth sites in Resize")
	}

	// ---- stack arena ---------------------------------------------------------------------------------
	c.Rule("PAIR/C28.arena")
	SA := vmp + ".stackArena."
	if rsk := c.Fn(vmp, "returnStack"); rsk != nil {
		c.Dom("rewound", rsk, c.Calls(rsk, "(*sync.Pool).Put"), "stackPool.Put", GSites("arena.top = 0", c.Stores(rsk, SA+"top")))
	}
	if rl := c.Fn(vmp, "(*Stack).release"); rl != nil {
		st := c.Stores(rl, SA+"top")
		okRel := len(st) == 1
		if okRel {
			v := st[0].Instr.(*ssa.Store).Val
			b, isSub := v.(*ssa.BinOp)
			// top = bottom, or the equivalent top -= size
			okRel = Fld(vmp+".Stack.bottom")(v) || (isSub && b.Op == token.SUB && Fld(SA+"top")(b.X) && Fld(vmp+".Stack.size")(b.Y))
		}
		c.Check(okRel, "release/"+fnName(rl), rl.Pos(), "release rewinds the arena top to the frame's bottom", "release does not rewind the arena to the frame's bottom")
	}
	if sk := c.Fn(vmp, "(*stackArena).stack"); sk != nil {
		for _, s := range c.Stores(sk, vmp+".Stack.bottom") {
			c.Check(Fld(SA+"top")(s.Instr.(*ssa.Store).Val), "bottom/"+fnName(sk), s.Pos(), "a new frame starts at the arena top", "a new frame's stack does not start at the arena top (it would overlap its caller's stack)")
		}
		c.Check(len(EdgesWhere(sk, Cmp(Len(Fld(SA+"data")), token.LEQ, Any()))) >= 1, "grow/"+fnName(sk), sk.Pos(), "the arena grows when fewer than 1024 free slots remain", "the arena no longer guarantees 1024 slots per frame")
	}
	if run := c.Fn(vmp, "(*EVM).Run"); run != nil {
		var both []*ssa.Function
		for _, an := range run.AnonFuncs {
			if len(c.Calls(an, "(*"+vmp+".Stack).release")) == 1 && len(c.Calls(an, "(*"+vmp+".Memory).Free")) == 1 {
				both = append(both, an)
			}
		}
		if c.Check(len(both) == 1, "cleanup/"+fnName(run), run.Pos(), "one deferred function releases the stack and frees the memory", "Run has no deferred function that both releases the stack and frees the memory") {
			var df []Site
			eachInstr(run, func(in ssa.Instruction) {
				if d, ok := in.(*ssa.Defer); ok {
					if mc, ok := d.Call.Value.(*ssa.MakeClosure); ok && mc.Fn == both[0] {
						df = append(df, Site{run, in})
					}
				}
			})
			c.Check(len(df) == 1, "cleanup-deferred/"+fnName(run), run.Pos(), "the cleanup is deferred", "the cleanup function is not deferred")
			// every exit after the acquisition runs it
			acq := cat(c.Calls(run, vmp+".NewMemory"), c.Calls(run, "(*"+vmp+".stackArena).stack"))
			c.Expect(2, len(acq), "memory/stack acquisitions in Run")
			for _, a := range acq {
				hit := ReachesBefore(a.Instr, sitesToSet(df), nil, sitesToSet(c.Returns(run)))
				c.Check(hit == nil, "cleanup-covers/"+fnName(run), a.Pos(), "no exit lies between the acquisition and the deferred cleanup", "Run can return after acquiring the pooled stack/memory without the cleanup being deferred")
			}
		}
	}
	if cl := c.TryFn(vmp, "(*EVM).Release"); cl != nil {
		c.Check(len(c.Calls(cl, vmp+".returnStack")) == 1, "evm-release/"+fnName(cl), cl.Pos(), "the arena is returned when the EVM is released", "EVM.Release does not return the stack arena")
	}

	c28CodePair(c, "SAMEVAL/C28.code")

	// ---- precompile cache ---------------------------------------------------------------------------
	c.Lockset(LockSpec{Name: "C28.pcdata", Pkg: vmp, Mutex: vmp + ".precompileCacheData.mu", RW: true,
		Fields: []string{vmp + ".precompileCacheData.caches"},
		Exempt: map[string]string{vmp + ".NewPrecompileCache": "constructor"}, MinSites: 4})
	c.Lockset(LockSpec{Name: "C28.pcmeters", Pkg: vmp, Mutex: vmp + ".PrecompileCache.mu", RW: true,
		Fields: []string{vmp + ".PrecompileCache.meters"},
		Exempt: map[string]string{vmp + ".NewPrecompileCache": "constructor"}, MinSites: 3})
	c.Rule("DOM/C28.pccache")
	PC := "(*" + vmp + ".PrecompileCache)."
	if rp := c.Fn(vmp, "RunPrecompiledContract"); rp != nil {
		ld, sto := c.Calls(rp, PC+"load"), c.Calls(rp, PC+"store")
		key := c.Calls(rp, vmp+".precompileCacheKey")
		c.Expect(1, len(ld), "cache.load")
		c.Expect(1, len(sto), "cache.store")
		elig := GCond("cache != nil", rp, Cmp(Param("cache"), token.NEQ, Nil())).Then(GCond("precompileCacheKey ok", rp, True(CallResN(vmp+".precompileCacheKey", 1))))
		c.Dom("eligible", rp, cat(ld, sto), "cache access", elig)
		c.ArgIs("key-input", rp, key, "precompileCacheKey(input)", 1, Param("input"), "the call's own input")
		c.ArgIs("key-precompile", rp, key, "precompileCacheKey(p)", 0, Param("p"), "the precompile being run")
		for _, s := range cat(ld, sto) {
			a := s.Instr.(*ssa.Call).Call.Args
			c.Check(CallResN(vmp+".precompileCacheKey", 0)(a[2]), "key-used/"+fnName(rp), s.Pos(), "the cache is addressed with the derived key", "the cache is addressed with something other than the derived key")
		}
		// scope = (active precompile set, address)
		nsc := 0
		eachInstr(rp, func(in ssa.Instruction) {
			st, ok := in.(*ssa.Store)
			if !ok {
				return
			}
			fa, ok := st.Addr.(*ssa.FieldAddr)
			if !ok {
				return
			}
			switch fieldAddrName(fa) {
			case vmp + ".precompileCacheScope.set":
				nsc++
				c.Check(CallRes(vmp+".activePrecompiledContracts", Param("rules"))(st.Val), "scope-set/"+fnName(rp), st.Pos(), "the scope carries the active precompile set of the call's rules", "the cache scope does not carry the active precompile set (results of different forks would be mixed)")
			case vmp + ".precompileCacheScope.addr":
				nsc++
				c.Check(Param("address")(st.Val), "scope-addr/"+fnName(rp), st.Pos(), "the scope carries the called address", "the cache scope does not carry the called precompile's address")
			}
		})
		c.Expect(2, nsc, "scope fields")
		// only successful, bounded outputs are stored; the run precedes the store and uses the same input
		var runs []Site
		eachInstr(rp, func(in ssa.Instruction) {
			if ci, ok := in.(ssa.CallInstruction); ok && ci.Common().IsInvoke() && ci.Common().Method.Name() == "Run" {
				runs = append(runs, Site{rp, in})
			}
		})
		c.Dom("store-success", rp, sto, "cache.store", GErrChecked("p.Run succeeded", runs))
		for _, s := range sto {
			a := s.Instr.(*ssa.Call).Call.Args
			okOut := false
			for _, r := range runs {
				if resultValues(r.Instr.(*ssa.Call), 0)[a[3]] {
					okOut = true
				}
			}
			c.Check(okOut, "store-output/"+fnName(rp), s.Pos(), "what is stored is this run's output", "the cached value is not the output of the run just performed")
		}
		for _, r := range runs {
			c.Check(Param("input")(r.Instr.(ssa.CallInstruction).Common().Args[0]), "run-input/"+fnName(rp), r.Pos(), "the precompile runs on the call's input", "the precompile is run on something other than the call's input")
		}
		// gas is charged before, and independently of, the cache
		ch := c.Calls(rp, "(*"+vmp+".GasBudget).ChargeExecution")
		c.Dom("charged-first", rp, cat(ld, runs), "cache lookup / run", GCond("gas charged", rp, True(CallResN("(*"+vmp+".GasBudget).ChargeExecution", 1))))
		c.Expect(1, len(ch), "gas charge")
	}
	if ky := c.Fn(vmp, "precompileCacheKey"); ky != nil {
		var yes []Site
		for _, r := range c.Returns(ky) {
			if !ConstBool(false)(retVal(r.Instr.(*ssa.Return), 1)) {
				yes = append(yes, r)
			}
		}
		var cacheable []Site
		eachInstr(ky, func(in ssa.Instruction) {
			if ci, ok := in.(ssa.CallInstruction); ok && ci.Common().IsInvoke() && ci.Common().Method.Name() == "Cacheable" {
				cacheable = append(cacheable, Site{ky, in})
			}
		})
		if c.Check(len(cacheable) == 1, "cacheable/"+fnName(ky), ky.Pos(), "the precompile is asked whether it is cacheable", "precompileCacheKey no longer asks the precompile whether it is cacheable") {
			c.Dom("cacheable-only", ky, yes, "key handed out", GCond("p.Cacheable()", ky, True(Is(cacheable[0].Instr.(ssa.Value)))))
		}
		for _, r := range yes {
			v := retVal(r.Instr.(*ssa.Return), 0)
			c.Check(Mentions(Param("input"))(v), "key-from-input/"+fnName(ky), r.Pos(), "the key is the (normalised) input", "the key is not derived from the input")
		}
	}
	for _, name := range []string{"(*PrecompileCache).load", "(*PrecompileCache).store"} {
		f := c.Fn(vmp, name)
		if f == nil {
			continue
		}
		cp := c.Calls(f, "common.CopyBytes")
		c.Check(len(cp) == 1, "copied/"+fnName(f), f.Pos(), "results are copied across the cache boundary", "cached results are shared by reference with callers (a caller mutating its return data would poison the cache)")
	}
	if sh := c.Fn(corep, "(*shardedJumpDestCache).Load"); sh != nil {
		st := c.Fn(corep, "(*shardedJumpDestCache).Store")
		idx := func(f *ssa.Function) string {
			out := ""
			eachInstr(f, func(in ssa.Instruction) {
				if ia, ok := in.(*ssa.IndexAddr); ok && Fld(corep + ".shardedJumpDestCache.buckets")(ia.X) || ok && strings.Contains(ia.X.Type().String(), "dest") {
					out = valDesc(ia.Index)
				}
			})
			return out
		}
		if st != nil {
			a, b := idx(sh), idx(st)
			c.Check(a != "" && a == b, "shard/"+fnName(sh), sh.Pos(), "Load and Store pick the shard the same way", "Load and Store address different shards for the same hash ("+a+" vs "+b+")")
		}
	}
}

// c28CodePair: the jump-destination cache is keyed by the hash of the code it analysed.
func c28CodePair(c *Ctx, rule string) {
	// ---- code ↔ hash pairing ------------------------------------------------------------------------
	c.Rule(rule)
	nsc := 0
	for _, f := range c.AllFuncs(vmp) {
		for _, s := range c.Calls(f, "(*"+vmp+".Contract).SetCallCode") {
			nsc++
			a := s.Instr.(*ssa.Call).Call.Args
			h, code := a[1], a[2]
			okPair := false
			if hc, ok := h.(*ssa.Call); ok && calleeName(&hc.Call) == "(*"+vmp+".EVM).resolveCodeHash" {
				if cc, ok := strip(code).(*ssa.Call); ok && calleeName(&cc.Call) == "(*"+vmp+".EVM).resolveCode" {
					okPair = sameValue(hc.Call.Args[1], cc.Call.Args[1])
				}
			}
			isZero := false
			if k, ok := h.(*ssa.Const); ok && k.Value == nil {
				isZero = true
			}
			if u, ok := h.(*ssa.UnOp); ok {
				if al, ok := u.X.(*ssa.Alloc); ok {
					n := 0
					for _, r := range *al.Referrers() {
						if _, isSt := r.(*ssa.Store); isSt {
							n++
						}
					}
					isZero = n == 0
				}
			}
			c.Funcs[f] = true
			c.Check(okPair || isZero, "pair/"+fnName(f), s.Pos(), "code and hash are resolved from the same address (or the hash is zero for initcode)", "the contract's code hash and code are not resolved from the same address: a jump-destination analysis would be cached under the hash of different code")
		}
	}
	c.Expect(5, nsc, "SetCallCode sites")
	if ic := c.Fn(vmp, "(*Contract).isCode"); ic != nil {
		C := vmp + ".Contract."
		var stores []Site
		eachInstr(ic, func(in ssa.Instruction) {
			if call, ok := in.(ssa.CallInstruction); ok && call.Common().IsInvoke() && call.Common().Method.Name() == "Store" {
				stores = append(stores, Site{ic, in})
			}
		})
		c.Expect(1, len(stores), "shared-cache stores in isCode")
		c.Dom("shared-only-hashed", ic, stores, "jumpDests.Store", GCond("c.CodeHash != zero", ic, Cmp(Fld(C+"CodeHash"), token.NEQ, Any())))
		for _, s := range stores {
			a := s.Instr.(ssa.CallInstruction).Common().Args
			okK := Fld(C + "CodeHash")(a[0])
			okV := false
			val := a[1]
			if w := forwardStore(val, s.Instr); w != nil {
				val = w
			}
			if call, ok := val.(*ssa.Call); ok && calleeName(&call.Call) == vmp+".codeBitmap" {
				okV = Fld(C + "Code")(call.Call.Args[0])
			}
			c.Check(okK && okV, "shared-key/"+fnName(ic), s.Pos(), "the analysis of c.Code is stored under c.CodeHash", "the shared cache entry is not codeBitmap(c.Code) under c.CodeHash")
		}
		for _, s := range c.Calls(ic, vmp+".codeBitmap") {
			c.Check(Fld(C+"Code")(s.Instr.(*ssa.Call).Call.Args[0]), "analysed-code/"+fnName(ic), s.Pos(), "the analysis is of the contract's own code", "the jump-destination analysis is computed from something other than c.Code")
		}
		c.Expect(2, len(c.Calls(ic, vmp+".codeBitmap")), "codeBitmap calls in isCode")
	}

}
