package main

import (
	"fmt"
	"go/constant"
	"go/token"
	"go/types"
	"sort"
	"strings"

	"golang.org/x/tools/go/ssa"
)

// LockSpec is one LOCKSET instance: fields that may only be touched while a
// given mutex is held. Lock identity is type based: (struct, mutex field).
type LockSpec struct {
	Name   string
	Pkg    string   // module-relative package
	Mutex  string   // "pkg.T.m" (embedded: "pkg.T.RWMutex")
	Fields []string // "pkg.T.f" — guarded fields (may belong to other structs)
	RW     bool     // reads may hold the read lock
	// Exempt: functions (fnName form) whose accesses are not subject to the
	// rule, with the reason (constructors of unpublished objects etc.).
	Exempt map[string]string
	// Held: functions that are entered with the lock held by contract with an
	// external caller (reason required); their requirement is not propagated.
	Held map[string]string
	// Async callees: call targets that run a func argument asynchronously.
	MinSites int
	// TokenChan: if set ("pkg.T.ch"), receiving from the channel acquires and
	// sending to it releases (1-buffered channel used as a lock).
	TokenChan string
	// FieldCallees: dynamic calls through a func-typed struct field
	// ("field:pkg.T.f") are treated as calls to the listed functions.
	FieldCallees map[string][]string
	// Joined: goroutine bodies (fnName of the closure) that the spawning
	// function waits for before returning (WaitGroup/errgroup Wait, checked
	// structurally); they run inside the spawner's critical section.
	Joined map[string]string
	// ReadOnlyOK: fields whose *reads* need no lock (only writes are guarded),
	// with reason — e.g. immutable after construction.
	WriteOnly map[string]string
	// Variant hooks (local mutex guarding captured locals): when set they
	// replace the field-based mutex / access classification and the
	// function set.
	// CustomLock maps callee names of a non-sync mutex type to their effect:
	// 2 acquire, 1 acquire-read, -1 release, 3 try-acquire (bool result).
	CustomLock map[string]int
	MutexIs    func(recv ssa.Value) bool
	AccessOf func(in ssa.Instruction) (name string, write bool, ok bool)
	Funcs    []*ssa.Function
}

var asyncCallees = map[string]bool{
	"(*golang.org/x/sync/errgroup.Group).Go": true,
	"time.AfterFunc":                         true,
	"event.NewSubscription":                  true,
}

type lsAccess struct {
	in    ssa.Instruction
	field string
	write bool
	state int
}

type lsCall struct {
	in     ssa.Instruction
	callee *ssa.Function
	state  int
	async  bool // go statement / async callback / escaping closure
	how    string
}

type lsFunc struct {
	fn       *ssa.Function
	accesses []lsAccess
	calls    []lsCall
	req      int // 0 none, 1 needs R, 2 needs W (on entry, from caller)
	why      string
	callers  int
	escapes  bool
}

// lockOp classifies an instruction: +2 acquire W, +1 acquire R, -1 release, 0 none.
func (sp *LockSpec) lockOp(in ssa.Instruction) int {
	switch x := in.(type) {
	case *ssa.Call:
		recv := callRecv(&x.Call)
		if recv == nil {
			return 0
		}
		if sp.MutexIs != nil {
			if !sp.MutexIs(recv) {
				return 0
			}
		} else {
			fa, ok := recv.(*ssa.FieldAddr)
			if !ok || fieldAddrName(fa) != sp.Mutex {
				return 0
			}
		}
		if sp.CustomLock != nil {
			if k, ok := sp.CustomLock[calleeName(&x.Call)]; ok && k != 3 {
				return k
			}
		}
		switch calleeName(&x.Call) {
		case "(*sync.Mutex).Lock", "(*sync.RWMutex).Lock":
			return 2
		case "(*sync.RWMutex).RLock":
			return 1
		case "(*sync.Mutex).Unlock", "(*sync.RWMutex).Unlock", "(*sync.RWMutex).RUnlock":
			return -1
		}
	case *ssa.UnOp:
		if sp.TokenChan != "" && x.Op == token.ARROW && fieldOfLoad(x.X) == sp.TokenChan {
			return 2
		}
	case *ssa.Send:
		if sp.TokenChan != "" && fieldOfLoad(x.Chan) == sp.TokenChan {
			return -1
		}
	}
	return 0
}

// tryLockEdge: block ends in If on the result of TryLock of our mutex.
func (sp *LockSpec) tryLockSucc(b *ssa.BasicBlock) int {
	if len(b.Instrs) == 0 {
		return -1
	}
	iff, ok := b.Instrs[len(b.Instrs)-1].(*ssa.If)
	if !ok {
		return -1
	}
	isTry := func(v ssa.Value) bool {
		call, ok := v.(*ssa.Call)
		if !ok {
			return false
		}
		n := calleeName(&call.Call)
		if n != "(*sync.Mutex).TryLock" && n != "(*sync.RWMutex).TryLock" && sp.CustomLock[n] != 3 {
			return false
		}
		recv := callRecv(&call.Call)
		if sp.MutexIs != nil {
			return sp.MutexIs(recv)
		}
		fa, ok := recv.(*ssa.FieldAddr)
		return ok && fieldAddrName(fa) == sp.Mutex
	}
	switch True(isTry).polarity(iff.Cond) {
	case +1:
		return 0
	case -1:
		return 1
	}
	// select-case acquisition of a token channel: `case <-tokenChan:` is
	// entered on the edge where the select's chosen index equals that case
	if sp.TokenChan != "" {
		if bo, ok := iff.Cond.(*ssa.BinOp); ok && bo.Op == token.EQL {
			if ex, ok := bo.X.(*ssa.Extract); ok && ex.Index == 0 {
				if sel, ok := ex.Tuple.(*ssa.Select); ok {
					if k, ok := bo.Y.(*ssa.Const); ok && k.Value != nil {
						idx, _ := constant.Int64Val(k.Value)
						if int(idx) < len(sel.States) {
							st := sel.States[idx]
							if st.Dir == types.RecvOnly && fieldOfLoad(st.Chan) == sp.TokenChan {
								return 0
							}
						}
					}
				}
			}
		}
	}
	return -1
}

func (sp *LockSpec) guarded(field string) bool {
	for _, f := range sp.Fields {
		if f == field {
			return true
		}
	}
	return false
}

// freshBase: the struct the field belongs to was allocated in this function
// (composite literal / new) — the object is not published yet.
func freshBase(v ssa.Value) bool {
	switch x := v.(type) {
	case *ssa.Alloc:
		// a value parameter/receiver spilled to a local cell is the caller's
		// object, not a fresh one
		if refs := x.Referrers(); refs != nil {
			for _, r := range *refs {
				if st, ok := r.(*ssa.Store); ok && st.Addr == x {
					if _, isParam := st.Val.(*ssa.Parameter); isParam {
						return false
					}
				}
			}
		}
		return true
	case *ssa.FieldAddr:
		return freshBase(x.X)
	case *ssa.UnOp:
		// load of a local cell holding a fresh pointer
		if a, ok := x.X.(*ssa.Alloc); ok && x.Op == token.MUL {
			if w := singleStore(a); w != nil {
				return freshBase(w)
			}
		}
	}
	return false
}

func isWriteUse(fa ssa.Value) bool {
	refs := fa.Referrers()
	if refs == nil {
		return false
	}
	for _, r := range *refs {
		switch x := r.(type) {
		case *ssa.Store:
			if x.Addr == fa {
				return true
			}
		case *ssa.UnOp:
			// loaded value mutated in place: map update/delete, element store
			if x.Op != token.MUL {
				continue
			}
			lr := x.Referrers()
			if lr == nil {
				continue
			}
			for _, u := range *lr {
				switch y := u.(type) {
				case *ssa.MapUpdate:
					if y.Map == x {
						return true
					}
				case *ssa.Call:
					if b, ok := y.Call.Value.(*ssa.Builtin); ok && (b.Name() == "delete" || b.Name() == "clear") && len(y.Call.Args) > 0 && y.Call.Args[0] == x {
						return true
					}
				case *ssa.IndexAddr:
					if y.X == x && isWriteUse(y) {
						return true
					}
				}
			}
		case *ssa.IndexAddr: // array field element
			if x.X == fa && isWriteUse(x) {
				return true
			}
		case *ssa.FieldAddr: // nested struct field
			if x.X == fa && isWriteUse(x) {
				return true
			}
		}
	}
	return false
}

func (sp *LockSpec) analyseFunc(fn *ssa.Function, byName map[*ssa.Function]bool, implementers func(cc *ssa.CallCommon) []*ssa.Function) *lsFunc {
	lf := &lsFunc{fn: fn}
	const top = 3
	in := make([]int, len(fn.Blocks))
	for i := range in {
		in[i] = top
	}
	in[0] = 0
	work := []*ssa.BasicBlock{fn.Blocks[0]}
	transfer := func(b *ssa.BasicBlock, s int, record bool) int {
		for _, ins := range b.Instrs {
			// accesses
			if record {
				var fa ssa.Value
				var name string
				if sp.AccessOf != nil {
					if n, w, ok := sp.AccessOf(ins); ok {
						lf.accesses = append(lf.accesses, lsAccess{in: ins, field: n, write: w, state: s})
					}
				} else {
				switch x := ins.(type) {
				case *ssa.FieldAddr:
					fa, name = x, fieldAddrName(x)
					if sp.guarded(name) && !freshBase(x.X) {
						lf.accesses = append(lf.accesses, lsAccess{in: ins, field: name, write: isWriteUse(fa), state: s})
					}
				case *ssa.Field:
					name = fieldOfLoad(x)
					if sp.guarded(name) {
						lf.accesses = append(lf.accesses, lsAccess{in: ins, field: name, write: false, state: s})
					}
				}
				}
				sp.recordCalls(lf, ins, s, byName, implementers)
			}
			if _, isDefer := ins.(*ssa.Defer); isDefer {
				continue
			}
			switch sp.lockOp(ins) {
			case 2:
				s = 2
			case 1:
				if s < 1 {
					s = 1
				}
			case -1:
				s = 0
			}
		}
		return s
	}
	out := make([]int, len(fn.Blocks))
	for len(work) > 0 {
		b := work[len(work)-1]
		work = work[:len(work)-1]
		s := transfer(b, in[b.Index], false)
		out[b.Index] = s
		ts := sp.tryLockSucc(b)
		for i, succ := range b.Succs {
			es := s
			if i == ts {
				es = 2
			}
			if es < in[succ.Index] {
				in[succ.Index] = es
				work = append(work, succ)
			}
		}
	}
	for _, b := range fn.Blocks {
		if in[b.Index] == top {
			continue // unreachable
		}
		transfer(b, in[b.Index], true)
	}
	return lf
}

func (sp *LockSpec) recordCalls(lf *lsFunc, ins ssa.Instruction, s int, inPkg map[*ssa.Function]bool, implementers func(cc *ssa.CallCommon) []*ssa.Function) {
	addClosure := func(v ssa.Value, async bool, how string) {
		mc, ok := v.(*ssa.MakeClosure)
		if !ok {
			// a plain function value used as argument
			if f, ok := v.(*ssa.Function); ok && inPkg[f] {
				lf.calls = append(lf.calls, lsCall{in: ins, callee: f, state: s, async: async, how: how})
			}
			return
		}
		lf.calls = append(lf.calls, lsCall{in: ins, callee: mc.Fn.(*ssa.Function), state: s, async: async, how: how})
	}
	switch x := ins.(type) {
	case ssa.CallInstruction:
		cc := x.Common()
		_, isGo := ins.(*ssa.Go)
		name := calleeName(cc)
		// direct callee(s)
		var callees []*ssa.Function
		if cc.IsInvoke() {
			callees = implementers(cc)
		} else {
			if fcs := sp.FieldCallees[name]; len(fcs) > 0 {
				for g := range inPkg {
					for _, want := range fcs {
						if fnName(g) == want {
							callees = append(callees, g)
						}
					}
				}
			}
			switch v := strip(cc.Value).(type) {
			case *ssa.Function:
				if inPkg[v] {
					callees = append(callees, v)
				}
			case *ssa.MakeClosure:
				callees = append(callees, v.Fn.(*ssa.Function))
			}
		}
		for _, g := range callees {
			async := isGo
			if async {
				if _, j := sp.Joined[fnName(g)]; j && joinedBeforeReturn(ins) {
					async = false
				}
			}
			lf.calls = append(lf.calls, lsCall{in: ins, callee: g, state: s, async: async, how: "call"})
		}
		// func-valued arguments: synchronous callbacks unless the callee is async
		for _, a := range cc.Args {
			if _, isFn := a.Type().Underlying().(*types.Signature); !isFn {
				continue
			}
			async := isGo || asyncCallees[name]
			if mc, ok := a.(*ssa.MakeClosure); ok && async {
				if _, j := sp.Joined[fnName(mc.Fn.(*ssa.Function))]; j && joinedBeforeReturn(ins) {
					async = false
				}
			}
			addClosure(a, async, "callback to "+name)
		}
	case *ssa.Store:
		// closure or function stored somewhere: runs at an unknown time
		if _, isFn := x.Val.Type().Underlying().(*types.Signature); isFn {
			if _, toLocal := x.Addr.(*ssa.Alloc); !toLocal {
				addClosure(x.Val, true, "stored function value")
			}
		}
	case *ssa.Return:
		for _, r := range x.Results {
			if _, isFn := r.Type().Underlying().(*types.Signature); isFn {
				addClosure(r, true, "returned function value")
			}
		}
	case *ssa.MakeInterface, *ssa.Send:
	}
}

// Lockset runs one LOCKSET instance over every function of the package.
func (c *Ctx) Lockset(sp LockSpec) {
	c.Rule("LOCKSET/" + sp.Name)
	funcs := sp.Funcs
	if funcs == nil {
		funcs = c.AllFuncs(sp.Pkg)
	}
	inPkg := map[*ssa.Function]bool{}
	for _, f := range funcs {
		inPkg[f] = true
	}
	// interface dispatch inside the package: all in-package methods with that
	// name whose receiver type implements the interface
	byMethod := map[string][]*ssa.Function{}
	for _, f := range funcs {
		if f.Signature.Recv() != nil && f.Parent() == nil {
			byMethod[f.Name()] = append(byMethod[f.Name()], f)
		}
	}
	implementers := func(cc *ssa.CallCommon) []*ssa.Function {
		iface, ok := cc.Value.Type().Underlying().(*types.Interface)
		if !ok {
			return nil
		}
		var out []*ssa.Function
		for _, f := range byMethod[cc.Method.Name()] {
			rt := f.Signature.Recv().Type()
			if types.Implements(rt, iface) || types.Implements(types.NewPointer(rt), iface) {
				out = append(out, f)
			}
		}
		return out
	}
	info := map[*ssa.Function]*lsFunc{}
	for _, f := range funcs {
		info[f] = sp.analyseFunc(f, inPkg, implementers)
		c.Funcs[f] = true
	}
	// callers / escapes
	for _, lf := range info {
		for _, cl := range lf.calls {
			if g := info[cl.callee]; g != nil {
				if cl.async {
					g.escapes = true
				} else {
					g.callers++
				}
			}
		}
	}
	// function values referenced other than as static callee → escapes
	for _, f := range funcs {
		eachInstr(f, func(in ssa.Instruction) {
			for _, op := range in.Operands(nil) {
				g, ok := (*op).(*ssa.Function)
				if !ok || info[g] == nil {
					continue
				}
				if ci, isCall := in.(ssa.CallInstruction); isCall && ci.Common().Value == g {
					continue
				}
				if _, isMC := in.(*ssa.MakeClosure); isMC {
					continue
				}
				// passed as a synchronous callback argument is recorded above
				if ci, isCall := in.(ssa.CallInstruction); isCall && !asyncCallees[calleeName(ci.Common())] {
					if _, isGo := in.(*ssa.Go); !isGo {
						continue
					}
				}
				info[g].escapes = true
			}
		})
	}
	need := func(a lsAccess) int {
		if a.write || !sp.RW {
			return 2
		}
		return 1
	}
	// local requirements
	for _, lf := range info {
		if _, ex := sp.Exempt[fnName(lf.fn)]; ex {
			continue
		}
		for _, a := range lf.accesses {
			if !a.write {
				if _, wo := sp.WriteOnly[a.field]; wo {
					continue
				}
			}
			if n := need(a); a.state < n && n > lf.req {
				lf.req = n
				lf.why = fmt.Sprintf("%s of %s at %s", map[bool]string{true: "write", false: "read"}[a.write], a.field, c.pos(Site{lf.fn, a.in}.Pos()))
			}
		}
	}
	// propagate through synchronous calls
	for changed := true; changed; {
		changed = false
		for _, lf := range info {
			if _, ex := sp.Exempt[fnName(lf.fn)]; ex {
				continue
			}
			for _, cl := range lf.calls {
				g := info[cl.callee]
				if g == nil || cl.async || g.req == 0 {
					continue
				}
				if _, held := sp.Held[fnName(g.fn)]; held {
					continue
				}
				if cl.state < g.req && g.req > lf.req {
					lf.req = g.req
					lf.why = fmt.Sprintf("calls %s at %s, which needs the lock for: %s", fnName(g.fn), c.pos(Site{lf.fn, cl.in}.Pos()), g.why)
					changed = true
				}
			}
		}
	}
	isRoot := func(lf *lsFunc) (bool, string) {
		fn := lf.fn
		if lf.escapes {
			return true, "runs asynchronously or escapes as a function value"
		}
		if fn.Parent() == nil {
			if obj := fn.Object(); obj != nil && obj.Exported() {
				// an exported method of an unexported type that is called inside
				// the package is a helper of that package, not an entry point
				helper := false
				if recv := fn.Signature.Recv(); recv != nil && lf.callers > 0 {
					if n := derefNamed(recv.Type()); n != nil && !n.Obj().Exported() {
						helper = true
					}
				}
				if !helper {
					return true, "exported"
				}
			}
			if lf.callers == 0 {
				return true, "no in-package caller (reachable only from outside/interfaces)"
			}
		} else if lf.callers == 0 {
			return true, "closure with no synchronous caller"
		}
		return false, ""
	}
	// obligations: one per guarded access site
	var keys []*lsFunc
	for _, lf := range info {
		keys = append(keys, lf)
	}
	sort.Slice(keys, func(i, j int) bool { return keys[i].fn.String() < keys[j].fn.String() })
	nsites := 0
	for _, lf := range keys {
		name := fnName(lf.fn)
		reason, exempt := sp.Exempt[name]
		heldReason, held := sp.Held[name]
		root, rootWhy := isRoot(lf)
		for _, a := range lf.accesses {
			nsites++
			kind := "read"
			if a.write {
				kind = "write"
			}
			construct := name + "/" + a.field[strings.LastIndex(a.field, ".")+1:] + ":" + kind
			pos := Site{lf.fn, a.in}.Pos()
			n := need(a)
			if !a.write {
				if r, wo := sp.WriteOnly[a.field]; wo {
					c.Exempt(construct, pos, "reads of this field need no lock: "+r)
					continue
				}
			}
			switch {
			case exempt:
				c.Exempt(construct, pos, reason)
			case a.state >= n:
				c.OK(construct, pos, fmt.Sprintf("%s held (level %d) at the access", sp.Mutex, a.state))
			case held:
				c.Exempt(construct, pos, "entered with the lock held: "+heldReason)
			case root:
				c.Bad(construct, pos, fmt.Sprintf("%s of %s without %s (held level %d, need %d); function is a root: %s", kind, a.field, sp.Mutex, a.state, n, rootWhy))
			default:
				// requirement moves to the callers; reported there if unmet
				c.OK(construct, pos, fmt.Sprintf("not held locally; every in-package caller must hold %s (checked at the callers)", sp.Mutex))
			}
		}
		// propagated requirement arriving at a root
		if lf.req > 0 && root && !exempt && !held {
			local := false
			for _, a := range lf.accesses {
				if !a.write {
					if _, wo := sp.WriteOnly[a.field]; wo {
						continue // not reported locally, so it must not mask the propagated requirement
					}
				}
				if a.state < need(a) {
					local = true
				}
			}
			if !local {
				c.Bad(name+"/requires-lock", lf.fn.Pos(), fmt.Sprintf("root (%s) reaches guarded state without %s: %s", rootWhy, sp.Mutex, lf.why))
			}
		}
		// asynchronous entry of a function that needs the lock
		for _, cl := range lf.calls {
			g := info[cl.callee]
			if g == nil || !cl.async || g.req == 0 {
				continue
			}
			if _, ex := sp.Exempt[fnName(g.fn)]; ex {
				continue
			}
			// reported at g (it is a root because it escapes)
		}
	}
	c.Sites += nsites
	c.Expect(sp.MinSites, nsites, "guarded accesses for "+sp.Name)
}

// joinedBeforeReturn: every path from the spawning instruction to a return of
// its function passes a WaitGroup/errgroup Wait.
func joinedBeforeReturn(spawn ssa.Instruction) bool {
	f := spawn.Parent()
	waits := map[ssa.Instruction]bool{}
	rets := map[ssa.Instruction]bool{}
	eachInstr(f, func(in ssa.Instruction) {
		switch x := in.(type) {
		case *ssa.Call:
			switch calleeName(&x.Call) {
			case "(*sync.WaitGroup).Wait", "(*golang.org/x/sync/errgroup.Group).Wait":
				waits[in] = true
			}
		case *ssa.Return:
			rets[in] = true
		}
	})
	if len(waits) == 0 {
		return false
	}
	return ReachesBefore(spawn, waits, nil, rets) == nil
}
