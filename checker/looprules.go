package main

import (
	"golang.org/x/tools/go/ssa"
)

// loopBlocks returns the natural loop of header h: blocks dominated by h that
// can reach h again.
func loopBlocks(h *ssa.BasicBlock) map[*ssa.BasicBlock]bool {
	out := map[*ssa.BasicBlock]bool{h: true}
	var stack []*ssa.BasicBlock
	for _, p := range h.Preds {
		if h.Dominates(p) {
			stack = append(stack, p)
		}
	}
	for len(stack) > 0 {
		b := stack[len(stack)-1]
		stack = stack[:len(stack)-1]
		if out[b] {
			continue
		}
		out[b] = true
		for _, p := range b.Preds {
			if h.Dominates(p) {
				stack = append(stack, p)
			}
		}
	}
	return out
}

// rangeLoopHeaders: headers of `for … range x` loops whose ranged value matches x.
func rangeLoopHeaders(f *ssa.Function, x VPat) []*ssa.BasicBlock {
	var out []*ssa.BasicBlock
	for _, b := range f.Blocks {
		if len(b.Instrs) == 0 {
			continue
		}
		iff, ok := b.Instrs[len(b.Instrs)-1].(*ssa.If)
		if !ok {
			continue
		}
		isLoop := false
		for _, p := range b.Preds {
			if b.Dominates(p) {
				isLoop = true
			}
		}
		if !isLoop {
			continue
		}
		// slice range: k < len(x);  map/chan range: ok of next(range x)
		if bo, ok := iff.Cond.(*ssa.BinOp); ok && Len(x)(bo.Y) {
			out = append(out, b)
			continue
		}
		if ex, ok := iff.Cond.(*ssa.Extract); ok {
			if nx, ok := ex.Tuple.(*ssa.Next); ok {
				if rg, ok := nx.Iter.(*ssa.Range); ok && x(rg.X) {
					out = append(out, b)
				}
			}
		}
	}
	return out
}

// LoopAll: the loop over x visits every element — the only ways out of the
// loop body other than exhausting the range are returns carrying a non-nil
// error (and panics). Emits one obligation per early exit plus one per loop.
func (c *Ctx) LoopAll(name string, f *ssa.Function, x VPat, what string) {
	c.Funcs[f] = true
	hs := rangeLoopHeaders(f, x)
	if len(hs) == 0 {
		c.Undecided(name+"/"+fnName(f)+"/"+what, f.Pos(), "no range loop over "+what+" found")
		return
	}
	res := f.Signature.Results()
	for _, h := range hs {
		body := loopBlocks(h)
		n := 0
		for b := range body {
			for si, s := range b.Succs {
				if body[s] {
					continue
				}
				if b == h {
					continue // regular exhaustion exit
				}
				_ = si
				// an exit straight into an error return is the accepted abort
				if ret, ok := s.Instrs[len(s.Instrs)-1].(*ssa.Return); ok && len(s.Preds) == 1 {
					if res.Len() > 0 && isErrorType(res.At(res.Len()-1).Type()) && knownNonNil(retVal(ret, res.Len()-1), ret, 0) {
						continue
					}
					n++
					c.Bad(name+"/"+fnName(f)+"/"+what+"/early-exit", Site{f, ret}.Pos(), "the loop over "+what+" can return without an error before all elements were visited")
					continue
				}
				n++
				c.Bad(name+"/"+fnName(f)+"/"+what+"/early-exit", Site{f, b.Instrs[len(b.Instrs)-1]}.Pos(), "the loop over "+what+" can be left before all elements were visited (break)")
			}
			if ret, ok := b.Instrs[len(b.Instrs)-1].(*ssa.Return); ok {
				if res.Len() > 0 && isErrorType(res.At(res.Len()-1).Type()) && knownNonNil(retVal(ret, res.Len()-1), ret, 0) {
					continue
				}
				n++
				c.Bad(name+"/"+fnName(f)+"/"+what+"/early-exit", Site{f, ret}.Pos(), "the loop over "+what+" can return without an error before all elements were visited")
			}
		}
		if n == 0 {
			c.OK(name+"/"+fnName(f)+"/"+what+"/complete", Site{f, h.Instrs[len(h.Instrs)-1]}.Pos(), "every element of "+what+" is visited unless an error aborts")
		}
	}
}
