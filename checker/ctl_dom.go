package main

import "go/token"

func init() {
	addControl("CTL.dom", func(c *Ctx) {
		for _, n := range []string{"goodDom", "badDomIgnored", "badDomArm", "badDomOrder"} {
			f := c.Fn("ctl", n)
			c.Dom("dom", f, c.Calls(f, "ctl.effect"), "effect", GErrChecked("check", c.Calls(f, "ctl.check")))
		}
	}, "badDomIgnored", "badDomArm", "badDomOrder")
	addControl("CTL.cond", func(c *Ctx) {
		for _, n := range []string{"goodCond", "badCond"} {
			f := c.Fn("ctl", n)
			c.Dom("cond", f, c.Calls(f, "ctl.effect"), "effect",
				GCond("len(a)==len(b)", f, Cmp(Len(Param("a")), token.EQL, Len(Param("b")))))
		}
	}, "badCond")
}
