package main

import (
	"fmt"
	"go/token"
	"strings"

	"golang.org/x/tools/go/ssa"
)

const vmp = "core/vm"

// stateMutators: StateDB interface methods that change state, plus the frame
// entries that run code against it.
var stateMutators = func() string {
	var s []string
	for _, m := range []string{"CreateAccount", "CreateContract", "SubBalance", "AddBalance", "SetNonce", "SetCode", "AddRefund", "SubRefund",
		"SetState", "SetTransientState", "SelfDestruct", "Touch", "AddAddressToAccessList", "AddSlotToAccessList", "AddLog"} {
		s = append(s, "("+vmp+".StateDB)."+m)
	}
	s = append(s, "field:"+vmp+".BlockContext.Transfer", "(*"+vmp+".EVM).Run", vmp+".RunPrecompiledContract", "(*"+vmp+".EVM).initNewContract")
	return strings.Join(s, "|")
}()

// SnapRevert decides the snapshot/revert discipline of one frame function:
//
//	(i)  every state mutation is dominated by `s := StateDB.Snapshot()` (or exempt);
//	(ii) every RevertToSnapshot takes that s;
//	(iii) no path leads from a mutation to a return carrying a possibly non-nil
//	      error without passing RevertToSnapshot(s); paths on which the returned
//	      error is known nil (an `err == nil` edge on the same error variable)
//	      and the listed accepted-weakening edges are excluded.
func (c *Ctx) SnapRevert(name string, f *ssa.Function, snapSpec, revertSpec, mutSpec string, exemptMut func(s Site) string, weakening map[Edge]bool) {
	c.Funcs[f] = true
	snaps := c.Calls(f, snapSpec)
	base := name + "/" + fnName(f)
	if len(snaps) != 1 {
		c.Undecided(base+"/snapshot", f.Pos(), fmt.Sprintf("expected exactly one Snapshot() call, found %d", len(snaps)))
		return
	}
	snapVal := snaps[0].Instr.(*ssa.Call)
	reverts := c.Calls(f, revertSpec)
	if len(reverts) == 0 {
		c.Bad(base+"/revert", f.Pos(), "function takes a snapshot but never reverts to it")
		return
	}
	c.ArgIs(name+"/revert-arg", f, reverts, "RevertToSnapshot", 0, Is(snapVal), "the snapshot taken at frame entry")

	var muts []Site
	for _, m := range c.Calls(f, mutSpec) {
		if exemptMut != nil {
			if r := exemptMut(m); r != "" {
				c.Exempt(base+"/mutation-before-snapshot", m.Pos(), r)
				continue
			}
		}
		muts = append(muts, m)
	}
	if len(muts) == 0 {
		c.Undecided(base+"/mutation", f.Pos(), "no state mutation site found")
		return
	}
	c.Dom(name+"/snapshot-first", f, muts, "state-mutation", GCall("StateDB.Snapshot()", snaps))

	// (iii)
	res := f.Signature.Results()
	ei := res.Len() - 1
	for _, r := range c.Returns(f) {
		ret := r.Instr.(*ssa.Return)
		ev := retVal(ret, ei)
		if Nil()(ev) {
			c.OK(base+"/exit", r.Pos(), "returns a nil error")
			continue
		}
		// edges on which the returned error value is nil
		same := func(v ssa.Value) bool { return sameValue(v, ev) }
		nilEdges := EdgesWhere(f, Cmp(same, token.EQL, Nil()))
		for e := range weakening {
			nilEdges[e] = true
		}
		stop := sitesToSet(reverts)
		var culprit *Site
		for i := range muts {
			if ReachesBefore(muts[i].Instr, stop, nilEdges, map[ssa.Instruction]bool{r.Instr: true}) != nil {
				culprit = &muts[i]
				break
			}
		}
		if culprit != nil {
			c.Bad(base+"/exit", r.Pos(), fmt.Sprintf("error exit reachable from the mutation at %s without RevertToSnapshot(snapshot) (returned error: %s)", c.pos(culprit.Pos()), strings.ReplaceAll(ev.String(), modPrefix, "")))
		} else {
			c.OK(base+"/exit", r.Pos(), "every path from a mutation to this exit reverts to the snapshot or carries a nil error")
		}
	}
}
