package main

import (
	"go/token"

	"golang.org/x/tools/go/ssa"
)

func init() {
	Register(&Prop{
		ID:   "C25",
		Pkgs: []string{"core/rawdb"},
		Decided: "in the chain freezer loop, key-value deletions of frozen blocks happen only after freezeRange succeeded and the freezer was synced (a sync failure is fatal), never touch block 0, all go through the stage's batch (none writes the database directly), and the canonical hashes deleted in the first stage are exactly elements of the slice freezeRange returned; each batch is written with its error fatal; freezeRange appends a block to the freezer only with a non-zero canonical hash and non-empty header, body and receipts, reads through the no-freeze view, and records a hash only for a block it appended; the freeze threshold is subtraction-safe.",
		NotDec: "that every chain accessor returns the same result before and after freezing, and that side-chain cleanup removes exactly the non-canonical data (value-level, needs histories).",
		Rules:  "ORDER/DOM must-pass-through per delete/write site in (*chainFreezer).freeze and freezeRange's closure; ATOMIC/SAMEVAL argument identity; GUARDSUB in freezeThreshold",
		MinObs: 64,
		Run:    c25,
	})
}

func c25(c *Ctx) {
	f := c.Fn(rdb, "(*chainFreezer).freeze")
	delCanon := cat(c.Calls(f, rdb+".DeleteBlockWithoutNumber"), c.Calls(f, rdb+".DeleteCanonicalHash"))
	delSide := c.Calls(f, rdb+".DeleteBlock")
	dels := cat(delCanon, delSide)
	c.Expect(4, len(dels), "delete calls in freeze")
	batch := CallRes("(ethdb.Batcher).NewBatch")
	bw := c.CallsWhere(f, "(ethdb.Batch).Write", func(cc *ssaCall) bool { return batch(cc.Value) })
	c.Expect(3, len(bw), "batch.Write calls in freeze")
	fr := c.Calls(f, "(*"+rdb+".chainFreezer).freezeRange")
	sync := c.Calls(f, "(*"+rdb+".Freezer).SyncAncient|(*"+rdb+".chainFreezer).SyncAncient")

	c.Rule("ORDER/C25.sync")
	c.Dom("frozen-first", f, cat(dels, bw), "kv-delete", GErrChecked("f.freezeRange", fr))
	c.Dom("synced-first", f, cat(dels, bw), "kv-delete", GErrChecked("f.SyncAncient()", sync))
	c.ErrUsed("errused", f, bw, "batch.Write")
	for _, w := range bw {
		// a failed batch write is fatal: the only way past it is the nil edge
		nilE := ErrNilEdges(w.Instr.(*ssa.Call))
		c.Check(len(nilE) > 0, "write-fatal/"+fnName(f)+"/batch.Write", w.Pos(), "batch.Write's error is tested (log.Crit on failure)", "batch.Write's error is not tested")
	}

	c.Rule("DOM/C25.genesis")
	for _, d := range dels {
		as := callArgs(d.Instr.(*ssa.Call).Common())
		num := as[len(as)-1] // the block number is the last argument of every delete helper
		isNum := func(v ssa.Value) bool {
			if sameValue(v, num) {
				return true
			}
			// a loop variable seeded with v (tip := frozen; … tip++)
			if phi, ok := num.(*ssa.Phi); ok {
				for _, e := range phi.Edges {
					if sameValue(v, e) {
						return true
					}
				}
			}
			return false
		}
		c.Dom("never-genesis", f, []Site{d}, "kv-delete",
			GCond("number!=0", f, Cmp(isNum, token.NEQ, ConstInt(0))),
			GCond("number>0", f, Cmp(isNum, token.GTR, ConstInt(0))))
	}

	c.Rule("ATOMIC/C25")
	c.ArgIs("batch", f, dels, "kv-delete", 0, batch, "the stage's batch from db.NewBatch()")

	c.Rule("SAMEVAL/C25.hashes")
	anc := CallResN("(*"+rdb+".chainFreezer).freezeRange", 0)
	c.ArgIs("frozen-hash", f, c.Calls(f, rdb+".DeleteBlockWithoutNumber"), "DeleteBlockWithoutNumber", 1, IndexOf(anc, nil), "ancients[i] as returned by freezeRange")
	if len(delSide) == 0 {
		c.Undecided("side-hash/"+fnName(f), f.Pos(), "no DeleteBlock(side) call found in freeze")
		delSide = append(delSide, dels...)
	}
	c.ArgIs("side-hash", f, delSide[:min(1, len(delSide))], "DeleteBlock(side)", 1, func(v ssa.Value) bool {
		// element of ReadAllHashes(db, number)
		return Mentions(CallRes(rdb + ".ReadAllHashes"))(v)
	}, "a hash listed by ReadAllHashes at that height")
	c.ArgIs("nofreeze-view", f, fr, "freezeRange", 0, func(v ssa.Value) bool {
		return namedName(v.Type()) == rdb+".nofreezedb"
	}, "the nofreezedb view (never reads back from the freezer)")

	// ---- freezeRange ---------------------------------------------------------------------
	g := c.Fn(rdb, "(*chainFreezer).freezeRange$1")
	c.Rule("DOM/C25.complete")
	app := c.Calls(g, "(ethdb.AncientWriteOp).AppendRaw")
	c.Expect(4, len(app), "AppendRaw calls in freezeRange")
	c.Dom("hash-present", g, app, "AppendRaw", GCond("hash!=zero", g, Cmp(CallRes(rdb+".ReadCanonicalHash"), token.NEQ, Any())))
	for _, rd := range []string{"ReadHeaderRLP", "ReadBodyRLP", "ReadReceiptsRLP"} {
		c.Dom(rd+"-nonempty", g, app, "AppendRaw", GCond("len("+rd+")!=0", g, Cmp(Len(CallRes(rdb+"."+rd)), token.NEQ, ConstInt(0))))
	}
	c.ErrUsed("errused", g, app, "AppendRaw")
	// the hash list grows only behind all appends of that block
	var grow []Site
	eachInstr(g, func(in ssa.Instruction) {
		if call, ok := in.(*ssa.Call); ok {
			if b, ok := call.Call.Value.(*ssa.Builtin); ok && b.Name() == "append" {
				grow = append(grow, Site{g, in})
			}
		}
	})
	c.Expect(1, len(grow), "hashes = append(hashes, hash)")
	for _, a := range app {
		c.Dom("recorded-after-append", g, grow, "hashes=append", GErrChecked("op.AppendRaw", []Site{a}))
	}

	// ---- threshold ------------------------------------------------------------------------------
	th := c.Fn(rdb, "(*chainFreezer).freezeThreshold")
	c.Rule("GUARDSUB/C25.threshold")
	var subs []Site
	eachInstr(th, func(in ssa.Instruction) {
		if b, ok := in.(*ssa.BinOp); ok && b.Op == token.SUB {
			subs = append(subs, Site{th, in})
		}
	})
	c.Expect(1, len(subs), "subtraction in freezeThreshold")
	for _, s := range subs {
		b := s.Instr.(*ssa.BinOp)
		c.Dom("no-underflow", th, []Site{s}, "head-threshold", GCond("head>FullImmutabilityThreshold", th, Cmp(Is(b.X), token.GTR, Is(b.Y))))
	}

	// ---- freezer-then-key-value fallback is atomic with respect to freezing -----------------
	c.Rule("WHO/C25.fallback")
	nfb := 0
	for _, fn := range c.FuncsInFiles(rdb, "accessors_chain.go") {
		anc := c.Calls(fn, "(ethdb.AncientReaderOp).Ancient|(ethdb.AncientReaderOp).AncientRange|(ethdb.AncientReaderOp).AncientBytes")
		kv := c.Calls(fn, "(ethdb.KeyValueReader).Get|(ethdb.KeyValueReader).Has")
		if len(anc) == 0 || len(kv) == 0 {
			continue
		}
		// only the order freezer-miss -> key-value fallback can lose an item
		// (items move from the key-value store into the freezer, never back)
		order := false
		for _, a := range anc {
			for _, k := range kv {
				if instrReaches(a.Instr, k.Instr) {
					order = true
				}
			}
		}
		if !order {
			continue
		}
		nfb++
		inRA := false
		if fn.Parent() != nil {
			eachInstr(fn.Parent(), func(in ssa.Instruction) {
				call, ok := in.(*ssa.Call)
				if !ok || !matchCallee(calleeName(&call.Call), "(ethdb.AncientReader).ReadAncients") {
					return
				}
				for _, a := range call.Call.Args {
					if mc, ok := a.(*ssa.MakeClosure); ok && mc.Fn == fn {
						inRA = true
					}
				}
			})
		}
		c.Check(inRA, "fallback/"+fnName(fn), fn.Pos(), "freezer lookup and key-value fallback run inside one db.ReadAncients callback (the freezer cannot advance in between)",
			"reads the freezer and falls back to the key-value store outside db.ReadAncients: a concurrent freeze cycle can move the item between the two reads and both miss")
	}
	c.Expect(5, nfb, "accessors with freezer+kv fallback")
}
