package main

import "golang.org/x/tools/go/ssa"

// FldAddr matches the address of field "pkg.T.f" (method receiver of a value field).
func FldAddr(field string) VPat {
	return func(v ssa.Value) bool {
		fa, ok := v.(*ssa.FieldAddr)
		return ok && matchField(fieldAddrName(fa), field)
	}
}
