package main

import (
	"go/token"
	"go/types"
	"strings"

	"golang.org/x/tools/go/ssa"
)

// Rules added during the fourth round of seeded changes, second batch
// (seeded/C13-r4 … seeded/C24-r4).

// blockLatches: the jumps back to the header of every loop that encloses b.
func enclosingLatches(f *ssa.Function, b *ssa.BasicBlock) []Site {
	var out []Site
	for _, h := range f.Blocks {
		if !h.Dominates(b) {
			continue
		}
		for _, p := range h.Preds {
			if h.Dominates(p) && blockReaches(b, p) {
				out = append(out, Site{f, p.Instrs[len(p.Instrs)-1]})
			}
		}
	}
	return out
}

func blockReaches(a, b *ssa.BasicBlock) bool {
	seen := map[*ssa.BasicBlock]bool{}
	var walk func(x *ssa.BasicBlock) bool
	walk = func(x *ssa.BasicBlock) bool {
		if x == b {
			return true
		}
		if seen[x] {
			return false
		}
		seen[x] = true
		for _, s := range x.Succs {
			if walk(s) {
				return true
			}
		}
		return false
	}
	return walk(a)
}

// mapOwners: names of the parameters a map value is reached from, following
// loads, field selections, map lookups (the map, not the key) and range
// iteration (the ranged map).
func mapOwners(v ssa.Value, out map[string]bool, seen map[ssa.Value]bool) {
	if v == nil || seen[v] {
		return
	}
	seen[v] = true
	switch x := v.(type) {
	case *ssa.Parameter:
		out[x.Name()] = true
	case *ssa.UnOp:
		mapOwners(x.X, out, seen)
	case *ssa.FieldAddr:
		mapOwners(x.X, out, seen)
	case *ssa.Field:
		mapOwners(x.X, out, seen)
	case *ssa.Extract:
		mapOwners(x.Tuple, out, seen)
	case *ssa.Lookup:
		mapOwners(x.X, out, seen)
	case *ssa.Next:
		mapOwners(x.Iter, out, seen)
	case *ssa.Range:
		mapOwners(x.X, out, seen)
	case *ssa.Phi:
		for _, e := range x.Edges {
			mapOwners(e, out, seen)
		}
	case *ssa.ChangeType:
		mapOwners(x.X, out, seen)
	case *ssa.MakeInterface:
		mapOwners(x.X, out, seen)
	default:
		out["?"] = true
	}
}

// mapFieldOf: the struct field a map value was loaded from ("" if none).
func mapFieldOf(v ssa.Value) string {
	for i := 0; i < 8; i++ {
		switch x := v.(type) {
		case *ssa.UnOp:
			if fa, ok := x.X.(*ssa.FieldAddr); ok {
				return fieldAddrName(fa)
			}
			v = x.X
		case *ssa.Extract:
			v = x.Tuple
		case *ssa.Lookup:
			v = x.X
		case *ssa.ChangeType:
			v = x.X
		default:
			return ""
		}
	}
	return ""
}

func isMapsCopy(call *ssa.CallCommon) bool {
	cal := call.StaticCallee()
	if cal == nil {
		return false
	}
	if o := cal.Origin(); o != nil {
		cal = o
	}
	return cal.Name() == "Copy" && cal.Pkg != nil && cal.Pkg.Pkg.Path() == "maps"
}

func destructRecorded(c *Ctx, rule string) {
		c.Rule(rule)
		cst := "core/state"
		n := 0
		for _, fn := range []string{"(*StateDB).Finalise", "(*StateDB).finaliseAmsterdam"} {
			f := c.TryFn(cst, fn)
			if f == nil {
				continue
			}
			c.Funcs[f] = true
			writes := sitesToSet(c.MapWrites(f, cst+".StateDB.stateObjectsDestruct", false))
			isOk := func(v ssa.Value) bool {
				ex, ok := v.(*ssa.Extract)
				if !ok || ex.Index != 1 {
					return false
				}
				lk, ok := ex.Tuple.(*ssa.Lookup)
				return ok && mapFieldOf(lk.X) == cst+".StateDB.stateObjectsDestruct"
			}
			known := EdgesWhere(f, True(isOk))
			for _, s := range c.Calls(f, "(*"+cst+".StateDB).markDelete") {
				n++
				exits := sitesToSet(cat(enclosingLatches(f, s.Instr.Block()), c.Returns(f)))
				hit := ReachesBefore(s.Instr, writes, known, exits)
				ok := hit == nil
				if !ok {
					// the record may also precede the mark
					for w := range writes {
						if instrDominates(w, s.Instr) {
							ok = true
						}
					}
					for e := range known {
						if edgeDominates(e, s.Instr.Block()) {
							ok = true
						}
					}
				}
				c.Check(ok, "destruct-recorded/"+fn, s.Pos(), "markDelete is paired with the stateObjectsDestruct record on every path", "an account is marked deleted without being recorded in stateObjectsDestruct: commit does not wipe its storage")
			}
		}
		c.Expect(3, n, "markDelete sites in Finalise/finaliseAmsterdam")
}

func init() {
	decC13 := "Every account finalisation marks as deleted is also recorded as destructed: in Finalise and finaliseAmsterdam each markDelete is, on every path to the end of the iteration, paired with the store into stateObjectsDestruct (or the test that an earlier record exists), so commit wipes the account's storage and code and a later access in the block does not reload the stale account."
	extendProp("C13", decC13, nil, func(c *Ctx) { destructRecorded(c, "PAIR/C13.destructrecord") })
	extendProp("C32", decC13, []string{"core/state"}, func(c *Ctx) { destructRecorded(c, "PAIR/C32.destructrecord") })

	extendProp("C14", "A failing storage-trie write aborts the commit: updateRoot has no error result, so every error return of stateObject.updateTrie lies behind StateDB.setError — the only thing commit tests after IntermediateRoot.", nil, func(c *Ctx) {
		c.Rule("DOM/C14.seterror")
		cst := "core/state"
		f := c.Fn(cst, "(*stateObject).updateTrie")
		ur := c.Fn(cst, "(*stateObject).updateRoot")
		if f == nil || ur == nil {
			return
		}
		if ur.Signature.Results().Len() > 0 {
			c.Exempt("recorded/updateRoot", ur.Pos(), "updateRoot returns a result; error propagation is decided by ERRUSE rules")
			return
		}
		errs := errorReturns(c, f, 1)
		c.Expect(3, len(errs), "error returns of updateTrie")
		c.Dom("recorded", f, errs, "error return", GSites("s.db.setError(err)", c.Calls(f, "(*"+cst+".StateDB).setError")))
	})

	extendProp("C15", "Merging a transaction's access list into the block's list writes into the block's side only and covers every map of the account record: in ConstructionBlockAccessList.Merge each map write (index store, delete, maps.Copy destination) targets a map reached from the receiver, never one reached from the argument, and every map field of ConstructionAccountAccess has such a write.", []string{"core/types/bal"}, func(c *Ctx) {
		c.Rule("DIRECTION/C15.merge")
		bal := "core/types/bal"
		f := c.Fn(bal, "(*ConstructionBlockAccessList).Merge")
		if f == nil {
			return
		}
		c.Funcs[f] = true
		recv := f.Params[0].Name()
		written := map[string]bool{}
		n := 0
		check := func(in ssa.Instruction, m ssa.Value) {
			n++
			owners := map[string]bool{}
			mapOwners(m, owners, map[ssa.Value]bool{})
			ok := len(owners) == 1 && owners[recv]
			if _, isMake := m.(*ssa.MakeMap); isMake {
				return
			}
			c.Check(ok, "writes-receiver-side", in.Pos(), "map written is reached from the receiver only", "Merge writes into a map that is not (only) the receiver's: the merged change is lost or the argument is modified")
			if ok {
				if fld := mapFieldOf(m); fld != "" {
					written[fld] = true
				}
			}
		}
		eachInstr(f, func(in ssa.Instruction) {
			switch x := in.(type) {
			case *ssa.MapUpdate:
				check(in, x.Map)
			case *ssa.Call:
				if b, ok := x.Call.Value.(*ssa.Builtin); ok && b.Name() == "delete" {
					check(in, x.Call.Args[0])
				} else if isMapsCopy(&x.Call) {
					check(in, x.Call.Args[0])
				}
			}
		})
		c.Expect(5, n, "map writes in Merge")
		// every map field of the per-account record is merged
		var acct *types.Struct
		var acctName string
		for _, name := range []string{"ConstructionAccountAccess"} {
			if nm, st := c.Struct(bal, name); nm != nil && st != nil {
				acct, acctName = st, name
			}
		}
		if acct == nil {
			c.Undecided("account-record", f.Pos(), "per-account construction record type not found")
			return
		}
		m := 0
		for i := 0; i < acct.NumFields(); i++ {
			fld := acct.Field(i)
			if _, ok := fld.Type().Underlying().(*types.Map); !ok {
				continue
			}
			m++
			key := bal + "." + acctName + "." + fld.Name()
			c.Check(written[key], "field-merged/"+fld.Name(), f.Pos(), "the receiver's "+fld.Name()+" map is written", "Merge never writes the receiver's "+fld.Name()+" map: those changes of a later transaction are dropped for an account already in the list")
		}
		c.Expect(5, m, "map fields of "+acctName)
	})

	extendProp("C16", "A repeated root never replaces a layer: in layerTree.add the store into tree.layers lies behind tree.get(root) having returned nil for the root being added.", nil, func(c *Ctx) {
		c.Rule("DOM/C16.duproot")
		f := c.Fn(pdb, "(*layerTree).add")
		if f == nil {
			return
		}
		stores := c.MapWrites(f, pdb+".layerTree.layers", false)
		c.Expect(1, len(stores), "tree.layers stores in add")
		get := func(v ssa.Value) bool {
			call, ok := v.(*ssa.Call)
			if !ok {
				return false
			}
			cal := call.Call.StaticCallee()
			return cal != nil && cal.Name() == "get" && len(call.Call.Args) == 2 && Param("root")(call.Call.Args[1])
		}
		c.Dom("absent", f, stores, "tree.layers[root] = l", GCond("tree.get(root) == nil", f, Cmp(get, token.EQL, Nil())))
	})

	extendProp("C17", "The history decoder's ordering check has no in-band sentinel: where readAccount/readStorage compare an id with the previous one, the previous id is held behind a pointer and the comparison lies behind its nil test, so the all-zero id is accepted as a first element.", nil, func(c *Ctx) {
		c.Rule("SHAPE/C17.sentinel")
		n := 0
		for _, fn := range []string{"(*decoder).readAccount", "(*decoder).readStorage"} {
			f := c.TryFn(pdb, fn)
			if f == nil {
				continue
			}
			c.Funcs[f] = true
			for _, s := range c.Calls(f, "bytes.Compare") {
				call := s.Instr.(*ssa.Call)
				v := call.Call.Args[0]
				// through x.Bytes() / x[:] to the holder of the previous id
				for i := 0; i < 4; i++ {
					switch x := v.(type) {
					case *ssa.Call:
						if cal := x.Call.StaticCallee(); cal != nil && cal.Name() == "Bytes" && len(x.Call.Args) == 1 {
							v = x.Call.Args[0]
						}
					case *ssa.Slice:
						v = x.X
					}
				}
				n++
				var holder ssa.Value
				if u, ok := v.(*ssa.UnOp); ok && u.Op == token.MUL {
					if _, isPtr := u.X.Type().Underlying().(*types.Pointer); isPtr {
						if _, isAlloc := u.X.(*ssa.Alloc); !isAlloc {
							holder = u.X
						}
					}
				}
				if holder == nil {
					c.Bad("previous-behind-pointer/"+fn, s.Pos(), "the previous id of the ordering check is a plain value: its zero value doubles as `none yet`, so a legal all-zero first id is rejected as out of order")
					continue
				}
				guarded := false
				for e := range EdgesWhere(f, Cmp(func(v ssa.Value) bool { return sameValue(v, holder) }, token.NEQ, Nil())) {
					if edgeDominates(e, call.Block()) {
						guarded = true
					}
				}
				c.Check(guarded, "previous-behind-pointer/"+fn, s.Pos(), "comparison lies behind the nil test of the previous id", "the ordering comparison dereferences the previous id without the nil test")
			}
		}
		c.Expect(2, n, "ordering comparisons in the state history decoder")
	})

	extendProp("C18", "A false-positive index entry does not fail a historical node read: in trienodeReader.readOptimized's worker every return reachable from the `not found` outcome of readTrienode returns a nil error.", nil, func(c *Ctx) {
		c.Rule("SHAPE/C18.notfound")
		f := c.Fn(pdb, "(*trienodeReader).readOptimized")
		if f == nil {
			return
		}
		n := 0
		for _, cl := range allClosures(f) {
			for _, s := range c.Calls(cl, "(*"+pdb+".trienodeReader).readTrienode") {
				c.Funcs[cl] = true
				call := s.Instr.(*ssa.Call)
				isFound := func(v ssa.Value) bool {
					ex, ok := v.(*ssa.Extract)
					return ok && ex.Tuple == ssa.Value(call) && ex.Index == 1
				}
				for e := range EdgesWhere(cl, False(isFound)) {
					n++
					seen := map[*ssa.BasicBlock]bool{}
					ok := true
					var bad token.Pos
					var walk func(b *ssa.BasicBlock)
					walk = func(b *ssa.BasicBlock) {
						if seen[b] {
							return
						}
						seen[b] = true
						if ret, isRet := b.Instrs[len(b.Instrs)-1].(*ssa.Return); isRet {
							if len(ret.Results) == 0 || !Nil()(retVal(ret, len(ret.Results)-1)) {
								ok = false
								bad = ret.Pos()
							}
						}
						for _, sc := range b.Succs {
							walk(sc)
						}
					}
					walk(e.From.Succs[e.Succ])
					pos := s.Pos()
					if bad != token.NoPos {
						pos = bad
					}
					c.Check(ok, "notfound-is-not-an-error", pos, "every return after `!found` yields nil", "the read-ahead worker returns an error when the node is absent from a history the index named: a tolerated false positive now fails the whole read")
				}
			}
		}
		c.Expect(1, n, "`found` tests in the read-ahead worker")
	})

	extendProp("C19", "A batch reused across loop iterations is reset after it was written: in the index pruner every batch.Write inside a loop is followed by batch.Reset on every path back to the loop head, so flushed deletions are not replayed after indexer writes made during a pause.", nil, func(c *Ctx) {
		c.Rule("PAIR/C19.batchreset")
		n := 0
		for _, f := range c.FuncsInFiles(pdb, "history_index_pruner.go", "history_indexer.go", "history_index.go") {
			eachInstr(f, func(in ssa.Instruction) {
				call, ok := in.(*ssa.Call)
				if !ok || !call.Call.IsInvoke() || call.Call.Method.Name() != "Write" || namedName(call.Call.Value.Type()) != "ethdb.Batch" {
					return
				}
				latches := enclosingLatches(f, call.Block())
				// only loops the batch outlives
				var outer []Site
				for _, l := range latches {
					h := l.Instr.Block().Succs[0]
					for _, sc := range l.Instr.Block().Succs {
						if sc.Dominates(l.Instr.Block()) {
							h = sc
						}
					}
					def, isInstr := call.Call.Value.(ssa.Instruction)
					if !isInstr || def.Block() == h || !h.Dominates(def.Block()) {
						outer = append(outer, l)
					}
				}
				if len(outer) == 0 {
					return
				}
				c.Funcs[f] = true
				n++
				resets := map[ssa.Instruction]bool{}
				eachInstr(f, func(in2 ssa.Instruction) {
					if c2, ok := in2.(*ssa.Call); ok && c2.Call.IsInvoke() && c2.Call.Method.Name() == "Reset" && c2.Call.Value == call.Call.Value {
						resets[in2] = true
					}
				})
				hit := ReachesBefore(in, resets, nil, sitesToSet(outer))
				c.Check(hit == nil, "reset-after-write/"+fnName(f), in.Pos(), "batch.Reset() follows on every path to the next iteration", "a written batch re-enters the loop without Reset: its operations are applied a second time by the next Write")
			})
		}
		c.Expect(1, n, "batch.Write sites inside loops of the history index code")
	})

	extendProp("C20", "Recover makes the reverted key-value state durable before it drops the histories it was reverted with: every truncateFromHead in Database.Recover lies behind a successful SyncKeyValue, unconditionally.", nil, func(c *Ctx) {
		c.Rule("ORDER/C20.recoversync")
		f := c.Fn(pdb, "(*Database).Recover")
		if f == nil {
			return
		}
		trunc := c.Calls(f, pdb+".truncateFromHead")
		c.Expect(1, len(trunc), "truncateFromHead in Recover")
		c.Dom("sync", f, trunc, "truncateFromHead", GErrChecked("diskdb.SyncKeyValue()", c.Calls(f, "*.SyncKeyValue")))
	})

	extendProp("C21", "Every account leaf with a storage trie takes its own reference: in hashdb Update's loop over the account leaves an iteration ends without db.reference only when the account's root is the empty root (or decoding failed).", nil, func(c *Ctx) {
		c.Rule("LOOPALL/C21.leafrefs")
		h := "triedb/hashdb"
		f := c.Fn(h, "(*Database).Update")
		if f == nil {
			return
		}
		refs := c.Calls(f, "(*"+h+".Database).reference")
		c.Expect(1, len(refs), "db.reference in Update")
		if len(refs) == 0 {
			return
		}
		emptyE := EdgesWhere(f, Cmp(Any(), token.EQL, Global("core/types.EmptyRootHash")))
		for e := range EdgesWhere(f, Cmp(Global("core/types.EmptyRootHash"), token.EQL, Any())) {
			emptyE[e] = true
		}
		var latches []Site
		for _, l := range enclosingLatches(f, refs[0].Instr.Block()) {
			// a back edge that is itself the `root is empty` outcome needs no reference
			b, skip := l.Instr.Block(), false
			for i, sc := range b.Succs {
				if sc.Dominates(b) && emptyE[Edge{b, i}] {
					skip = true
				}
			}
			if !skip {
				latches = append(latches, l)
			}
		}
		c.Expect(1, len(latches), "loop around db.reference")
		c.Dom("each-leaf", f, latches, "end of one leaf", GSites("db.reference(account.Root, n.Parent)", refs), Guard{Desc: "account.Root == EmptyRootHash", Steps: []Step{{Edges: emptyE}}, Sites: len(emptyE)})
	})

	extendProp("C22", "An iterator over the persistent state is opened only after the background flush finished: every newDiskAccountIterator/newDiskStorageIterator call in the iterator constructors lies behind a waitFlush whose error was tested.", nil, func(c *Ctx) {
		c.Rule("DOM/C22.waitflush")
		n := 0
		for _, f := range c.AllFuncs(pdb) {
			targets := cat(c.Calls(f, pdb+".newDiskAccountIterator"), c.Calls(f, pdb+".newDiskStorageIterator"))
			if len(targets) == 0 {
				continue
			}
			n += len(targets)
			c.Dom("flushed", f, targets, "disk iterator opened", GErrChecked("dl.waitFlush()", c.Calls(f, "(*"+pdb+".diskLayer).waitFlush")))
		}
		c.Expect(4, n, "disk iterator constructions")
	})

	extendProp("C23", "Values stored in the memory database are never modified in place: no function of memorydb copies into, or stores an element of, a slice obtained from the db map (iterators and snapshots share those slices).", nil, func(c *Ctx) {
		c.Rule("IMMUT/C23.storedvalues")
		mdb := "ethdb/memorydb"
		fromMap := func(v ssa.Value) bool {
			for i := 0; i < 6; i++ {
				switch x := v.(type) {
				case *ssa.Slice:
					v = x.X
				case *ssa.Extract:
					v = x.Tuple
				case *ssa.Lookup:
					return strings.HasSuffix(mapFieldOf(x.X), ".db")
				case *ssa.Phi:
					for _, e := range x.Edges {
						if lk, ok := e.(*ssa.Lookup); ok && strings.HasSuffix(mapFieldOf(lk.X), ".db") {
							return true
						}
						if ex, ok := e.(*ssa.Extract); ok {
							if lk, ok := ex.Tuple.(*ssa.Lookup); ok && strings.HasSuffix(mapFieldOf(lk.X), ".db") {
								return true
							}
						}
					}
					return false
				default:
					return false
				}
			}
			return false
		}
		funcs, bad := 0, 0
		for _, f := range c.AllFuncs(mdb) {
			funcs++
			c.Funcs[f] = true
			eachInstr(f, func(in ssa.Instruction) {
				switch x := in.(type) {
				case *ssa.Call:
					if b, ok := x.Call.Value.(*ssa.Builtin); ok && b.Name() == "copy" && fromMap(x.Call.Args[0]) {
						bad++
						c.Bad("in-place/"+fnName(f), in.Pos(), "copy() into a value held by the db map: iterators and snapshots that share the slice change under their reader")
					}
				case *ssa.Store:
					if ia, ok := x.Addr.(*ssa.IndexAddr); ok && fromMap(ia.X) {
						bad++
						c.Bad("in-place/"+fnName(f), in.Pos(), "element store into a value held by the db map")
					}
				}
			})
		}
		if bad == 0 {
			c.OK("in-place", token.NoPos, "no function of memorydb writes through a slice obtained from the db map")
		}
		c.Expect(10, funcs, "memorydb functions")
	})

	extendProp("C24", "Freezer files are shortened only through truncateFreezerFile, which repositions the write offset: no other function of core/rawdb calls (*os.File).Truncate, and truncateFreezerFile's success lies behind the seek to the new end.", nil, func(c *Ctx) {
		c.Rule("WHO/C24.rawtruncate")
		rdb := "core/rawdb"
		n := 0
		for _, f := range c.AllFuncs(rdb) {
			for _, s := range c.Calls(f, "(*os.File).Truncate") {
				n++
				c.Check(strings.HasSuffix(fnName(f), ".truncateFreezerFile"), "only-helper", s.Pos(), "Truncate inside truncateFreezerFile", "a freezer file is truncated without the helper that seeks to the new end: the next append is written at the stale offset and leaves a hole")
			}
		}
		c.Expect(1, n, "(*os.File).Truncate sites in core/rawdb")
		if f := c.Fn(rdb, "truncateFreezerFile"); f != nil {
			c.Dom("seek", f, c.SuccessReturns(f), "success", GErrChecked("file.Seek(0, io.SeekEnd)", c.Calls(f, "(*os.File).Seek")))
		}
	})
}
