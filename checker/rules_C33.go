package main

import (
	"go/token"
	"go/types"
	"sort"
	"strings"

	"golang.org/x/tools/go/ssa"
)

func init() {
	Register(&Prop{
		ID:   "C33",
		Pkgs: []string{"core", "core/state"},
		Decided: "the transaction workers of the parallel processor share only audited objects (the captured-variable set of the worker closure is closed: immutable block data, the atomic cursor, thread-safe caches/readers, and the results slice written one slot per claimed index); everything mutable an execution needs (block context with its lazily filled hash cache, EVM, state database, gas pool) is created inside the worker; a worker uses one claimed index i for the transaction, the reader overlay (i+1), the tx context (i, i+1) and its result slot; the canonical state is handed to the root goroutine and is not touched again before that goroutine is joined (explicit error-checked Wait before the preimage merge and the success exit; deferred Wait on every exit); results are folded in block order into one block-level gas pool, receipts and the rebuilt access list; pre/post system calls run at overlay indices 0 and n+1; the overlay reader overrides every method of the reader interface, consults the access list at its own index and never mutates a shared base account; installing the access list applies the last change of every field, stages origin/pending/uncommitted storage together and is race-free (workers write only their entry; the prefetcher is called under the apply mutex); import validation compares gas used, bloom, receipt root, requests hash, access-list hash (non-nil result list, non-nil header hash, equality, structural validation) and state root before accepting.",
		NotDec: "that parallel and sequential execution produce equal results for every block (value-level; depends on the access list being the true one); thread-safety of the shared caches' internals (decided separately where they are anchors of other properties).",
		Rules:  "PARWRITE free-variable table + slot stores; SAMEVAL index; JOIN root goroutine; ORDER gather; SIBLING reader overrides; LAST applied change; DOM ValidateState",
		MinObs: 98,
		Run:    c33,
	})
}

func c33(c *Ctx) {
	SP := "(*core.StateProcessor)."
	// ---- workers -----------------------------------------------------------------------------------
	c.Rule("PARWRITE/C33.workers")
	etp := c.Fn(corep, "(*StateProcessor).executeTransactionsParallel")
	var worker *ssa.Function
	if etp != nil {
		for _, s := range c.Calls(etp, "(*golang.org/x/sync/errgroup.Group).Go") {
			if mc, ok := s.Instr.(*ssa.Call).Call.Args[1].(*ssa.MakeClosure); ok {
				worker = mc.Fn.(*ssa.Function)
			}
		}
	}
	if worker == nil {
		c.Undecided("worker", token.NoPos, "worker closure of executeTransactionsParallel not found")
	} else {
		c.Funcs[worker] = true
		table := map[string]string{
			"header":          "block header: read-only after decoding",
			"p":               "processor: only its chain reader is used (to build the per-worker block context)",
			"config":          "chain config: immutable",
			"cfg":             "vm.Config value: copied into each EVM",
			"jumpDestCache":   "thread-safe cache (own lock)",
			"precompileCache": "thread-safe cache (own lock)",
			"gctx":            "errgroup context",
			"cursor":          "atomic.Int64 work cursor",
			"txs":             "block transactions: read-only",
			"signer":          "stateless signer",
			"base":            "shared base reader: thread-safe cached reader",
			"lookup":          "access-list lookup: read-only after construction",
			"parentRoot":      "hash value",
			"db":              "state.Database: thread-safe",
			"blockNumber":     "*big.Int read-only",
			"blockHash":       "hash value",
			"results":         "result slice: one slot per claimed index (checked below)",
		}
		var names []string
		for _, fv := range worker.FreeVars {
			names = append(names, fv.Name())
			why, ok := table[fv.Name()]
			c.Check(ok, "captured/"+fv.Name(), fv.Pos(), "captured variable is in the audited table: "+why, "the transaction workers capture `"+fv.Name()+"` ("+fv.Type().String()+"), which is not in the audited table of objects that may be shared between workers")
		}
		sort.Strings(names)
		c.Expect(15, len(names), "captured variables of the worker: "+strings.Join(names, " "))
		// claimed index
		var idx ssa.Value
		for _, s := range c.Calls(worker, "(*sync/atomic.Int64).Add") {
			call := s.Instr.(*ssa.Call)
			if FreeVar("cursor")(call.Call.Args[0]) && ConstInt(1)(call.Call.Args[1]) {
				for _, r := range *call.Referrers() {
					if cv, ok := r.(*ssa.Convert); ok {
						for _, r2 := range *cv.Referrers() {
							if b, ok := r2.(*ssa.BinOp); ok && b.Op == token.SUB && ConstInt(1)(b.Y) {
								idx = b
							}
						}
					}
				}
			}
		}
		if !c.Check(idx != nil, "cursor/"+fnName(worker), worker.Pos(), "the worker claims indices with cursor.Add(1)-1", "the worker does not claim its index from the atomic cursor") {
			return
		}
		isIdx := Is(idx)
		isIdx1 := func(v ssa.Value) bool {
			v = strip(v)
			if cv, ok := v.(*ssa.Convert); ok {
				v = cv.X
			}
			b, ok := v.(*ssa.BinOp)
			return ok && b.Op == token.ADD && isIdx(b.X) && ConstInt(1)(b.Y)
		}
		// stores through captured variables: only results[idx]
		ns := 0
		eachInstr(worker, func(in ssa.Instruction) {
			st, ok := in.(*ssa.Store)
			if !ok {
				return
			}
			root, path := addrRoot(st.Addr)
			fv, isFV := root.(*ssa.FreeVar)
			if !isFV {
				return
			}
			ns++
			okSlot := fv.Name() == "results" && len(path) > 0
			if okSlot {
				okSlot = false
				for _, ia := range path {
					if isIdx(ia.Index) {
						okSlot = true
					}
				}
			}
			c.Check(okSlot, "shared-store/"+fnName(worker), st.Pos(), "writes its own result slot results[i]", "a worker writes shared memory other than its own result slot (through captured `"+fv.Name()+"`)")
		})
		c.Expect(1, ns, "stores through captured variables in the worker")
		// per-worker mutable objects are created inside the worker
		ne := c.Calls(worker, "core/vm.NewEVM")
		c.ArgIs("own-context", worker, ne, "vm.NewEVM(blockCtx)", 0, func(v ssa.Value) bool {
			if CallRes("core.NewEVMBlockContext")(v) {
				return true
			}
			u, ok := v.(*ssa.UnOp)
			if !ok {
				return false
			}
			al, ok := u.X.(*ssa.Alloc)
			if !ok || al.Parent() != worker {
				return false
			}
			n, hit := 0, false
			for _, r := range *al.Referrers() {
				if st, ok := r.(*ssa.Store); ok && st.Addr == al {
					n++
					hit = CallRes("core.NewEVMBlockContext")(st.Val)
				}
			}
			return n == 1 && hit
		}, "a block context built inside the worker (its GetHash closure caches ancestor hashes without locking)")
		ap := c.Calls(worker, "core.ApplyTransactionWithEVM")
		c.Expect(1, len(ap), "ApplyTransactionWithEVM in the worker")
		c.ArgIs("own-gaspool", worker, ap, "ApplyTransactionWithEVM(gp)", 1, CallRes("core.NewGasPool"), "a gas pool created for this transaction")
		c.ArgIs("own-state", worker, ap, "ApplyTransactionWithEVM(statedb)", 2, CallResN("core/state.NewWithReader", 0), "a state database created for this transaction")
		c.ArgIs("own-evm", worker, ap, "ApplyTransactionWithEVM(evm)", 7, CallRes("core/vm.NewEVM"), "the worker's own EVM")
		c.Dom("state-ok", worker, ap, "ApplyTransactionWithEVM", GErrChecked("state.NewWithReader succeeded", c.Calls(worker, "core/state.NewWithReader")))
		// one index throughout
		c.Rule("SAMEVAL/C33.index")
		rd := c.Calls(worker, "core/state.NewReaderWithBlockLevelAccessList")
		c.ArgIs("overlay", worker, rd, "NewReaderWithBlockLevelAccessList(index)", 2, isIdx1, "i+1 for the claimed index i")
		nw := c.Calls(worker, "core/state.NewWithReader")
		c.ArgIs("overlay-used", worker, nw, "state.NewWithReader(reader)", 2, Mentions(CallRes("core/state.NewReaderWithBlockLevelAccessList")), "the overlay reader of this index")
		c.ArgIs("parent-root", worker, nw, "state.NewWithReader(root)", 0, FreeVar("parentRoot"), "the parent state root")
		stc := c.Calls(worker, "(*core/state.StateDB).SetTxContext")
		c.ArgIs("txctx-index", worker, stc, "SetTxContext(ti)", 1, isIdx, "the claimed index i")
		c.ArgIs("txctx-bal-index", worker, stc, "SetTxContext(balIndex)", 2, isIdx1, "i+1")
		c.ArgIs("tx", worker, ap, "ApplyTransactionWithEVM(tx)", 6, IndexOf(FreeVar("txs"), isIdx), "txs[i]")
		c.ArgIs("msg", worker, ap, "ApplyTransactionWithEVM(msg)", 0, CallResN("core.TransactionToMessage", 0, IndexOf(FreeVar("txs"), isIdx)), "the message of txs[i]")
		// a database error of the ephemeral state fails the worker
		c.Dom("db-error", worker, resultSlotStores(worker), "results[i] =", GErrChecked("ApplyTransactionWithEVM succeeded", ap).Then(GErrChecked("sdb.Error() == nil", c.Calls(worker, "(*core/state.StateDB).Error"))))
	}
	if etp != nil {
		c.Dom("PARWRITE/C33.workers/joined", etp, c.SuccessReturns(etp), "success return", GErrChecked("group.Wait() == nil", c.Calls(etp, "(*golang.org/x/sync/errgroup.Group).Wait")))
	}

	// ---- root goroutine ---------------------------------------------------------------------------
	c.Rule("JOIN/C33.root")
	pp := c.Fn(corep, "(*StateProcessor).processParallel")
	if pp != nil {
		gos := c.Calls(pp, "(*golang.org/x/sync/errgroup.Group).Go")
		waits := c.Calls(pp, "(*golang.org/x/sync/errgroup.Group).Wait")
		c.Expect(1, len(gos), "wg.Go in processParallel")
		// every use of the canonical state after the goroutine started is behind the join
		var after []Site
		eachInstr(pp, func(in ssa.Instruction) {
			ci, ok := in.(ssa.CallInstruction)
			if !ok {
				return
			}
			cc := ci.Common()
			uses := false
			for _, a := range cc.Args {
				if Param("statedb")(a) {
					uses = true
				}
			}
			if !uses || len(gos) == 0 {
				return
			}
			if _, isGo := in.(*ssa.Go); isGo {
				return
			}
			if ReachesBefore(gos[0].Instr, nil, nil, map[ssa.Instruction]bool{in: true}) != nil {
				after = append(after, Site{pp, in})
			}
		})
		c.Expect(3, len(after), "uses of the canonical state after the root goroutine started")
		c.Dom("joined-before-use", pp, after, "use of statedb", GErrChecked("wg.Wait() == nil", waits))
		c.Dom("joined-before-success", pp, c.SuccessReturns(pp), "success return", GErrChecked("wg.Wait() == nil", waits))
		// deferred join covers all exits after the start
		var dj []Site
		eachInstr(pp, func(in ssa.Instruction) {
			if d, ok := in.(*ssa.Defer); ok {
				var fn *ssa.Function
				if mc, ok := d.Call.Value.(*ssa.MakeClosure); ok {
					fn, _ = mc.Fn.(*ssa.Function)
				}
				if fn != nil && len(c.Calls(fn, "(*golang.org/x/sync/errgroup.Group).Wait")) > 0 {
					dj = append(dj, Site{pp, in})
				}
			}
		})
		if c.Check(len(dj) == 1 && len(gos) == 1, "deferred-join/"+fnName(pp), pp.Pos(), "a deferred wg.Wait() exists", "no deferred join of the root goroutine: an early error return leaves it mutating the canonical state") {
			hit := ReachesBefore(gos[0].Instr, sitesToSet(dj), nil, sitesToSet(c.Returns(pp)))
			c.Check(hit == nil, "deferred-join-first/"+fnName(pp), dj[0].Pos(), "the join is deferred before any exit that follows wg.Go", "an exit after wg.Go is reachable before the join is deferred")
		}
		// the goroutine: apply the list, hash, report the db error
		if len(gos) == 1 {
			if mc, ok := gos[0].Instr.(*ssa.Call).Call.Args[1].(*ssa.MakeClosure); ok {
				rootFn := mc.Fn.(*ssa.Function)
				c.Funcs[rootFn] = true
				apl := c.Calls(rootFn, "(*core/state.StateDB).ApplyBlockAccessList")
				ir := c.Calls(rootFn, "(*core/state.StateDB).IntermediateRoot")
				c.Dom("root-order", rootFn, ir, "IntermediateRoot", GErrChecked("ApplyBlockAccessList succeeded", apl))
				c.ArgIs("root-list", rootFn, apl, "ApplyBlockAccessList", 0, FreeVar("accessList"), "the block's own access list")
				for _, r := range c.Returns(rootFn) {
					ret := r.Instr.(*ssa.Return)
					v := retVal(ret, 0)
					if Nil()(v) {
						c.Bad("root-dberr/"+fnName(rootFn), r.Pos(), "the root goroutine can report success without consulting statedb.Error()")
					}
				}
				c.Check(len(c.Calls(rootFn, "(*core/state.StateDB).Error")) == 1, "root-dberr/"+fnName(rootFn), rootFn.Pos(), "the root goroutine reports the state database error", "the root goroutine drops database errors of the root computation")
			}
		}

		// ---- gathering in block order -------------------------------------------------------------
		c.Rule("ORDER/C33.gather")
		res := c.Calls(pp, SP+"executeTransactionsParallel")
		c.Expect(1, len(res), "executeTransactionsParallel call")
		chg := c.Calls(pp, "(*core.GasPool).ChargeGasAmsterdam")
		chk := c.Calls(pp, "(*core.GasPool).CheckGasAmsterdam")
		c.Expect(1, len(chg), "ChargeGasAmsterdam in processParallel")
		// the loop index ranges over txs and indexes results, txs with that same index
		var loopIdx ssa.Value
		for _, s := range chg {
			a := s.Instr.(*ssa.Call).Call.Args
			for _, x := range a[1:3] {
				if u, ok := x.(*ssa.UnOp); ok {
					if fa, ok := u.X.(*ssa.FieldAddr); ok {
						if ia, ok := fa.X.(*ssa.IndexAddr); ok && CallResN(SP+"executeTransactionsParallel", 0)(ia.X) {
							if loopIdx == nil {
								loopIdx = ia.Index
							} else if loopIdx != ia.Index {
								loopIdx = nil
							}
						}
					}
				}
			}
		}
		if c.Check(loopIdx != nil, "charge-index/"+fnName(pp), pp.Pos(), "execution and state gas charged come from the same results[i]", "the gas charged for a transaction mixes result slots") {
			li := Is(loopIdx)
			slot := func(root VPat, last string) VPat {
				return func(v ssa.Value) bool {
					u, ok := v.(*ssa.UnOp)
					if !ok || u.Op != token.MUL {
						return false
					}
					if fa, ok := u.X.(*ssa.FieldAddr); last != "" && (!ok || fieldAddrName(fa) != last) {
						return false
					}
					r, path := addrRoot(u.X)
					if !root(r) {
						return false
					}
					for _, ia := range path {
						if li(ia.Index) {
							return true
						}
					}
					return false
				}
			}
			resV := CallResN(SP+"executeTransactionsParallel", 0)
			c.ArgIs("charge-used", pp, chg, "ChargeGasAmsterdam(used)", 2, slot(resV, "core/types.Receipt.GasUsed"), "results[i].receipt.GasUsed")
			c.ArgIs("check-limit", pp, chk, "CheckGasAmsterdam(limit)", 1, func(v ssa.Value) bool {
				call, ok := v.(*ssa.Call)
				return ok && calleeName(&call.Call) == "(*core/types.Transaction).Gas" && slot(CallRes("(*core/types.Block).Transactions"), "")(call.Call.Args[0])
			}, "txs[i].Gas()")
			mg := c.CallsArg(pp, "(*core/types/bal.ConstructionBlockAccessList).Merge", 0, slot(resV, "core.txExecResult.accessList"))
			c.Check(len(mg) == 1, "merge-tx/"+fnName(pp), pp.Pos(), "each transaction's access list is merged in block order", "the per-transaction access lists are not merged into the rebuilt list in block order")
			// ascending loop from 0 in steps of one
			// `for i := range txs`: i = φ(-1, i)+1, or the explicit form i = φ(0, i+1)
			okLoop := false
			if b, ok := loopIdx.(*ssa.BinOp); ok && b.Op == token.ADD && ConstInt(1)(b.Y) {
				if phi, ok := b.X.(*ssa.Phi); ok && len(phi.Edges) == 2 {
					start, step := false, false
					for _, e := range phi.Edges {
						if k, ok := e.(*ssa.Const); ok && k.Value != nil && k.Int64() == -1 {
							start = true
						}
						if e == ssa.Value(b) {
							step = true
						}
					}
					okLoop = start && step
				}
			} else if phi, ok := loopIdx.(*ssa.Phi); ok && len(phi.Edges) == 2 {
				start, step := false, false
				for _, e := range phi.Edges {
					if k, ok := e.(*ssa.Const); ok && k.Value != nil && k.Int64() == 0 {
						start = true
					}
					if b, ok := e.(*ssa.BinOp); ok && b.Op == token.ADD && b.X == ssa.Value(phi) && ConstInt(1)(b.Y) {
						step = true
					}
				}
				okLoop = start && step
			}
			c.Check(okLoop, "block-order/"+fnName(pp), chg[0].Pos(), "results are folded in ascending index order", "results are not folded in block order (cumulative gas and log indices depend on it)")
		}
		c.Dom("charged-after-check", pp, chg, "ChargeGasAmsterdam", GErrChecked("CheckGasAmsterdam succeeded", chk))
		c.Dom("results-ok", pp, chg, "ChargeGasAmsterdam", GErrChecked("executeTransactionsParallel succeeded", res))
		// system calls at 0 and n+1
		als := c.Calls(pp, "core.newAccessListState")
		c.Expect(2, len(als), "newAccessListState calls")
		nZero, nPost := 0, 0
		for _, s := range als {
			a := s.Instr.(*ssa.Call).Call.Args[4]
			if ConstInt(0)(a) {
				nZero++
			} else if Mentions(func(v ssa.Value) bool {
				b, ok := v.(*ssa.BinOp)
				return ok && b.Op == token.ADD && Len(Any())(b.X) && ConstInt(1)(b.Y)
			})(a) {
				nPost++
			}
		}
		c.Check(nZero == 1 && nPost == 1, "system-indices/"+fnName(pp), pp.Pos(), "pre-execution runs at overlay index 0 and post-execution at len(txs)+1", "the system-call states are not built at indices 0 and n+1")
		// result fields
		for fld, pat := range map[string]VPat{
			"GasUsed": CallRes("(*core.GasPool).Used"),
			"Bal":     CallRes("core/types/bal.NewConstructionBlockAccessList"),
		} {
			for _, s := range c.Stores(pp, "core.ProcessResult."+fld) {
				c.Check(pat(s.Instr.(*ssa.Store).Val), "result/"+fld, s.Pos(), "ProcessResult."+fld+" comes from the block-level accumulator", "ProcessResult."+fld+" is not the block-level accumulator filled during gathering")
			}
		}
		fin := c.Calls(pp, "(consensus.Engine).Finalize")
		c.ArgIs("finalize-state", pp, fin, "Finalize(state)", 2, CallResN("core.newAccessListState", 0), "the post-execution overlay state (not the canonical state, which the root goroutine owns)")
	}

	// ---- overlay reader ---------------------------------------------------------------------------
	c.Rule("SIBLING/C33.reader")
	rt := c.Type(cst, "ReaderWithBlockLevelAccessList")
	if rt != nil {
		var iface *types.Interface
		if stt, ok := rt.Underlying().(*types.Struct); ok {
			for i := 0; i < stt.NumFields(); i++ {
				if stt.Field(i).Embedded() {
					iface, _ = stt.Field(i).Type().Underlying().(*types.Interface)
				}
			}
		}
		n := 0
		if iface != nil {
			for i := 0; i < iface.NumMethods(); i++ {
				m := iface.Method(i).Name()
				n++
				f := c.TryFn(cst, "(*ReaderWithBlockLevelAccessList)."+m)
				if !c.Check(f != nil && f.Synthetic == "", "override/"+m, rt.Obj().Pos(), "the overlay reader defines "+m+" itself", "the overlay reader inherits "+m+" from the base reader: reads through it bypass the access-list overlay") {
					continue
				}
				c.Funcs[f] = true
				var lk []Site
				eachInstr(f, func(in ssa.Instruction) {
					if call, ok := in.(*ssa.Call); ok && strings.HasPrefix(calleeName(&call.Call), "(*core/types/bal.Lookup).") {
						lk = append(lk, Site{f, in})
					}
				})
				if c.Check(len(lk) >= 1, "consults/"+m, f.Pos(), m+" consults the access-list lookup", m+" does not consult the access list") {
					for _, s := range lk {
						a := s.Instr.(*ssa.Call).Call.Args
						c.Check(Fld(cst+".ReaderWithBlockLevelAccessList.txIndex")(a[len(a)-1]), "index/"+m, s.Pos(), "looked up at the reader's own index", "the lookup is not made at the reader's own block-access index")
					}
				}
			}
		}
		c.Expect(5, n, "methods of the embedded reader interface")
	}
	if ac := c.TryFn(cst, "(*ReaderWithBlockLevelAccessList).Account"); ac != nil {
		ns := 0
		eachInstr(ac, func(in ssa.Instruction) {
			st, ok := in.(*ssa.Store)
			if !ok {
				return
			}
			fa, ok := st.Addr.(*ssa.FieldAddr)
			if !ok || !strings.HasPrefix(fieldAddrName(fa), "core/types.StateAccount.") {
				return
			}
			ns++
			okBase := true
			var walk func(v ssa.Value, d int)
			walk = func(v ssa.Value, d int) {
				if d > 4 {
					okBase = false
					return
				}
				switch x := v.(type) {
				case *ssa.Phi:
					for _, e := range x.Edges {
						walk(e, d+1)
					}
				case *ssa.Call:
					n := calleeName(&x.Call)
					if n != "(*core/types.StateAccount).Copy" && n != "core/types.NewEmptyStateAccount" {
						okBase = false
					}
				default:
					okBase = false
				}
			}
			walk(fa.X, 0)
			c.Check(okBase, "no-alias/"+fnName(ac), st.Pos(), "the overlay is written onto a copy / fresh account", "the overlay mutates the base account in place: the shared reader cache hands the same instance to concurrent readers")
		})
		c.Expect(3, ns, "account field stores in the overlay reader")
	}

	// ---- installing the access list -----------------------------------------------------------------
	c.Rule("LAST/C33.apply")
	nl := 0
	for _, name := range []string{"(*StateDB).applyBlockAccessList", "(*StateDB).prepareBALAccount"} {
		f := c.Fn(cst, name)
		if f == nil {
			continue
		}
		c.Funcs[f] = true
		eachInstr(f, func(in ssa.Instruction) {
			ia, ok := in.(*ssa.IndexAddr)
			if !ok {
				return
			}
			var fld string
			for _, n := range []string{"BalanceChanges", "NonceChanges", "CodeChanges"} {
				if Fld("core/types/bal.AccountAccess." + n)(ia.X) {
					fld = n
				}
			}
			if Fld("core/types/bal.encodingSlotChanges.SlotChanges")(ia.X) {
				fld = "SlotChanges"
			}
			if fld == "" {
				return
			}
			nl++
			b, ok := ia.Index.(*ssa.BinOp)
			last := ok && b.Op == token.SUB && ConstInt(1)(b.Y) && Len(func(v ssa.Value) bool { return sameValue(v, ia.X) })(b.X)
			c.Check(last, "last/"+fnName(f)+"/"+fld, ia.Pos(), "the applied value is the last recorded change (index len-1)", "a change other than the last one of "+fld+" is installed as the post-state")
		})
	}
	c.Expect(4, nl, "change-list accesses when installing the access list")
	if as := c.Fn(cst, "(*StateDB).applyBALStorage"); as != nil {
		so := cst + ".stateObject."
		o, p, u := c.MapWrites(as, so+"originStorage", false), c.MapWrites(as, so+"pendingStorage", false), c.MapWrites(as, so+"uncommittedStorage", false)
		if c.Check(len(o) == 1 && len(p) == 1 && len(u) == 1, "staged/"+fnName(as), as.Pos(), "origin, pending and uncommitted storage are staged together", "a mutated slot is not staged in all of origin/pending/uncommitted storage") {
			c.Check(o[0].Instr.Block() == p[0].Instr.Block() && p[0].Instr.Block() == u[0].Instr.Block(), "staged-together/"+fnName(as), p[0].Pos(), "the three maps are written on the same path", "the three storage maps are not written together")
			pv := p[0].Instr.(*ssa.MapUpdate).Value
			c.Check(Fld(cst+".balSlot.value")(pv), "staged-value/"+fnName(as), p[0].Pos(), "the pending value is the access list's post value", "the staged value is not the access list's post value")
			c.Dom("LAST/C33.apply/read-ok", as, p, "pendingStorage[key] =", GErrChecked("reader.Storage succeeded", invokeOn(c, as, cst+".StateDB.reader", "Storage")))
		}
		// prefetcher under the apply mutex
		pf := c.Calls(as, "(*"+cst+".triePrefetcher).prefetch")
		lk := c.Calls(as, "(*sync.Mutex).Lock")
		ul := c.Calls(as, "(*sync.Mutex).Unlock")
		c.Dom("LAST/C33.apply/prefetch-locked", as, pf, "prefetcher.prefetch", GCall("ba.prefetchMu.Lock()", lk))
		c.Followed("LAST/C33.apply/prefetch-unlocked", as, pf, "prefetcher.prefetch", ul, "ba.prefetchMu.Unlock()", c.Returns(as))
	}
	for _, name := range []string{"(*StateDB).prepareBALAccount", "(*StateDB).applyBALStorage"} {
		f := c.Fn(cst, name)
		if f == nil {
			continue
		}
		// concurrent workers: no store to StateDB fields, no StateDB map writes
		bad := 0
		eachInstr(f, func(in ssa.Instruction) {
			switch x := in.(type) {
			case *ssa.Store:
				if fa, ok := x.Addr.(*ssa.FieldAddr); ok && strings.HasPrefix(fieldAddrName(fa), cst+".StateDB.") {
					bad++
					c.Bad("shared-write/"+fnName(f), in.Pos(), "a concurrent access-list worker writes StateDB."+fieldAddrName(fa))
				}
			case *ssa.MapUpdate:
				if u, ok := x.Map.(*ssa.UnOp); ok {
					if fa, ok := u.X.(*ssa.FieldAddr); ok && strings.HasPrefix(fieldAddrName(fa), cst+".StateDB.") {
						bad++
						c.Bad("shared-write/"+fnName(f), in.Pos(), "a concurrent access-list worker writes the StateDB map "+fieldAddrName(fa))
					}
				}
			}
		})
		if bad == 0 {
			c.OK("shared-write/"+fnName(f), f.Pos(), "writes only its own entry / fresh object")
		}
	}
	if ab := c.Fn(cst, "(*StateDB).applyBlockAccessList"); ab != nil {
		c.Dom("LAST/C33.apply/workers-done", ab, cat(c.Calls(ab, "(*"+cst+".StateDB).markUpdate"), c.Calls(ab, "(*"+cst+".StateDB).markDelete"), c.Calls(ab, "(*"+cst+".StateDB).setStateObject")), "state mutation",
			GErrChecked("parallelBALApply succeeded", c.Calls(ab, cst+".parallelBALApply")))
		md, mu := c.Calls(ab, "(*"+cst+".StateDB).markDelete"), c.Calls(ab, "(*"+cst+".StateDB).markUpdate")
		c.Dom("LAST/C33.apply/delete-empty", ab, md, "markDelete", GCond("obj.empty()", ab, True(CallRes("(*"+cst+".stateObject).empty"))))
		c.Dom("LAST/C33.apply/update-nonempty", ab, mu, "markUpdate", GCond("!obj.empty()", ab, False(CallRes("(*"+cst+".stateObject).empty"))))
		c.Followed("LAST/C33.apply/update-sets", ab, mu, "markUpdate", c.Calls(ab, "(*"+cst+".StateDB).setStateObject"), "setStateObject(obj)", cat(c.Returns(ab), mu))
	}

	// ---- import validation --------------------------------------------------------------------------
	c.Rule("DOM/C33.validate")
	if vs := c.Fn(corep, "(*BlockValidator).ValidateState"); vs != nil {
		var okRet []Site
		for _, r := range c.Returns(vs) {
			if Nil()(retVal(r.Instr.(*ssa.Return), 0)) {
				okRet = append(okRet, r)
			}
		}
		c.Expect(2, len(okRet), "accepting returns of ValidateState")
		H := "core/types.Header."
		c.Dom("gas", vs, okRet, "accept", GCond("block.GasUsed() == res.GasUsed", vs, Cmp(CallRes("(*core/types.Block).GasUsed"), token.EQL, Fld("core.ProcessResult.GasUsed"))))
		c.Dom("bloom", vs, okRet, "accept", GCond("bloom == header.Bloom", vs, Cmp(CallRes("core/types.MergeBloom"), token.EQL, Fld(H+"Bloom"))))
		var full []Site
		stl := EdgesWhere(vs, True(Param("stateless")))
		for _, r := range okRet {
			early := false
			for e := range stl {
				if edgeDominates(e, r.Instr.Block()) {
					early = true
				}
			}
			if !early {
				full = append(full, r)
			}
		}
		c.Expect(1, len(full), "full (non-stateless) accepting return")
		c.Dom("receipts", vs, full, "accept", GCond("receiptSha == header.ReceiptHash", vs, Cmp(CallRes("core/types.DeriveSha"), token.EQL, Fld(H+"ReceiptHash"))))
		c.Dom("root", vs, full, "accept", GCond("header.Root == IntermediateRoot", vs, Cmp(Fld(H+"Root"), token.EQL, CallRes("(*core/state.StateDB).IntermediateRoot"))))
		c.Dom("requests", vs, full, "accept",
			GCond("reqhash == *header.RequestsHash", vs, Cmp(CallRes("core/types.CalcRequestsHash"), token.EQL, Mentions(Fld(H+"RequestsHash")))),
			GCond("header.RequestsHash == nil && res.Requests == nil", vs, Cmp(Fld(H+"RequestsHash"), token.EQL, Nil())).Then(GCond("res.Requests == nil", vs, Cmp(Fld("core.ProcessResult.Requests"), token.EQL, Nil()))))
		c.Dom("bal", vs, full, "accept",
			GCond("!IsAmsterdam", vs, False(CallRes("(*params.ChainConfig).IsAmsterdam"))),
			GCond("res.Bal != nil", vs, Cmp(Fld("core.ProcessResult.Bal"), token.NEQ, Nil())).
				Then(GCond("header.BlockAccessListHash != nil", vs, Cmp(Fld(H+"BlockAccessListHash"), token.NEQ, Nil()))).
				Then(GCond("local == remote", vs, Cmp(CallRes("(*core/types/bal.BlockAccessList).Hash"), token.EQL, Mentions(Fld(H+"BlockAccessListHash"))))).
				Then(GErrChecked("enc.Validate succeeded", c.Calls(vs, "(*core/types/bal.BlockAccessList).Validate"))))
	}
	if sp := c.Fn(corep, "supportsParallelExecution"); sp != nil {
		var yes []Site
		for _, r := range c.Returns(sp) {
			if !ConstBool(false)(retVal(r.Instr.(*ssa.Return), 0)) {
				yes = append(yes, r)
			}
		}
		c.Dom("DOM/C33.validate/eligible", sp, yes, "return true",
			GCond("!disableParallel", sp, False(Param("disableParallel"))).Then(GCond("!wantTrace", sp, False(Param("wantTrace")))).Then(GCond("!wantWitness", sp, False(Param("wantWitness")))))
		for _, r := range yes {
			v := retVal(r.Instr.(*ssa.Return), 0)
			hasList := false
			for _, am := range c.Calls(sp, "(*params.ChainConfig).IsAmsterdam") {
				for e := range EdgesWhere(sp, Cmp(CallRes("(*core/types.Block).AccessList"), token.NEQ, Nil())) {
					if edgeDominates(e, am.Instr.Block()) {
						hasList = true
					}
				}
			}
			c.Check(Mentions(CallRes("(*params.ChainConfig).IsAmsterdam"))(v) && (hasList || Mentions(CallRes("(*core/types.Block).AccessList"))(v)), "eligible-value/"+fnName(sp), r.Pos(), "eligibility requires an access list and Amsterdam", "parallel execution can be chosen without an access list / before Amsterdam")
		}
	}
}

// addrRoot walks an address expression back to its root value, collecting the
// IndexAddr steps on the way.
func addrRoot(v ssa.Value) (ssa.Value, []*ssa.IndexAddr) {
	var path []*ssa.IndexAddr
	for d := 0; d < 12; d++ {
		switch x := v.(type) {
		case *ssa.FieldAddr:
			v = x.X
		case *ssa.IndexAddr:
			path = append(path, x)
			v = x.X
		case *ssa.UnOp:
			if x.Op != token.MUL {
				return v, path
			}
			v = x.X
		case *ssa.Slice:
			v = x.X
		default:
			return v, path
		}
	}
	return v, path
}

func resultSlotStores(f *ssa.Function) []Site {
	var out []Site
	eachInstr(f, func(in ssa.Instruction) {
		if st, ok := in.(*ssa.Store); ok {
			if root, path := addrRoot(st.Addr); len(path) > 0 {
				if fv, ok := root.(*ssa.FreeVar); ok && fv.Name() == "results" {
					out = append(out, Site{f, in})
				}
			}
		}
	})
	return out
}
