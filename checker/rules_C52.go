package main

import (
	"go/constant"
	"go/token"

	"golang.org/x/tools/go/ssa"
)

func init() {
	Register(&Prop{
		ID:   "C52",
		Pkgs: []string{"accounts/keystore"},
		Decided: "nothing is decrypted before the MAC over the ciphertext matched: in DecryptDataV3 and decryptKeyV1 the comparison of the stored MAC with Keccak256(derivedKey[16:32], cipherText) rejects (ErrDecrypt) before aesCTRXOR / aesCBCDecrypt run and before any plaintext is returned; encryption and decryption split the derived key identically ([:16] cipher key, [16:32] MAC key) and both MAC the ciphertext (not the plaintext); the key derivation rejects unknown KDFs and PRFs and its error rejects decryption; the keystore returns a key only when the decrypted key's address equals the requested account; unsupported ciphers and versions are rejected first.",
		NotDec: "that any other passphrase fails (cryptographic: relies on the MAC being collision resistant) and the store/load round-trip of values.",
		Rules:  "ORDER/DOM must-pass-through per decrypt call and success return; CODEC constant slice bounds of the derived key in encrypt vs decrypt; SAMEVAL on the MAC inputs",
		MinObs: 30,
		Run:    c52,
	})
}

// sliceBounds returns "lo:hi" for a slice expression with constant bounds.
func sliceBounds(v ssa.Value) string {
	sl, ok := v.(*ssa.Slice)
	if !ok {
		return ""
	}
	b := func(x ssa.Value) string {
		if x == nil {
			return ""
		}
		if k, ok := x.(*ssa.Const); ok && k.Value != nil && k.Value.Kind() == constant.Int {
			return k.Value.ExactString()
		}
		return "?"
	}
	return b(sl.Low) + ":" + b(sl.High)
}

func c52(c *Ctx) {
	ks := "accounts/keystore"
	kdf := CallResN(ks+".getKDFKey", 0)
	for _, spec := range []struct{ fn, dec string }{{"DecryptDataV3", ks + ".aesCTRXOR"}, {"decryptKeyV1", ks + ".aesCBCDecrypt"}} {
		f := c.Fn(ks, spec.fn)
		c.Rule("ORDER/C52.mac")
		decs := c.Calls(f, spec.dec)
		c.Expect(1, len(decs), "decrypt call in "+spec.fn)
		macCalc := c.CallsWhere(f, "crypto.Keccak256", func(cc *ssaCall) bool { return true })
		macOK := GCond("bytes.Equal(calculatedMAC, mac)", f, True(CallRes("bytes.Equal", CallRes("crypto.Keccak256"), CallResN("encoding/hex.DecodeString", 0))))
		c.Dom("mac-before-decrypt", f, decs, "decrypt", macOK)
		c.Dom("mac-before-return", f, c.SuccessReturns(f), "success-return", macOK)
		c.Dom("kdf-ok", f, cat(decs, macCalc), "use of derived key", GErrChecked("getKDFKey", c.Calls(f, ks+".getKDFKey")))
		c.ErrUsed("errused", f, decs, "decrypt")
		// the MAC covers the ciphertext with the second half of the derived key
		c.Rule("CODEC/C52.keysplit")
		var macCall *ssa.Call
		for _, s := range macCalc {
			call := s.Instr.(*ssa.Call)
			// Keccak256(data ...[]byte): varargs slice of an array with 2 stored elements
			vals, _ := appendedValuesOfVarargs(call)
			if len(vals) == 2 {
				macCall = call
				lo := sliceBounds(vals[0])
				c.Check(lo == "16:32" && kdfOf(vals[0], kdf), "mac-key/"+spec.fn, s.Pos(), "MAC key is derivedKey[16:32]", "MAC key is derivedKey["+lo+"], expected [16:32]")
				c.Check(CallResN("encoding/hex.DecodeString", 0)(vals[1]), "mac-input/"+spec.fn, s.Pos(), "MAC is computed over the decoded ciphertext", "MAC is not computed over the ciphertext")
			}
		}
		c.Check(macCall != nil, "mac-present/"+spec.fn, f.Pos(), "MAC computation found", "no Keccak256(derivedKey[16:32], cipherText) in "+spec.fn)
		// cipher key is the first half
		for _, d := range decs {
			k := callArgs(d.Instr.(*ssa.Call).Common())[0]
			isHalf := func(v ssa.Value) bool { return sliceBounds(v) == ":16" && kdfOf(v, kdf) }
			ok := isHalf(k)
			if sl, isSl := k.(*ssa.Slice); isSl && !ok {
				// V1: Keccak256(derivedKey[:16])[:16]
				if hc, isCall := sl.X.(*ssa.Call); isCall && calleeName(&hc.Call) == "crypto.Keccak256" {
					vals, _ := appendedValuesOfVarargs(hc)
					ok = len(vals) == 1 && isHalf(vals[0])
				}
			}
			c.Check(ok, "cipher-key/"+spec.fn, d.Pos(), "cipher key derives from derivedKey[:16]", "cipher key is not derivedKey[:16]")
			// what is decrypted is the MAC'd ciphertext
			ct := callArgs(d.Instr.(*ssa.Call).Common())[1]
			c.Check(macCall != nil && func() bool { vals, _ := appendedValuesOfVarargs(macCall); return len(vals) == 2 && sameValue(vals[1], ct) }(), "same-ciphertext/"+spec.fn, d.Pos(),
				"the decrypted bytes are exactly the bytes the MAC covered", "decrypts something other than the MAC'd ciphertext")
		}
	}
	d3 := c.Fn(ks, "DecryptDataV3")
	c.Rule("DOM/C52.cipher")
	c.Dom("cipher-supported", d3, c.Calls(d3, ks+".aesCTRXOR"), "decrypt", GCond("Cipher==aes-128-ctr", d3, Cmp(Fld(ks+".CryptoJSON.Cipher"), token.EQL, Any())))

	// ---- encryption side uses the same split -------------------------------------------------------------
	e := c.Fn(ks, "EncryptDataV3")
	c.Rule("CODEC/C52.keysplit")
	sk := CallResN("golang.org/x/crypto/scrypt.Key", 0)
	enc := c.Calls(e, ks+".aesCTRXOR")
	c.Expect(1, len(enc), "aesCTRXOR in EncryptDataV3")
	for _, s := range enc {
		k := callArgs(s.Instr.(*ssa.Call).Common())[0]
		c.Check(sliceBounds(k) == ":16" && kdfOf(k, sk), "enc-cipher-key", s.Pos(), "encryption key is derivedKey[:16]", "encryption key is not derivedKey[:16]")
	}
	for _, s := range c.Calls(e, "crypto.Keccak256") {
		vals, _ := appendedValuesOfVarargs(s.Instr.(*ssa.Call))
		if len(vals) != 2 {
			continue
		}
		c.Check(sliceBounds(vals[0]) == "16:32" && kdfOf(vals[0], sk), "enc-mac-key", s.Pos(), "MAC key is derivedKey[16:32]", "encryption MAC key is not derivedKey[16:32]")
		c.Check(CallResN(ks+".aesCTRXOR", 0)(vals[1]), "enc-mac-input", s.Pos(), "MAC covers the ciphertext", "encryption MACs something other than the ciphertext")
	}

	// ---- KDF dispatch ------------------------------------------------------------------------------------------
	g := c.Fn(ks, "getKDFKey")
	c.Rule("DOM/C52.kdf")
	c.Dom("scrypt-only-when-named", g, c.Calls(g, "golang.org/x/crypto/scrypt.Key"), "scrypt.Key", GCond("KDF==scrypt", g, Cmp(Fld(ks+".CryptoJSON.KDF"), token.EQL, Any())))
	c.Dom("pbkdf2-prf", g, c.Calls(g, "golang.org/x/crypto/pbkdf2.Key"), "pbkdf2.Key", GCond("prf==hmac-sha256", g, Cmp(Any(), token.EQL, func(v ssa.Value) bool {
		k, ok := v.(*ssa.Const)
		return ok && k.Value != nil && k.Value.Kind() == constant.String && constant.StringVal(k.Value) == "hmac-sha256"
	})))
	for _, r := range c.SuccessReturns(g) {
		v := retVal(r.Instr.(*ssa.Return), 0)
		c.Check(Or(CallRes("golang.org/x/crypto/scrypt.Key"), CallRes("golang.org/x/crypto/pbkdf2.Key"))(v), "kdf-result", r.Pos(), "a successful return carries a derived key", "getKDFKey returns success without deriving a key")
	}

	// ---- the keystore hands out only the requested account's key ----------------------------------------------------
	gk := c.Fn(ks, "(keyStorePassphrase).GetKey")
	c.Rule("DOM/C52.addr")
	c.Dom("address-matches", gk, c.SuccessReturns(gk), "success-return", GErrChecked("DecryptKey", c.Calls(gk, ks+".DecryptKey")).Then(
		GCond("key.Address==addr", gk, Cmp(Fld(ks+".Key.Address"), token.EQL, Param("addr")))))
	dk := c.Fn(ks, "DecryptKey")
	c.Dom("decrypt-error-rejects", dk, c.Calls(dk, "crypto.ToECDSA"), "ToECDSA(keyBytes)", GCond("err==nil", dk, Cmp(func(v ssa.Value) bool {
		phi, ok := v.(*ssa.Phi)
		if !ok {
			return false
		}
		for _, e := range phi.Edges {
			if !Or(CallResN(ks+".decryptKeyV1", 2), CallResN(ks+".decryptKeyV3", 2))(e) {
				return false
			}
		}
		return len(phi.Edges) == 2
	}, token.EQL, Nil())))
	v3 := c.Fn(ks, "decryptKeyV3")
	c.Dom("version-supported", v3, c.Calls(v3, ks+".DecryptDataV3"), "DecryptDataV3", GCond("Version==3", v3, Cmp(Fld(ks+".encryptedKeyJSONV3.Version"), token.EQL, Any())))
}

// kdfOf: v is a slice of a value matching src.
func kdfOf(v ssa.Value, src VPat) bool {
	sl, ok := v.(*ssa.Slice)
	return ok && src(sl.X)
}

// appendedValuesOfVarargs returns the values stored into the varargs array of
// a variadic call (last argument), in index order.
func appendedValuesOfVarargs(call *ssa.Call) ([]ssa.Value, bool) {
	if len(call.Call.Args) == 0 {
		return nil, false
	}
	sl, ok := call.Call.Args[len(call.Call.Args)-1].(*ssa.Slice)
	if !ok {
		return nil, false
	}
	al, ok := sl.X.(*ssa.Alloc)
	if !ok {
		return nil, false
	}
	byIdx := map[int64]ssa.Value{}
	for _, r := range *al.Referrers() {
		ia, ok := r.(*ssa.IndexAddr)
		if !ok {
			continue
		}
		k, ok := ia.Index.(*ssa.Const)
		if !ok {
			continue
		}
		i, _ := constant.Int64Val(k.Value)
		for _, rr := range *ia.Referrers() {
			if st, ok := rr.(*ssa.Store); ok && st.Addr == ia {
				byIdx[i] = st.Val
			}
		}
	}
	var out []ssa.Value
	for i := int64(0); i < int64(len(byIdx)); i++ {
		out = append(out, byIdx[i])
	}
	return out, true
}
