package main

func init() {
	addControl("CTL.guardsub", func(c *Ctx) {
		for _, n := range []string{"goodSpend", "badSpendStale", "badSpendUnguarded", "goodRepay"} {
			c.GuardSub("sub", c.Fn("ctl", "(*budget)."+n), nil)
		}
	}, "badSpendStale", "badSpendUnguarded")
}
