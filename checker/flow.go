package main

import (
	"fmt"
	"go/token"
	"go/types"
	"strings"

	"golang.org/x/tools/go/ssa"
)

// Edge is the succ-th outgoing edge of a block.
type Edge struct {
	From *ssa.BasicBlock
	Succ int
}

// ---- conditions ------------------------------------------------------------

// Cond describes a boolean fact about values, independent of how the source
// spells it (operand order, negation, nesting of ifs, && / ||).
type Cond struct {
	cmp   bool
	Op    token.Token
	L, R  VPat
	P     VPat // truthy form
	neg   bool
	Label string
}

// False: the boolean value matching p is false.
func False(p VPat) Cond { return Cond{P: p, neg: true} }

// Not negates a condition.
func Not(cd Cond) Cond { cd.neg = !cd.neg; return cd }

// Cmp: "L op R" holds.
func Cmp(l VPat, op token.Token, r VPat) Cond { return Cond{cmp: true, Op: op, L: l, R: r} }

// True: the boolean value matching p is true.
func True(p VPat) Cond { return Cond{P: p} }

func swapOp(op token.Token) token.Token {
	switch op {
	case token.LSS:
		return token.GTR
	case token.GTR:
		return token.LSS
	case token.LEQ:
		return token.GEQ
	case token.GEQ:
		return token.LEQ
	}
	return op // == and != are symmetric
}

func negOp(op token.Token) token.Token {
	switch op {
	case token.EQL:
		return token.NEQ
	case token.NEQ:
		return token.EQL
	case token.LSS:
		return token.GEQ
	case token.GEQ:
		return token.LSS
	case token.GTR:
		return token.LEQ
	case token.LEQ:
		return token.GTR
	}
	return token.ILLEGAL
}

// polarity: +1 when "v is true" implies the condition, -1 when "v is false"
// implies it, 0 when v says nothing about it.
func (cd Cond) polarity(v ssa.Value) int {
	if cd.neg {
		cd.neg = false
		return -cd.polarity(v)
	}
	if u, ok := v.(*ssa.UnOp); ok && u.Op == token.NOT {
		return -cd.polarity(u.X)
	}
	if !cd.cmp {
		if cd.P(v) {
			return +1
		}
		// x == true / x == false forms
		if b, ok := v.(*ssa.BinOp); ok && (b.Op == token.EQL || b.Op == token.NEQ) {
			for _, pr := range [][2]ssa.Value{{b.X, b.Y}, {b.Y, b.X}} {
				if cd.P(pr[0]) {
					for _, bv := range []bool{true, false} {
						if ConstBool(bv)(pr[1]) {
							s := 1
							if !bv {
								s = -s
							}
							if b.Op == token.NEQ {
								s = -s
							}
							return s
						}
					}
				}
			}
		}
		return 0
	}
	b, ok := v.(*ssa.BinOp)
	if !ok {
		return 0
	}
	switch {
	case b.Op == cd.Op && cd.L(b.X) && cd.R(b.Y):
		return +1
	case swapOp(b.Op) == cd.Op && cd.L(b.Y) && cd.R(b.X):
		return +1
	case negOp(b.Op) == cd.Op && cd.L(b.X) && cd.R(b.Y):
		return -1
	case negOp(swapOp(b.Op)) == cd.Op && cd.L(b.Y) && cd.R(b.X):
		return -1
	}
	// x.Cmp(y) ⋈ 0 on big.Int / uint256.Int reads as x ⋈ y
	if x, y, op, ok := bigCompare(b); ok {
		switch {
		case op == cd.Op && cd.L(x) && cd.R(y):
			return +1
		case swapOp(op) == cd.Op && cd.L(y) && cd.R(x):
			return +1
		case negOp(op) == cd.Op && cd.L(x) && cd.R(y):
			return -1
		case negOp(swapOp(op)) == cd.Op && cd.L(y) && cd.R(x):
			return -1
		}
	}
	return 0
}

// bigCompare recognises `x.Cmp(y) op 0` (and `0 op x.Cmp(y)`) for the
// three-way Cmp of math/big.Int and uint256.Int.
func bigCompare(b *ssa.BinOp) (x, y ssa.Value, op token.Token, ok bool) {
	try := func(c, z ssa.Value, o token.Token) bool {
		call, isCall := c.(*ssa.Call)
		if !isCall || !ConstInt(0)(z) {
			return false
		}
		n := calleeName(&call.Call)
		if n != "(*math/big.Int).Cmp" && n != "(*github.com/holiman/uint256.Int).Cmp" {
			return false
		}
		x, y, op = call.Call.Args[0], call.Call.Args[1], o
		return true
	}
	if try(b.X, b.Y, b.Op) || try(b.Y, b.X, swapOp(b.Op)) {
		return x, y, op, true
	}
	return nil, nil, token.ILLEGAL, false
}

// EdgesWhere returns the CFG edges of f on which cd is known to hold.
func EdgesWhere(f *ssa.Function, cd Cond) map[Edge]bool {
	out := map[Edge]bool{}
	for _, b := range f.Blocks {
		if len(b.Instrs) == 0 {
			continue
		}
		iff, ok := b.Instrs[len(b.Instrs)-1].(*ssa.If)
		if !ok {
			continue
		}
		switch cd.polarity(iff.Cond) {
		case +1:
			out[Edge{b, 0}] = true
		case -1:
			out[Edge{b, 1}] = true
		}
	}
	return out
}

// ---- error results of calls --------------------------------------------------

// errValues returns the SSA values that carry the error (last result of type
// error) of the call, following extraction, phis, and spills to local allocs.
func errValues(call ssa.Value) map[ssa.Value]bool {
	out := map[ssa.Value]bool{}
	sig := call.(*ssa.Call).Call.Signature()
	res := sig.Results()
	if res.Len() == 0 {
		return out
	}
	idx := res.Len() - 1
	if !isErrorType(res.At(idx).Type()) {
		return out
	}
	var roots []ssa.Value
	if res.Len() == 1 {
		roots = append(roots, call)
	} else {
		for _, r := range *call.Referrers() {
			if e, ok := r.(*ssa.Extract); ok && e.Index == idx {
				roots = append(roots, e)
			}
		}
	}
	for _, r := range roots {
		flowForward(r, out)
	}
	return out
}

// resultValues is errValues for an arbitrary result index (e.g. an ok bool).
func resultValues(call *ssa.Call, idx int) map[ssa.Value]bool {
	out := map[ssa.Value]bool{}
	res := call.Call.Signature().Results()
	if res.Len() == 1 && idx == 0 {
		flowForward(call, out)
		return out
	}
	for _, r := range *call.Referrers() {
		if e, ok := r.(*ssa.Extract); ok && e.Index == idx {
			flowForward(e, out)
		}
	}
	return out
}

func isErrorType(t types.Type) bool {
	n, ok := t.(*types.Named)
	return ok && n.Obj().Pkg() == nil && n.Obj().Name() == "error"
}

// flowForward collects v and the values it flows into unchanged: phis,
// conversions, and loads of local allocs it is stored to.
func flowForward(v ssa.Value, out map[ssa.Value]bool) {
	if out[v] {
		return
	}
	out[v] = true
	refs := v.Referrers()
	if refs == nil {
		return
	}
	for _, r := range *refs {
		switch x := r.(type) {
		case *ssa.Phi:
			flowForward(x, out)
		case *ssa.ChangeType:
			flowForward(x, out)
		case *ssa.ChangeInterface:
			flowForward(x, out)
		case *ssa.Store:
			if x.Val != v {
				continue
			}
			if a, ok := x.Addr.(*ssa.Alloc); ok {
				for _, lr := range *a.Referrers() {
					if u, ok := lr.(*ssa.UnOp); ok && u.Op == token.MUL && loadSeesStore(u, x, a) {
						flowForward(u, out)
					}
				}
			}
		}
	}
}

// loadSeesStore: the store can reach the load, and no other store to the same
// alloc lies on every path in between (approximated: no other store S2 with
// store ->* S2 ->* load, unless S2 is the store itself).
func loadSeesStore(load *ssa.UnOp, st *ssa.Store, a *ssa.Alloc) bool {
	if !instrReaches(st, load) {
		return false
	}
	for _, r := range *a.Referrers() {
		s2, ok := r.(*ssa.Store)
		if !ok || s2 == st || s2.Addr != a {
			continue
		}
		if instrDominatesStrict(st, s2) && instrDominatesStrict(s2, load) {
			return false
		}
	}
	return true
}

func instrDominatesStrict(a, b ssa.Instruction) bool {
	if a.Block() == b.Block() {
		return instrIndex(a) < instrIndex(b)
	}
	return a.Block().Dominates(b.Block())
}

// instrReaches: b is reachable from a in the CFG.
func instrReaches(a, b ssa.Instruction) bool {
	if a.Block() == b.Block() && instrIndex(a) < instrIndex(b) {
		return true
	}
	seen := map[*ssa.BasicBlock]bool{}
	var stack []*ssa.BasicBlock
	stack = append(stack, a.Block().Succs...)
	for len(stack) > 0 {
		x := stack[len(stack)-1]
		stack = stack[:len(stack)-1]
		if seen[x] {
			continue
		}
		seen[x] = true
		if x == b.Block() {
			return true
		}
		stack = append(stack, x.Succs...)
	}
	return false
}

// ErrNilEdges returns the edges on which the error of the call is known nil.
func ErrNilEdges(call *ssa.Call) map[Edge]bool {
	vals := errValues(call)
	in := func(v ssa.Value) bool { return vals[v] }
	return EdgesWhere(call.Parent(), Cmp(in, token.EQL, Nil()))
}

// ResultTrueEdges returns edges on which bool result idx of the call is true.
func ResultTrueEdges(call *ssa.Call, idx int) map[Edge]bool {
	vals := resultValues(call, idx)
	in := func(v ssa.Value) bool { return vals[v] }
	return EdgesWhere(call.Parent(), True(in))
}

// ---- guards and the must-pass-through search ---------------------------------

// Step is one event a path must contain: an instruction from a set, or the
// traversal of an edge from a set.
type Step struct {
	Instrs map[ssa.Instruction]bool
	Edges  map[Edge]bool
}

// Guard is an ordered chain of steps; a path "passes" the guard when it
// contains all steps in order.
type Guard struct {
	Desc  string
	Steps []Step
	Sites int // number of concrete instructions/edges found (0 = cannot ever pass)
}

func sitesToSet(ss []Site) map[ssa.Instruction]bool {
	m := map[ssa.Instruction]bool{}
	for _, s := range ss {
		m[s.Instr] = true
	}
	return m
}

// noReturn: the instruction never returns control (log.Crit, panic, os.Exit).
func noReturn(in ssa.Instruction) bool {
	switch x := in.(type) {
	case *ssa.Panic:
		return true
	case *ssa.Call:
		switch calleeName(&x.Call) {
		case "log.Crit", "os.Exit", "builtin.panic", "(*testing.common).Fatal", "(*testing.common).Fatalf":
			return true
		}
	}
	return false
}

// GSites: the path executes one of the instructions (stores, sends, ...).
func GSites(desc string, ss []Site) Guard { return GCall(desc, ss) }

// GCall: the path executes one of the call sites.
func GCall(desc string, ss []Site) Guard {
	return Guard{Desc: desc, Steps: []Step{{Instrs: sitesToSet(ss)}}, Sites: len(ss)}
}

// GEdge: the path traverses an edge on which cd holds.
func GCond(desc string, f *ssa.Function, cd Cond) Guard {
	e := EdgesWhere(f, cd)
	return Guard{Desc: desc, Steps: []Step{{Edges: e}}, Sites: len(e)}
}

// GErrChecked: the path executes one of the calls and then continues on an
// edge where that call's error is nil.
func GErrChecked(desc string, ss []Site) Guard {
	g := Guard{Desc: desc + " (error tested)"}
	edges := map[Edge]bool{}
	for _, s := range ss {
		if call, ok := s.Instr.(*ssa.Call); ok {
			for e := range ErrNilEdges(call) {
				edges[e] = true
			}
		}
	}
	g.Steps = []Step{{Instrs: sitesToSet(ss)}, {Edges: edges}}
	g.Sites = len(ss)
	if len(edges) == 0 {
		g.Sites = 0
	}
	return g
}

// GOkChecked: call executed, then an edge where its bool result idx is true.
func GOkChecked(desc string, ss []Site, idx int) Guard {
	g := Guard{Desc: desc + " (result tested)"}
	edges := map[Edge]bool{}
	for _, s := range ss {
		if call, ok := s.Instr.(*ssa.Call); ok {
			for e := range ResultTrueEdges(call, idx) {
				edges[e] = true
			}
		}
	}
	g.Steps = []Step{{Instrs: sitesToSet(ss)}, {Edges: edges}}
	g.Sites = len(ss)
	if len(edges) == 0 {
		g.Sites = 0
	}
	return g
}

// Then chains guards: all steps of g, then all steps of h.
func (g Guard) Then(h Guard) Guard {
	out := Guard{Desc: g.Desc + " then " + h.Desc, Sites: g.Sites}
	if h.Sites == 0 {
		out.Sites = 0
	}
	out.Steps = append(append([]Step{}, g.Steps...), h.Steps...)
	return out
}

type pathState struct {
	b    *ssa.BasicBlock
	prog string // progress per guard, one byte each
}

// MustPass decides, for each target, whether every CFG path from the entry
// of f to the target passes at least one of the guards (alternatives). It
// returns, per violating target, a witness path (block indices).
func MustPass(f *ssa.Function, targets []Site, guards []Guard) map[ssa.Instruction][]int {
	return mustPassFrom(f, f.Blocks[0], 0, targets, guards)
}

func mustPassFrom(f *ssa.Function, start *ssa.BasicBlock, startIdx int, targets []Site, guards []Guard) map[ssa.Instruction][]int {
	tset := sitesToSet(targets)
	bad := map[ssa.Instruction][]int{}
	type node struct {
		st     pathState
		parent *node
	}
	// correlated branches: an SSA value tested by two or more Ifs has the same
	// truth value at each of them (until its definition is re-executed), so
	// `if c {check}; …; if c {effect}` is not treated as four paths.
	corrIdx := corrConds(f)
	ng := len(guards)
	init := make([]byte, ng+len(corrIdx))
	if start != f.Blocks[0] && len(corrIdx) > 0 {
		// a search that starts inside a branch already knows the truth value of
		// the correlated conditions whose edge dominates the start block (unless
		// the condition may have been re-evaluated on the way from that edge)
		resets := corrResets(f)
		for _, b := range f.Blocks {
			iff, ok := b.Instrs[len(b.Instrs)-1].(*ssa.If)
			if !ok {
				continue
			}
			cv, neg := stripNot(iff.Cond)
			ci, ok := corrIdx[cv]
			if !ok {
				continue
			}
			for si := range b.Succs {
				if !edgeDominates(Edge{b, si}, start) {
					continue
				}
				stale := false
				for mid := range blocksBetween(b.Succs[si], start) {
					for _, r := range resets[mid] {
						if r == ci {
							stale = true
						}
					}
				}
				if stale {
					continue
				}
				val := byte(1)
				if (si == 1) != neg {
					val = 2
				}
				init[ng+ci] = val
			}
		}
	}
	seen := map[pathState]bool{}
	queue := []*node{{st: pathState{start, string(init)}}}
	if startIdx == 0 {
		// a search that starts mid-block has not covered the block's head yet
		seen[queue[0].st] = true
	}
	first := true
	for len(queue) > 0 {
		n := queue[0]
		queue = queue[1:]
		prog := []byte(n.st.prog)
		done := false
		i0 := 0
		if first {
			i0 = startIdx
			first = false
		}
		for _, in := range n.st.b.Instrs[i0:] {
			if noReturn(in) {
				done = true
				break
			}
			if tset[in] {
				if _, dup := bad[in]; !dup {
					var path []int
					for x := n; x != nil; x = x.parent {
						path = append([]int{x.st.b.Index}, path...)
					}
					bad[in] = path
				}
			}
			for gi, g := range guards {
				k := int(prog[gi])
				if k < len(g.Steps) && g.Steps[k].Instrs != nil && g.Steps[k].Instrs[in] {
					prog[gi]++
					if int(prog[gi]) == len(g.Steps) {
						done = true
					}
				}
			}
			if done {
				break
			}
		}
		if done {
			continue
		}
		for si, s := range n.st.b.Succs {
			p2 := append([]byte(nil), prog...)
			d2 := false
			for gi, g := range guards {
				k := int(p2[gi])
				if k < len(g.Steps) && g.Steps[k].Edges != nil && g.Steps[k].Edges[Edge{n.st.b, si}] {
					p2[gi]++
					if int(p2[gi]) == len(g.Steps) {
						d2 = true
					}
				}
			}
			if d2 {
				continue
			}
			// correlated conditions
			if iff, ok := n.st.b.Instrs[len(n.st.b.Instrs)-1].(*ssa.If); ok && len(corrIdx) > 0 {
				cv, neg := stripNot(iff.Cond)
				if ci, ok := corrIdx[cv]; ok {
					val := byte(1) // true
					if (si == 1) != neg {
						val = 2
					}
					if p2[ng+ci] != 0 && p2[ng+ci] != val {
						continue // contradicts what this path already knows
					}
					p2[ng+ci] = val
				}
			}
			// entering a block that (re)defines an input of a tracked condition
			// (a phi it mentions, or the condition itself via a back edge) forgets it
			for _, ci := range corrResets(f)[s] {
				p2[ng+ci] = 0
			}
			st := pathState{s, string(p2)}
			if !seen[st] {
				seen[st] = true
				queue = append(queue, &node{st: st, parent: n})
			}
		}
	}
	return bad
}

// Dom is the workhorse rule: every target site is reached only through one
// of the guards. Emits one obligation per target.
func (c *Ctx) Dom(name string, f *ssa.Function, targets []Site, what string, guards ...Guard) {
	c.Funcs[f] = true
	var gd, missing []string
	var present []Guard
	for _, g := range guards {
		if g.Sites == 0 {
			missing = append(missing, g.Desc)
			continue
		}
		gd = append(gd, g.Desc)
		present = append(present, g)
	}
	// alternatives: at least one must exist in the function; absent ones simply
	// cannot be passed
	if len(present) == 0 {
		c.Bad(name+"/"+fnName(f)+"/guard", f.Pos(), "guard not present in function: "+strings.Join(missing, " | "))
		return
	}
	guards = present
	if len(targets) == 0 {
		c.Undecided(name+"/"+fnName(f)+"/"+what, f.Pos(), "no target site matched ("+what+")")
		return
	}
	bad := MustPass(f, targets, guards)
	for _, t := range targets {
		construct := name + "/" + fnName(f) + "/" + what
		if path, isBad := bad[t.Instr]; isBad {
			c.Bad(construct, t.Pos(), fmt.Sprintf("%s reachable without passing [%s]; witness path blocks %v", what, strings.Join(gd, " | "), path))
		} else {
			c.OK(construct, t.Pos(), "every path passes ["+strings.Join(gd, " | ")+"]")
		}
	}
}

// ---- exits ---------------------------------------------------------------------

// retVal returns the idx-th returned value, resolving the defer spill
// (`*res = v; rundefers; t = *res; return t`) to the value stored in the
// return's own block.
func retVal(ret *ssa.Return, idx int) ssa.Value {
	v := ret.Results[idx]
	u, ok := v.(*ssa.UnOp)
	if !ok || u.Op != token.MUL {
		return v
	}
	a, ok := u.X.(*ssa.Alloc)
	if !ok {
		return v
	}
	instrs := ret.Block().Instrs
	sawDefers := false
	for i := len(instrs) - 1; i >= 0; i-- {
		if _, ok := instrs[i].(*ssa.RunDefers); ok {
			sawDefers = true
		}
		if st, ok := instrs[i].(*ssa.Store); ok && st.Addr == a && sawDefers {
			return st.Val
		}
	}
	return v
}

// knownNonNil: v is certainly a non-nil error at the given return.
func knownNonNil(v ssa.Value, ret *ssa.Return, depth int) bool {
	if depth > 4 {
		return false
	}
	switch x := v.(type) {
	case *ssa.MakeInterface:
		return true
	case *ssa.Const:
		return false
	case *ssa.Call:
		n := calleeName(&x.Call)
		if n == "errors.New" || n == "fmt.Errorf" {
			return true
		}
	case *ssa.UnOp:
		if g, ok := x.X.(*ssa.Global); ok && x.Op == token.MUL {
			ln := strings.ToLower(g.Name())
			return strings.HasPrefix(ln, "err")
		}
	case *ssa.Phi:
		for _, e := range x.Edges {
			if !knownNonNil(e, ret, depth+1) {
				return false
			}
		}
		return len(x.Edges) > 0
	}
	// dominated by an edge where v != nil
	is := func(w ssa.Value) bool { return sameValue(w, v) }
	edges := EdgesWhere(ret.Parent(), Cmp(is, token.NEQ, Nil()))
	for e := range edges {
		if edgeDominates(e, ret.Block()) {
			return true
		}
	}
	return false
}

// edgeDominates: every path from entry to block b traverses edge e.
func edgeDominates(e Edge, b *ssa.BasicBlock) bool {
	s := e.From.Succs[e.Succ]
	if !(s == b || s.Dominates(b)) {
		return false
	}
	for _, p := range s.Preds {
		if p == e.From {
			// the same block may reach s through both edges
			if len(e.From.Succs) == 2 && e.From.Succs[0] == e.From.Succs[1] {
				return false
			}
			continue
		}
		if !s.Dominates(p) {
			return false
		}
	}
	return true
}

// SuccessReturns lists returns whose error result (last result, type error)
// is not provably non-nil. For functions without an error result, all returns.
func (c *Ctx) SuccessReturns(f *ssa.Function) []Site {
	res := f.Signature.Results()
	var out []Site
	for _, r := range c.Returns(f) {
		ret := r.Instr.(*ssa.Return)
		if res.Len() > 0 && isErrorType(res.At(res.Len()-1).Type()) {
			if knownNonNil(retVal(ret, res.Len()-1), ret, 0) {
				continue
			}
		}
		out = append(out, r)
	}
	return out
}

// ReturnsWhere lists returns whose idx-th result matches p.
func (c *Ctx) ReturnsWhere(f *ssa.Function, idx int, p VPat) []Site {
	var out []Site
	for _, r := range c.Returns(f) {
		ret := r.Instr.(*ssa.Return)
		if idx < len(ret.Results) && p(retVal(ret, idx)) {
			out = append(out, r)
		}
	}
	return out
}

// ReturnsNot lists returns whose idx-th result does not match p
// (e.g. all returns that are not the constant false).
func (c *Ctx) ReturnsNot(f *ssa.Function, idx int, p VPat) []Site {
	var out []Site
	for _, r := range c.Returns(f) {
		ret := r.Instr.(*ssa.Return)
		if idx < len(ret.Results) && !p(retVal(ret, idx)) {
			out = append(out, r)
		}
	}
	return out
}

// ---- forward reachability (PAIR "followed by") ----------------------------------

// ReachesBefore searches forward from just after `from`; a path stops at any
// instruction in stop or edge in stopEdges. Returns the first instruction of
// target reachable that way together with a witness, or nil.
func ReachesBefore(from ssa.Instruction, stop map[ssa.Instruction]bool, stopEdges map[Edge]bool, target map[ssa.Instruction]bool) ssa.Instruction {
	g := Guard{Steps: []Step{{Instrs: stop}}}
	guards := []Guard{g}
	if stopEdges != nil {
		guards = append(guards, Guard{Steps: []Step{{Edges: stopEdges}}})
	}
	var ts []Site
	for t := range target {
		ts = append(ts, Site{from.Parent(), t})
	}
	bad := mustPassFrom(from.Parent(), from.Block(), instrIndex(from)+1, ts, guards)
	var first ssa.Instruction
	for in := range bad {
		if first == nil || in.Pos() < first.Pos() {
			first = in
		}
	}
	return first
}

// Followed: every site in P is followed, on every path to a target exit, by a
// site in Q (or by traversing one of qEdges). Emits one obligation per P site.
func (c *Ctx) Followed(name string, f *ssa.Function, P []Site, what string, Q []Site, qdesc string, exits []Site) {
	c.Funcs[f] = true
	if len(P) == 0 {
		c.Undecided(name+"/"+fnName(f)+"/"+what, f.Pos(), "no site matched ("+what+")")
		return
	}
	for _, p := range P {
		construct := name + "/" + fnName(f) + "/" + what
		hit := ReachesBefore(p.Instr, sitesToSet(Q), nil, sitesToSet(exits))
		if hit != nil {
			c.Bad(construct, p.Pos(), fmt.Sprintf("%s can reach exit at %s without %s", what, c.pos(Site{f, hit}.Pos()), qdesc))
		} else {
			c.OK(construct, p.Pos(), "followed by "+qdesc+" on every path to the listed exits")
		}
	}
}

// LoopLatches returns the terminating jumps of the back edges of the loop
// whose header block ends in an If on cd (either polarity).
func (c *Ctx) LoopLatches(f *ssa.Function, cd Cond) []Site {
	var out []Site
	for _, h := range f.Blocks {
		iff, ok := h.Instrs[len(h.Instrs)-1].(*ssa.If)
		if !ok || cd.polarity(iff.Cond) == 0 {
			continue
		}
		for _, p := range h.Preds {
			if h.Dominates(p) {
				out = append(out, Site{f, p.Instrs[len(p.Instrs)-1]})
			}
		}
	}
	c.Sites += len(out)
	return out
}

// RangeLatches returns the back-edge jumps of `for … range` loops over a
// value matching x (rangeindex loops; the header tests k < len(x)).
func (c *Ctx) RangeLatches(f *ssa.Function, x VPat) []Site {
	return c.LoopLatches(f, Cmp(Any(), token.LSS, Len(x)))
}

// ArgIs: the idx-th argument (receiver excluded) of every listed call matches
// pat. Emits one obligation per call.
func (c *Ctx) ArgIs(name string, f *ssa.Function, calls []Site, what string, idx int, pat VPat, pdesc string) {
	c.Funcs[f] = true
	if len(calls) == 0 {
		c.Undecided(name+"/"+fnName(f)+"/"+what, f.Pos(), "no call site matched ("+what+")")
		return
	}
	for _, s := range calls {
		as := callArgs(s.Instr.(ssa.CallInstruction).Common())
		construct := name + "/" + fnName(f) + "/" + what
		if idx < len(as) && pat(as[idx]) {
			c.OK(construct, s.Pos(), fmt.Sprintf("argument %d is %s", idx, pdesc))
		} else {
			d := "<missing>"
			if idx < len(as) {
				d = describe(as[idx])
			}
			c.Bad(construct, s.Pos(), fmt.Sprintf("argument %d of %s is %s, expected %s", idx, what, d, pdesc))
		}
	}
}

// RecvIs: the receiver of every listed method call matches pat.
func (c *Ctx) RecvIs(name string, f *ssa.Function, calls []Site, what string, pat VPat, pdesc string) {
	c.Funcs[f] = true
	if len(calls) == 0 {
		c.Undecided(name+"/"+fnName(f)+"/"+what, f.Pos(), "no call site matched ("+what+")")
		return
	}
	for _, s := range calls {
		r := callRecv(s.Instr.(ssa.CallInstruction).Common())
		construct := name + "/" + fnName(f) + "/" + what
		if r != nil && pat(r) {
			c.OK(construct, s.Pos(), "receiver is "+pdesc)
		} else {
			c.Bad(construct, s.Pos(), fmt.Sprintf("receiver of %s is %s, expected %s", what, describe(r), pdesc))
		}
	}
}

// Each applies pred to every site, one obligation per site.
func (c *Ctx) Each(name string, f *ssa.Function, sites []Site, what string, pred func(s Site) (bool, string)) {
	c.Funcs[f] = true
	if len(sites) == 0 {
		c.Undecided(name+"/"+fnName(f)+"/"+what, f.Pos(), "no site matched ("+what+")")
		return
	}
	for _, s := range sites {
		ok, d := pred(s)
		c.Check(ok, name+"/"+fnName(f)+"/"+what, s.Pos(), d, d)
	}
}

// ErrUsed: the error result of each listed call is tested on some branch
// (x != nil / x == nil), returned, or stored to a field (flushErr idiom); it
// is not discarded.
func (c *Ctx) ErrUsed(name string, f *ssa.Function, calls []Site, what string) {
	c.Funcs[f] = true
	if len(calls) == 0 {
		c.Undecided(name+"/"+fnName(f)+"/"+what, f.Pos(), "no call site matched ("+what+")")
		return
	}
	for _, s := range calls {
		call, ok := s.Instr.(*ssa.Call)
		construct := name + "/" + fnName(f) + "/" + what
		if !ok {
			c.Bad(construct, s.Pos(), "error of deferred/go call is discarded")
			continue
		}
		vals := errValues(call)
		used := false
		for v := range vals {
			refs := v.Referrers()
			if refs == nil {
				continue
			}
			for _, r := range *refs {
				switch x := r.(type) {
				case *ssa.BinOp:
					used = true
				case *ssa.Return:
					used = true
				case *ssa.Store:
					if _, isAlloc := x.Addr.(*ssa.Alloc); !isAlloc && x.Val == v {
						used = true
					}
				case *ssa.Call:
					used = true // passed on (log.Crit("..", err), wrap helpers)
				case *ssa.MakeInterface:
					used = true
				}
			}
		}
		c.Check(used, construct, s.Pos(), "error result is used", "error result of "+what+" is discarded")
	}
}
