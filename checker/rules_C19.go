package main

import (
	"fmt"
	"go/constant"
	"go/token"
	"sort"
	"strings"

	"golang.org/x/tools/go/ssa"
)

func init() {
	Register(&Prop{
		ID:   "C19",
		Pkgs: []string{pdb},
		Decided: "the block descriptor's encoder and decoder agree field by field on byte offsets and widths, the widths match the field types, the fields are contiguous and end at indexBlockDescSize where the extension bitmap starts, and the deep copy covers every field; the block parser slices the blob only after rejecting an empty blob, a zero restart count and a blob shorter than its tail, and accepts a restart only if it is strictly larger than its predecessor and lies inside the data area; the writer and the parser agree on the tail layout (2 bytes per restart plus a count byte); append accepts only non-zero ids strictly above the current maximum, starts a new restart section exactly every indexBlockRestartLen entries with the full id and otherwise writes the delta to the maximum (which cannot wrap), and then advances entry count and maximum together; pop accepts only the current maximum and on every successful path updates maximum, entry count and data together — resetting restarts, data, count, maximum and the extension bitmap when the last element goes, dropping the restart together with its section when a section empties; the index writer keeps block descriptors and block writers in step (rotation appends one of each, with the next block id), refuses out-of-order ids, and commits blocks and metadata through the same batch.",
		NotDec: "the sorted-set semantics (least stored id greater than the query, iteration order, extension filters) as value-level facts over operation sequences; varint encoding itself.",
		Rules:  "CODEC descriptor layout; FIELDCOV copy; CHECKSHAPE parser rejects; TABLE tail layout; PAIR/RESET writer state updates; GUARDSUB",
		MinObs: 74,
		Run:    c19,
	})
}

func c19(c *Ctx) {
	DS := pdb + ".indexBlockDesc."
	BW := pdb + ".blockWriter."
	// ---- descriptor layout ----------------------------------------------------------------------------
	c.Rule("CODEC/C19.desc")
	type span struct {
		lo, hi int64
		bits   int
	}
	bounds := func(v ssa.Value) (int64, int64, bool) {
		sl, ok := v.(*ssa.Slice)
		if !ok {
			return 0, 0, false
		}
		lo, hi := int64(0), int64(-1)
		if sl.Low != nil {
			k, ok := sl.Low.(*ssa.Const)
			if !ok {
				return 0, 0, false
			}
			lo = k.Int64()
		}
		if sl.High != nil {
			k, ok := sl.High.(*ssa.Const)
			if !ok {
				return 0, 0, false
			}
			hi = k.Int64()
		}
		return lo, hi, true
	}
	enc, dec := c.Fn(pdb, "(*indexBlockDesc).encode"), c.Fn(pdb, "(*indexBlockDesc).decode")
	if enc != nil && dec != nil {
		c.Funcs[enc], c.Funcs[dec] = true, true
		wr, rd := map[string]span{}, map[string]span{}
		eachInstr(enc, func(in ssa.Instruction) {
			call, ok := in.(*ssa.Call)
			if !ok {
				return
			}
			n := calleeName(&call.Call)
			if !strings.HasPrefix(n, "(encoding/binary.bigEndian).PutUint") {
				return
			}
			var bits int
			fmt.Sscanf(strings.TrimPrefix(n, "(encoding/binary.bigEndian).PutUint"), "%d", &bits)
			a := call.Call.Args
			lo, hi, ok := bounds(a[1])
			if u, isLoad := a[2].(*ssa.UnOp); isLoad && ok {
				if fa, isFA := u.X.(*ssa.FieldAddr); isFA && strings.HasPrefix(fieldAddrName(fa), DS) {
					wr[strings.TrimPrefix(fieldAddrName(fa), DS)] = span{lo, hi, bits}
				}
			}
		})
		eachInstr(dec, func(in ssa.Instruction) {
			st, ok := in.(*ssa.Store)
			if !ok {
				return
			}
			fa, ok := st.Addr.(*ssa.FieldAddr)
			if !ok || !strings.HasPrefix(fieldAddrName(fa), DS) {
				return
			}
			call, ok := st.Val.(*ssa.Call)
			if !ok {
				return
			}
			n := calleeName(&call.Call)
			if !strings.HasPrefix(n, "(encoding/binary.bigEndian).Uint") {
				return
			}
			var bits int
			fmt.Sscanf(strings.TrimPrefix(n, "(encoding/binary.bigEndian).Uint"), "%d", &bits)
			if lo, hi, ok := bounds(call.Call.Args[1]); ok {
				rd[strings.TrimPrefix(fieldAddrName(fa), DS)] = span{lo, hi, bits}
			}
		})
		var names []string
		for n := range wr {
			names = append(names, n)
		}
		sort.Slice(names, func(i, j int) bool { return wr[names[i]].lo < wr[names[j]].lo })
		c.Expect(3, len(names), "fixed-width descriptor fields written by encode")
		next := int64(0)
		_, st := c.Struct(pdb, "indexBlockDesc")
		for _, n := range names {
			w, r := wr[n], rd[n]
			c.Check(w == r, "agree/"+n, enc.Pos(), fmt.Sprintf("%s: encode and decode use bytes [%d:%d] as uint%d", n, w.lo, w.hi, w.bits), fmt.Sprintf("%s is written at [%d:%d] uint%d but read at [%d:%d] uint%d", n, w.lo, w.hi, w.bits, r.lo, r.hi, r.bits))
			c.Check(w.hi-w.lo == int64(w.bits/8), "width/"+n, enc.Pos(), "the slice width equals the integer width", n+": slice width differs from the integer width")
			c.Check(w.lo == next, "contiguous/"+n, enc.Pos(), "fields are laid out back to back", n+" leaves a gap or overlaps the previous field")
			next = w.hi
			if st != nil {
				for i := 0; i < st.NumFields(); i++ {
					if st.Field(i).Name() == n {
						sz := c.sizeof(st.Field(i).Type())
						c.Check(sz*8 == int64(w.bits), "type/"+n, enc.Pos(), "the encoded width equals the field's type width", fmt.Sprintf("%s is a %d-byte field encoded as uint%d", n, sz, w.bits))
					}
				}
			}
		}
		// the bitmap starts where the fixed part ends, in both directions, and the buffer is sized accordingly
		okEncBm, okDecBm, okSize := false, false, false
		eachInstr(enc, func(in ssa.Instruction) {
			if call, ok := in.(*ssa.Call); ok {
				if b, ok := call.Call.Value.(*ssa.Builtin); ok && b.Name() == "copy" {
					if lo, hi, ok := bounds(call.Call.Args[0]); ok && lo == next && hi == -1 && Fld(DS + "extBitmap")(call.Call.Args[1]) {
						okEncBm = true
					}
				}
			}
			if mk, ok := in.(*ssa.MakeSlice); ok {
				if b, ok := mk.Len.(*ssa.BinOp); ok && b.Op == token.ADD {
					for _, pr := range [][2]ssa.Value{{b.X, b.Y}, {b.Y, b.X}} {
						if k, ok := pr[0].(*ssa.Const); ok && k.Value != nil && k.Value.Kind() == constant.Int && k.Int64() == next && Len(Fld(DS + "extBitmap"))(pr[1]) {
							okSize = true
						}
					}
				}
			}
		})
		for _, s := range c.Stores(dec, DS+"extBitmap") {
			if lo, hi, ok := bounds(s.Instr.(*ssa.Store).Val); ok && lo == next && hi == -1 {
				okDecBm = true
			}
		}
		c.Check(okEncBm && okDecBm, "bitmap/offset", enc.Pos(), "the extension bitmap follows the fixed part in both encoder and decoder", "encoder and decoder disagree on where the extension bitmap starts")
		c.Check(okSize, "bitmap/size", enc.Pos(), "the buffer is the fixed part plus the bitmap", "the encode buffer is not sized fixed part + bitmap")
		if k := c.constInt(pdb, "indexBlockDescSize"); k >= 0 {
			c.Check(k == next, "size-const", enc.Pos(), "indexBlockDescSize equals the end of the fixed part", fmt.Sprintf("indexBlockDescSize is %d but the fixed part ends at %d", k, next))
		}
	}
	c.Rule("FIELDCOV/C19.copy")
	if T := c.Type(pdb, "indexBlockDesc"); T != nil {
		c.CovCopy("copy", c.Fn(pdb, "(*indexBlockDesc).copy"), T, true, nil)
	}

	// ---- parser -----------------------------------------------------------------------------------
	c.Rule("CHECKSHAPE/C19.parse")
	if pb := c.Fn(pdb, "parseIndexBlock"); pb != nil {
		c.Funcs[pb] = true
		var slices []Site
		eachInstr(pb, func(in ssa.Instruction) {
			switch x := in.(type) {
			case *ssa.Slice:
				if Param("blob")(x.X) {
					slices = append(slices, Site{pb, in})
				}
			case *ssa.IndexAddr:
				if Param("blob")(x.X) {
					slices = append(slices, Site{pb, in})
				}
			}
		})
		c.Expect(3, len(slices), "accesses of blob in parseIndexBlock")
		nonEmpty := GCond("len(blob) >= 1", pb, Cmp(Len(Param("blob")), token.GEQ, ConstInt(1)))
		c.Dom("nonempty", pb, slices, "blob access", nonEmpty)
		var body []Site
		for _, s := range slices {
			if _, isSlice := s.Instr.(*ssa.Slice); isSlice {
				body = append(body, s)
			}
		}
		isCount := func(v ssa.Value) bool {
			cv, ok := v.(*ssa.Convert)
			if !ok {
				return false
			}
			u, ok := cv.X.(*ssa.UnOp)
			if !ok {
				return false
			}
			ia, ok := u.X.(*ssa.IndexAddr)
			return ok && Param("blob")(ia.X)
		}
		isTail := func(v ssa.Value) bool {
			b, ok := v.(*ssa.BinOp)
			if !ok || b.Op != token.ADD || !ConstInt(1)(b.Y) {
				return false
			}
			m, ok := b.X.(*ssa.BinOp)
			return ok && m.Op == token.MUL && ((isCount(m.X) && ConstInt(2)(m.Y)) || (isCount(m.Y) && ConstInt(2)(m.X)))
		}
		c.Dom("tail-fits", pb, body, "slicing of blob",
			GCond("restart count != 0", pb, Cmp(isCount, token.NEQ, ConstInt(0))).Then(GCond("len(blob) >= 2*count+1", pb, Cmp(Len(Param("blob")), token.GEQ, isTail))))
		// each accepted restart is ordered and in range: the loop continues only past both rejects
		latches := c.LoopLatches(pb, Cmp(Any(), token.LSS, isCount))
		c.Expect(1, len(latches), "restart loop")
		isRestart := func(v ssa.Value) bool {
			u, ok := stripConv(v).(*ssa.UnOp)
			if !ok {
				return false
			}
			_, isIA := u.X.(*ssa.IndexAddr)
			return isIA
		}
		isDataEnd := func(v ssa.Value) bool {
			b, ok := v.(*ssa.BinOp)
			return ok && b.Op == token.SUB && Len(Param("blob"))(b.X) && isTail(b.Y)
		}
		c.Dom("restart-in-range", pb, latches, "next restart", GCond("restart < dataEnd", pb, Cmp(isRestart, token.LSS, isDataEnd)))
		c.Dom("restart-ordered", pb, latches, "next restart",
			GCond("first restart", pb, Cmp(Any(), token.LEQ, ConstInt(0))),
			GCond("restart > previous restart", pb, Cmp(isRestart, token.GTR, isRestart)))
		for _, r := range c.SuccessReturns(pb) {
			v := retVal(r.Instr.(*ssa.Return), 1)
			sl, ok := v.(*ssa.Slice)
			c.Check(ok && Param("blob")(sl.X) && sl.Low == nil && isDataEnd(sl.High), "data-area/"+fnName(pb), r.Pos(), "the data area is blob[:len(blob)-tail]", "the returned data area is not blob[:len(blob)-tail]")
		}
	}
	// tail layout agreement
	c.Rule("TABLE/C19.tail")
	if fin := c.Fn(pdb, "(*blockWriter).finish"); fin != nil {
		c.Funcs[fin] = true
		okSize, okCount, okOff := false, false, false
		eachInstr(fin, func(in ssa.Instruction) {
			switch x := in.(type) {
			case *ssa.MakeSlice:
				if b, ok := x.Len.(*ssa.BinOp); ok && b.Op == token.ADD && ConstInt(1)(b.Y) {
					if m, ok := b.X.(*ssa.BinOp); ok && m.Op == token.MUL && Len(Fld(BW + "restarts"))(m.X) && ConstInt(2)(m.Y) {
						okSize = true
					}
				}
			case *ssa.Store:
				if cv, ok := x.Val.(*ssa.Convert); ok && Len(Fld(BW + "restarts"))(cv.X) {
					if ia, ok := x.Addr.(*ssa.IndexAddr); ok {
						if b, ok := ia.Index.(*ssa.BinOp); ok && b.Op == token.SUB && ConstInt(1)(b.Y) {
							okCount = true
						}
					}
				}
			case *ssa.Slice:
				if b, ok := x.Low.(*ssa.BinOp); ok && b.Op == token.MUL {
					if ConstInt(2)(b.X) || ConstInt(2)(b.Y) {
						okOff = true
					}
				}
			}
		})
		c.Check(okSize, "finish-size", fin.Pos(), "the tail is 2 bytes per restart plus a count byte", "the tail written by finish is not 2*len(restarts)+1 bytes")
		c.Check(okCount, "finish-count", fin.Pos(), "the last byte is the restart count", "finish does not store the restart count in the last byte")
		c.Check(okOff, "finish-offset", fin.Pos(), "restart i is written at offset 2*i", "restarts are not written at 2*i")
		for _, r := range c.Returns(fin) {
			call, ok := retVal(r.Instr.(*ssa.Return), 0).(*ssa.Call)
			okApp := false
			if ok {
				if b, isB := call.Call.Value.(*ssa.Builtin); isB && b.Name() == "append" {
					okApp = Fld(BW + "data")(call.Call.Args[0])
				}
			}
			c.Check(okApp, "finish-append", r.Pos(), "the tail is appended to the data", "finish does not return data followed by the tail")
		}
	}

	// ---- writer state ----------------------------------------------------------------------------
	c.Rule("PAIR/C19.writer")
	if ap := c.Fn(pdb, "(*blockWriter).append"); ap != nil {
		maxS, entS := c.Stores(ap, DS+"max"), c.Stores(ap, DS+"entries")
		okR := c.SuccessReturns(ap)
		c.Dom("append-accepts", ap, okR, "accept",
			GCond("id != 0", ap, Cmp(Param("id"), token.NEQ, ConstInt(0))).Then(GCond("id > max", ap, Cmp(Param("id"), token.GTR, Fld(DS+"max")))))
		c.Dom("append-updates", ap, okR, "accept", GSites("entries++", entS).Then(GSites("max = id", maxS)))
		for _, s := range maxS {
			c.Check(Param("id")(s.Instr.(*ssa.Store).Val), "append-max/"+fnName(ap), s.Pos(), "the maximum becomes the appended id", "the maximum is not set to the appended id")
		}
		for _, s := range entS {
			b, ok := s.Instr.(*ssa.Store).Val.(*ssa.BinOp)
			c.Check(ok && b.Op == token.ADD && ConstInt(1)(b.Y), "append-count/"+fnName(ap), s.Pos(), "the entry count grows by one", "the entry count does not grow by one")
		}
		// section rotation
		rs := c.Stores(ap, BW+"restarts")
		rot := GCond("entries % restartLen == 0", ap, Cmp(func(v ssa.Value) bool {
			b, ok := v.(*ssa.BinOp)
			return ok && b.Op == token.REM && Fld(DS + "entries")(b.X)
		}, token.EQL, ConstInt(0)))
		c.Dom("append-rotate", ap, rs, "new restart", rot)
		var full, delta []Site
		for _, s := range c.Calls(ap, "encoding/binary.AppendUvarint") {
			a := s.Instr.(*ssa.Call).Call.Args[1]
			if Param("id")(a) {
				full = append(full, s)
			} else if b, ok := a.(*ssa.BinOp); ok && b.Op == token.SUB && Param("id")(b.X) && Fld(DS + "max")(b.Y) {
				delta = append(delta, s)
			}
		}
		if c.Check(len(full) == 1 && len(delta) == 1 && len(rs) == 1, "append-encoding/"+fnName(ap), ap.Pos(), "full value at a section start, delta to the maximum otherwise", "the element is not encoded as full value / delta to the maximum") {
			c.Dom("append-full", ap, full, "full-value encoding", rot)
			c.Dom("append-delta", ap, delta, "delta encoding", GCond("entries % restartLen != 0", ap, Not(Cmp(func(v ssa.Value) bool {
				b, ok := v.(*ssa.BinOp)
				return ok && b.Op == token.REM && Fld(DS + "entries")(b.X)
			}, token.EQL, ConstInt(0)))))
			v := rs[0].Instr.(*ssa.Store).Val
			okOff := false
			for _, apc := range appendChain(v) {
				vals, _ := appendedValues(apc)
				for _, ev := range vals {
					if cv, ok := ev.(*ssa.Convert); ok && Len(Fld(BW + "data"))(cv.X) {
						okOff = true
					}
				}
			}
			c.Check(okOff, "append-restart-offset/"+fnName(ap), rs[0].Pos(), "the restart records the current data length", "the restart point is not the current length of the data")
		}
	}
	if pp := c.Fn(pdb, "(*blockWriter).pop"); pp != nil {
		okR := c.SuccessReturns(pp)
		c.Dom("pop-accepts", pp, okR, "accept",
			GCond("id != 0", pp, Cmp(Param("id"), token.NEQ, ConstInt(0))).Then(GCond("id == max", pp, Cmp(Param("id"), token.EQL, Fld(DS+"max")))))
		maxS, entS, dataS, resS := c.Stores(pp, DS+"max"), c.Stores(pp, DS+"entries"), c.Stores(pp, BW+"data"), c.Stores(pp, BW+"restarts")
		c.Expect(3, len(maxS), "stores of desc.max in pop")
		c.Dom("pop-updates-max", pp, okR, "accept", GSites("desc.max = …", maxS))
		c.Dom("pop-updates-count", pp, okR, "accept", GSites("desc.entries = …", entS))
		c.Dom("pop-updates-data", pp, okR, "accept", GSites("b.data = …", dataS))
		// last element: everything is reset
		one := EdgesWhere(pp, Cmp(Fld(DS+"entries"), token.EQL, ConstInt(1)))
		var lastRet []Site
		for _, r := range okR {
			for e := range one {
				if edgeDominates(e, r.Instr.Block()) {
					lastRet = append(lastRet, r)
				}
			}
		}
		if c.Check(len(lastRet) == 1, "pop-last/"+fnName(pp), pp.Pos(), "removing the only element has its own exit", "the single-element case of pop was not found") {
			var clr []Site
			eachInstr(pp, func(in ssa.Instruction) {
				if call, ok := in.(*ssa.Call); ok {
					if b, ok := call.Call.Value.(*ssa.Builtin); ok && b.Name() == "clear" && Fld(DS + "extBitmap")(call.Call.Args[0]) {
						clr = append(clr, Site{pp, in})
					}
				}
			})
			c.Dom("pop-last-restarts", pp, lastRet, "empty-block exit", GSites("b.restarts = nil", resS))
			c.Dom("pop-last-bitmap", pp, lastRet, "empty-block exit", GSites("clear(desc.extBitmap)", clr))
			inRegion := func(in ssa.Instruction) bool {
				for e := range one {
					if edgeDominates(e, in.Block()) {
						return true
					}
				}
				return false
			}
			for _, s := range cat(maxS, entS) {
				if inRegion(s.Instr) {
					c.Check(ConstInt(0)(s.Instr.(*ssa.Store).Val), "pop-last-zero/"+fnName(pp), s.Pos(), "maximum and count return to zero", "the emptied block keeps a non-zero maximum or count")
				}
			}
			for _, s := range resS {
				if inRegion(s.Instr) {
					c.Check(Nil()(s.Instr.(*ssa.Store).Val), "pop-last-restarts-nil/"+fnName(pp), s.Pos(), "the restart list is dropped", "the emptied block keeps restart points: the next append adds a second restart for section 0")
				}
			}
		}
		// section emptied: restart dropped together with its data
		secE := EdgesWhere(pp, Cmp(func(v ssa.Value) bool {
			b, ok := v.(*ssa.BinOp)
			return ok && b.Op == token.REM && Fld(DS + "entries")(b.X)
		}, token.EQL, ConstInt(1)))
		nSec := 0
		for _, s := range resS {
			for e := range secE {
				if edgeDominates(e, s.Instr.Block()) {
					nSec++
					sl, ok := s.Instr.(*ssa.Store).Val.(*ssa.Slice)
					c.Check(ok && Fld(BW+"restarts")(sl.X) && sl.Low == nil && sl.High != nil, "pop-section/"+fnName(pp), s.Pos(), "the last restart is dropped", "the emptied section's restart is not dropped")
				}
			}
		}
		c.Check(nSec == 1, "pop-section-present/"+fnName(pp), pp.Pos(), "an emptied section drops its restart", "pop never drops the restart of an emptied section")
		for _, s := range entS {
			if b, ok := s.Instr.(*ssa.Store).Val.(*ssa.BinOp); ok {
				c.Check(b.Op == token.SUB && ConstInt(1)(b.Y), "pop-count/"+fnName(pp), s.Pos(), "the entry count shrinks by one", "the entry count does not shrink by one")
			}
		}
		rb := c.Calls(pp, "(*"+pdb+".blockWriter).rebuildBitmap")
		c.Check(len(rb) == 2, "pop-bitmap/"+fnName(pp), pp.Pos(), "the extension bitmap is rebuilt after a partial pop", "the extension bitmap is not rebuilt after removing an element")
	}
	c.Rule("GUARDSUB/C19")
	ns := 0
	for _, name := range []string{"(*blockWriter).append", "(*blockWriter).pop", "parseIndexBlock"} {
		if f := c.Fn(pdb, name); f != nil {
			ns += c.GuardSub("sub", f, nil, func(b *ssa.BinOp) string {
				if Fld(DS+"entries")(b.X) && ConstInt(1)(b.Y) {
					return "pop is only reached with a non-empty block: id == desc.max with id != 0 implies an element was appended (entries >= 1); the entries == 1 case returned above"
				}
				return ""
			})
		}
	}
	c.Expect(1, ns, "unsigned subtractions in the block writer")

	// ---- index writer ----------------------------------------------------------------------------
	c.Rule("PAIR/C19.index")
	IW := pdb + ".indexWriter."
	if ro := c.Fn(pdb, "(*indexWriter).rotate"); ro != nil {
		fr, bw, dl := c.Stores(ro, IW+"frozen"), c.Stores(ro, IW+"bw"), c.Stores(ro, IW+"descList")
		c.Check(len(fr) == 1 && len(bw) >= 1 && len(dl) == 1, "rotate-steps/"+fnName(ro), ro.Pos(), "rotation freezes the full block, installs a new writer and appends its descriptor", "rotation does not keep frozen writers, live writer and descriptor list in step")
		nd := c.Calls(ro, pdb+".newIndexBlockDesc")
		c.ArgIs("rotate-id", ro, nd, "newIndexBlockDesc(id)", 0, func(v ssa.Value) bool {
			b, ok := v.(*ssa.BinOp)
			return ok && b.Op == token.ADD && Fld(DS + "id")(b.X) && ConstInt(1)(b.Y)
		}, "the current block id + 1")
		c.Dom("rotate-desc", ro, dl, "descriptor appended", GErrChecked("new block writer created", c.Calls(ro, pdb+".newBlockWriter")))
	}
	if ap := c.Fn(pdb, "(*indexWriter).append"); ap != nil {
		ba := c.Calls(ap, "(*"+pdb+".blockWriter).append")
		c.Dom("index-append-order", ap, ba, "block append", GCond("id > lastID", ap, Cmp(Param("id"), token.GTR, Fld(IW+"lastID"))))
		c.Dom("index-append-last", ap, c.Stores(ap, IW+"lastID"), "lastID = id", GErrChecked("block append succeeded", ba))
		c.Dom("index-append-rotate", ap, ba, "block append",
			GCond("block not full", ap, False(CallRes("(*"+pdb+".blockWriter).estimateFull"))),
			GErrChecked("rotated", c.Calls(ap, "(*"+pdb+".indexWriter).rotate")))
	}
	if fi := c.Fn(pdb, "(*indexWriter).finish"); fi != nil {
		wb, wi := c.Calls(fi, pdb+".writeStateIndexBlock"), c.Calls(fi, pdb+".writeStateIndex")
		if c.Check(len(wb) == 1 && len(wi) == 1, "finish-writes/"+fnName(fi), fi.Pos(), "blocks and metadata are both written", "finish does not write both the blocks and the metadata") {
			c.ArgIs("finish-batch", fi, wb, "writeStateIndexBlock(batch)", 1, Param("batch"), "the caller's batch")
			c.ArgIs("finish-batch", fi, wi, "writeStateIndex(batch)", 1, Param("batch"), "the caller's batch")
			c.Followed("finish-meta", fi, wb, "block write", wi, "metadata write", c.Returns(fi))
		}
	}
}
