package main

import (
	"fmt"
	"go/ast"
	"go/token"
	"go/types"
	"strings"

	"golang.org/x/tools/go/ssa"
)

func init() {
	Register(&Prop{
		ID:   "C27",
		Pkgs: []string{"core/vm"},
		Decided: "for every operation literal bound into any jump table, the declared minStack covers the deepest stack element the bound execute function pops or reads and the declared maxStack leaves room for its net growth (abstract interpretation of the function over the Stack API, closure parameters bound from the table site); an operation that sizes memory also prices it, and an execute function that touches memory has a memorySize function; in the interpreter loop the stack-bound rejects, the constant-gas charge, the memory-size overflow rejects, the dynamic-gas call and its charge, and the memory resize all precede operation.execute; frame entries reject depth overflow before Snapshot/Run; Run releases stack and memory on every exit.",
		NotDec: "absence of run-time panics in general (index arithmetic inside opcode bodies, precompiles), exact gas amounts, and 'never consumes more gas than given' as an arithmetic fact (C31 decides the guarded-subtraction part).",
		Rules:  "TABLE extraction of operation bindings from the AST of core/vm (composite literals and jt[OP].f = v), STACKFX abstract interpretation per binding, ORDER/DOM must-pass-through in (*EVM).Run and the frame entries",
		MinObs: 620,
		Run:    c27,
	})
}

var memAccessors = map[string]bool{"Set": true, "Set32": true, "GetCopy": true, "GetPtr": true, "Copy": true}

// touchesMemory: fn (or a same-package helper it hands the scope/memory to)
// calls a Memory accessor that reads or writes bytes.
func touchesMemory(fn *ssa.Function, depth int) bool {
	if fn == nil || depth > 2 {
		return false
	}
	hit := false
	eachInstr(fn, func(in ssa.Instruction) {
		if fa, ok := in.(*ssa.FieldAddr); ok && fieldAddrName(fa) == vmp+".Memory.store" {
			hit = true // direct use of the backing slice
		}
		ci, ok := in.(ssa.CallInstruction)
		if !ok {
			return
		}
		n := calleeName(ci.Common())
		if strings.HasPrefix(n, "(*"+vmp+".Memory).") && memAccessors[strings.TrimPrefix(n, "(*"+vmp+".Memory).")] {
			hit = true
		}
		if callee := ci.Common().StaticCallee(); callee != nil && len(callee.Blocks) > 0 && callee.Pkg == fn.Pkg && !strings.HasPrefix(n, "(*"+vmp+".Memory).") {
			for _, a := range ci.Common().Args {
				if isScopeType(a.Type()) || namedName(a.Type()) == vmp+".Memory" {
					if touchesMemory(callee, depth+1) {
						hit = true
					}
				}
			}
		}
	})
	return hit
}

func c27(c *Ctx) {
	pkg := c.Pkgs[vmp]
	binds := extractOpBindings(c, pkg)
	limit, ok := evalPureInt(c.Fn(vmp, "maxStack"), []int64{0, 0}, 0)
	if !ok {
		c.failAnchor("cannot evaluate maxStack(0,0) (params.StackLimit)")
	}

	c.Rule("STACKFX/C27.summaries")
	c.stackMethodDeltas()

	// known-answer positive control on real code: the EVM semantics of these
	// opcodes are fixed, so the analyser must compute exactly these effects.
	c.Rule("STACKFX/C27.knownanswer")
	for _, ka := range []struct {
		fn         string
		env        map[string]int64
		need, delta int
	}{
		{"opAdd", nil, 2, -1}, {"opPop", nil, 1, -1}, {"opMstore", nil, 2, -2}, {"opSstore", nil, 2, -2},
		{"makeDup$1", map[string]int64{"size": 3}, 3, +1}, {"makeLog$1", map[string]int64{"size": 2}, 4, -4},
		{"opCall", nil, 7, -6}, {"opCreate2", nil, 4, -3}, {"opSwap5", nil, 6, 0},
	} {
		f := c.Fn(vmp, ka.fn)
		fx := stackEffect(f, ka.env, 0)
		ok := fx.Undecided == "" && fx.Need == ka.need && len(fx.Deltas) == 1 && fx.Deltas[0] == ka.delta
		c.Check(ok, ka.fn, f.Pos(), fmt.Sprintf("computed need=%d delta=%v as the EVM definition requires", fx.Need, fx.Deltas),
			fmt.Sprintf("computed need=%d delta=%v undecided=%q, EVM definition is need=%d delta=%d", fx.Need, fx.Deltas, fx.Undecided, ka.need, ka.delta))
	}

	full := 0
	for _, b := range binds {
		if b.Partial {
			continue
		}
		ex, hasEx := b.Fields["execute"]
		if !hasEx {
			continue
		}
		full++
		id := fmt.Sprintf("%s@%s", b.OpName, b.Builder)
		c.Rule("STACKFX/C27.bounds")
		fn, env, ok := resolveFuncExpr(c, pkg, ex)
		if !ok {
			c.Undecided(id+"/execute", b.Pos, "cannot resolve execute expression "+types.ExprString(ex))
			continue
		}
		c.Funcs[fn] = true
		fx := stackEffect(fn, env, 0)
		if fx.Undecided != "" {
			if strings.Contains(fx.Undecided, "no dominating Stack.len() check") {
				c.Bad(id+"/effect", b.Pos, "STACK UNDERFLOW possible: "+fx.Undecided)
			} else {
				c.Undecided(id+"/effect", b.Pos, fx.Undecided)
			}
			continue
		}
		halts := len(fx.Deltas) == 0 // only halting exits (STOP/RETURN/REVERT/SELFDESTRUCT/INVALID): the stack is discarded
		if halts {
			fx.Deltas = []int{0}
		}
		maxD := fx.Deltas[len(fx.Deltas)-1]
		mn, okMin := int64(0), true
		if e, has := b.Fields["minStack"]; has {
			mn, okMin = evalIntExpr(c, pkg, e)
		}
		mx, okMax := int64(0), true
		if e, has := b.Fields["maxStack"]; has {
			mx, okMax = evalIntExpr(c, pkg, e)
		} else {
			mx = 0
		}
		if !okMin || !okMax {
			c.Undecided(id+"/bounds", b.Pos, "minStack/maxStack expression is not statically evaluable")
			continue
		}
		what := fmt.Sprintf("%s: reads %d deep, net %v, peak %+d (paths %d); declared minStack=%d maxStack=%d", fnName(fn), fx.Need, fx.Deltas, fx.Peak, fx.Paths, mn, mx)
		if fx.DynGuarded {
			what += " [dynamic depth behind a Stack.len() guard]"
		}
		c.Check(int(mn) >= fx.Need, id+"/minStack", b.Pos, what, "STACK UNDERFLOW possible: "+what)
		if halts {
			c.OK(id+"/maxStack", b.Pos, "operation always halts the frame; no growth to bound: "+what)
		} else {
			c.Check(int(mx) <= int(limit)-maxD, id+"/maxStack", b.Pos, what, fmt.Sprintf("STACK OVERFLOW possible (limit %d): %s", limit, what))
		}
		c.Check(len(fx.Deltas) == 1, id+"/uniform", b.Pos, "every non-error path has the same net stack effect", fmt.Sprintf("net stack effect differs between paths: %v", fx.Deltas))

		c.Rule("TABLE/C27.mem")
		_, hasMem := b.Fields["memorySize"]
		_, hasDyn := b.Fields["dynamicGas"]
		if hasMem {
			c.Check(hasDyn, id+"/mem-priced", b.Pos, "memorySize comes with dynamicGas", "operation sizes memory but has no dynamicGas: the expansion would not be charged")
		}
		if touchesMemory(fn, 0) {
			c.Check(hasMem, id+"/mem-sized", b.Pos, "execute touches memory and a memorySize function is bound", fnName(fn)+" reads or writes memory but the operation has no memorySize: memory would not be resized/charged")
		}
	}
	c.Expect(150, full, "operation literals with an execute function")

	// ---- interpreter loop ordering -------------------------------------------------
	run := c.Fn(vmp, "(*EVM).Run")
	c.Rule("ORDER/C27.run")
	exec := c.Calls(run, "field:"+vmp+".operation.execute")
	c.Expect(1, len(exec), "operation.execute call in Run")
	sLen := CallRes("(*" + vmp + ".Stack).len")
	c.Dom("underflow-reject", run, exec, "operation.execute", GCond("sLen>=minStack", run, Cmp(sLen, token.GEQ, Fld(vmp+".operation.minStack"))))
	c.Dom("overflow-reject", run, exec, "operation.execute", GCond("sLen<=maxStack", run, Cmp(sLen, token.LEQ, Fld(vmp+".operation.maxStack"))))
	allCharge := c.Calls(run, "(*"+vmp+".GasBudget).ChargeExecutionOnly")
	dynFirst := c.Calls(run, "field:"+vmp+".operation.dynamicGas")
	var constCharge, dynChargeEO []Site
	for _, s := range allCharge {
		if len(dynFirst) == 1 && instrDominatesStrict(dynFirst[0].Instr, s.Instr) {
			dynChargeEO = append(dynChargeEO, s) // charged after (and because of) the dynamic gas computation
		} else {
			constCharge = append(constCharge, s)
		}
	}
	c.Each("constant-gas-arg", run, constCharge, "ChargeExecutionOnly(cost)", func(s Site) (bool, string) {
		// cost is the cell assigned from operation.constantGas right before
		arg := callArgs(s.Instr.(*ssa.Call).Common())[0]
		ok := false
		if u, isU := arg.(*ssa.UnOp); isU {
			if al, isA := u.X.(*ssa.Alloc); isA {
				for _, r := range *al.Referrers() {
					if st, isSt := r.(*ssa.Store); isSt && Fld(vmp + ".operation.constantGas")(st.Val) && instrDominatesStrict(st, s.Instr) {
						ok = true
					}
				}
			}
		}
		return ok || Mentions(Fld(vmp + ".operation.constantGas"))(arg), "the charged amount is operation.constantGas"
	})
	c.Dom("constant-gas", run, exec, "operation.execute", GOkChecked("Gas.ChargeExecutionOnly(constantGas)", constCharge, 0))
	dyn := c.Calls(run, "field:"+vmp+".operation.dynamicGas")
	msz := c.Calls(run, "field:"+vmp+".operation.memorySize")
	noDyn := GCond("dynamicGas==nil", run, Cmp(Fld(vmp+".operation.dynamicGas"), token.EQL, Nil()))
	c.Dom("dynamic-gas", run, exec, "operation.execute", noDyn, GErrChecked("operation.dynamicGas(...)", dyn))
	chargeDyn := cat(dynChargeEO, c.Calls(run, "(*"+vmp+".GasBudget).charge"))
	c.Expect(2, len(chargeDyn), "dynamic cost charges in Run")
	c.Dom("dynamic-charged", run, exec, "operation.execute", noDyn, GCall("dynamicGas", dyn).Then(GOkChecked("charge(dynamicCost)", chargeDyn, 0)))
	c.Dom("stack-checked-before-gas", run, cat(constCharge, dyn, msz), "gas/memory step", GCond("sLen>=minStack", run, Cmp(sLen, token.GEQ, Fld(vmp+".operation.minStack"))))
	// memory size: overflow flags tested before the size is used
	c.Dom("memsize-overflow", run, dyn, "operation.dynamicGas",
		GCond("memorySize==nil", run, Cmp(Fld(vmp+".operation.memorySize"), token.EQL, Nil())),
		GCall("memorySize(stack)", msz).Then(GCond("!overflow", run, False(CallResN("field:"+vmp+".operation.memorySize", 1)))).Then(GCond("!SafeMul overflow", run, False(CallResN("common/math.SafeMul", 1)))))
	rs := c.Calls(run, "(*"+vmp+".Memory).Resize")
	c.Expect(1, len(rs), "mem.Resize in Run")
	// on the dynamicGas==nil path memorySize is the constant 0 (phi operand), so
	// Resize is not executed there; the CFG path is accepted through noDyn.
	c.Dom("resize-after-charge", run, rs, "mem.Resize", noDyn, GCall("dynamicGas", dyn).Then(GOkChecked("charge(dynamicCost)", chargeDyn, 0)))
	c.Dom("resize-before-execute", run, exec, "operation.execute",
		GCond("memorySize==0", run, Cmp(Any(), token.LEQ, ConstInt(0))), GCall("mem.Resize(memorySize)", rs))

	// depth accounting and resource release
	c.Rule("PAIR/C27.release")
	inc := c.Stores(run, vmp+".EVM.depth")
	c.Expect(1, len(inc), "evm.depth++ in Run")
	var depthDefer, relDefer []Site
	eachInstr(run, func(in ssa.Instruction) {
		d, ok := in.(*ssa.Defer)
		if !ok {
			return
		}
		if mc, ok := d.Call.Value.(*ssa.MakeClosure); ok {
			cl := mc.Fn.(*ssa.Function)
			if len(c.Stores(cl, vmp+".EVM.depth")) > 0 {
				depthDefer = append(depthDefer, Site{run, in})
			}
			if len(c.Calls(cl, "(*"+vmp+".Stack).release")) > 0 && len(c.Calls(cl, "(*"+vmp+".Memory).Free")) > 0 {
				relDefer = append(relDefer, Site{run, in})
			}
		}
	})
	c.Followed("depth-restored", run, inc, "evm.depth++", depthDefer, "defer func(){evm.depth--}()", c.Returns(run))
	alloc := cat(c.Calls(run, vmp+".NewMemory"), c.Calls(run, "(*"+vmp+".stackArena).stack"))
	c.Expect(2, len(alloc), "stack/memory allocation in Run")
	c.Followed("released", run, alloc, "allocation", relDefer, "defer{stack.release();mem.Free()}", c.Returns(run))

	c.Rule("DOM/C27.depth")
	for _, fn := range []string{"Call", "CallCode", "DelegateCall", "StaticCall"} {
		f := c.Fn(vmp, "(*EVM)."+fn)
		c.Dom("depth-limit", f, cat(c.Calls(f, "("+vmp+".StateDB).Snapshot"), c.Calls(f, "(*"+vmp+".EVM).Run")), "frame-start",
			GCond("depth<=CallCreateDepth", f, Cmp(Fld(vmp+".EVM.depth"), token.LEQ, Any())))
	}
	pre := c.Fn(vmp, "(*EVM).createFramePreCheck")
	c.Dom("depth-limit", pre, c.SuccessReturns(pre), "success-return", GCond("depth<=CallCreateDepth", pre, Cmp(Fld(vmp+".EVM.depth"), token.LEQ, Any())))
	_ = ast.Inspect
}
