package main

import (
	"go/token"

	"golang.org/x/tools/go/ssa"
)

func init() {
	Register(&Prop{
		ID:   "C16",
		Pkgs: []string{"triedb/pathdb"},
		Decided: "the layer tree (base, layers, descendants, lookup index) is read and written only under layerTree.lock (writes under the write lock), the lookup index maps only with that lock held; diskLayer.{stale,buffer,frozen,generator} only under diskLayer.lock and diffLayer.parent only under diffLayer.lock; every disk-layer read (node/account/storage) rejects a stale layer under the read lock before it touches buffers, caches or the database; commit and revert mark the layer stale before mutating; the layer set and the lookup index are updated together; reader.Node returns a blob only after its hash matched.",
		NotDec: "that the lookup tip is the right layer for every tree shape, and the values themselves (value-level; e.g. ordering inside the per-key layer lists).",
		Rules:  "LOCKSET (type-based lockset dataflow over every function of triedb/pathdb with requirement propagation through the in-package call graph), DOM must-pass-through, PAIR co-occurrence",
		MinObs: 170,
		Run:    c16,
	})
}

func c16(c *Ctx) {
	c.Lockset(LockSpec{
		Name: "C16.tree", Pkg: pdb, Mutex: pdb + ".layerTree.lock", RW: true,
		Fields: []string{pdb + ".layerTree.base", pdb + ".layerTree.layers", pdb + ".layerTree.descendants", pdb + ".layerTree.lookup",
			pdb + ".lookup.accounts", pdb + ".lookup.storages"},
		FieldCallees: map[string][]string{"field:" + pdb + ".lookup.descendant": {"(*" + pdb + ".layerTree).isDescendant"}},
		Joined: map[string]string{
			"(*" + pdb + ".lookup).addLayer$2":    "account half of the index update; addLayer waits on its WaitGroup before returning (checked)",
			"(*" + pdb + ".lookup).addLayer$3":    "storage half; joined like $2",
			"(*" + pdb + ".lookup).removeLayer$2": "account half of the index removal; errgroup Wait before return (checked)",
			"(*" + pdb + ".lookup).removeLayer$3": "storage half; joined like $2",
		},
		MinSites: 30,
	})
	c.Lockset(LockSpec{
		Name: "C16.disk", Pkg: pdb, Mutex: pdb + ".diskLayer.lock", RW: true,
		Fields: []string{pdb + ".diskLayer.stale", pdb + ".diskLayer.buffer", pdb + ".diskLayer.frozen", pdb + ".diskLayer.generator"},
		Exempt: map[string]string{
			pdb + ".generateSnapshot":                   "operates on the disk layer it just created with newDiskLayer; not yet published in the layer tree",
			"(*" + pdb + ".Database).setStateGenerator": "runs during Database construction and Enable (under db.lock) on the bottom layer it just installed, before any reader or generator goroutine exists",
			"(*" + pdb + ".Database).Journal":           "two reads of disk.buffer.layers feed a log line only; the value is neither persisted nor used for control flow",
		},
		MinSites: 30,
	})
	c.Lockset(LockSpec{
		Name: "C16.diff", Pkg: pdb, Mutex: pdb + ".diffLayer.lock", RW: true,
		Fields: []string{pdb + ".diffLayer.parent"},
		Exempt: map[string]string{
			"(*" + pdb + ".diffLayer).initBinaryAccountIterator": "binary iterators are verification helpers with no production caller (only tests construct them)",
			"(*" + pdb + ".diffLayer).initBinaryStorageIterator": "as above",
		},
		Held: map[string]string{
			pdb + ".writeTrienodeHistory": "reached only from diskLayer.commit <- layerTree.cap, which holds layerTree.lock for writing; cap is the only writer of diffLayer.parent, so the read is serialised with every write",
		},
		MinSites: 5,
	})

	// ---- stale check first, under the read lock ------------------------------
	c.Rule("DOM/C16.stalefirst")
	for _, m := range []string{"node", "account", "storage"} {
		f := c.Fn(pdb, "(*diskLayer)."+m)
		notStale := GCond("!dl.stale", f, False(Fld(pdb+".diskLayer.stale")))
		var reads []Site
		eachInstr(f, func(in ssa.Instruction) {
			switch x := in.(type) {
			case *ssa.FieldAddr:
				switch fieldAddrName(x) {
				case pdb + ".diskLayer.buffer", pdb + ".diskLayer.frozen", pdb + ".diskLayer.nodes", pdb + ".diskLayer.states":
					reads = append(reads, Site{f, in})
				}
			case *ssa.Call:
				n := calleeName(&x.Call)
				if len(n) > 15 && n[:15] == "core/rawdb.Read" {
					reads = append(reads, Site{f, in})
				}
			}
		})
		c.Sites += len(reads)
		c.Expect(4, len(reads), "state reads in diskLayer."+m)
		c.Dom("stale-reject", f, reads, "state-read", notStale)
		c.Dom("stale-reject", f, c.SuccessReturns(f), "success-return", notStale)
		rl := c.CallsRecv(f, "(*sync.RWMutex).RLock", func(v ssa.Value) bool {
			fa, ok := v.(*ssa.FieldAddr)
			return ok && fieldAddrName(fa) == pdb+".diskLayer.lock"
		})
		var staleLoads []Site
		eachInstr(f, func(in ssa.Instruction) {
			if fa, ok := in.(*ssa.FieldAddr); ok && fieldAddrName(fa) == pdb+".diskLayer.stale" {
				staleLoads = append(staleLoads, Site{f, in})
			}
		})
		c.Dom("under-rlock", f, staleLoads, "stale-load", GCall("dl.lock.RLock()", rl))
	}
	// ---- layer set and lookup index move together ---------------------------------
	c.Rule("PAIR/C16.index")
	add := c.Fn(pdb, "(*layerTree).add")
	ins := c.MapWrites(add, pdb+".layerTree.layers", false)
	c.Followed("add", add, ins, "tree.layers[root]=l", c.Calls(add, "(*"+pdb+".layerTree).fillAncestors"), "tree.fillAncestors(l)", c.SuccessReturns(add))
	c.Followed("add", add, ins, "tree.layers[root]=l", c.Calls(add, "(*"+pdb+".lookup).addLayer"), "tree.lookup.addLayer(l)", c.SuccessReturns(add))
	c.ArgIs("add-same-layer", add, c.Calls(add, "(*"+pdb+".lookup).addLayer"), "lookup.addLayer", 0,
		CallRes("(" + pdb + ".layer).update"), "the layer stored in tree.layers")
	rm := c.Fn(pdb, "(*layerTree).cap$2")
	del := c.MapWrites(rm, pdb+".layerTree.layers", true)
	c.Expect(1, len(del), "delete(tree.layers) in cap")
	c.Dom("remove", rm, del, "delete(tree.layers,root)", GCall("clearDiff(tree.layers[root])", c.Calls(rm, "(*"+pdb+".layerTree).cap$1")))
	c.Dom("remove", rm, del, "delete(tree.layers,root)", GSites("delete(tree.descendants,root)", c.MapWrites(rm, pdb+".layerTree.descendants", true)))
	cd := c.Fn(pdb, "(*layerTree).cap$1")
	c.Dom("clearDiff", cd, c.SuccessReturns(cd), "return",
		GCond("layer is not a diffLayer", cd, False(func(v ssa.Value) bool { e, ok := v.(*ssa.Extract); return ok && e.Index == 1 })),
		GCall("tree.lookup.removeLayer(diff)", c.Calls(cd, "(*"+pdb+".lookup).removeLayer")))
	capf := c.Fn(pdb, "(*layerTree).cap")
	// the stale parent replaced by the new base is un-indexed as well
	c.Dom("replaced-unindexed", capf, c.Stores(capf, pdb+".layerTree.base")[1:], "tree.base=newBase",
		GCall("clearDiff(replaced)", c.Calls(capf, "(*"+pdb+".layerTree).cap$1")))
	// ---- hash check before a node is handed out ---------------------------------------
	c.Rule("DOM/C16.hash")
	rn := c.Fn(pdb, "(*reader).Node")
	c.Dom("hash-match", rn, c.SuccessReturns(rn), "success-return",
		GCond("r.noHashCheck", rn, True(Fld(pdb+".reader.noHashCheck"))),
		GCond("got==hash", rn, Cmp(CallResN("("+pdb+".layer).node", 1), token.EQL, Param("hash"))))
	c.Dom("layer-error", rn, c.SuccessReturns(rn), "success-return", GErrChecked("r.layer.node", c.Calls(rn, "("+pdb+".layer).node")))
	// ---- fallback to the reader's own layer only on stale ---------------------------------
	c.Rule("DOM/C16.fallback")
	for _, m := range [][2]string{{"AccountRLP", "account"}, {"Storage", "storage"}} {
		f := c.Fn(pdb, "(*reader)."+m[0])
		fb := c.CallsRecv(f, "("+pdb+".layer)."+m[1], Fld(pdb+".reader.layer"))
		c.Dom("only-on-stale", f, fb, "r.layer."+m[1], GCond("errors.Is(err, errSnapshotStale)", f, True(CallRes("errors.Is", nil, Global(pdb+".errSnapshotStale")))))
	}
}
