package main

import (
	"go/token"

	"golang.org/x/tools/go/ssa"
)

func init() {
	Register(&Prop{
		ID:   "C29",
		Pkgs: []string{"core/vm", "miner"},
		Decided: "every frame entry (Call, CallCode, DelegateCall, StaticCall, create) takes its state snapshot before its first mutation and reverts to that same snapshot on every exit that can carry an error after a mutation; only StaticCall enters Run with readOnly=true; Run raises the read-only flag only when it was not already set and restores it with a deferred reset under that same condition; the miner's applyTransaction restores state and gas pool on failure.",
		NotDec: "that the journal restores every observable (that is C13), and the per-opcode write-protection table (decided under ROGUARD when the jump-table extraction is present).",
		Rules:  "SNAPREVERT (dominance + forward path search from each mutation site to each error exit) per frame function; CONSTARG on Run's readOnly argument; DOM on the read-only flag handling in Run",
		MinObs: 75,
		Run:    c29,
	})
}

func c29(c *Ctx) {
	snap := "(" + vmp + ".StateDB).Snapshot"
	rev := "(" + vmp + ".StateDB).RevertToSnapshot"
	for _, fn := range []string{"Call", "CallCode", "DelegateCall", "StaticCall"} {
		f := c.Fn(vmp, "(*EVM)."+fn)
		c.Rule("SNAPREVERT/C29." + fn)
		c.SnapRevert("frame", f, snap, rev, stateMutators, nil, nil)
	}
	cr := c.Fn(vmp, "(*EVM).create")
	c.Rule("SNAPREVERT/C29.create")
	// accepted weakening: pre-Homestead code-store out-of-gas keeps the state
	weak := EdgesWhere(cr, Cmp(Any(), token.EQL, Global(vmp+".ErrCodeStoreOutOfGas")))
	c.Expect(1, len(weak), "pre-Homestead ErrCodeStoreOutOfGas edge in create")
	c.SnapRevert("frame", cr, snap, rev, stateMutators, func(s Site) string {
		cc := s.Instr.(*ssa.Call).Common()
		switch calleeName(cc) {
		case "(" + vmp + ".StateDB).SetNonce":
			if Param("caller")(cc.Args[0]) {
				return "the creator's nonce bump is specified to survive a failed creation"
			}
		case "(" + vmp + ".StateDB).AddAddressToAccessList":
			return "EIP-2929: the created address stays warm even if the creation fails"
		}
		return ""
	}, weak)

	// ---- read-only flag -----------------------------------------------------
	c.Rule("CONSTARG/C29.ro")
	for _, fn := range []string{"Call", "CallCode", "DelegateCall", "StaticCall", "initNewContract"} {
		f := c.Fn(vmp, "(*EVM)."+fn)
		want := fn == "StaticCall"
		c.ArgIs("run-readonly", f, c.Calls(f, "(*"+vmp+".EVM).Run"), "evm.Run", 2, ConstBool(want), map[bool]string{true: "true (static frame)", false: "false"}[want])
	}
	run := c.Fn(vmp, "(*EVM).Run")
	c.Rule("DOM/C29.roflag")
	roField := vmp + ".EVM.readOnly"
	set := c.Stores(run, roField)
	c.Expect(1, len(set), "evm.readOnly stores in Run")
	c.Each("set-true", run, set, "evm.readOnly=", func(s Site) (bool, string) {
		return ConstBool(true)(s.Instr.(*ssa.Store).Val), "Run only ever raises the flag"
	})
	wasClear := GCond("!evm.readOnly", run, False(Fld(roField)))
	asked := GCond("readOnly", run, True(Param("readOnly")))
	c.Dom("raise-only-if-clear", run, set, "evm.readOnly=true", wasClear)
	c.Dom("raise-only-if-asked", run, set, "evm.readOnly=true", asked)
	// the deferred reset closure stores false and is installed only on the
	// path that raised the flag (a nested static frame must not clear it)
	var resetDefers []Site
	for _, d := range c.CallsK(run, "*", kDefer) {
		_ = d
	}
	eachInstr(run, func(in ssa.Instruction) {
		d, ok := in.(*ssa.Defer)
		if !ok {
			return
		}
		mc, ok := d.Call.Value.(*ssa.MakeClosure)
		if !ok {
			return
		}
		cl := mc.Fn.(*ssa.Function)
		if st := c.Stores(cl, roField); len(st) > 0 {
			resetDefers = append(resetDefers, Site{run, in})
			c.Each("reset-false", cl, st, "evm.readOnly=", func(s Site) (bool, string) {
				return ConstBool(false)(s.Instr.(*ssa.Store).Val), "the deferred closure clears the flag"
			})
		}
	})
	c.Expect(1, len(resetDefers), "deferred readOnly reset in Run")
	c.Dom("reset-only-if-raised-here", run, resetDefers, "defer reset", wasClear)
	c.Dom("reset-only-if-raised-here", run, resetDefers, "defer reset", GSites("evm.readOnly = true", set))
	c.Followed("raised-implies-reset", run, set, "evm.readOnly=true", resetDefers, "defer func(){evm.readOnly=false}()", c.Returns(run))

	// ---- per-opcode write protection ---------------------------------------------
	c.roGuard(c.Pkgs[vmp], extractOpBindings(c, c.Pkgs[vmp]))

	// ---- block builder: a failed transaction leaves no trace -------------------
	at := c.Fn("miner", "(*Miner).applyTransaction")
	c.Rule("SNAPREVERT/C29.miner")
	c.SnapRevert("frame", at, "(*core/state.StateDB).Snapshot", "(*core/state.StateDB).RevertToSnapshot", "core.ApplyTransaction", nil, nil)
	gps := c.Calls(at, "(*core.GasPool).Snapshot")
	gset := c.Calls(at, "(*core.GasPool).Set")
	c.Expect(1, len(gps), "gasPool.Snapshot in applyTransaction")
	c.Dom("gaspool-snapshot-first", at, c.Calls(at, "core.ApplyTransaction"), "ApplyTransaction", GCall("env.gasPool.Snapshot()", gps))
	if len(gps) == 1 {
		c.ArgIs("gaspool-restore-arg", at, gset, "gasPool.Set", 0, Is(gps[0].Instr.(*ssa.Call)), "the gas-pool snapshot taken before the transaction")
	}
	for _, r := range c.Returns(at) {
		ret := r.Instr.(*ssa.Return)
		if Nil()(retVal(ret, 2)) {
			continue
		}
		c.Dom("gaspool-restored", at, []Site{r}, "error-return", GCall("env.gasPool.Set(gp)", gset))
	}
	c.Dom("gasused-only-on-success", at, c.Stores(at, "core/types.Header.GasUsed"), "header.GasUsed=", GErrChecked("core.ApplyTransaction", c.Calls(at, "core.ApplyTransaction")))
}
