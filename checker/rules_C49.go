package main

import (
	"go/token"
	"strings"

	"golang.org/x/tools/go/ssa"
)

func init() {
	Register(&Prop{
		ID:   "C49",
		Pkgs: []string{"rpc"},
		Decided: "the batch reply is written at one site only (doWrite), behind the test-and-set of the `wrote` flag, and the buffer's calls/resp/wrote are touched only under its mutex (doWrite is entered only from the locked write/respondWithError); in a single call every answer write (normal and timeout arm) lies inside a closure handed to the same sync.Once, and neither arm writes anything for a notification; notifications are pushed to the client only under the Notifier's mutex and are buffered until activate, and activate is called only after the reply was written (Once.Do / callBuffer.write precede the activation loop); a batch pushes no response object for a notification.",
		NotDec: "exactly-once under every timeout race as a history property (the structural guards are the mechanism; interleavings are not enumerated) and id echo as a value property.",
		Rules:  "LOCKSET on batchCallBuffer and Notifier; ONCE (DOM) on the batch write site and WHO on writeJSONBatch/writeJSON call sites; ORDER reply ≺ activate",
		MinObs: 45,
		Run:    c49,
	})
}

func c49(c *Ctx) {
	r := "rpc"
	b := r + ".batchCallBuffer."
	c.Lockset(LockSpec{Name: "C49.batch", Pkg: r, Mutex: b + "mutex", Fields: []string{b + "calls", b + "resp", b + "wrote"}, MinSites: 10})
	nt := r + ".Notifier."
	c.Lockset(LockSpec{Name: "C49.notifier", Pkg: r, Mutex: nt + "mu", Fields: []string{nt + "buffer", nt + "activated", nt + "sub", nt + "callReturned"}, MinSites: 8})

	// ---- the batch reply is written once -------------------------------------------------------------
	c.Rule("ONCE/C49.batch")
	dw := c.Fn(r, "(*batchCallBuffer).doWrite")
	wb := c.Calls(dw, "("+r+".jsonWriter).writeJSONBatch")
	c.Expect(1, len(wb), "writeJSONBatch in doWrite")
	notYet := GCond("!b.wrote", dw, False(Fld(b+"wrote")))
	set := c.Stores(dw, b+"wrote")
	c.Dom("test", dw, cat(wb, set), "write/mark", notYet)
	c.Dom("set", dw, wb, "writeJSONBatch", GSites("b.wrote = true", set))
	c.Each("set-true", dw, set, "b.wrote=", func(s Site) (bool, string) {
		return ConstBool(true)(s.Instr.(*ssa.Store).Val), "the flag is only ever raised"
	})
	// who writes batches on the server side
	allowedBatch := map[string]string{
		"(*" + r + ".batchCallBuffer).doWrite":     "the once-guarded batch reply",
		"(*" + r + ".handler).respondWithBatchTooLarge": "rejected batch: no call of the batch is executed, this is its only reply",
		"(*" + r + ".Client).sendBatchHTTP":        "client side",
		"(*" + r + ".Client).sendBatch":            "client side",
		"(*" + r + ".websocketCodec).writeJSONBatch": "codec forwarding to its embedded jsonCodec",
	}
	nb := 0
	for _, f := range c.AllFuncs(r) {
		for _, s := range c.Calls(f, "*.writeJSONBatch") {
			nb++
			_, ok := allowedBatch[fnName(f)]
			c.Check(ok || strings.Contains(fnName(f), "Client)"), "who/"+fnName(f), s.Pos(), "allowed batch writer", fnName(f)+" writes a batch reply outside the once-guarded doWrite")
		}
	}
	c.Expect(3, nb, "writeJSONBatch call sites")
	// doWrite is reached only from the two locked entry points
	nd := 0
	for _, f := range c.AllFuncs(r) {
		for _, s := range c.Calls(f, "(*"+r+".batchCallBuffer).doWrite") {
			nd++
			ok := fnName(f) == "(*"+r+".batchCallBuffer).write" || fnName(f) == "(*"+r+".batchCallBuffer).respondWithError"
			c.Check(ok, "dowrite-caller/"+fnName(f), s.Pos(), "locked entry point", fnName(f)+" calls doWrite directly")
		}
	}
	c.Expect(2, nd, "doWrite callers")

	// ---- a single call is answered inside one sync.Once ------------------------------------------------
	c.Rule("ONCE/C49.single")
	h := c.Fn(r, "(*handler).handleNonBatchCall")
	dos := c.Calls(h, "(*sync.Once).Do")
	for _, cl := range allClosures(h) {
		for _, d := range c.Calls(cl, "(*sync.Once).Do") {
			dos = append(dos, d)
		}
	}
	c.Expect(2, len(dos), "responded.Do calls")
	// both Do calls use the same Once cell
	sameOnce := true
	for _, d := range dos {
		rv := callRecv(d.Instr.(*ssa.Call).Common())
		if !(isCell(rv, "responded", h)) {
			sameOnce = false
		}
	}
	c.Check(sameOnce, "same-once", h.Pos(), "normal and timeout arm share the `responded` Once", "the answer arms do not share one sync.Once")
	inDo := map[*ssa.Function]bool{}
	for _, d := range dos {
		for _, a := range d.Instr.(*ssa.Call).Common().Args {
			if mc, ok := a.(*ssa.MakeClosure); ok {
				inDo[mc.Fn.(*ssa.Function)] = true
			}
		}
	}
	nw := 0
	for _, f := range append([]*ssa.Function{h}, allClosures(h)...) {
		for _, s := range c.Calls(f, "("+r+".jsonWriter).writeJSON") {
			nw++
			c.Check(inDo[f], "answer-in-once/"+fnName(f), s.Pos(), "the write happens inside a closure run by responded.Do", "an answer is written outside the sync.Once")
		}
	}
	c.Expect(2, nw, "writeJSON sites in handleNonBatchCall")
	// the normal arm writes nothing for a notification
	for f := range inDo {
		for _, s := range c.Calls(f, "("+r+".jsonWriter).writeJSON") {
			// both arms: the normal answer and the timeout error (a notification that times out
			// must not be answered either)
			what := "writeJSON(answer)"
			if as := callArgs(s.Instr.(*ssa.Call).Common()); !ConstBool(false)(as[2]) {
				what = "writeJSON(timeout error)"
			}
			c.Dom("no-reply-to-notification", f, []Site{s}, what, GCond("!msg.isNotification()", f, False(CallRes("(*"+r+".jsonrpcMessage).isNotification"))))
		}
	}

	// ---- notifications only after the reply -------------------------------------------------------------------
	c.Rule("ORDER/C49.activate")
	act := c.Calls(h, "(*"+r+".Notifier).activate")
	c.Expect(1, len(act), "activate loop in handleNonBatchCall")
	// the activation loop lies behind the (possibly skipped) answer write: reaching it means the Do call was passed or answer==nil
	c.Dom("after-reply", h, act, "n.activate()", GCall("responded.Do(write answer)", c.Calls(h, "(*sync.Once).Do")), GCond("answer==nil", h, Cmp(CallRes("(*"+r+".handler).handleCallMsg"), token.EQL, Nil())))
	var hb *ssa.Function
	for _, cl := range allClosures(c.Fn(r, "(*handler).handleBatch")) {
		// the closure that processes the batch is the one that activates the notifiers (a deferred
		// reply write is not a call site, so the reply write cannot be what identifies it)
		if len(c.Calls(cl, "(*"+r+".Notifier).activate")) > 0 {
			hb = cl
		}
	}
	if hb == nil {
		c.Undecided("batch-closure", 0, "batch processing closure not found")
		return
	}
	c.Funcs[hb] = true
	c.Dom("batch-after-reply", hb, c.Calls(hb, "(*"+r+".Notifier).activate"), "n.activate()", GCall("callBuffer.write", c.Calls(hb, "(*"+r+".batchCallBuffer).write")))
	c.Dom("batch-no-response-for-notification", hb, c.Calls(hb, "(*"+r+".batchCallBuffer).pushResponse"), "pushResponse", GCall("msg.isNotification() consulted", c.Calls(hb, "(*"+r+".jsonrpcMessage).isNotification")))
	c.ArgIs("pushes-nil-for-notification", hb, c.Calls(hb, "(*"+r+".batchCallBuffer).pushResponse"), "pushResponse", 0, func(v ssa.Value) bool {
		phi, ok := v.(*ssa.Phi)
		if !ok {
			return false
		}
		hasNil, hasResp := false, false
		for _, e := range phi.Edges {
			if Nil()(e) {
				hasNil = true
			}
			if CallRes("(*" + r + ".handler).handleCallMsg")(e) {
				hasResp = true
			}
		}
		return hasNil && hasResp
	}, "the call's response, or nil for a notification")
	// Notify sends directly only once activated, otherwise buffers
	nf := c.Fn(r, "(*Notifier).Notify")
	c.Dom("buffered-until-active", nf, c.Calls(nf, "(*"+r+".Notifier).send"), "n.send", GCond("n.activated", nf, True(Fld(nt+"activated"))))
}
