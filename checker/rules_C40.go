package main

import (
	"go/token"

	"golang.org/x/tools/go/ssa"
)

func init() {
	Register(&Prop{
		ID:   "C40",
		Pkgs: []string{"core/filtermaps", "eth/filters"},
		Decided: "the index state that matchers read (indexed range, indexed view, temporary-range flag) is written only under the index lock held exclusively, and matcher-facing methods that read it hold the read lock; the matcher set and every backend's valid range / sync channel are touched only under the matchers lock, which is never held when the index lock is acquired; a finished sync reports as indexed only fully rendered blocks (a partially rendered last block is cut off unless the head is indexed), hands over the matcher's accumulated valid range and then resets it to the reported range; whenever part of the index is removed every matcher's valid range is intersected with what remains; in the query engine every log returned from the index path has passed the exact filter (index hits are only potential matches), results of an indexed search are kept only inside the range that stayed valid during the search and is shared between the session's chain view and the indexed view, earlier results are trimmed to the range shared with a new chain view, the search range is validated against the head, and trimming removes exactly the entries outside the new range from both ends.",
		NotDec: "that the index yields every true match (no false negatives of row mapping / rendering) and the exactness of results against a scan for arbitrary reorg and indexing interleavings (value-level).",
		Rules:  "LOCKSET (writer variant) indexLock; LOCKSET matchersLock; LOCKORDER; DOM synced range; DOM exact filter after index; DOM valid-range trimming",
		MinObs: 170,
		Run:    c40,
	})
}

func c40(c *Ctx) {
	fmp := "core/filtermaps"
	F := fmp + ".FilterMaps."
	B := fmp + ".FilterMapsMatcherBackend."
	wo := "the indexer goroutine is the only writer and reads its own writes without the lock (documented on the struct); matcher-facing readers are checked by LOCKSET/C40.readers"
	c.Lockset(LockSpec{Name: "C40.index", Pkg: fmp, Mutex: F + "indexLock", RW: true,
		WriteOnly: map[string]string{F + "indexedRange": wo, F + "indexedView": wo, F + "hasTempRange": wo},
		Fields: []string{F + "indexedRange", F + "indexedView", F + "hasTempRange"},
		Exempt: map[string]string{
			fmp + ".NewFilterMaps": "constructor",
		},
		MinSites: 4})
	c.Lockset(LockSpec{Name: "C40.matchers", Pkg: fmp, Mutex: F + "matchersLock",
		Fields: []string{F + "matchers", B + "validBlocks", B + "syncCh"},
		Exempt: map[string]string{
			fmp + ".NewFilterMaps": "constructor",
		},
		MinSites: 8})
	// matcher-facing readers of the index state hold the read lock
	c.Rule("LOCKSET/C40.readers")
	nr := 0
	for _, name := range []string{"(*FilterMaps).NewMatcherBackend", "(*FilterMapsMatcherBackend).GetBlockLvPointer", "(*FilterMapsMatcherBackend).GetLogByLvIndex"} {
		f := c.Fn(fmp, name)
		if f == nil {
			continue
		}
		rl := c.Calls(f, "(*sync.RWMutex).RLock")
		var reads []Site
		eachInstr(f, func(in ssa.Instruction) {
			if fa, ok := in.(*ssa.FieldAddr); ok && fieldAddrName(fa) == F+"indexedRange" {
				reads = append(reads, Site{f, in})
			}
		})
		inner := cat(c.Calls(f, "(*"+fmp+".FilterMaps).getBlockLvPointer"), c.Calls(f, "(*"+fmp+".FilterMaps).getLogByLvIndex"))
		tg := cat(reads, inner)
		nr += len(tg)
		c.Dom("rlock", f, tg, "read of the index state", GCall("indexLock.RLock()", rl))
	}
	c.Expect(8, nr, "matcher-facing reads of the index state")
	// lock order: indexLock is never taken while matchersLock is held
	c.Rule("LOCKORDER/C40")
	no := 0
	for _, f := range c.AllFuncs(fmp) {
		var ml, il []Site
		eachInstr(f, func(in ssa.Instruction) {
			call, ok := in.(ssa.CallInstruction)
			if !ok {
				return
			}
			n := calleeName(call.Common())
			switch n {
			case "(*sync.Mutex).Lock":
				if FldAddr(F + "matchersLock")(call.Common().Args[0]) {
					ml = append(ml, Site{f, in})
				}
			case "(*sync.RWMutex).Lock", "(*sync.RWMutex).RLock":
				if FldAddr(F + "indexLock")(call.Common().Args[0]) {
					il = append(il, Site{f, in})
				}
			}
		})
		if len(ml) == 0 || len(il) == 0 {
			continue
		}
		var unl []Site
		eachInstr(f, func(in ssa.Instruction) {
			if call, ok := in.(*ssa.Call); ok && calleeName(&call.Call) == "(*sync.Mutex).Unlock" && FldAddr(F + "matchersLock")(call.Call.Args[0]) {
				unl = append(unl, Site{f, in})
			}
		})
		for _, m := range ml {
			no++
			hit := ReachesBefore(m.Instr, sitesToSet(unl), nil, sitesToSet(il))
			c.Funcs[f] = true
			c.Check(hit == nil, "order/"+fnName(f), m.Pos(), "indexLock is not acquired while matchersLock is held", "indexLock is acquired while matchersLock is held (documented order is indexLock first): deadlock with the indexer")
		}
	}
	c.Expect(1, no, "functions taking both locks")

	// ---- sync hand-over ---------------------------------------------------------------------------------
	c.Rule("DOM/C40.synced")
	if sy := c.Fn(fmp, "(*FilterMapsMatcherBackend).synced"); sy != nil {
		sends := c.Sends(sy, B+"syncCh")
		c.Expect(1, len(sends), "send on syncCh")
		trim := c.Calls(sy, "(*common.Range[T]).SetAfterLast")
		c.Dom("no-partial-block", sy, sends, "sync result",
			GCond("head indexed", sy, True(Fld(fmp+".filterMapsRange.headIndexed"))),
			GCond("nothing indexed", sy, True(CallRes("(common.Range[T]).IsEmpty"))),
			GCall("partially rendered last block removed", trim))
		for _, s := range trim {
			a := s.Instr.(*ssa.Call).Call.Args
			c.Check(CallRes("(common.Range[T]).Last")(a[1]), "cut-at-last/"+fnName(sy), s.Pos(), "the range is cut right before its last block", "the partially rendered block is not cut at the range's last block")
		}
		vb := c.Stores(sy, B+"validBlocks")
		c.Check(len(vb) == 1, "valid-reset/"+fnName(sy), sy.Pos(), "the matcher's valid range restarts from the reported range", "the matcher's valid range is not reset after reporting")
		for _, s := range vb {
			for _, sd := range sends {
				c.Check(instrDominates(sd.Instr, s.Instr), "report-then-reset/"+fnName(sy), s.Pos(), "the accumulated valid range is reported before it is reset", "the valid range is reset before it is reported")
			}
		}
	}
	if up := c.Fn(fmp, "(*FilterMaps).updateMatchersValidRange"); up != nil {
		vb := c.Stores(up, B+"validBlocks")
		okI := false
		for _, s := range vb {
			if call, ok := s.Instr.(*ssa.Store).Val.(*ssa.Call); ok && calleeName(&call.Call) == "(common.Range[T]).Intersection" {
				if Fld(B+"validBlocks")(call.Call.Args[0]) && viaField(call.Call.Args[1], F+"indexedRange") {
					okI = true
				}
			}
		}
		c.Check(okI, "intersect/"+fnName(up), up.Pos(), "valid ranges are intersected with the remaining indexed range", "matchers' valid ranges are not intersected with the remaining indexed range")
		c.Check(len(rangeLoopHeadersMap(up, Fld(F+"matchers"))) == 1, "all-matchers/"+fnName(up), up.Pos(), "every active matcher is updated", "not every active matcher is updated")
	}

	// ---- query engine -----------------------------------------------------------------------------------
	ef := "eth/filters"
	c.Rule("DOM/C40.filter")
	if il := c.Fn(ef, "(*Filter).indexedLogs"); il != nil {
		fl := c.Calls(il, ef+".filterLogs")
		gp := c.Calls(il, fmp+".GetPotentialMatches")
		c.Expect(1, len(fl), "filterLogs in indexedLogs")
		c.ArgIs("filters-potential", il, fl, "filterLogs(logs)", 0, CallResN(fmp+".GetPotentialMatches", 0), "the potential matches from the index")
		c.ArgIs("filters-addresses", il, fl, "filterLogs(addresses)", 3, Fld(ef+".Filter.addresses"), "the filter's own addresses")
		c.ArgIs("filters-topics", il, fl, "filterLogs(topics)", 4, Fld(ef+".Filter.topics"), "the filter's own topics")
		c.ArgIs("searches-own", il, gp, "GetPotentialMatches(addresses)", 4, Fld(ef+".Filter.addresses"), "the filter's own addresses")
		c.ArgIs("searches-own", il, gp, "GetPotentialMatches(topics)", 5, Fld(ef+".Filter.topics"), "the filter's own topics")
		for _, r := range c.Returns(il) {
			c.Check(CallRes(ef+".filterLogs")(retVal(r.Instr.(*ssa.Return), 0)), "returns-filtered/"+fnName(il), r.Pos(), "only exactly-filtered logs leave the index path", "index hits are returned without the exact filter: false positives of the probabilistic index reach the caller")
		}
	}
	if cm := c.Fn(ef, "(*Filter).checkMatches"); cm != nil {
		fl := c.Calls(cm, ef+".filterLogs")
		c.Expect(1, len(fl), "filterLogs in checkMatches")
		for _, r := range c.SuccessReturns(cm) {
			v := retVal(r.Instr.(*ssa.Return), 0)
			c.Check(Nil()(v) || CallRes(ef+".filterLogs")(v), "returns-filtered/"+fnName(cm), r.Pos(), "only exactly-filtered logs are returned for a bloom hit", "logs of a bloom-positive block are returned without the exact filter")
		}
	}
	if fl := c.Fn(ef, "filterLogs"); fl != nil {
		// the predicate checks address, topic count and each topic position
		var chk *ssa.Function
		for _, an := range fl.AnonFuncs {
			chk = an
		}
		if c.Check(chk != nil, "predicate/"+fnName(fl), fl.Pos(), "per-log predicate present", "filterLogs has no per-log predicate") {
			c.Funcs[chk] = true
			cs := c.Calls(chk, "slices.Contains")
			c.Check(len(cs) == 2, "predicate-tests/"+fnName(chk), chk.Pos(), "address membership and per-position topic membership are tested", "the exact filter does not test both address and topics")
			var trues []Site
			for _, r := range c.Returns(chk) {
				if ConstBool(true)(retVal(r.Instr.(*ssa.Return), 0)) {
					trues = append(trues, r)
				}
			}
			c.Dom("predicate-topic-count", chk, trues, "accept", GCond("len(topics) <= len(log.Topics)", chk, Cmp(Len(FreeVar("topics")), token.LEQ, Len(Fld("core/types.Log.Topics")))))
			c.Dom("predicate-address", chk, trues, "accept",
				GCond("no address filter", chk, Cmp(Len(FreeVar("addresses")), token.LEQ, ConstInt(0))),
				GCond("address listed", chk, True(CallRes("slices.Contains", FreeVar("addresses")))))
		}
	}
	c.Rule("DOM/C40.valid")
	if sr := c.Fn(ef, "(*searchSession).searchInRange"); sr != nil {
		sy := c.Calls(sr, "("+fmp+".MatcherBackend).SyncLogIndex")
		tm := c.Calls(sr, "(*"+ef+".searchSession).trimMatches")
		il := c.Calls(sr, "(*"+ef+".Filter).indexedLogs")
		if c.Check(len(sy) == 1 && len(tm) == 1 && len(il) == 1, "shape/"+fnName(sr), sr.Pos(), "indexed search, sync, trim", "the indexed arm lost its search, sync or trim step") {
			c.Dom("synced-before-use", sr, tm, "trimMatches", GErrChecked("SyncLogIndex succeeded", sy))
			c.Check(instrDominates(il[0].Instr, sy[0].Instr), "sync-after-search/"+fnName(sr), sy[0].Pos(), "the index is synced after the search it validates", "the log index is synced before the search: changes during the search go unnoticed")
			a := tm[0].Instr.(*ssa.Call).Call.Args
			okTrim := false
			if call, ok := a[1].(*ssa.Call); ok && calleeName(&call.Call) == "(common.Range[T]).Intersection" {
				okTrim = Mentions(Fld(fmp+".SyncRange.ValidBlocks"))(call.Call.Args[0]) && Mentions(CallRes("(*"+fmp+".ChainView).SharedRange"))(call.Call.Args[1])
			}
			c.Check(okTrim, "trim-range/"+fnName(sr), tm[0].Pos(), "results are trimmed to valid blocks ∩ range shared by the session's chain view and the indexed view", "indexed results are not trimmed to the range that stayed valid and shared with the session's chain view")
			c.Check(CallResN("(*"+ef+".Filter).indexedLogs", 0)(a[3]), "trim-results/"+fnName(sr), tm[0].Pos(), "the trimmed set is this search's results", "trimMatches is not applied to this search's results")
			// the indexed arm returns the trimmed results
			for _, r := range c.SuccessReturns(sr) {
				v := retVal(r.Instr.(*ssa.Return), 1)
				if CallRes("(*"+ef+".Filter).indexedLogs")(v) && !CallRes("(*"+ef+".searchSession).trimMatches")(v) {
					c.Bad("untrimmed/"+fnName(sr), r.Pos(), "indexed results are returned without being trimmed to the valid range")
				}
			}
		}
	}
	if uv := c.Fn(ef, "(*searchSession).updateChainView"); uv != nil {
		tm := c.Calls(uv, "(*"+ef+".searchSession).trimMatches")
		cvS := c.Stores(uv, ef+".searchSession.chainView")
		if c.Check(len(tm) == 1 && len(cvS) == 1, "shape/"+fnName(uv), uv.Pos(), "earlier results are trimmed when the view changes", "updateChainView no longer trims earlier results") {
			a := tm[0].Instr.(*ssa.Call).Call.Args
			c.Check(Mentions(CallRes("(*"+fmp+".ChainView).SharedRange"))(a[1]), "reorg-trim/"+fnName(uv), tm[0].Pos(), "earlier results are cut to the range shared with the new view", "earlier results are not cut to the range shared between old and new chain view")
			c.Check(instrDominates(tm[0].Instr, cvS[0].Instr) || !instrReaches(cvS[0].Instr, tm[0].Instr), "trim-before-switch/"+fnName(uv), cvS[0].Pos(), "the old view is still available when trimming", "the session switches to the new view before trimming against the old one")
		}
		c.Dom("range-checked", uv, cvS, "adopt new view",
			GCond("first <= last", uv, Cmp(Any(), token.LEQ, Any())).Then(GCond("last <= head", uv, Cmp(Any(), token.LEQ, CallRes("(*"+fmp+".ChainView).HeadNumber")))))
	}
	if tm := c.Fn(ef, "(*searchSession).trimMatches"); tm != nil {
		// both ends are trimmed by block number against the new range
		lo := EdgesWhere(tm, Cmp(Fld("core/types.Log.BlockNumber"), token.LSS, CallRes("(common.Range[T]).First")))
		hi := EdgesWhere(tm, Cmp(Fld("core/types.Log.BlockNumber"), token.GTR, CallRes("(common.Range[T]).Last")))
		c.Check(len(lo) == 1 && len(hi) == 1, "both-ends/"+fnName(tm), tm.Pos(), "entries below the first and above the last block of the new range are dropped", "trimMatches does not drop entries on both sides of the new range")
	}
}

// viaField: v is loaded through (a sub-field of) the struct field named name.
func viaField(v ssa.Value, name string) bool {
	u, ok := v.(*ssa.UnOp)
	if !ok {
		return false
	}
	a := u.X
	for d := 0; d < 6; d++ {
		fa, ok := a.(*ssa.FieldAddr)
		if !ok {
			return false
		}
		if fieldAddrName(fa) == name {
			return true
		}
		a = fa.X
	}
	return false
}
