package main

import (
	"go/token"

	"golang.org/x/tools/go/ssa"
)

func init() {
	Register(&Prop{
		ID:   "C17",
		Pkgs: []string{"triedb/pathdb"},
		Decided: "Database.Recover mutates nothing (revert, tree.init, history truncation) before the modifyAllowed and Recoverable(root) gates; the key-value store is synced (error tested) before either history freezer is truncated from the head; diskLayer.revert rejects a foreign history and id 0 first, marks the layer stale before any mutation, waits for the frozen buffer (error tested) before the batch, and writes nodes, states, persistent state id and snapshot root through the one batch it then writes; Recoverable returns true only as `meta.parent == root` after id!=nil and id<bottom id.",
		NotDec: "that applying a state history reproduces the old flat state and trie nodes (value-level).",
		Rules:  "DOM/ORDER must-pass-through per mutation call site, ATOMIC same-batch argument identity, in (*Database).Recover, (*Database).Recoverable, (*diskLayer).revert",
		MinObs: 55,
		Run:    c17,
	})
}

const pdb = "triedb/pathdb"

func cat(ss ...[]Site) []Site {
	var out []Site
	for _, s := range ss {
		out = append(out, s...)
	}
	return out
}

func c17(c *Ctx) {
	f := c.Fn(pdb, "(*Database).Recover")
	root := Param("root")
	trunc := c.Calls(f, pdb+".truncateFromHead")
	mut := cat(c.Calls(f, "(*"+pdb+".diskLayer).revert"), c.Calls(f, "(*"+pdb+".layerTree).init"), trunc)
	c.Expect(4, len(mut), "Recover mutation sites")

	c.Rule("DOM/C17.gate")
	c.Dom("modifyAllowed", f, mut, "mutation", GErrChecked("db.modifyAllowed()", c.Calls(f, "(*"+pdb+".Database).modifyAllowed")))
	rec := c.CallsWhere(f, "(*"+pdb+".Database).Recoverable", func(cc *ssaCall) bool { return root(callArgs(cc)[0]) })
	c.Dom("recoverable", f, mut, "mutation", GOkChecked("db.Recoverable(root)", rec, 0))
	c.Dom("freezer", f, mut, "mutation", GCond("db.stateFreezer!=nil", f, Cmp(Fld(pdb+".Database.stateFreezer"), token.NEQ, Nil())))

	c.Rule("ORDER/C17.sync")
	c.Dom("sync", f, trunc, "truncateFromHead", GErrChecked("diskdb.SyncKeyValue()", c.Calls(f, "*.SyncKeyValue")))
	c.ErrUsed("errused", f, trunc, "truncateFromHead")

	r := c.Fn(pdb, "(*diskLayer).revert")
	c.Rule("ATOMIC/C17.revert")
	batch := CallRes("(ethdb.Batcher).NewBatch")
	wn := c.Calls(r, pdb+".writeNodes")
	ws := c.Calls(r, pdb+".writeStates")
	wid := c.Calls(r, "core/rawdb.WritePersistentStateID")
	wroot := c.Calls(r, "core/rawdb.WriteSnapshotRoot")
	c.ArgIs("batch", r, cat(wn, ws, wid, wroot), "batched-write", 0, batch, "the batch from diskdb.NewBatch()")
	bw := c.CallsWhere(r, "(ethdb.Batch).Write", func(cc *ssaCall) bool { return batch(cc.Value) })
	c.Expect(1, len(bw), "batch.Write in revert")
	for _, w := range [][]Site{wn, ws, wid, wroot} {
		c.Dom("all-in-batch", r, bw, "batch.Write", GCall("write into batch", w))
	}
	c.ErrUsed("errused", r, bw, "batch.Write")
	// id and root written are the parent's
	c.ArgIs("root", r, wroot, "WriteSnapshotRoot", 1, Fld(pdb+".meta.parent"), "h.meta.parent")
	c.ArgIs("id", r, wid, "WritePersistentStateID", 1, func(v ssa.Value) bool {
		b, ok := v.(*ssa.BinOp)
		return ok && b.Op == token.SUB && Fld(pdb + ".diskLayer.id")(b.X) && ConstInt(1)(b.Y)
	}, "dl.id-1")

	c.Rule("ORDER/C17.stale")
	stale := c.Stores(r, pdb+".diskLayer.stale")
	effects := cat(c.Calls(r, "(*"+pdb+".buffer).revertTo"), bw, wn, ws, wid, wroot,
		c.Calls(r, "(*"+pdb+".historyIndexer).shorten"))
	c.Dom("stale-first", r, effects, "mutation", GSites("dl.stale = true", stale))
	c.Each("stale-true", r, stale, "store", func(s Site) (bool, string) {
		return ConstBool(true)(s.Instr.(*ssa.Store).Val), "dl.stale is set to the constant true"
	})
	c.Dom("waitflush", r, bw, "batch.Write",
		GCond("dl.frozen==nil", r, Cmp(Fld(pdb+".diskLayer.frozen"), token.EQL, Nil())),
		GErrChecked("dl.frozen.waitFlush()", c.Calls(r, "(*"+pdb+".buffer).waitFlush")))

	// the persistent-state path hands no flushed frozen buffer to the reverted
	// layer (its content belongs to the state being rolled back)
	var nilFrozen []Site
	for _, st := range c.Stores(r, pdb+".diskLayer.frozen") {
		if Nil()(st.Instr.(*ssa.Store).Val) {
			nilFrozen = append(nilFrozen, st)
		}
	}
	var persistentNew []Site
	for _, n := range c.Calls(r, pdb+".newDiskLayer") {
		for _, w := range bw {
			if instrReaches(w.Instr, n.Instr) {
				persistentNew = append(persistentNew, n)
			}
		}
	}
	c.Expect(1, len(persistentNew), "newDiskLayer on the persistent-state path of revert")
	c.Dom("frozen-released", r, persistentNew, "newDiskLayer(after batch.Write)",
		GCond("dl.frozen==nil", r, Cmp(Fld(pdb+".diskLayer.frozen"), token.EQL, Nil())),
		GSites("dl.frozen = nil", nilFrozen))

	c.Rule("DOM/C17.meta")
	all := cat(effects, stale, c.Calls(r, pdb+".apply"))
	c.Dom("history-root", r, all, "effect",
		GCond("h.meta.root==dl.rootHash()", r, Cmp(Fld(pdb+".meta.root"), token.EQL, CallRes("(*"+pdb+".diskLayer).rootHash"))))
	c.Dom("id-nonzero", r, all, "effect",
		GCond("dl.id!=0", r, Cmp(Fld(pdb+".diskLayer.id"), token.NEQ, ConstInt(0))))

	q := c.Fn(pdb, "(*Database).Recoverable")
	yes := c.ReturnsNot(q, 0, ConstBool(false))
	c.Expect(1, len(yes), "non-false returns of Recoverable")
	c.Each("parent-eq-root", q, yes, "return", func(s Site) (bool, string) {
		v := s.Instr.(*ssa.Return).Results[0]
		b, ok := v.(*ssa.BinOp)
		ok = ok && b.Op == token.EQL && ((Fld(pdb + ".meta.parent")(b.X) && Param("root")(b.Y)) || (Fld(pdb + ".meta.parent")(b.Y) && Param("root")(b.X)))
		return ok, "Recoverable's only non-false result is m.parent == root"
	})
	idp := CallRes("core/rawdb.ReadStateID", nil, Param("root"))
	c.Dom("id-known", q, yes, "return-true", GCond("ReadStateID(root)!=nil", q, Cmp(idp, token.NEQ, Nil())))
	c.Dom("id-below", q, yes, "return-true", GCond("*id < bottom.stateID()", q,
		Cmp(Mentions(idp), token.LSS, CallRes("(*"+pdb+".diskLayer).stateID"))))
	c.Dom("decoded", q, yes, "return-true", GErrChecked("m.decode(blob)", c.Calls(q, "(*"+pdb+".meta).decode")))
}
