package main

import (
	"go/constant"
	"go/token"

	"golang.org/x/tools/go/ssa"
)

func init() {
	Register(&Prop{
		ID:   "C44",
		Pkgs: []string{"p2p/rlpx"},
		Decided: "no frame byte is decrypted or handed to the caller before its MAC matched: the header MAC comparison (over the MAC computed from the ingress state and the received 16 header bytes) precedes the header decryption, the frame MAC comparison precedes the frame decryption and the return; MACs are compared only with hmac.Equal (constant time), never bytes.Equal or ==; the sender MACs what it has encrypted (encrypt-then-MAC) in the same layout the reader expects (16-byte header, 16-byte MACs, padding to 16); handshake keys are accepted only through crypto.UnmarshalPubkey (on-curve check) and a failed import rejects the handshake; an undecryptable or oversized handshake packet is rejected before it is decoded; a compressed message larger than the limit is rejected before it is decompressed.",
		NotDec: "in-order delivery, compression round-trips and the cryptographic strength of the MAC/KDF (value-level / cryptographic).",
		Rules:  "ORDER/DOM must-pass-through per decrypt/return site in (*sessionState).readFrame, writeFrame, (*Conn).Read, handshake functions; WHO on comparison callees; THRESH constant agreement between readFrame and writeFrame",
		MinObs: 26,
		Run:    c44,
	})
}

func c44(c *Ctx) {
	rx := "p2p/rlpx"
	rf := c.Fn(rx, "(*sessionState).readFrame")
	c.Rule("ORDER/C44.mac")
	xors := c.Calls(rf, "(crypto/cipher.Stream).XORKeyStream")
	c.Expect(2, len(xors), "XORKeyStream calls in readFrame")
	hdrMAC := CallRes("(*" + rx + ".hashMAC).computeHeader")
	frmMAC := CallRes("(*" + rx + ".hashMAC).computeFrame")
	hdrOK := GCond("hmac.Equal(wantHeaderMAC, header[16:])", rf, True(CallRes("crypto/hmac.Equal", hdrMAC)))
	frmOK := GCond("hmac.Equal(wantFrameMAC, frameMAC)", rf, True(CallRes("crypto/hmac.Equal", frmMAC)))
	c.Dom("header-mac-before-decrypt", rf, xors, "XORKeyStream", hdrOK)
	if len(xors) == 2 {
		c.Dom("frame-mac-before-decrypt", rf, xors[1:], "XORKeyStream(frame)", frmOK)
	}
	c.Dom("frame-mac-before-return", rf, c.SuccessReturns(rf), "success-return", frmOK)
	c.Dom("header-mac-before-return", rf, c.SuccessReturns(rf), "success-return", hdrOK)
	// the MAC is computed from the ingress MAC state over the received bytes
	c.RecvIs("ingress-state", rf, cat(c.Calls(rf, "(*"+rx+".hashMAC).computeHeader"), c.Calls(rf, "(*"+rx+".hashMAC).computeFrame")), "compute MAC", FldAddr(rx+".sessionState.ingressMAC"), "h.ingressMAC")

	c.Rule("WHO/C44.consttime")
	n := 0
	for _, f := range c.AllFuncs(rx) {
		for _, call := range cat(c.Calls(f, "(*"+rx+".hashMAC).computeHeader"), c.Calls(f, "(*"+rx+".hashMAC).computeFrame")) {
			v := call.Instr.(*ssa.Call)
			for _, r := range *v.Referrers() {
				switch x := r.(type) {
				case *ssa.Call:
					nm := calleeName(&x.Call)
					if nm == "bytes.Equal" || nm == "bytes.Compare" || nm == "reflect.DeepEqual" {
						n++
						c.Bad("compare/"+fnName(f), Site{f, r}.Pos(), "MAC compared with "+nm+" (not constant time)")
					}
					if nm == "crypto/hmac.Equal" || nm == "crypto/subtle.ConstantTimeCompare" {
						n++
						c.OK("compare/"+fnName(f), Site{f, r}.Pos(), "MAC compared with "+nm)
					}
				case *ssa.BinOp:
					n++
					c.Bad("compare/"+fnName(f), Site{f, r}.Pos(), "MAC compared with an operator")
				}
			}
		}
	}
	c.Expect(2, n, "MAC comparison sites")

	// ---- sender: encrypt then MAC, same layout -----------------------------------------------------
	wf := c.Fn(rx, "(*sessionState).writeFrame")
	c.Rule("ORDER/C44.send")
	wx := c.Calls(wf, "(crypto/cipher.Stream).XORKeyStream")
	c.Expect(2, len(wx), "XORKeyStream calls in writeFrame")
	c.Dom("header-encrypted-before-mac", wf, c.Calls(wf, "(*"+rx+".hashMAC).computeHeader"), "computeHeader", GCall("enc.XORKeyStream(header)", wx))
	if len(wx) == 2 {
		c.Dom("frame-encrypted-before-mac", wf, c.Calls(wf, "(*"+rx+".hashMAC).computeFrame"), "computeFrame", GCall("enc.XORKeyStream(framedata)", wx[1:]))
	}
	c.RecvIs("egress-state", wf, cat(c.Calls(wf, "(*"+rx+".hashMAC).computeHeader"), c.Calls(wf, "(*"+rx+".hashMAC).computeFrame")), "compute MAC", FldAddr(rx+".sessionState.egressMAC"), "h.egressMAC")
	c.Dom("size-limit", wf, wx, "XORKeyStream", GCond("fsize<=maxUint24", wf, Cmp(Any(), token.LEQ, ConstInt(1<<24-1))))

	c.Rule("THRESH/C44.frame")
	consts := func(f *ssa.Function) map[string]bool {
		out := map[string]bool{}
		eachInstr(f, func(in ssa.Instruction) {
			switch x := in.(type) {
			case *ssa.BinOp:
				if x.Op == token.REM {
					if k, ok := x.Y.(*ssa.Const); ok && k.Value != nil && k.Value.Kind() == constant.Int {
						out["pad%"+k.Value.ExactString()] = true
					}
				}
			case *ssa.Call:
				nm := calleeName(&x.Call)
				if nm == "(*"+rx+".readBuffer).read" || nm == "(*"+rx+".writeBuffer).appendZero" {
					as := callArgs(&x.Call)
					if k, ok := as[len(as)-1].(*ssa.Const); ok && k.Value != nil {
						out["len"+k.Value.ExactString()] = true
					}
				}
			}
		})
		return out
	}
	rc, wc := consts(rf), consts(wf)
	c.Check(rc["pad%16"] && wc["pad%16"], "padding", rf.Pos(), "reader and writer pad frames to multiples of 16", "reader and writer disagree on frame padding")
	c.Check(rc["len32"] && rc["len16"] && wc["len16"], "sizes", rf.Pos(), "reader takes a 32-byte header block (16 header + 16 MAC) and a 16-byte frame MAC; writer emits a 16-byte header", "header/MAC sizes of reader and writer disagree")

	// ---- handshake keys ------------------------------------------------------------------------------
	c.Rule("DOM/C44.keys")
	ip := c.Fn(rx, "importPublicKey")
	c.Dom("on-curve", ip, c.SuccessReturns(ip), "success-return", GErrChecked("crypto.UnmarshalPubkey", c.Calls(ip, "crypto.UnmarshalPubkey")))
	ham := c.Fn(rx, "(*handshakeState).handleAuthMsg")
	imp := c.Calls(ham, rx+".importPublicKey")
	c.Expect(2, len(imp), "importPublicKey calls in handleAuthMsg")
	c.Dom("remote-key-validated", ham, c.Stores(ham, rx+".handshakeState.remote"), "h.remote=", GErrChecked("importPublicKey(InitiatorPubkey)", imp[:1]))
	c.Each("remote-is-imported", ham, c.Stores(ham, rx+".handshakeState.remote"), "h.remote=", func(s Site) (bool, string) {
		return CallResN(rx+".importPublicKey", 0)(s.Instr.(*ssa.Store).Val), "h.remote is the key returned by importPublicKey"
	})
	c.Dom("ephemeral-recovered", ham, imp[1:], "importPublicKey(remoteRandomPub)", GErrChecked("crypto.Ecrecover", c.Calls(ham, "crypto.Ecrecover")))
	har := c.Fn(rx, "(*handshakeState).handleAuthResp")
	for _, r := range c.Returns(har) {
		v := retVal(r.Instr.(*ssa.Return), 0)
		c.Check(errValuesOf(c.Calls(har, rx+".importPublicKey"))[v], "authresp-propagates/"+fnName(har), r.Pos(), "handleAuthResp returns importPublicKey's error", "handleAuthResp does not propagate the key import error")
	}
	rm := c.Fn(rx, "(*handshakeState).readMsg")
	dec := c.Calls(rm, "(*rlp.Stream).Decode")
	c.Dom("decrypt-before-decode", rm, dec, "rlp decode", GErrChecked("ecies Decrypt", c.Calls(rm, "(*crypto/ecies.PrivateKey).Decrypt")))
	c.Dom("size-cap", rm, c.Calls(rm, "(*crypto/ecies.PrivateKey).Decrypt"), "Decrypt", GCond("size<=2048", rm, Cmp(Any(), token.LEQ, ConstInt(2048))))

	// ---- decompression bound ---------------------------------------------------------------------------
	rd := c.Fn(rx, "(*Conn).Read")
	c.Rule("DOM/C44.snappy")
	c.Dom("bounded-decode", rd, c.Calls(rd, "github.com/golang/snappy.Decode"), "snappy.Decode",
		GErrChecked("snappy.DecodedLen", c.Calls(rd, "github.com/golang/snappy.DecodedLen")).Then(GCond("actualSize<=maxUint24", rd, Cmp(CallResN("github.com/golang/snappy.DecodedLen", 0), token.LEQ, ConstInt(1<<24-1)))))
	c.Dom("frame-read-first", rd, c.Calls(rd, "rlp.SplitUint64"), "SplitUint64", GErrChecked("session.readFrame", c.Calls(rd, "(*"+rx+".sessionState).readFrame")))
}

func errValuesOf(calls []Site) map[ssa.Value]bool {
	out := map[ssa.Value]bool{}
	for _, s := range calls {
		if call, ok := s.Instr.(*ssa.Call); ok {
			for v := range errValues(call) {
				out[v] = true
			}
		}
	}
	return out
}
