package main

import (
	"go/token"
	"go/types"
	"strings"

	"golang.org/x/tools/go/ssa"
)

// Rules added during the fourth round of seeded changes, fourth batch
// (seeded/C37-r4 … seeded/C53-r4).

// loopBlocksOf: the blocks of the natural loop headed by h.
func loopBlocksOf(h *ssa.BasicBlock) map[*ssa.BasicBlock]bool {
	in := map[*ssa.BasicBlock]bool{h: true}
	var stack []*ssa.BasicBlock
	for _, p := range h.Preds {
		if h.Dominates(p) && !in[p] {
			in[p] = true
			stack = append(stack, p)
		}
	}
	for len(stack) > 0 {
		b := stack[len(stack)-1]
		stack = stack[:len(stack)-1]
		for _, p := range b.Preds {
			if !in[p] {
				in[p] = true
				stack = append(stack, p)
			}
		}
	}
	return in
}

// sameElem: both values are loads of the same slice element (same slice value,
// same index value), or the same value.
func sameElem(a, b ssa.Value) bool {
	if sameValue(a, b) {
		return true
	}
	ua, ok1 := a.(*ssa.UnOp)
	ub, ok2 := b.(*ssa.UnOp)
	if !ok1 || !ok2 {
		return false
	}
	ia, ok1 := ua.X.(*ssa.IndexAddr)
	ib, ok2 := ub.X.(*ssa.IndexAddr)
	return ok1 && ok2 && sameValue(ia.X, ib.X) && sameValue(ia.Index, ib.Index)
}

func init() {
	extendProp("C37", "A probe whose state reads failed is never classified: in gasestimator.run every return with a nil error lies behind the probe state's memoised database error having been read and found nil.", nil, func(c *Ctx) {
		c.Rule("DOM/C37.dberr")
		f := c.Fn("eth/gasestimator", "run")
		if f == nil {
			return
		}
		errs := c.Calls(f, "(*core/state.StateDB).Error")
		c.Expect(1, len(errs), "dirtyState.Error() in run")
		c.Dom("db-error-tested", f, c.SuccessReturns(f), "probe result returned", GErrChecked("dirtyState.Error()", errs))
	})

	extendProp("C38", "A reorg removes every canonical marker above the new head: the deletion loop in BlockChain.reorg is left only when ReadCanonicalHash finds no marker at the next height — it is not bounded by the old head block.", nil, func(c *Ctx) {
		c.Rule("LOOPALL/C38.stalemarkers")
		f := c.Fn("core", "(*BlockChain).reorg")
		if f == nil {
			return
		}
		c.Funcs[f] = true
		n := 0
		empty := EdgesWhere(f, Cmp(CallRes("core/rawdb.ReadCanonicalHash"), token.EQL, Any()))
		for _, s := range c.Calls(f, "core/rawdb.DeleteCanonicalHash") {
			h := innermostLoopHeader(f, s.Instr.Block())
			if h == nil {
				continue
			}
			n++
			in := loopBlocksOf(h)
			ok := true
			exits := 0
			for b := range in {
				for i, sc := range b.Succs {
					if in[sc] {
						continue
					}
					exits++
					if !empty[Edge{b, i}] {
						ok = false
					}
				}
			}
			c.Check(ok && exits > 0, "until-no-marker", s.Pos(), "the loop ends only on an absent canonical hash", "the stale-marker loop has another exit than `no marker at this height`: markers above the bound survive a reorg and serve non-canonical blocks by number")
		}
		c.Expect(1, n, "DeleteCanonicalHash loops in reorg")
	})

	extendProp("C39", "The state rollback that ends a rewind is unconditional: every normal return of setHeadBeyondRoot lies behind HasState(root of the current head), so an interrupted SetHead is completed by the start-up repair even when the head marker had already been lowered.", nil, func(c *Ctx) {
		c.Rule("DOM/C39.finalrollback")
		f := c.Fn("core", "(*BlockChain).setHeadBeyondRoot")
		if f == nil {
			return
		}
		hs := c.Calls(f, "(*core.BlockChain).HasState")
		c.Expect(1, len(hs), "HasState calls in setHeadBeyondRoot")
		c.Dom("state-tested", f, c.SuccessReturns(f), "return", GSites("bc.HasState(newHeadBlock.Root)", hs))
	})

	extendProp("C40", "The view a finished-map write is recorded under is the view it was rendered for: in writeFinishedMaps the chain view handed to setRange is read from targetView before any pause callback can run.", nil, func(c *Ctx) {
		c.Rule("STALE/C40.renderedview")
		fm := "core/filtermaps"
		f := c.Fn(fm, "(*mapRenderer).writeFinishedMaps")
		if f == nil {
			return
		}
		c.Funcs[f] = true
		var pauses []ssa.Instruction
		// the callback is invoked from a closure of this function: a pause point is a call of such a closure
		pausing := map[*ssa.Function]bool{}
		for _, cl := range allClosures(f) {
			eachInstr(cl, func(in ssa.Instruction) {
				call, ok := in.(*ssa.Call)
				if !ok {
					return
				}
				v := call.Call.Value
				if u, ok := v.(*ssa.UnOp); ok {
					v = u.X
				}
				if fv, ok := v.(*ssa.FreeVar); ok && fv.Name() == "pauseCb" {
					pausing[cl] = true
				}
			})
		}
		eachInstr(f, func(in ssa.Instruction) {
			call, ok := in.(*ssa.Call)
			if !ok {
				return
			}
			if p, ok := call.Call.Value.(*ssa.Parameter); ok && p.Name() == "pauseCb" {
				pauses = append(pauses, in)
				return
			}
			if cal := call.Call.StaticCallee(); cal != nil && pausing[cal] {
				pauses = append(pauses, in)
			} else if mc, ok := strip(call.Call.Value).(*ssa.MakeClosure); ok && pausing[mc.Fn.(*ssa.Function)] {
				pauses = append(pauses, in)
			}
		})
		c.Expect(1, len(pauses), "pause callback invocations")
		n := 0
		for _, s := range c.Calls(f, "(*"+fm+".FilterMaps).setRange") {
			call := s.Instr.(*ssa.Call)
			args := callArgs(&call.Call)
			if len(args) < 2 {
				continue
			}
			n++
			view := stripConv(args[1])
			ld, ok := view.(*ssa.UnOp)
			if !ok || fieldOfLoad(view) != fm+".FilterMaps.targetView" {
				c.OK("captured-before-pause", s.Pos(), "the view is not a direct read of targetView")
				continue
			}
			late := false
			for _, p := range pauses {
				if instrReaches(p, ld) {
					late = true
				}
			}
			c.Check(!late, "captured-before-pause", s.Pos(), "targetView is read before the first pause", "the view recorded with the written maps is read after a pause callback: a reorg delivered during the pause marks the old branch's maps as indexed for the new branch")
		}
		c.Expect(1, n, "setRange calls in writeFinishedMaps")
	})

	extendProp("C41", "Dropping a pending transaction lowers the pending nonce of the account it belonged to: in truncatePending the address given to pendingNonces.setIfLower is the key the capped list was fetched under.", nil, func(c *Ctx) {
		c.Rule("SAMEVAL/C41.nonceowner")
		lp := "core/txpool/legacypool"
		f := c.Fn(lp, "(*LegacyPool).truncatePending")
		if f == nil {
			return
		}
		c.Funcs[f] = true
		n := 0
		for _, s := range c.Calls(f, "(*"+lp+".noncer).setIfLower") {
			call := s.Instr.(*ssa.Call)
			args := callArgs(&call.Call)
			if len(args) < 2 {
				continue
			}
			addr := args[0]
			// nonce := tx.Nonce(); tx := caps[i]; caps := list.Cap(..); list := pool.pending[K]
			var key ssa.Value
			v := args[1]
			for i := 0; i < 10 && v != nil; i++ {
				switch x := v.(type) {
				case *ssa.Call:
					if len(x.Call.Args) > 0 && !x.Call.IsInvoke() {
						v = x.Call.Args[0]
					} else {
						v = nil
					}
				case *ssa.UnOp:
					v = x.X
				case *ssa.IndexAddr:
					v = x.X
				case *ssa.Extract:
					v = x.Tuple
				case *ssa.Lookup:
					key = x.Index
					v = nil
				default:
					v = nil
				}
			}
			n++
			if key == nil {
				c.Undecided("owner/"+fnName(f), s.Pos(), "the dropped transaction could not be traced to a pool.pending[...] lookup")
				continue
			}
			c.Check(sameElem(addr, key), "owner", s.Pos(), "setIfLower is called for the key of the capped list", "the pending nonce of another account is lowered: the trimmed account keeps a stale nonce and accepts a gapped transaction")
		}
		c.Expect(2, n, "setIfLower calls in truncatePending")
	})

	extendProp("C42", "Every tracked blob transaction is accounted at its store slot size: each newBlobTxMeta call passes either the size the store reports for the same id or the size the store handed to the indexing callback.", nil, func(c *Ctx) {
		c.Rule("SIBLING/C42.metasize")
		bp := "core/txpool/blobpool"
		n := 0
		for _, f := range c.AllFuncs(bp) {
			for _, s := range c.Calls(f, bp+".newBlobTxMeta") {
				call := s.Instr.(*ssa.Call)
				n++
				id, size := call.Call.Args[0], stripConv(call.Call.Args[1])
				ok := false
				if p, isParam := size.(*ssa.Parameter); isParam && p.Name() == "size" {
					ok = true
				}
				if sc, isCall := size.(*ssa.Call); isCall && sc.Call.IsInvoke() && sc.Call.Method.Name() == "Size" && len(sc.Call.Args) == 1 && sameValue(sc.Call.Args[0], id) {
					ok = true
				}
				c.Check(ok, "slot-size/"+fnName(f), s.Pos(), "size is store.Size(id) (or the store's callback argument)", "a transaction is tracked with a size that is not its store slot size: the pool's stored total drifts from the disk usage and a restart evicts differently")
			}
		}
		c.Expect(3, n, "newBlobTxMeta call sites")
	})

	extendProp("C44", "Compression stays on for the life of a connection: outside SetSnappy the snappy buffers of rlpx.Conn are only ever replaced by the result of growslice, never by nil — a nil buffer is the `compression off` flag.", nil, func(c *Ctx) {
		c.Rule("WHO/C44.snappyflag")
		rx := "p2p/rlpx"
		n := 0
		for _, f := range c.AllFuncs(rx) {
			if strings.HasSuffix(fnName(f), ".SetSnappy") {
				continue
			}
			for _, fld := range []string{"snappyReadBuffer", "snappyWriteBuffer"} {
				for _, s := range c.Stores(f, rx+".Conn."+fld) {
					n++
					v := s.Instr.(*ssa.Store).Val
					call, ok := v.(*ssa.Call)
					good := ok && call.Call.StaticCallee() != nil && call.Call.StaticCallee().Name() == "growslice"
					c.Check(good, "kept-non-nil/"+fld, s.Pos(), "buffer replaced by growslice(...)", "a snappy buffer is replaced by something other than growslice's result outside SetSnappy: a nil buffer silently disables (de)compression for all later messages")
				}
			}
		}
		c.Expect(2, n, "snappy buffer stores outside SetSnappy")
	})

	extendProp("C45", "Records share their pair list copy-on-write: no function of p2p/enr stores into an element of a pairs slice read from a Record — Set builds a fresh list — so modifying a shallow copy cannot change an accepted, signed record.", nil, func(c *Ctx) {
		c.Rule("IMMUT/C45.pairs")
		en := "p2p/enr"
		funcs, bad := 0, 0
		for _, f := range c.AllFuncs(en) {
			funcs++
			c.Funcs[f] = true
			eachInstr(f, func(in ssa.Instruction) {
				st, ok := in.(*ssa.Store)
				if !ok {
					return
				}
				addr := st.Addr
				if fa, ok := addr.(*ssa.FieldAddr); ok {
					addr = fa.X
				}
				ia, ok := addr.(*ssa.IndexAddr)
				if !ok || fieldOfLoad(ia.X) != en+".Record.pairs" {
					return
				}
				bad++
				c.Bad("in-place/"+fnName(f), in.Pos(), "an element of a Record's pairs slice is overwritten in place: shallow copies of the record (Node.Record(), SignV4) share the backing array, so the signed original changes content")
			})
		}
		if bad == 0 {
			c.OK("in-place", token.NoPos, "no function of p2p/enr stores through a pairs slice read from a Record")
		}
		c.Expect(10, funcs, "functions of p2p/enr")
	})

	extendProp("C46", "A node is looked up among the bucket's entries before it can become a replacement: in handleAddNode addReplacement lies behind bumpInBucket having returned nil.", nil, func(c *Ctx) {
		c.Rule("DOM/C46.knownfirst")
		dv := "p2p/discover"
		f := c.Fn(dv, "(*Table).handleAddNode")
		if f == nil {
			return
		}
		reps := c.Calls(f, "(*"+dv+".Table).addReplacement")
		c.Expect(1, len(reps), "addReplacement in handleAddNode")
		c.Dom("not-an-entry", f, reps, "addReplacement", GCond("bumpInBucket(...) == nil", f, Cmp(CallResN("(*"+dv+".Table).bumpInBucket", 0), token.EQL, Nil())))
	})

	extendProp("C47", "A storage retrieval resumed from the journal is always healed: in processAccountResponse every store into needHeal writes the constant true (a resumed chunk set never rebuilds the boundary nodes by itself).", nil, func(c *Ctx) {
		c.Rule("CONSTARG/C47.resumeheal")
		sn := "eth/protocols/snap"
		f := c.Fn(sn, "(*syncer).processAccountResponse")
		if f == nil {
			return
		}
		c.Funcs[f] = true
		n := 0
		eachInstr(f, func(in ssa.Instruction) {
			st, ok := in.(*ssa.Store)
			if !ok {
				return
			}
			ia, ok := st.Addr.(*ssa.IndexAddr)
			if !ok || fieldOfLoad(ia.X) != sn+".accountTask.needHeal" {
				return
			}
			n++
			c.Check(ConstBool(true)(st.Val), "always-true", in.Pos(), "needHeal[i] = true", "a resumed (or already completed) contract is not unconditionally marked for healing: the nodes along the resume boundary are never produced and Sync reports completion")
		})
		c.Expect(2, n, "needHeal stores in processAccountResponse")
	})

	extendProp("C48", "Deleted slots stay nil across a restart: in the snapshot journal loader every value stored into an account or slot map that is not the nil constant lies behind len(value) > 0, so the fast iterator still skips deletions after the layers were reloaded.", []string{"core/state/snapshot"}, func(c *Ctx) {
		c.Rule("DOM/C48.nilness")
		ss := "core/state/snapshot"
		f := c.Fn(ss, "iterateJournal")
		if f == nil {
			return
		}
		var targets []Site
		eachInstr(f, func(in ssa.Instruction) {
			mu, ok := in.(*ssa.MapUpdate)
			if !ok {
				return
			}
			if sl, ok := mu.Value.Type().Underlying().(*types.Slice); !ok || !isByteType(sl.Elem()) {
				return
			}
			if Nil()(mu.Value) {
				return
			}
			targets = append(targets, Site{f, in})
		})
		c.Expect(2, len(targets), "non-nil byte-slice map stores in iterateJournal")
		c.Dom("non-empty", f, targets, "value kept", GCond("len(value) > 0", f, Cmp(Len(Any()), token.GTR, ConstInt(0))))
	})

	extendProp("C50", "New subscriptions leave the inbox only while the send token is held: in Feed.Send and FeedOf.Send the store that empties the inbox lies behind the receive from sendLock, so an Unsubscribe always finds its case either in the inbox or in sendCases.", nil, func(c *Ctx) {
		c.Rule("ORDER/C50.inboxunderlock")
		ev := "event"
		n := 0
		for _, T := range []string{"Feed", "FeedOf"} {
			f := c.Fn(ev, "(*"+T+").Send")
			if f == nil {
				continue
			}
			pre := ev + "." + T + "."
			st := c.Stores(f, pre+"inbox")
			n += len(st)
			c.Dom("token-held/"+T, f, st, "f.inbox = nil", GSites("<-f.sendLock", recvs(f, pre+"sendLock")))
		}
		c.Expect(2, n, "inbox drains in Send")
	})

	extendProp("C53", "Update scores are compared on the same footing: UpdateScore.BetterThan evaluates finalized() — header flag and supermajority — for both scores, so a finalized-header flag alone cannot outrank the signer threshold.", nil, func(c *Ctx) {
		c.Rule("SYMM/C53.betterthan")
		bt := "beacon/types"
		f := c.Fn(bt, "(UpdateScore).BetterThan")
		if f == nil {
			return
		}
		c.Funcs[f] = true
		recvs := map[ssa.Value]bool{}
		for _, s := range c.Calls(f, "(*"+bt+".UpdateScore).finalized") {
			call := s.Instr.(*ssa.Call)
			if len(call.Call.Args) > 0 {
				recvs[call.Call.Args[0]] = true
			}
		}
		c.Check(len(recvs) >= 2, "both-sides", f.Pos(), "finalized() is evaluated for u and for w", "BetterThan no longer evaluates finalized() for both scores: an update with the finalized-header flag but too few signers is not outranked by the minimum score")
	})
}

func init() {
	extendProp("C49", "A batch reply is written while the buffer lock is held: batchCallBuffer.doWrite (which calls writeJSONBatch) never releases b.mutex, and every caller takes the lock before and releases it only on return — so the call-processing goroutine cannot finish the request while the timeout goroutine is still writing the reply.", nil, func(c *Ctx) {
		c.Rule("LOCK/C49.writeunderlock")
		rp := "rpc"
		dw := c.Fn(rp, "(*batchCallBuffer).doWrite")
		if dw == nil {
			return
		}
		c.Funcs[dw] = true
		onMutex := func(in ssa.Instruction, name string) bool {
			var cc *ssa.CallCommon
			switch x := in.(type) {
			case *ssa.Call:
				cc = &x.Call
			case *ssa.Defer:
				cc = &x.Call
			default:
				return false
			}
			cal := cc.StaticCallee()
			if cal == nil || cal.Name() != name || len(cc.Args) == 0 {
				return false
			}
			fa, ok := cc.Args[0].(*ssa.FieldAddr)
			return ok && fieldAddrName(fa) == rp+".batchCallBuffer.mutex"
		}
		released := false
		for _, f := range append([]*ssa.Function{dw}, allClosures(dw)...) {
			eachInstr(f, func(in ssa.Instruction) {
				if onMutex(in, "Unlock") {
					released = true
				}
			})
		}
		c.Check(!released, "held-across-write", dw.Pos(), "doWrite does not unlock b.mutex", "doWrite releases the buffer lock around the connection write: the other goroutine sees `wrote` set and lets the request finish before the reply is out")
		n := 0
		for _, f := range c.AllFuncs(rp) {
			for _, s := range c.Calls(f, "(*"+rp+".batchCallBuffer).doWrite") {
				n++
				c.Funcs[f] = true
				locked, early := false, false
				eachInstr(f, func(in ssa.Instruction) {
					if _, isDefer := in.(*ssa.Defer); isDefer {
						return
					}
					if onMutex(in, "Lock") && instrDominates(in, s.Instr) {
						locked = true
					}
					if onMutex(in, "Unlock") && instrReaches(in, s.Instr) {
						early = true
					}
				})
				c.Check(locked && !early, "caller-holds-lock/"+fnName(f), s.Pos(), "b.mutex.Lock() precedes doWrite and is released only by the deferred Unlock", "doWrite is called without b.mutex held")
			}
		}
		c.Expect(2, n, "doWrite call sites")
	})
}

func prevCodeLoaded(c *Ctx, rule string) {
	c.Rule(rule)
	cst := "core/state"
	n := 0
	for _, f := range c.AllFuncs(cst) {
		for _, s := range c.Calls(f, "(*"+cst+".journal).setCode") {
			call := s.Instr.(*ssa.Call)
			args := callArgs(&call.Call)
			if len(args) < 2 {
				continue
			}
			n++
			c.Funcs[f] = true
			v := stripConv(args[1])
			// through slices.Clone / common.CopyBytes
			for i := 0; i < 3; i++ {
				if cl, ok := v.(*ssa.Call); ok && len(cl.Call.Args) == 1 {
					if cal := cl.Call.StaticCallee(); cal != nil && (cal.Name() == "CopyBytes" || strings.HasPrefix(cal.Name(), "Clone")) {
						v = stripConv(cl.Call.Args[0])
					}
				}
			}
			loaded := false
			if cl, ok := v.(*ssa.Call); ok {
				if cal := cl.Call.StaticCallee(); cal != nil && cal.Name() == "Code" {
					loaded = true
				}
			}
			raw := fieldOfLoad(v) == cst+".stateObject.code"
			c.Check(loaded && !raw, "previous-code-loaded/"+fnName(f), s.Pos(), "the journalled previous code comes from the loading accessor Code()", "the journalled previous code is the cached field s.code, which is empty until the code was read in this StateDB: reverting a SetCode on a contract whose code was never loaded restores `no code`")
		}
	}
	c.Expect(1, n, "journal.setCode call sites")
}

func init() {
	dec := "The code a SetCode journals as the previous value is the account's real code: the argument of journal.setCode comes from the loading accessor stateObject.Code(), not from the cache field that is empty until first read."
	extendProp("C13", dec, nil, func(c *Ctx) { prevCodeLoaded(c, "SRC/C13.prevcode") })
	extendProp("C29", dec, []string{"core/state"}, func(c *Ctx) { prevCodeLoaded(c, "SRC/C29.prevcode") })
}

// reachesCall: f (or a function it statically calls, up to depth) calls the named function.
func reachesCall(f *ssa.Function, target string, depth int, seen map[*ssa.Function]bool) bool {
	if f == nil || seen[f] || depth < 0 {
		return false
	}
	seen[f] = true
	found := false
	eachInstr(f, func(in ssa.Instruction) {
		ci, ok := in.(ssa.CallInstruction)
		if !ok || found {
			return
		}
		if calleeName(ci.Common()) == target {
			found = true
			return
		}
		if cal := ci.Common().StaticCallee(); cal != nil && cal.Pkg == f.Pkg {
			if reachesCall(cal, target, depth-1, seen) {
				found = true
			}
		}
	})
	return found
}

func journalDropped(c *Ctx, rule string) {
	c.Rule(rule)
	f := c.Fn(pdb, "(*Database).Recover")
	if f == nil {
		return
	}
	var drops []Site
	eachInstr(f, func(in ssa.Instruction) {
		call, ok := in.(*ssa.Call)
		if !ok {
			return
		}
		if calleeName(&call.Call) == "core/rawdb.DeleteTrieJournal" {
			drops = append(drops, Site{f, in})
			return
		}
		if cal := call.Call.StaticCallee(); cal != nil && cal.Pkg == f.Pkg && reachesCall(cal, "core/rawdb.DeleteTrieJournal", 2, map[*ssa.Function]bool{}) {
			drops = append(drops, Site{f, in})
		}
	})
	rev := c.Calls(f, "(*"+pdb+".diskLayer).revert")
	c.Expect(1, len(rev), "revert calls in Recover")
	c.Dom("journal-dropped", f, rev, "dl.revert(h)", GSites("the shutdown journal is deleted", drops))
}

func init() {
	dec := "A rollback invalidates the journal of the last shutdown: in Database.Recover every diskLayer.revert lies behind a call that deletes the stored layer journal, so a journal describing layers above the rolled-back state cannot be adopted by the next start."
	extendProp("C20", dec, nil, func(c *Ctx) { journalDropped(c, "EFFECT/C20.journaldropped") })
	extendProp("C17", dec, nil, func(c *Ctx) { journalDropped(c, "EFFECT/C17.journaldropped") })
}

func init() {
	extendProp("C12", "A delivery is stored only after its hash was compared with the request: in Sync.ProcessNode and Sync.ProcessCode the store of the delivered bytes into the request lies behind the outcome `Keccak256(data) == requested hash`.", nil, func(c *Ctx) {
		c.Rule("DOM/C12.hashverified")
		n := 0
		for _, x := range []struct{ fn, fld string }{{"(*Sync).ProcessNode", "trie.nodeRequest.data"}, {"(*Sync).ProcessCode", "trie.codeRequest.data"}} {
			f := c.Fn("trie", x.fn)
			if f == nil {
				continue
			}
			st := c.Stores(f, x.fld)
			n += len(st)
			c.Dom("delivery-hashed", f, st, "req.data = result.Data", GCond("crypto.Keccak256Hash(result.Data) == hash", f, Cmp(CallRes("crypto.Keccak256Hash"), token.EQL, Any())))
		}
		c.Expect(2, n, "stores of delivered data")
	})
}

func init() {
	extendProp("C48", "A storage range that ends at an explicit limit is proven: in ServiceGetStorageRangesQuery the proof generation (Prove) is reachable from the outcome `limit != MaxHash`, not only from a non-zero origin or an exhausted byte budget.", nil, func(c *Ctx) {
		c.Rule("SHAPE/C48.limitproof")
		sn := "eth/protocols/snap"
		f := c.Fn(sn, "ServiceGetStorageRangesQuery")
		if f == nil {
			return
		}
		c.Funcs[f] = true
		var proves []Site
		eachInstr(f, func(in ssa.Instruction) {
			if ci, ok := in.(ssa.CallInstruction); ok {
				if n := calleeName(ci.Common()); strings.HasSuffix(n, ".Prove") {
					proves = append(proves, Site{f, in})
				}
			}
		})
		c.Expect(1, len(proves), "Prove calls in the storage range handler")
		if len(proves) == 0 {
			return
		}
		edges := EdgesWhere(f, Cmp(Any(), token.NEQ, Global("common.MaxHash")))
		for e := range EdgesWhere(f, Cmp(Global("common.MaxHash"), token.NEQ, Any())) {
			edges[e] = true
		}
		ok := false
		for e := range edges {
			if blockReaches(e.From.Succs[e.Succ], proves[0].Instr.Block()) {
				ok = true
			}
		}
		c.Check(ok, "limit-decides-proof", proves[0].Pos(), "a reply cut at the requested limit carries boundary proofs", "the decision to attach proofs never looks at the limit: a request with zero origin and a limit below the last slot is answered with a strict prefix and no proof, which the client rejects")
	})
}

func init() {
	extendProp("C02", "What the JSON decoder requires the JSON encoder always emits: no slice field of txJSON that UnmarshalJSON rejects when absent (nil test) carries the `omitempty` option, which drops it when the list is empty.", nil, func(c *Ctx) {
		c.Rule("PAIR/C02.jsonrequired")
		ct := "core/types"
		_, st := c.Struct(ct, "txJSON")
		f := c.Fn(ct, "(*Transaction).UnmarshalJSON")
		if st == nil || f == nil {
			return
		}
		c.Funcs[f] = true
		n := 0
		for i := 0; i < st.NumFields(); i++ {
			fld := st.Field(i)
			if _, ok := fld.Type().Underlying().(*types.Slice); !ok {
				continue
			}
			required := len(EdgesWhere(f, Cmp(Fld(ct+".txJSON."+fld.Name()), token.EQL, Nil()))) > 0
			if !required {
				continue
			}
			n++
			tag := st.Tag(i)
			c.Check(!strings.Contains(tag, "omitempty"), "always-emitted/"+fld.Name(), fld.Pos(), "required list is emitted even when empty", "the field is required by UnmarshalJSON but dropped by MarshalJSON when the list is empty: a transaction the binary decoder accepts does not survive its own JSON form")
		}
		c.Expect(2, n, "slice fields UnmarshalJSON requires")
	})
}

func init() {
	extendProp("C38", "A head change that skips reorg knows where the head header is: each function that calls writeHeadBlock behind the test `parent == CurrentBlock().Hash()` either consults the head header (CurrentHeader) before it, or writeHeadBlock itself removes canonical markers — otherwise markers between the head block and a head header that is ahead survive an import of a different child.", nil, func(c *Ctx) {
		c.Rule("EFFECT/C38.lagginghead")
		whb := c.Fn("core", "(*BlockChain).writeHeadBlock")
		if whb == nil {
			return
		}
		c.Funcs[whb] = true
		cleans := reachesCall(whb, "core/rawdb.DeleteCanonicalHash", 1, map[*ssa.Function]bool{})
		n := 0
		for _, fn := range []string{"(*BlockChain).writeBlockAndSetHead", "(*BlockChain).writeKnownBlock", "(*BlockChain).SetCanonical"} {
			f := c.TryFn("core", fn)
			if f == nil {
				continue
			}
			for _, s := range c.Calls(f, "(*core.BlockChain).writeHeadBlock") {
				n++
				consults := false
				eachInstr(f, func(in ssa.Instruction) {
					if ci, ok := in.(ssa.CallInstruction); ok && strings.HasSuffix(calleeName(ci.Common()), ".CurrentHeader") && instrReaches(in, s.Instr) {
						consults = true
					}
				})
				c.Check(cleans || consults, "head-header-consulted/"+fn, s.Pos(), "the head header takes part in the decision (or writeHeadBlock removes stale markers)", "the new head is written as a plain extension whenever its parent is the head block, without looking at the head header: if the header head is ahead (after SetHead to a stateless block or the start-up repair) the canonical markers above the new head keep pointing at the abandoned chain")
			}
		}
		c.Expect(3, n, "writeHeadBlock call sites behind the parent test")
	})
}

func init() {
	extendProp("C24", "Cross-table alignment never truncates a table below its own tail: in Freezer.repair every truncateHead(head) lies behind the outcome `table.itemHidden <= head` (a table whose tail is above the common head is restarted instead).", nil, func(c *Ctx) {
		c.Rule("DOM/C24.headabovetail")
		rdb := "core/rawdb"
		f := c.Fn(rdb, "(*Freezer).repair")
		if f == nil {
			return
		}
		hidden := func(v ssa.Value) bool {
			v = stripConv(v)
			call, ok := v.(*ssa.Call)
			if !ok || len(call.Call.Args) != 1 {
				return false
			}
			cal := call.Call.StaticCallee()
			if cal == nil || cal.Name() != "Load" {
				return false
			}
			fa, ok := call.Call.Args[0].(*ssa.FieldAddr)
			return ok && fieldAddrName(fa) == rdb+".freezerTable.itemHidden"
		}
		th := c.Calls(f, "(*"+rdb+".freezerTable).truncateHead")
		c.Expect(1, len(th), "truncateHead calls in Freezer.repair")
		c.Dom("tail-not-above-head", f, th, "table.truncateHead(head)", GCond("table.itemHidden.Load() <= head", f, Cmp(hidden, token.LEQ, Any())))
	})
}

func init() {
	extendProp("C46", "Subnet counting sees through IPv4-mapped IPv6 addresses: in netutil.DistinctNetSet.key the prefix is computed from the unmapped address (netip.Addr.Unmap), so a node announcing ::ffff:a.b.c.d is counted with the /24 of a.b.c.d.", []string{"p2p/netutil"}, func(c *Ctx) {
		c.Rule("CANON/C46.unmap")
		nu := "p2p/netutil"
		f := c.Fn(nu, "(*DistinctNetSet).key")
		if f == nil {
			return
		}
		c.Funcs[f] = true
		n := 0
		eachInstr(f, func(in ssa.Instruction) {
			call, ok := in.(*ssa.Call)
			if !ok {
				return
			}
			cal := call.Call.StaticCallee()
			if cal == nil || cal.Name() != "Prefix" || len(call.Call.Args) == 0 {
				return
			}
			n++
			recv := stripConv(call.Call.Args[0])
			if u, ok := recv.(*ssa.UnOp); ok { // value receiver spilled to a cell
				if al, ok := u.X.(*ssa.Alloc); ok {
					for _, r := range *al.Referrers() {
						if st, ok := r.(*ssa.Store); ok && st.Addr == ssa.Value(al) {
							recv = stripConv(st.Val)
						}
					}
				}
			}
			unmapped := false
			if uc, ok := recv.(*ssa.Call); ok {
				if c2 := uc.Call.StaticCallee(); c2 != nil && c2.Name() == "Unmap" {
					unmapped = true
				}
			}
			c.Check(unmapped, "prefix-of-unmapped", in.Pos(), "Prefix is taken of ip.Unmap()", "the set keys an IPv4-mapped IPv6 address by its first bits as an IPv6 address (::/24): mapped and plain addresses of one IPv4 /24 are counted separately and the bucket/table subnet limits do not hold")
		})
		c.Expect(1, n, "Prefix computations in DistinctNetSet.key")
	})
}

func init() {
	extendProp("C53", "An update is stored only after its Merkle branches were checked: in CommitteeChain.InsertUpdate every write of the update or of the next committee lies behind a successful LightClientUpdate.Validate (the signature alone covers the attested header, not the next-committee root).", nil, func(c *Ctx) {
		c.Rule("DOM/C53.validated")
		bl := "beacon/light"
		f := c.Fn(bl, "(*CommitteeChain).InsertUpdate")
		if f == nil {
			return
		}
		var adds []Site
		eachInstr(f, func(in ssa.Instruction) {
			if call, ok := in.(*ssa.Call); ok {
				if cal := call.Call.StaticCallee(); cal != nil && cal.Name() == "add" {
					adds = append(adds, Site{f, in})
				}
			}
		})
		c.Expect(2, len(adds), "canonical store additions in InsertUpdate")
		c.Dom("branches-verified", f, adds, "store addition", GErrChecked("update.Validate()", c.Calls(f, "(*beacon/types.LightClientUpdate).Validate")))
	})
}

func init() {
	extendProp("C25", "The key-value deletions of a freeze cycle do not start where the freezer happens to end: in chainFreezer.freeze no deletion loop (DeleteBlock…) takes its lower bound from the freezer head read in that same cycle — copying and syncing a range and deleting it are separate steps, so after a stop in between the next cycle would begin behind the range that was never deleted.", nil, func(c *Ctx) {
		c.Rule("EFFECT/C25.resume")
		rdb := "core/rawdb"
		f := c.Fn(rdb, "(*chainFreezer).freeze")
		if f == nil {
			return
		}
		c.Funcs[f] = true
		fromAncients := func(v ssa.Value) bool {
			for i := 0; i < 6; i++ {
				v = stripConv(v)
				switch x := v.(type) {
				case *ssa.Extract:
					if call, ok := x.Tuple.(*ssa.Call); ok {
						if !strings.HasSuffix(calleeName(&call.Call), ".Ancients") {
							return false
						}
						// the read taken before this cycle's copy step
						for _, fr := range c.Calls(f, "(*"+rdb+".chainFreezer).freezeRange") {
							if instrDominates(call, fr.Instr) {
								return true
							}
						}
					}
					return false
				case *ssa.Phi:
					if len(x.Edges) == 1 {
						v = x.Edges[0]
						continue
					}
					return false
				default:
					return false
				}
			}
			return false
		}
		n := 0
		seen := map[*ssa.BasicBlock]bool{}
		for _, s := range cat(c.Calls(f, rdb+".DeleteBlock"), c.Calls(f, rdb+".DeleteBlockWithoutNumber")) {
			h := innermostLoopHeader(f, s.Instr.Block())
			for h != nil {
				if !seen[h] {
					seen[h] = true
					in := loopBlocksOf(h)
					for _, instr := range h.Instrs {
						phi, ok := instr.(*ssa.Phi)
						if !ok {
							continue
						}
						for i, e := range phi.Edges {
							if in[h.Preds[i]] {
								continue
							}
							if fromAncients(e) {
								n++
								c.Bad("lower-bound/(*chainFreezer).freeze", s.Pos(), "the deletion loop starts at the freezer head read at the beginning of the same cycle: a range that was copied and synced before a stop is already below that head at the next start and its key-value data (side chains, canonical copies) is never deleted")
							}
						}
					}
				}
				// enclosing loop
				var outer *ssa.BasicBlock
				for _, b := range f.Blocks {
					if b != h && b.Dominates(h) && loopBlocksOf(b)[h] && len(loopBlocksOf(b)) > 1 {
						if outer == nil || outer.Dominates(b) {
							outer = b
						}
					}
				}
				if outer == nil || seen[outer] {
					break
				}
				h = outer
			}
		}
		if n == 0 {
			c.OK("lower-bound/(*chainFreezer).freeze", f.Pos(), "no deletion loop is bounded below by the freezer head of the same cycle")
		}
	})
}

func init() {
	extendProp("C34", "A stateless run whose state reads failed does not report roots: every successful return of ExecuteStateless lies behind the StateDB's memoised database error having been read and found nil (a node missing from the witness makes reads return zero values, not errors).", nil, func(c *Ctx) {
		c.Rule("DOM/C34.dberror")
		f := c.Fn("core", "ExecuteStateless")
		if f == nil {
			return
		}
		c.Dom("db-error-tested", f, c.SuccessReturns(f), "roots returned", GErrChecked("db.Error()", c.Calls(f, "(*core/state.StateDB).Error")))
	})
}

func init() {
	extendProp("C10", "The in-place compact encoder is total: in hexToCompactInPlace the store of the flag byte into hex[0] lies behind the input having been found non-empty, so the empty path is encoded (to 0x00, like hexToCompact) instead of panicking.", nil, func(c *Ctx) {
		c.Rule("PANIC/C10.inplaceempty")
		f := c.Fn("trie", "hexToCompactInPlace")
		if f == nil {
			return
		}
		hex := Param("hex")
		var stores []Site
		eachInstr(f, func(in ssa.Instruction) {
			st, ok := in.(*ssa.Store)
			if !ok {
				return
			}
			ia, ok := st.Addr.(*ssa.IndexAddr)
			if ok && hex(ia.X) && ConstInt(0)(ia.Index) {
				stores = append(stores, Site{f, in})
			}
		})
		c.Expect(1, len(stores), "flag byte store in hexToCompactInPlace")
		c.Dom("non-empty", f, stores, "hex[0] = firstByte", GCond("len(hex) != 0", f, Cmp(Len(hex), token.NEQ, ConstInt(0))), GCond("len(hex) > 0", f, Cmp(Len(hex), token.GTR, ConstInt(0))))
	})
}

func init() {
	extendProp("C50", "The generic feed sends a typed value: in FeedOf.Send the reflect.Value handed to the send cases is built from a pointer to the parameter (reflect.ValueOf(&value).Elem()), never from the parameter converted to an interface — for an interface element type a nil value would be the zero reflect.Value, which panics in TrySend while the send token is held.", nil, func(c *Ctx) {
		c.Rule("CANON/C50.typedvalue")
		f := c.Fn("event", "(*FeedOf).Send")
		if f == nil {
			return
		}
		c.Funcs[f] = true
		n := 0
		for _, s := range c.Calls(f, "reflect.ValueOf") {
			call := s.Instr.(*ssa.Call)
			arg := call.Call.Args[0]
			var x ssa.Value
			switch a := arg.(type) {
			case *ssa.MakeInterface:
				x = a.X
			case *ssa.ChangeInterface:
				x = a.X
			default:
				x = arg
			}
			n++
			_, isPtr := x.Type().Underlying().(*types.Pointer)
			c.Check(isPtr, "through-pointer", s.Pos(), "reflect.ValueOf receives a pointer (…Elem() keeps the static type)", "reflect.ValueOf is applied to the element value itself: a nil value of an interface element type becomes the zero reflect.Value and Send panics with the send token taken, blocking every later Send and Unsubscribe")
		}
		c.Expect(1, n, "reflect.ValueOf calls in FeedOf.Send")
	})
}

func init() {
	extendProp("C42", "A re-included transaction is re-filed under its new block: in BlobPool.reorg the transactions handed to limbo.update are not taken from TxDifference(included, discarded) — that difference drops exactly the transactions that were included in both chains, whose limbo entry still names the old height.", nil, func(c *Ctx) {
		c.Rule("SHAPE/C42.limboreincluded")
		bp := "core/txpool/blobpool"
		f := c.Fn(bp, "(*BlobPool).reorg")
		if f == nil {
			return
		}
		c.Funcs[f] = true
		n := 0
		for _, s := range c.Calls(f, "(*"+bp+".limbo).update") {
			call := s.Instr.(*ssa.Call)
			n++
			// update(tx.Hash(), …): tx := slice[i]
			var src ssa.Value
			v := callArgs(&call.Call)[0]
			for i := 0; i < 8 && v != nil; i++ {
				switch x := v.(type) {
				case *ssa.Call:
					if cal := x.Call.StaticCallee(); cal != nil && cal.Name() == "Hash" && len(x.Call.Args) > 0 {
						v = x.Call.Args[0]
					} else {
						src, v = x, nil
					}
				case *ssa.UnOp:
					v = x.X
				case *ssa.IndexAddr:
					v = x.X
				default:
					src, v = x, nil
				}
			}
			filtered := false
			if sc, ok := src.(*ssa.Call); ok {
				if cal := sc.Call.StaticCallee(); cal != nil && cal.Name() == "TxDifference" {
					filtered = true
				}
			}
			c.Check(!filtered, "covers-both-chains", s.Pos(), "the refreshed set is not `included minus discarded`", "limbo.update runs only for transactions of the new chain that were not in the old one: a transaction re-included at another height keeps its old block number and its blobs are dropped when that height finalizes")
		}
		c.Expect(1, n, "limbo.update calls in reorg")
	})
}

func init() {
	extendProp("C38", "Every block that becomes the head outside reorg's own loop is announced: in writeBlockAndSetHead, writeKnownBlock and SetCanonical each writeHeadBlock is followed, on every path to a successful return, by a send on chainFeed (the ChainEvent the log and filter subsystems learn added blocks from).", nil, func(c *Ctx) {
		c.Rule("EVENT/C38.headannounced")
		n := 0
		for _, fn := range []string{"(*BlockChain).writeBlockAndSetHead", "(*BlockChain).writeKnownBlock", "(*BlockChain).SetCanonical"} {
			f := c.TryFn("core", fn)
			if f == nil {
				continue
			}
			var sends []Site
			eachInstr(f, func(in ssa.Instruction) {
				call, ok := in.(*ssa.Call)
				if !ok || len(call.Call.Args) == 0 {
					return
				}
				cal := call.Call.StaticCallee()
				if cal == nil || cal.Name() != "Send" {
					return
				}
				if fa, ok := call.Call.Args[0].(*ssa.FieldAddr); ok && fieldAddrName(fa) == "core.BlockChain.chainFeed" {
					sends = append(sends, Site{f, in})
				}
			})
			heads := c.Calls(f, "(*core.BlockChain).writeHeadBlock")
			n += len(heads)
			c.Followed("announced/"+fn, f, heads, "bc.writeHeadBlock(block)", sends, "bc.chainFeed.Send(ChainEvent{…})", c.SuccessReturns(f))
		}
		c.Expect(3, n, "writeHeadBlock call sites outside reorg")
	})
}
