package main

import (
	"go/token"
	"strings"

	"golang.org/x/tools/go/ssa"
)

// Rules added after the seeded changes were run against the first version of
// each property's rule set and missed. Each is a structural necessary condition
// that the seeded change violated; DESIGN.md lists them as "added after".
func init() {
	extend := func(id string, decided string, pkgs []string, run func(c *Ctx)) {
		p := registry[id]
		if p == nil {
			return
		}
		old := p.Run
		p.Run = func(c *Ctx) {
			old(c)
			run(c)
		}
		p.Decided += " " + decided
		for _, pk := range pkgs {
			have := false
			for _, x := range p.Pkgs {
				if x == pk {
					have = true
				}
			}
			if !have {
				p.Pkgs = append(p.Pkgs, pk)
			}
		}
	}
	extend("C16", "The per-key layer lists of the lookup index are only ever shortened in an order-preserving way (no element is moved into another position).", nil, func(c *Ctx) {
		c.Rule("ORDERKEEP/C16.lists")
		orderKeep(c, pdb, "removeFromList", "list")
	})
	extend("C50", "A subscriber's case is removed from the select list without disturbing the order of the others (the active prefix / delivered tail partition of Send relies on it).", nil, func(c *Ctx) {
		c.Rule("ORDERKEEP/C50.cases")
		orderKeep(c, "event", "(caseList).delete", "cs")
	})
	extend("C39", "The header-chain rewind flushes its batch, syncs the key-value store and truncates the freezer on every return, including when no header had to be rewound.", nil, func(c *Ctx) {
		c.Rule("ORDER/C39.sethead")
		f := c.Fn(corep, "(*HeaderChain).setHead")
		if f == nil {
			return
		}
		var rets []Site
		for _, r := range c.Returns(f) {
			if r.Instr.Block() != f.Recover {
				rets = append(rets, r)
			}
		}
		var bw []Site
		eachInstr(f, func(in ssa.Instruction) {
			if ci, ok := in.(ssa.CallInstruction); ok && ci.Common().IsInvoke() && ci.Common().Method.Name() == "Write" && len(ci.Common().Args) == 0 {
				bw = append(bw, Site{f, in})
			}
		})
		sk := c.Calls(f, "(ethdb.KeyValueSyncer).SyncKeyValue")
		if len(sk) == 0 {
			eachInstr(f, func(in ssa.Instruction) {
				if ci, ok := in.(ssa.CallInstruction); ok && ci.Common().IsInvoke() && ci.Common().Method.Name() == "SyncKeyValue" {
					sk = append(sk, Site{f, in})
				}
			})
		}
		c.Dom("flushed", f, rets, "return", GSites("batch.Write()", bw).Then(GSites("chainDb.SyncKeyValue()", sk)))
		// the freezer truncation test is reached on every return when a delete callback is given
		var anc []Site
		eachInstr(f, func(in ssa.Instruction) {
			if ci, ok := in.(ssa.CallInstruction); ok && ci.Common().IsInvoke() && ci.Common().Method.Name() == "Ancients" {
				anc = append(anc, Site{f, in})
			}
		})
		c.Dom("truncation-considered", f, rets, "return",
			GCond("no delete callback", f, Cmp(Param("delFn"), token.EQL, Nil())),
			GSites("chainDb.Ancients() (head of the freezer compared with the new head)", anc))
		for _, k := range sk {
			okW := false
			for _, s := range bw {
				if instrDominates(s.Instr, k.Instr) {
					okW = true
				}
			}
			c.Check(okW, "write-then-sync/"+fnName(f), k.Pos(), "the batch is written before the store is synced", "the key-value store is synced before the batch is written")
		}
	})
	extend("C47", "An empty storage response that carries a proof is turned into an (empty) slot set before the verification loop, so the proof is verified like any other range.", nil, func(c *Ctx) {
		c.Rule("ORDER/C47.emptyrange")
		n := 0
		for _, name := range []string{"(*syncer).OnStorage", "(*syncerV2).OnStorage"} {
			f := c.TryFn("eth/protocols/snap", name)
			if f == nil {
				continue
			}
			vr := c.Calls(f, "trie.VerifyRangeProof")
			var synth []Site
			eachInstr(f, func(in ssa.Instruction) {
				call, ok := in.(*ssa.Call)
				if !ok {
					return
				}
				if b, ok := call.Call.Value.(*ssa.Builtin); ok && b.Name() == "append" && (Param("hashes")(call.Call.Args[0]) || Param("slots")(call.Call.Args[0])) {
					synth = append(synth, Site{f, in})
				}
			})
			if len(synth) == 0 {
				continue
			}
			n += len(synth)
			for _, s := range synth {
				late := false
				for _, v := range vr {
					if ReachesBefore(v.Instr, nil, nil, map[ssa.Instruction]bool{s.Instr: true}) != nil {
						late = true
					}
				}
				c.Funcs[f] = true
				c.Check(!late && len(vr) > 0, "before-verification/"+fnName(f), s.Pos(), "the synthesised empty slot set exists before the range proofs are verified", "the empty slot set for an `empty range + proof` response is created after the verification loop: such a response is delivered without its proof ever being verified")
			}
		}
		c.Expect(4, n, "synthesised empty slot sets in OnStorage (both sync generations)")
	})
	extend("C48", "The origin and limit of a storage-range request apply to the first account only: both are cleared once consumed.", nil, func(c *Ctx) {
		c.Rule("PAIR/C48.firstonly")
		f := c.Fn("eth/protocols/snap", "ServiceGetStorageRangesQuery")
		if f == nil {
			return
		}
		P := "eth/protocols/snap.GetStorageRangesPacket."
		for _, fld := range []string{"Origin", "Limit"} {
			var uses []Site
			for _, s := range c.Calls(f, "common.BytesToHash") {
				if Fld(P + fld)(s.Instr.(*ssa.Call).Call.Args[0]) {
					uses = append(uses, s)
				}
			}
			var clr []Site
			for _, s := range c.Stores(f, P+fld) {
				if Nil()(s.Instr.(*ssa.Store).Val) {
					clr = append(clr, s)
				}
			}
			if !c.Check(len(uses) == 1, "consumed/"+fld, f.Pos(), "req."+fld+" is consumed in one place", "req."+fld+" is not consumed exactly once per account") {
				continue
			}
			again := map[ssa.Instruction]bool{uses[0].Instr: true}
			for _, r := range c.Returns(f) {
				again[r.Instr] = true
			}
			hit := ReachesBefore(uses[0].Instr, sitesToSet(clr), nil, again)
			c.Check(len(clr) > 0 && hit == nil, "cleared/"+fld, uses[0].Pos(), "req."+fld+" is cleared after its first use", "req."+fld+" stays set after the first account: it would be applied to every later account of the request (truncating their storage without a proof)")
		}
	})
	extend("C53", "Every removal of committees from the store goes through the helper that also drops them from the deserialised-committee cache.", nil, func(c *Ctx) {
		c.Rule("WHO/C53.cache")
		bl := "beacon/light"
		n := 0
		for _, f := range c.AllFuncs(bl) {
			for _, s := range c.Calls(f, "(*"+bl+".canonicalStore[T]).deleteFrom") {
				recv := s.Instr.(*ssa.Call).Call.Args[0]
				if !Fld(bl + ".CommitteeChain.committees")(recv) {
					continue
				}
				n++
				c.Funcs[f] = true
				c.Check(strings.HasSuffix(fnName(f), ".deleteCommitteesFrom"), "delete/"+fnName(f), s.Pos(), "committees are deleted through deleteCommitteesFrom (which invalidates the cache)", "committees are deleted from the store without invalidating committeeCache: getSyncCommittee would keep serving rolled-back committees")
			}
			// additions are followed by a cache invalidation of the same period
			for _, s := range c.Calls(f, "(*"+bl+".canonicalStore[T]).add") {
				a := s.Instr.(*ssa.Call).Call.Args
				if !Fld(bl + ".CommitteeChain.committees")(a[0]) {
					continue
				}
				n++
				var rm []Site
				for _, r := range c.Calls(f, "(*common/lru.Cache[K, V]).Remove") {
					if sameValue(r.Instr.(*ssa.Call).Call.Args[1], a[2]) {
						rm = append(rm, r)
					}
				}
				errEdges := map[Edge]bool{}
				for e := range ErrNilEdges(s.Instr.(*ssa.Call)) {
					errEdges[Edge{e.From, 1 - e.Succ}] = true
				}
				hit := ReachesBefore(s.Instr, sitesToSet(rm), errEdges, sitesToSet(c.Returns(f)))
				c.Check(len(rm) > 0 && hit == nil, "add/"+fnName(f), s.Pos(), "a (re)written committee is dropped from the cache", "a committee is written to the store without dropping the cached copy for that period")
			}
		}
		c.Expect(3, n, "committee store mutations")
		if d := c.TryFn(bl, "(*CommitteeChain).deleteCommitteesFrom"); d != nil {
			rm := c.Calls(d, "(*common/lru.Cache[K, V]).Remove")
			c.Check(len(rm) == 1 && innermostLoopHeader(d, rm[0].Instr.Block()) != nil, "helper/"+fnName(d), d.Pos(), "the helper drops every deleted period from the cache", "deleteCommitteesFrom does not drop the deleted periods from the cache")
		}
	})
}

// orderKeep: the function never stores into an element of its list parameter
// (removal must shift, not swap).
func orderKeep(c *Ctx, rel, fn, param string) {
	f := c.Fn(rel, fn)
	if f == nil {
		return
	}
	c.Funcs[f] = true
	bad := 0
	eachInstr(f, func(in ssa.Instruction) {
		st, ok := in.(*ssa.Store)
		if !ok {
			return
		}
		if ia, ok := st.Addr.(*ssa.IndexAddr); ok && Mentions(Param(param))(ia.X) {
			bad++
			c.Bad("element-move/"+fnName(f), st.Pos(), "an element is moved into another position of the list: the relative order of the remaining elements is not preserved")
		}
	})
	if bad == 0 {
		c.OK("element-move/"+fnName(f), f.Pos(), "no element is stored into another position; removal keeps the order")
	}
	// the removal itself is append(list[:i], list[i+1:]...)
	okShift := false
	eachInstr(f, func(in ssa.Instruction) {
		call, ok := in.(*ssa.Call)
		if !ok {
			return
		}
		if b, ok := call.Call.Value.(*ssa.Builtin); ok && b.Name() == "append" && len(call.Call.Args) == 2 {
			lo, ok1 := call.Call.Args[0].(*ssa.Slice)
			a1 := call.Call.Args[1]
			if ct, isCT := a1.(*ssa.ChangeType); isCT {
				a1 = ct.X
			}
			hi, ok2 := a1.(*ssa.Slice)
			if ok1 && ok2 && lo.High != nil && hi.Low != nil {
				if b2, ok := hi.Low.(*ssa.BinOp); ok && b2.Op == token.ADD && ConstInt(1)(b2.Y) && sameValue(b2.X, lo.High) {
					okShift = true
				}
			}
		}
	})
	c.Check(okShift, "shift/"+fnName(f), f.Pos(), "removal is list[:i] followed by list[i+1:]", "the removal is not an order-preserving shift")
}
