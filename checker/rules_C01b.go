package main

import (
	"go/ast"
	"go/token"
	"sort"
	"strings"

	"golang.org/x/tools/go/ssa"
)

// TABLE/C01.kinds: the encoder's and the decoder's per-type dispatch
// (makeWriter / makeDecoder) recognise the same kinds, and in both the
// specific predicates precede the generic ones they overlap with, so a value
// is decoded by the sibling of the routine that encoded it.
func init() {
	p := registry["C01"]
	if p == nil {
		return
	}
	old := p.Run
	p.Run = func(c *Ctx) {
		old(c)
		c01kinds(c)
	}
	p.Decided += " Encoder and decoder dispatch (makeWriter/makeDecoder) recognise the same set of kinds (byte slices/arrays are refined inside makeListDecoder), and in each the specific predicates (RawValue, *big.Int, big.Int, *uint256.Int, uint256.Int, Encoder/Decoder implementations, byte slices) come before the generic kind predicates they overlap with."
	p.Rules += "; TABLE kinds of makeWriter↔makeDecoder and specific-before-generic order"
	p.MinObs += 20
}

// kindClass names a dispatch predicate by the objects it mentions.
func kindClass(e ast.Expr) string {
	names := map[string]bool{}
	ast.Inspect(e, func(n ast.Node) bool {
		switch x := n.(type) {
		case *ast.SelectorExpr:
			names[x.Sel.Name] = true
		case *ast.Ident:
			names[x.Name] = true
		}
		return true
	})
	has := func(s ...string) bool {
		for _, n := range s {
			if !names[n] {
				return false
			}
		}
		return true
	}
	switch {
	case has("rawValueType"):
		return "raw"
	case has("bigInt", "PointerTo"):
		return "bigptr"
	case has("bigInt"):
		return "big"
	case has("u256Int", "PointerTo"):
		return "u256ptr"
	case has("u256Int"):
		return "u256"
	case has("Implements"):
		if has("encoderInterface") || has("decoderInterface") {
			return "impl"
		}
		return "?"
	case has("isByte", "Slice"):
		return "byteslice"
	case has("isByte", "Array"):
		return "bytearray"
	case has("Slice", "Array"):
		return "list"
	case has("Pointer"):
		return "ptr"
	case has("isUint"):
		return "uint"
	case has("Bool"):
		return "bool"
	case has("String"):
		return "string"
	case has("Struct"):
		return "struct"
	case has("Interface"):
		return "interface"
	}
	return "?"
}

func c01kinds(c *Ctx) {
	c.Rule("TABLE/C01.kinds")
	pkg := c.Pkgs["rlp"]
	if pkg == nil {
		return
	}
	order := map[string][]string{}
	pos := map[string]token.Pos{}
	for _, file := range pkg.Syntax {
		for _, d := range file.Decls {
			fd, ok := d.(*ast.FuncDecl)
			if !ok || fd.Recv != nil || fd.Body == nil || (fd.Name.Name != "makeWriter" && fd.Name.Name != "makeDecoder") {
				continue
			}
			pos[fd.Name.Name] = fd.Pos()
			ast.Inspect(fd.Body, func(n ast.Node) bool {
				sw, ok := n.(*ast.SwitchStmt)
				if !ok || sw.Tag != nil {
					return true
				}
				for _, cl := range sw.Body.List {
					cc := cl.(*ast.CaseClause)
					for _, e := range cc.List {
						k := kindClass(e)
						if k == "?" {
							c.Undecided(fd.Name.Name+"/unclassified", e.Pos(), "dispatch predicate not recognised: "+exprString(e))
							continue
						}
						order[fd.Name.Name] = append(order[fd.Name.Name], k)
					}
				}
				return false
			})
		}
	}
	w, d := order["makeWriter"], order["makeDecoder"]
	c.Expect(15, len(w), "dispatch arms of makeWriter")
	c.Expect(13, len(d), "dispatch arms of makeDecoder")
	if len(w) == 0 || len(d) == 0 {
		return
	}
	if fw, fd := c.TryFn("rlp", "makeWriter"), c.TryFn("rlp", "makeDecoder"); fw != nil && fd != nil {
		c.Funcs[fw], c.Funcs[fd] = true, true
	}
	idx := func(l []string, k string) int {
		for i, x := range l {
			if x == k {
				return i
			}
		}
		return -1
	}
	// same kinds
	all := map[string]bool{}
	for _, k := range w {
		all[k] = true
	}
	for _, k := range d {
		all[k] = true
	}
	var ks []string
	for k := range all {
		ks = append(ks, k)
	}
	sort.Strings(ks)
	for _, k := range ks {
		iw, id := idx(w, k), idx(d, k)
		switch {
		case iw >= 0 && id >= 0:
			c.OK("same-kinds/"+k, pos["makeDecoder"], "handled by both makeWriter and makeDecoder")
		case (k == "byteslice" || k == "bytearray") && iw >= 0:
			// refined inside makeListDecoder: it must hand out the byte-string decoders
			ld := c.TryFn("rlp", "makeListDecoder")
			ok := false
			if ld != nil {
				c.Funcs[ld] = true
				want := map[string]string{"byteslice": "decodeByteSlice", "bytearray": "decodeByteArray"}[k]
				refs := false
				eachInstr(ld, func(in ssa.Instruction) {
					for _, op := range in.Operands(nil) {
						if fn, isF := (*op).(*ssa.Function); isF && fn.Name() == want {
							refs = true
						}
					}
				})
				ok = refs
			}
			if ok {
				c.OK("same-kinds/"+k, pos["makeDecoder"], "makeWriter's arm is matched inside makeListDecoder, which hands out the byte-string decoder")
			} else {
				c.Bad("same-kinds/"+k, pos["makeDecoder"], "makeWriter encodes "+k+" as a string but makeListDecoder never hands out the byte-string decoder")
			}
		default:
			side := "makeWriter"
			if iw < 0 {
				side = "makeDecoder"
			}
			c.Bad("same-kinds/"+k, pos[side], "kind "+k+" is dispatched by only one of makeWriter/makeDecoder (the other is "+side+" side missing it: writer="+strings.Join(w, ",")+" decoder="+strings.Join(d, ",")+")")
		}
	}
	// specific before generic, in both
	before := [][2]string{
		{"raw", "list"}, {"raw", "byteslice"}, {"bigptr", "ptr"}, {"big", "struct"}, {"u256ptr", "ptr"}, {"u256", "list"},
		{"impl", "uint"}, {"impl", "bool"}, {"impl", "string"}, {"impl", "list"}, {"impl", "struct"}, {"impl", "interface"},
		{"impl", "byteslice"}, {"impl", "bytearray"}, {"byteslice", "list"}, {"bytearray", "list"}, {"bigptr", "impl"}, {"big", "impl"},
	}
	for _, fn := range []string{"makeWriter", "makeDecoder"} {
		l := order[fn]
		for _, pr := range before {
			a, b := idx(l, pr[0]), idx(l, pr[1])
			if a < 0 || b < 0 {
				continue
			}
			name := "order/" + fn + "/" + pr[0] + "<" + pr[1]
			if a < b {
				c.OK(name, pos[fn], "specific predicate tested first")
			} else {
				c.Bad(name, pos[fn], "in "+fn+" the generic arm `"+pr[1]+"` is tested before the specific arm `"+pr[0]+"` it overlaps with, so "+pr[0]+" values take the generic codec on this side only")
			}
		}
	}
}
