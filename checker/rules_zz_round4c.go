package main

import (
	"go/constant"
	"go/token"
	"strings"

	"golang.org/x/tools/go/ssa"
)

// Rules added during the fourth round of seeded changes, third batch
// (seeded/C25-r4 … seeded/C36-r4).

// sumTerms decomposes an integer value into Σ coeff·leaf + constant over ADD/SUB.
func sumTerms(v ssa.Value, sign int64, terms map[ssa.Value]int64, k *int64, depth int) {
	if depth > 10 {
		terms[v] += sign
		return
	}
	switch x := v.(type) {
	case *ssa.Const:
		if x.Value != nil && x.Value.Kind() == constant.Int {
			if n, ok := constant.Int64Val(x.Value); ok {
				*k += sign * n
				return
			}
		}
	case *ssa.BinOp:
		if x.Op == token.ADD {
			sumTerms(x.X, sign, terms, k, depth+1)
			sumTerms(x.Y, sign, terms, k, depth+1)
			return
		}
		if x.Op == token.SUB {
			sumTerms(x.X, sign, terms, k, depth+1)
			sumTerms(x.Y, -sign, terms, k, depth+1)
			return
		}
	case *ssa.Convert:
		sumTerms(x.X, sign, terms, k, depth+1)
		return
	case *ssa.ChangeType:
		sumTerms(x.X, sign, terms, k, depth+1)
		return
	}
	terms[v] += sign
}

func cleanTerms(t map[ssa.Value]int64) {
	for k, n := range t {
		if n == 0 {
			delete(t, k)
		}
	}
}

func sameTerms(a, b map[ssa.Value]int64) bool {
	cleanTerms(a)
	cleanTerms(b)
	if len(a) != len(b) {
		return false
	}
	for k, n := range a {
		if b[k] != n {
			return false
		}
	}
	return true
}

func init() {
	extendProp("C25", "On start-up a store whose head is the last frozen block is accepted: in rawdb.Open the gap search runs exactly when head ≥ frozen (written head > frozen-1), so migrating the whole chain and restarting does not refuse the database.", nil, func(c *Ctx) {
		c.Rule("CHECKSHAPE/C25.gapbound")
		rdb := "core/rawdb"
		f := c.Fn(rdb, "Open")
		if f == nil {
			return
		}
		c.Funcs[f] = true
		isHead := func(v ssa.Value) bool {
			ex, ok := v.(*ssa.Extract)
			if !ok || ex.Index != 0 {
				return false
			}
			call, ok := ex.Tuple.(*ssa.Call)
			if !ok {
				return false
			}
			cal := call.Call.StaticCallee()
			return cal != nil && cal.Name() == "ReadHeaderNumber"
		}
		isFrozen := func(v ssa.Value) bool {
			ex, ok := v.(*ssa.Extract)
			if !ok || ex.Index != 0 {
				return false
			}
			call, ok := ex.Tuple.(*ssa.Call)
			if !ok {
				return false
			}
			if call.Call.IsInvoke() {
				return call.Call.Method.Name() == "Ancients"
			}
			cal := call.Call.StaticCallee()
			return cal != nil && cal.Name() == "Ancients"
		}
		n := 0
		eachInstr(f, func(in ssa.Instruction) {
			iff, ok := in.(*ssa.If)
			if !ok {
				return
			}
			b, ok := iff.Cond.(*ssa.BinOp)
			if !ok {
				return
			}
			terms := map[ssa.Value]int64{}
			var k int64
			sumTerms(b.X, 1, terms, &k, 0)
			sumTerms(b.Y, -1, terms, &k, 0)
			cleanTerms(terms)
			if len(terms) != 2 {
				return
			}
			var ch, cf int64
			for v, co := range terms {
				if isHead(v) {
					ch = co
				} else if isFrozen(v) {
					cf = co
				}
			}
			if ch == 0 || cf == 0 || ch != -cf || (ch != 1 && ch != -1) {
				return
			}
			// inside the loop `number <= head` also compares; only head-vs-frozen here
			n++
			// normalise to  head - frozen >= bound
			op := b.Op
			if ch == -1 { // frozen - head + k OP 0  ->  head - frozen - k OP' 0
				k = -k
				switch op {
				case token.LSS:
					op = token.GTR
				case token.LEQ:
					op = token.GEQ
				case token.GTR:
					op = token.LSS
				case token.GEQ:
					op = token.LEQ
				}
			}
			ok2 := false
			switch op {
			case token.GTR: // d + k > 0  <=> d >= 1-k
				ok2 = 1-k == 0
			case token.GEQ: // d + k >= 0 <=> d >= -k
				ok2 = -k == 0
			case token.LSS: // d + k < 0 <=> !(d >= -k): the gap search is the else branch
				ok2 = -k == 0
			case token.LEQ:
				ok2 = 1-k == 0
			}
			c.Check(ok2, "gap-search-bound", in.Pos(), "the head/frozen test is head >= frozen", "the start-up gap test no longer holds exactly when head >= frozen: a database whose head is the last frozen block is refused (or a real gap is accepted)")
		})
		c.Expect(1, n, "head/frozen comparisons in rawdb.Open")
	})

	extendProp("C26", "The calldata floor is applied to the figure it clamps: in settleGas the value compared with floorDataGas is the same value the top-up floorDataGas−x is computed from (post-refund usage), so a refund that takes usage below the floor is topped up.", []string{"core"}, func(c *Ctx) {
		c.Rule("SAMEVAL/C26.floor")
		f := c.Fn("core", "(*stateTransition).settleGas")
		if f == nil {
			return
		}
		c.Funcs[f] = true
		floor := Param("floorDataGas")
		n := 0
		eachInstr(f, func(in ssa.Instruction) {
			iff, ok := in.(*ssa.If)
			if !ok {
				return
			}
			b, ok := iff.Cond.(*ssa.BinOp)
			if !ok {
				return
			}
			var x ssa.Value
			tIdx := 0
			switch {
			case b.Op == token.LSS && floor(b.Y):
				x = b.X
			case b.Op == token.GTR && floor(b.X):
				x = b.Y
			case b.Op == token.GEQ && floor(b.Y):
				x, tIdx = b.X, 1
			case b.Op == token.LEQ && floor(b.X):
				x, tIdx = b.Y, 1
			default:
				return
			}
			// top-ups computed under the `below the floor` outcome
			e := Edge{iff.Block(), tIdx}
			eachInstr(f, func(in2 ssa.Instruction) {
				sub, ok := in2.(*ssa.BinOp)
				if !ok || sub.Op != token.SUB || !floor(sub.X) || !edgeDominates(e, sub.Block()) {
					return
				}
				n++
				c.Check(sameValue(sub.Y, x), "clamped-figure", in2.Pos(), "floorDataGas - x uses the figure that was compared with the floor", "the floor test and the top-up use different usage figures: with a refund the post-refund usage ends below the calldata floor")
			})
		})
		c.Expect(1, n, "calldata floor top-ups in settleGas")
	})

	extendProp("C27", "Gas given back for tracer reporting equals the gas taken off the usage counter: in the call-variant gas wrappers, within one block the addends of Gas.ExecutionGas += … and the subtrahends of Gas.UsedExecutionGas -= … are the same terms, so no gas disappears between the two counters.", nil, func(c *Ctx) {
		c.Rule("SAMEVAL/C27.undo")
		cvm := "core/vm"
		n := 0
		for _, top := range c.FuncsInFiles(cvm, "operations_acl.go") {
			for _, f := range append([]*ssa.Function{top}, allClosures(top)...) {
				for _, b := range f.Blocks {
					add := map[ssa.Value]int64{}
					sub := map[ssa.Value]int64{}
					var ka, ks int64
					var na, ns int
					var pos token.Pos
					for _, in := range b.Instrs {
						st, ok := in.(*ssa.Store)
						if !ok {
							continue
						}
						fa, ok := st.Addr.(*ssa.FieldAddr)
						if !ok {
							continue
						}
						bo, ok := st.Val.(*ssa.BinOp)
						if !ok {
							continue
						}
						ld, ok := bo.X.(*ssa.UnOp)
						if !ok || !sameValue(ld.X, st.Addr) && ld.X != ssa.Value(fa) {
							if fa2, ok2 := ld2addr(bo.X); !ok2 || fieldAddrName(fa2) != fieldAddrName(fa) {
								continue
							}
						}
						switch {
						case strings.HasSuffix(fieldAddrName(fa), "GasBudget.ExecutionGas") && bo.Op == token.ADD:
							sumTerms(bo.Y, 1, add, &ka, 0)
							na++
							pos = in.Pos()
						case strings.HasSuffix(fieldAddrName(fa), "GasBudget.UsedExecutionGas") && bo.Op == token.SUB:
							sumTerms(bo.Y, 1, sub, &ks, 0)
							ns++
						}
					}
					if na == 0 || ns == 0 {
						continue
					}
					c.Funcs[f] = true
					n++
					c.Check(sameTerms(add, sub) && ka == ks, "restore-equals-uncount/"+fnName(f), pos, "ExecutionGas += S and UsedExecutionGas -= S with the same S", "the gas given back to ExecutionGas differs from the gas taken off UsedExecutionGas: the difference is charged twice (or never) and matches no opcode cost")
				}
			}
		}
		c.Expect(2, n, "restore/uncount pairs in the call-variant gas wrappers")
	})

	extendProp("C35", "The fee formulas keep no state between calls: no function of consensus/misc/eip4844, eip1559 or misc takes the address of, stores to, or calls a method on a package-level variable, so a result cannot depend on an earlier call made under another schedule.", nil, func(c *Ctx) {
		c.Rule("PURE/C35.nostate")
		funcs, bad := 0, 0
		for _, pk := range []string{"consensus/misc/eip4844", "consensus/misc/eip1559", "consensus/misc"} {
			if c.Pkgs[pk] == nil {
				continue
			}
			for _, top := range c.AllFuncs(pk) {
				if top.Name() == "init" || strings.HasPrefix(top.Name(), "init#") {
					continue
				}
				for _, f := range append([]*ssa.Function{top}, allClosures(top)...) {
					funcs++
					c.Funcs[f] = true
					eachInstr(f, func(in ssa.Instruction) {
						for _, op := range in.Operands(nil) {
							g, ok := (*op).(*ssa.Global)
							if !ok || g.Pkg == nil || !strings.Contains(g.Pkg.Pkg.Path(), "/consensus/misc") {
								continue
							}
							if u, isLoad := in.(*ssa.UnOp); isLoad && u.Op == token.MUL {
								continue // reading the variable's value
							}
							bad++
							c.Bad("stateless/"+fnName(f), in.Pos(), "package-level variable "+g.Name()+" is written, or its address is used, inside a fee formula: the result can depend on earlier calls")
						}
					})
				}
			}
		}
		if bad == 0 {
			c.OK("stateless", token.NoPos, "no fee-formula function writes or takes the address of a package-level variable")
		}
		c.Expect(10, funcs, "functions of the fee-formula packages")
	})

	extendProp("C36", "A payload's parts are replaced together: in Payload.update every store of a field of the build result into the payload lies behind the store of the block itself (same higher-fee decision), so the envelope never pairs one round's block with another round's requests or sidecars.", nil, func(c *Ctx) {
		c.Rule("ATOMIC/C36.payloadparts")
		mp := "miner"
		f := c.Fn(mp, "(*Payload).update")
		if f == nil {
			return
		}
		c.Funcs[f] = true
		full := c.Stores(f, mp+".Payload.full")
		c.Expect(1, len(full), "payload.full stores in update")
		if len(full) == 0 {
			return
		}
		n := 0
		eachInstr(f, func(in ssa.Instruction) {
			st, ok := in.(*ssa.Store)
			if !ok {
				return
			}
			fa, ok := st.Addr.(*ssa.FieldAddr)
			if !ok || !strings.HasPrefix(fieldAddrName(fa), mp+".Payload.") {
				return
			}
			src := fieldOfLoad(stripConv(st.Val))
			if !strings.HasPrefix(src, mp+".newPayloadResult.") {
				return
			}
			n++
			ok2 := in == full[0].Instr || instrDominates(full[0].Instr, in) || (in.Block() == full[0].Instr.Block())
			c.Check(ok2, "with-the-block/"+strings.TrimPrefix(fieldAddrName(fa), mp+".Payload."), in.Pos(), "stored under the same decision as payload.full", "a part of the build result is stored into the payload outside the decision that replaces the block: the delivered envelope mixes two build rounds")
		})
		c.Expect(6, n, "result fields stored into the payload")
	})
}

func ld2addr(v ssa.Value) (*ssa.FieldAddr, bool) {
	u, ok := v.(*ssa.UnOp)
	if !ok || u.Op != token.MUL {
		return nil, false
	}
	fa, ok := u.X.(*ssa.FieldAddr)
	return fa, ok
}

func init() {
	extendProp("C24", "The virtual tail never exceeds the recovered head: freezerTable.repair, which loads the tail marker from metadata that is persisted without syncing the table, stores an itemHidden value behind the outcome `itemHidden > items` of a comparison of the two counters (the clamp), besides raising it to itemOffset.", nil, func(c *Ctx) {
		c.Rule("CLAMP/C24.virtualtail")
		rdb := "core/rawdb"
		f := c.Fn(rdb, "(*freezerTable).repair")
		if f == nil {
			return
		}
		c.Funcs[f] = true
		loadOf := func(field string) VPat {
			return func(v ssa.Value) bool {
				v = stripConv(v)
				if call, ok := v.(*ssa.Call); ok && len(call.Call.Args) == 1 {
					if cal := call.Call.StaticCallee(); cal != nil && cal.Name() == "Load" {
						if fa, ok := call.Call.Args[0].(*ssa.FieldAddr); ok {
							return fieldAddrName(fa) == rdb+".freezerTable."+field
						}
					}
				}
				return fieldOfLoad(v) == rdb+".freezerTableMeta.virtualTail" && field == "itemHidden"
			}
		}
		hidden, items := loadOf("itemHidden"), loadOf("items")
		edges := EdgesWhere(f, Cmp(hidden, token.GTR, items))
		for e := range EdgesWhere(f, Cmp(items, token.LSS, hidden)) {
			edges[e] = true
		}
		clamped := false
		eachInstr(f, func(in ssa.Instruction) {
			call, ok := in.(*ssa.Call)
			if !ok || len(call.Call.Args) != 2 {
				return
			}
			cal := call.Call.StaticCallee()
			if cal == nil || cal.Name() != "Store" {
				return
			}
			fa, ok := call.Call.Args[0].(*ssa.FieldAddr)
			if !ok || fieldAddrName(fa) != rdb+".freezerTable.itemHidden" {
				return
			}
			for e := range edges {
				if edgeDominates(e, call.Block()) {
					clamped = true
				}
			}
		})
		c.Check(clamped, "upper-bound/(*freezerTable).repair", f.Pos(), "itemHidden is lowered when it exceeds the recovered item count", "repair never bounds the virtual tail by the recovered head: after truncateTail(n) inside the tail file (metadata written, table not synced) and a crash that loses the unsynced items up to n, the table reopens with itemHidden > items and newTable fails with EOF")
	})
}
