package main

import (
	"go/token"
	"go/types"
	"strings"

	"golang.org/x/tools/go/ssa"
)

func init() {
	Register(&Prop{
		ID:   "C47",
		Pkgs: []string{"eth/protocols/snap"},
		Decided: "in both syncer generations no peer-supplied data reaches the scheduler (the deliver channels) unverified: account ranges are delivered only behind trie.VerifyRangeProof against the sync root read under the lock, the request's origin and the received hashes/accounts/proof; each storage sub-range only behind a VerifyRangeProof against the requested account's storage root with that sub-range's own keys and values, after the set-size rejects; every bytecode / healed node placed in a response was hashed afresh and matched byte-wise against a requested hash (unmatched input rejects the whole response); block access lists are kept only after decoding and verification against their header; nothing but these handlers sends on a deliver channel; request bookkeeping maps are touched only under the syncer lock.",
		NotDec: "completion of the sync and equality of the reconstructed state with the target (value-level over schedules).",
		Rules:  "VERIFYDELIVER (must-pass-through per channel-send site and per response element store), SAMEVAL on proof arguments, WHO on senders, LOCKSET on request maps",
		MinObs: 200,
		Run:    c47,
	})
}

func c47(c *Ctx) {
	sp := "eth/protocols/snap"
	vrp := "trie.VerifyRangeProof"
	for _, g := range []struct{ typ, suf string }{{"syncer", ""}, {"syncerV2", "V2"}} {
		_ = g
		// ---- accounts ------------------------------------------------------------------------
		oa := c.Fn(sp, "(*"+g.typ+").OnAccounts")
		c.Rule("VERIFYDELIVER/C47.accounts" + g.suf)
		send := c.Sends(oa, sp+".accountRequest"+g.suf+".deliver")
		c.Expect(1, len(send), "deliver send in OnAccounts")
		pr := c.Calls(oa, vrp)
		c.Expect(1, len(pr), "VerifyRangeProof in OnAccounts")
		c.Dom("proof-ok", oa, send, "req.deliver<-", GErrChecked("trie.VerifyRangeProof", pr))
		rootField := sp + "." + g.typ + ".root"
		rootPat := Fld(rootField)
		if g.suf == "V2" {
			rootField = sp + "." + g.typ + ".pivot"
			rootPat = FieldOf("core/types.Header.Root", Fld(rootField))
		}
		c.ArgIs("root", oa, pr, "VerifyRangeProof", 0, rootPat, "the sync target root (s.root / s.pivot.Root)")
		c.ArgIs("origin", oa, pr, "VerifyRangeProof", 1, Mentions(FldAddr(sp+".accountRequest"+g.suf+".origin")), "req.origin")
		c.ArgIs("values", oa, pr, "VerifyRangeProof", 3, Param("accounts"), "the received accounts")
		c.ArgIs("proof", oa, pr, "VerifyRangeProof", 4, CallRes("(trie/trienode.ProofList).Set"), "a hash-keyed proof set (ProofList.Set)")
		// the root is read while the lock is held
		c.Lockset(LockSpec{Name: "C47.root" + g.suf, Pkg: sp, Mutex: sp + "." + g.typ + ".lock", RW: true,
			Fields: []string{rootField}, Funcs: []*ssa.Function{oa}, MinSites: 1})
		// what is delivered are the verified hashes and the accounts decoded from the verified blobs
		c.Each("delivered-is-verified", oa, c.Stores(oa, sp+".accountResponse"+g.suf+".hashes"), "response.hashes=", func(s Site) (bool, string) {
			return Param("hashes")(s.Instr.(*ssa.Store).Val), "response carries the proven hashes"
		})

		// ---- storage -------------------------------------------------------------------------
		os := c.Fn(sp, "(*"+g.typ+").OnStorage")
		c.Rule("VERIFYDELIVER/C47.storage" + g.suf)
		ssend := c.Sends(os, sp+".storageRequest"+g.suf+".deliver")
		c.Expect(1, len(ssend), "deliver send in OnStorage")
		sp2 := c.Calls(os, vrp)
		c.Expect(2, len(sp2), "VerifyRangeProof calls in OnStorage")
		latch := c.LoopLatches(os, Cmp(Any(), token.LSS, Len(Any())))
		// the outer per-account loop is the one whose body verifies; restrict to latches reachable from a proof call
		var vl []Site
		for _, l := range latch {
			for _, p := range sp2 {
				if instrReaches(p.Instr, l.Instr) && l.Instr.Block().Index > p.Instr.Block().Index {
					vl = append(vl, l)
					break
				}
			}
		}
		c.Expect(1, len(vl), "per-account verification loop latch")
		if len(sp2) == 2 {
			c.Dom("each-range-proven", os, vl[len(vl)-1:], "next-account", GErrChecked("VerifyRangeProof(no proof)", sp2[:1]), GErrChecked("VerifyRangeProof(with proof)", sp2[1:]))
		}
		c.Dom("sizes-agree", os, cat(ssend, sp2), "verify/deliver", GCond("len(hashes)==len(slots)", os, Cmp(Len(Param("hashes")), token.EQL, Len(Param("slots")))))
		c.Dom("not-more-than-asked", os, cat(ssend, sp2), "verify/deliver", GCond("len(hashes)<=len(req.accounts)", os, Cmp(Len(Param("hashes")), token.LEQ, Len(Fld(sp+".storageRequest"+g.suf+".accounts")))))
		for _, p := range sp2 {
			as := callArgs(p.Instr.(*ssa.Call).Common())
			c.Check(IndexOf(Fld(sp+".storageRequest"+g.suf+".roots"), nil)(as[0]), "storage-root/"+fnName(os), p.Pos(), "verified against req.roots[i]", "storage range verified against something other than the requested account's storage root")
			c.Check(IndexOf(Mentions(Param("slots")), nil)(as[3]) || Mentions(Param("slots"))(as[3]), "storage-values/"+fnName(os), p.Pos(), "values are slots[i]", "storage proof does not cover the delivered slots")
			// root and values are taken at the same, loop-carried index
			idxOf := func(v ssa.Value) ssa.Value {
				if u, ok := v.(*ssa.UnOp); ok {
					if ia, ok := u.X.(*ssa.IndexAddr); ok {
						return ia.Index
					}
				}
				return nil
			}
			ri, vi := idxOf(as[0]), idxOf(as[3])
			_, isPhi := ri.(*ssa.Phi)
			c.Check(ri != nil && vi != nil && isPhi && ri == vi, "storage-same-index/"+fnName(os), p.Pos(), "root and slots are indexed by the same loop variable", "storage root and slot set are not taken at the same per-account loop index")
		}

		// ---- bytecodes (sync and heal) and trie nodes --------------------------------------------------
		type hs struct{ fn, reqT, respField, in string }
		scans := []hs{{map[string]string{"": "onByteCodes", "V2": "OnByteCodes"}[g.suf], "bytecodeRequest" + g.suf, "codes", "bytecodes"}}
		if g.suf == "" {
			scans = append(scans, hs{"onHealByteCodes", "bytecodeHealRequest", "codes", "bytecodes"}, hs{"OnTrieNodes", "trienodeHealRequest", "nodes", "trienodes"})
		}
		for _, h := range scans {
			f := c.TryFn(sp, "(*"+g.typ+")."+h.fn)
			if f == nil {
				continue
			}
			c.Funcs[f] = true
			c.Rule("HASHSCAN/C47." + h.fn + g.suf)
			// stores of received elements into the response slice
			var elemStores []Site
			eachInstr(f, func(in ssa.Instruction) {
				st, ok := in.(*ssa.Store)
				if !ok {
					return
				}
				ia, ok := st.Addr.(*ssa.IndexAddr)
				if !ok {
					return
				}
				if IndexOf(Param(h.in), nil)(st.Val) {
					if _, isSlice := ia.X.Type().Underlying().(*types.Slice); isSlice {
						elemStores = append(elemStores, Site{f, in})
					}
				}
			})
			c.Sites += len(elemStores)
			c.Expect(1, len(elemStores), "response element store in "+h.fn)
			match := GCond("bytes.Equal(hash, req.hashes[j])", f, True(CallRes("bytes.Equal", nil, Mentions(Fld(sp+"."+h.reqT+".hashes")))))
			c.Dom("matched-hash", f, elemStores, "response[j]=received[i]", match)
			// the compared hash was computed from that very element
			wr := c.Calls(f, "(crypto.KeccakState).Write|(hash.Hash).Write|(io.Writer).Write")
			c.Each("hashed-element", f, wr, "hasher.Write", func(s Site) (bool, string) {
				return IndexOf(Param(h.in), nil)(callArgs(s.Instr.(*ssa.Call).Common())[0]), "the hasher is fed the received element"
			})
			c.Dom("fresh-hash", f, elemStores, "response[j]=received[i]", GCall("hasher.Reset()", c.Calls(f, "(crypto.KeccakState).Reset|(hash.Hash).Reset")).Then(GCall("hasher.Write(elem)", wr)).Then(GCall("hasher.Read(hash)", c.Calls(f, "(crypto.KeccakState).Read|(io.Reader).Read"))))
			snd := c.Sends(f, sp+"."+h.reqT+".deliver")
			c.Expect(1, len(snd), "deliver send in "+h.fn)
		}
	}

	// ---- access lists -----------------------------------------------------------------------------
	pa := c.Fn(sp, "(*syncerV2).processAccessListResponse")
	c.Rule("VERIFYDELIVER/C47.accesslists")
	var keep []Site
	eachInstr(pa, func(in ssa.Instruction) {
		if mu, ok := in.(*ssa.MapUpdate); ok {
			if _, isMake := strip(mu.Map).(*ssa.MakeMap); isMake && namedName(mu.Value.Type()) == "rlp.RawValue" {
				keep = append(keep, Site{pa, in})
			}
		}
	})
	c.Expect(1, len(keep), "valid[h] = raw")
	c.Dom("decoded", pa, keep, "valid[h]=raw", GErrChecked("rlp.DecodeBytes", c.Calls(pa, "rlp.DecodeBytes")))
	c.Dom("verified", pa, keep, "valid[h]=raw", GErrChecked("verifyAccessList(&b, headers[h])", c.Calls(pa, sp+".verifyAccessList")))
	// only verified lists are copied out
	for _, cp := range c.Calls(pa, "maps.Copy") {
		as := callArgs(cp.Instr.(*ssa.Call).Common())
		_, isMake := strip(as[1]).(*ssa.MakeMap)
		c.Check(Param("fetched")(as[0]) && isMake, "copy-out/"+fnName(pa), cp.Pos(), "fetched receives exactly the locally verified set", "something other than the verified set is copied into fetched")
	}

	// ---- who sends on deliver ---------------------------------------------------------------------------
	c.Rule("WHO/C47.deliver")
	allowed := map[string]bool{}
	for _, n := range []string{"OnAccounts", "onByteCodes", "OnByteCodes", "OnStorage", "OnTrieNodes", "onHealByteCodes", "OnAccessLists"} {
		allowed["(*"+sp+".syncer)."+n] = true
		allowed["(*"+sp+".syncerV2)."+n] = true
	}
	ns := 0
	for _, f := range c.AllFuncs(sp) {
		eachInstr(f, func(in ssa.Instruction) {
			var chans []ssa.Value
			switch x := in.(type) {
			case *ssa.Send:
				chans = append(chans, x.Chan)
			case *ssa.Select:
				for _, st := range x.States {
					if st.Dir == types.SendOnly {
						chans = append(chans, st.Chan)
					}
				}
			}
			for _, ch := range chans {
				fn := fieldOfLoad(ch)
				if len(fn) > 8 && fn[len(fn)-8:] == ".deliver" {
					ns++
					c.Check(allowed[fnName(f)], "sender/"+fnName(f), Site{f, in}.Pos(), "response handler", fnName(f)+" sends on a deliver channel but is not one of the verifying response handlers")
				}
			}
		})
	}
	c.Expect(8, ns, "sends on deliver channels")

	// ---- request bookkeeping under the lock -----------------------------------------------------------
	for _, g := range []string{"syncer", "syncerV2"} {
		var fields []string
		_, st := c.Struct(sp, g)
		for i := 0; i < st.NumFields(); i++ {
			n := st.Field(i).Name()
			if strings.HasSuffix(n, "Reqs") || strings.HasSuffix(n, "Idlers") || n == "statelessPeers" {
				fields = append(fields, sp+"."+g+"."+n)
			}
		}
		c.Lockset(LockSpec{Name: "C47.reqs." + g, Pkg: sp, Mutex: sp + "." + g + ".lock", RW: true, Fields: fields,
			Exempt: map[string]string{
				sp + ".newSyncer":   "constructor",
				sp + ".newSyncerV2": "constructor",
			},
			MinSites: 30})
	}
}

func fieldLoads(f *ssa.Function, field string) []Site {
	var out []Site
	eachInstr(f, func(in ssa.Instruction) {
		if fa, ok := in.(*ssa.FieldAddr); ok && fieldAddrName(fa) == field {
			out = append(out, Site{f, in})
		}
	})
	return out
}
