package main

import (
	"fmt"
	"go/token"
	"go/types"
	"strings"

	"golang.org/x/tools/go/ssa"
)

// FIELDCOV — field coverage of copies, codecs and resets. The field list is
// read from the struct type on every run, so a field added to T without
// touching f is reported.

type covKind int

const (
	covNone covKind = iota
	covShallow       // value taken over from the source object (aliases for reference types)
	covDeep          // value comes from a call / fresh allocation / constant
)

// isRefType: a value of this type can share mutable state with its source.
func isRefType(t types.Type) bool {
	switch u := t.Underlying().(type) {
	case *types.Pointer, *types.Slice, *types.Map, *types.Chan:
		return true
	case *types.Interface, *types.Signature:
		return true
	case *types.Struct:
		for i := 0; i < u.NumFields(); i++ {
			if isRefType(u.Field(i).Type()) {
				return true
			}
		}
	case *types.Array:
		return isRefType(u.Elem())
	}
	return false
}

func isNamed(n, T *types.Named) bool {
	return n != nil && T != nil && n.Origin().Obj() == T.Origin().Obj()
}

// Exemptions maps a field to the reason it is exempt ("" = not exempt).
type Exemptions func(fld *types.Var) string

// ExFields builds Exemptions from an explicit field-name table.
func ExFields(m map[string]string) Exemptions {
	return func(fld *types.Var) string { return m[fld.Name()] }
}

// ExAnd combines exemption sources.
func ExAnd(es ...Exemptions) Exemptions {
	return func(fld *types.Var) string {
		for _, e := range es {
			if e != nil {
				if r := e(fld); r != "" {
					return r
				}
			}
		}
		return ""
	}
}

// ownerOf returns the named struct a FieldAddr/Field belongs to.
func ownerOf(v ssa.Value) *types.Named {
	switch x := v.(type) {
	case *ssa.FieldAddr:
		return derefNamed(x.X.Type())
	case *ssa.Field:
		return derefNamed(x.X.Type())
	}
	return nil
}

// aliasesSource: v is (a slice/conversion/phi of) a field loaded from an
// object of type T other than a fresh allocation of this function.
func aliasesSource(v ssa.Value, T *types.Named, depth int) bool {
	if depth > 6 || v == nil {
		return false
	}
	switch x := v.(type) {
	case *ssa.UnOp:
		if x.Op != token.MUL {
			return false
		}
		if fa, ok := x.X.(*ssa.FieldAddr); ok {
			if isNamed(ownerOf(fa), T) && !freshBase(fa.X) {
				return true
			}
			// a field of an element/sub-object that was itself reached from the source
			return aliasesSource(fa.X, T, depth+1)
		}
		if ia, ok := x.X.(*ssa.IndexAddr); ok {
			return aliasesSource(ia.X, T, depth+1)
		}
		if a, ok := x.X.(*ssa.Alloc); ok {
			if w := singleStore(a); w != nil {
				return aliasesSource(w, T, depth+1)
			}
		}
	case *ssa.Field:
		return isNamed(ownerOf(x), T) || aliasesSource(x.X, T, depth+1)
	case *ssa.IndexAddr:
		return aliasesSource(x.X, T, depth+1)
	case *ssa.Alloc:
		// local holding a (shallow) copy of something reached from the source
		for _, r := range *x.Referrers() {
			if st, ok := r.(*ssa.Store); ok && st.Addr == ssa.Value(x) && aliasesSource(st.Val, T, depth+1) {
				return true
			}
		}
	case *ssa.Slice:
		return aliasesSource(x.X, T, depth+1)
	case *ssa.Extract:
		// element obtained by ranging over a container of the source
		if nx, ok := x.Tuple.(*ssa.Next); ok {
			if rg, ok := nx.Iter.(*ssa.Range); ok {
				return aliasesSource(rg.X, T, depth+1)
			}
		}
	case *ssa.Lookup:
		return aliasesSource(x.X, T, depth+1)
	case *ssa.Index:
		return aliasesSource(x.X, T, depth+1)
	case *ssa.ChangeType:
		return aliasesSource(x.X, T, depth+1)
	case *ssa.Convert:
		// []byte <-> string conversions copy
		return false
	case *ssa.MakeInterface:
		return aliasesSource(x.X, T, depth+1)
	case *ssa.Phi:
		for _, e := range x.Edges {
			if aliasesSource(e, T, depth+1) {
				return true
			}
		}
	}
	return false
}

// storedFields computes, for struct T, which fields f stores into target
// objects: fresh allocations of T in f (copy/unmarshal) and, when recv is
// true, f's receiver/parameters of type *T (reset).
func storedFields(f *ssa.Function, T *types.Named, recv bool) (map[int]covKind, int) {
	st := T.Underlying().(*types.Struct)
	cov := map[int]covKind{}
	targets := 0
	isTarget := func(base ssa.Value) bool {
		if !isNamed(derefNamed(base.Type()), T) {
			return false
		}
		if freshBase(base) {
			return true
		}
		if recv {
			if p, ok := base.(*ssa.Parameter); ok {
				_ = p
				return true
			}
		}
		return false
	}
	up := func(i int, k covKind) {
		if k > cov[i] {
			cov[i] = k
		}
	}
	eachInstr(f, func(in ssa.Instruction) {
		switch x := in.(type) {
		case *ssa.Alloc:
			if isNamed(derefNamed(x.Type()), T) {
				if _, isPtr := x.Type().Underlying().(*types.Pointer).Elem().(*types.Pointer); !isPtr {
					targets++
				}
			}
		case *ssa.Store:
			switch a := x.Addr.(type) {
			case *ssa.FieldAddr:
				if !isTarget(a.X) {
					return
				}
				if aliasesSource(x.Val, T, 0) {
					up(a.Field, covShallow)
				} else {
					up(a.Field, covDeep)
				}
			default:
				// whole-struct store: *dst = *src  or  *dst = T{}
				if !isTarget(x.Addr) {
					return
				}
				if _, isStruct := x.Val.Type().Underlying().(*types.Struct); !isStruct {
					return
				}
				k := covShallow
				if c, ok := x.Val.(*ssa.Const); ok && c.Value == nil {
					k = covDeep // zero value
				}
				for i := 0; i < st.NumFields(); i++ {
					up(i, k)
				}
			}
		case ssa.CallInstruction:
			// a method invoked on a target's field address (x.f.Reset(), clear(x.f))
			cc := x.Common()
			for _, a := range cc.Args {
				if fa, ok := a.(*ssa.FieldAddr); ok && isTarget(fa.X) {
					up(fa.Field, covDeep)
				}
				if b, isB := cc.Value.(*ssa.Builtin); isB && b.Name() == "clear" {
					if u, ok := a.(*ssa.UnOp); ok {
						if fa, ok := u.X.(*ssa.FieldAddr); ok && isTarget(fa.X) {
							up(fa.Field, covDeep)
						}
					}
				}
			}
		}
	})
	return cov, targets
}

// loadedFields: fields of objects of type T that f reads (any base that is
// not a fresh allocation), plus whether an object of type T is handed whole
// to a call.
func loadedFields(f *ssa.Function, T *types.Named) (map[int]bool, []ssa.Instruction) {
	got := map[int]bool{}
	var whole []ssa.Instruction
	eachInstr(f, func(in ssa.Instruction) {
		switch x := in.(type) {
		case *ssa.FieldAddr:
			if isNamed(ownerOf(x), T) && !freshBase(x.X) {
				// a FieldAddr that is only stored to is not a read
				onlyStore := true
				for _, r := range *x.Referrers() {
					if st, ok := r.(*ssa.Store); ok && st.Addr == x {
						continue
					}
					onlyStore = false
				}
				if !onlyStore {
					got[x.Field] = true
				}
			}
		case *ssa.Field:
			if isNamed(ownerOf(x), T) {
				got[x.Field] = true
			}
		case ssa.CallInstruction:
			cc := x.Common()
			args := cc.Args
			if !cc.IsInvoke() && cc.Signature().Recv() != nil && len(args) > 0 {
				args = args[1:] // the receiver itself is not "handed to a callee as data"
			}
			for _, a := range args {
				if isNamed(derefNamed(strip(a).Type()), T) {
					whole = append(whole, in)
				}
			}
		}
	})
	return got, whole
}

// CovCopy: f builds a copy of T; every field must be covered, and with deep
// set, reference-typed fields must not alias the source. exempt maps field
// name -> reason.
func (c *Ctx) CovCopy(name string, f *ssa.Function, T *types.Named, deep bool, exempt Exemptions) {
	if exempt == nil {
		exempt = ExFields(nil)
	}
	c.Funcs[f] = true
	st := T.Underlying().(*types.Struct)
	cov, targets := storedFields(f, T, false)
	base := name + "/" + fnName(f) + "/" + T.Obj().Name()
	if targets == 0 {
		c.Undecided(base, f.Pos(), "no fresh "+T.Obj().Name()+" is built in this function")
		return
	}
	for i := 0; i < st.NumFields(); i++ {
		fld := st.Field(i)
		key := base + "." + fld.Name()
		if r := exempt(fld); r != "" {
			// an exemption only matters when the field would otherwise fail
			if cov[i] == covNone || (deep && cov[i] == covShallow && isRefType(fld.Type())) {
				c.Exempt(key, f.Pos(), r)
				continue
			}
		}
		switch {
		case cov[i] == covNone:
			c.Bad(key, f.Pos(), fmt.Sprintf("field %s.%s is not copied by %s", T.Obj().Name(), fld.Name(), fnName(f)))
		case deep && cov[i] == covShallow && isRefType(fld.Type()):
			c.Bad(key, f.Pos(), fmt.Sprintf("field %s.%s (%s) is copied by reference: the copy aliases the source", T.Obj().Name(), fld.Name(), fld.Type()))
		default:
			c.OK(key, f.Pos(), map[covKind]string{covShallow: "copied by value", covDeep: "copied through a fresh value"}[cov[i]])
		}
	}
	c.Sites += st.NumFields()
	if deep {
		c.covContainers(base, f, T, exempt)
	}
}

// covContainers: a field initialised with a fresh map/slice must be populated,
// and the elements put into it must not alias the source's elements.
func (c *Ctx) covContainers(base string, f *ssa.Function, T *types.Named, exempt Exemptions) {
	st := T.Underlying().(*types.Struct)
	cont := map[int]ssa.Value{}
	eachInstr(f, func(in ssa.Instruction) {
		if s, ok := in.(*ssa.Store); ok {
			if fa, ok := s.Addr.(*ssa.FieldAddr); ok && isNamed(ownerOf(fa), T) && freshBase(fa.X) {
				switch strip(s.Val).(type) {
				case *ssa.MakeMap, *ssa.MakeSlice:
					cont[fa.Field] = strip(s.Val)
				}
			}
		}
	})
	isCont := func(v ssa.Value) int {
		v = strip(v)
		for i, cv := range cont {
			if v == cv {
				return i
			}
		}
		if u, ok := v.(*ssa.UnOp); ok && u.Op == token.MUL {
			if fa, ok := u.X.(*ssa.FieldAddr); ok && isNamed(ownerOf(fa), T) && freshBase(fa.X) {
				if _, ok := cont[fa.Field]; ok {
					return fa.Field
				}
			}
		}
		return -1
	}
	filled := map[int]int{}
	aliased := map[int]ssa.Instruction{}
	eachInstr(f, func(in ssa.Instruction) {
		switch x := in.(type) {
		case *ssa.MapUpdate:
			if i := isCont(x.Map); i >= 0 {
				filled[i]++
				if isRefType(x.Value.Type()) && aliasesSource(x.Value, T, 0) {
					aliased[i] = in
				}
			}
		case *ssa.Store:
			if ia, ok := x.Addr.(*ssa.IndexAddr); ok {
				if i := isCont(ia.X); i >= 0 {
					filled[i]++
					if isRefType(x.Val.Type()) && aliasesSource(x.Val, T, 0) {
						aliased[i] = in
					}
				}
			}
		case *ssa.Call:
			if b, ok := x.Call.Value.(*ssa.Builtin); ok && b.Name() == "copy" {
				if i := isCont(x.Call.Args[0]); i >= 0 {
					filled[i]++
					if el, ok := x.Call.Args[0].Type().Underlying().(*types.Slice); ok && isRefType(el.Elem()) {
						aliased[i] = in
					}
				}
			}
		}
	})
	// slices built by an append chain (possibly through a loop phi) and then
	// stored into the field
	eachInstr(f, func(in ssa.Instruction) {
		s, ok := in.(*ssa.Store)
		if !ok {
			return
		}
		fa, ok := s.Addr.(*ssa.FieldAddr)
		if !ok || !isNamed(ownerOf(fa), T) || !freshBase(fa.X) {
			return
		}
		if _, isSlice := s.Val.Type().Underlying().(*types.Slice); !isSlice {
			return
		}
		apps := appendChain(s.Val)
		if len(apps) == 0 {
			return
		}
		if _, seen := cont[fa.Field]; !seen {
			cont[fa.Field] = s.Val
		}
		for _, ap := range apps {
			filled[fa.Field]++
			vals, spread := appendedValues(ap)
			for _, ev := range vals {
				if isRefType(ev.Type()) && aliasesSource(ev, T, 0) {
					aliased[fa.Field] = ap
				}
				// element built as a struct literal: its reference-typed fields count too
				if u, ok := ev.(*ssa.UnOp); ok && u.Op == token.MUL {
					if al, ok := u.X.(*ssa.Alloc); ok {
						for _, r := range *al.Referrers() {
							efa, ok := r.(*ssa.FieldAddr)
							if !ok {
								continue
							}
							for _, rr := range *efa.Referrers() {
								if st, ok := rr.(*ssa.Store); ok && st.Addr == efa && isRefType(st.Val.Type()) && aliasesSource(st.Val, T, 0) {
									aliased[fa.Field] = ap
								}
							}
						}
					}
				}
			}
			if spread != nil && aliasesSource(spread, T, 0) {
				aliased[fa.Field] = ap
			}
		}
	})
	for i := range cont {
		fld := st.Field(i)
		key := base + "." + fld.Name() + "[]"
		if r := exempt(fld); r != "" {
			c.Exempt(key, f.Pos(), r)
			continue
		}
		switch {
		case filled[i] == 0:
			c.Bad(key, f.Pos(), fmt.Sprintf("field %s.%s gets a fresh container that is never populated from the source", T.Obj().Name(), fld.Name()))
		case aliased[i] != nil:
			c.Bad(key, Site{f, aliased[i]}.Pos(), fmt.Sprintf("elements of %s.%s are taken over by reference from the source", T.Obj().Name(), fld.Name()))
		default:
			c.OK(key, f.Pos(), fmt.Sprintf("container populated at %d site(s) with non-aliasing elements", filled[i]))
		}
	}
}

// CovReset: f (a method on *T) resets/assigns every field of its receiver.
func (c *Ctx) CovReset(name string, f *ssa.Function, T *types.Named, exempt Exemptions) {
	if exempt == nil {
		exempt = ExFields(nil)
	}
	c.Funcs[f] = true
	st := T.Underlying().(*types.Struct)
	cov, _ := storedFields(f, T, true)
	base := name + "/" + fnName(f) + "/" + T.Obj().Name()
	for i := 0; i < st.NumFields(); i++ {
		fld := st.Field(i)
		key := base + "." + fld.Name()
		if r := exempt(fld); r != "" && cov[i] == covNone {
			c.Exempt(key, f.Pos(), r)
			continue
		}
		c.Check(cov[i] != covNone, key, f.Pos(), "field is reset", fmt.Sprintf("field %s.%s is not reset by %s", T.Obj().Name(), fld.Name(), fnName(f)))
	}
	c.Sites += st.NumFields()
}

// CovReads: every field of T is read in f except the exempted ones
// (marshal, hashing); forbidden fields must not be read at all, and the
// object must not be handed whole to a callee when noWhole is set.
func (c *Ctx) CovReads(name string, f *ssa.Function, T *types.Named, exempt Exemptions, forbidden []string, noWhole bool) {
	if exempt == nil {
		exempt = ExFields(nil)
	}
	c.Funcs[f] = true
	st := T.Underlying().(*types.Struct)
	got, whole := loadedFields(f, T)
	base := name + "/" + fnName(f) + "/" + T.Obj().Name()
	forb := map[string]bool{}
	for _, n := range forbidden {
		forb[n] = true
	}
	for i := 0; i < st.NumFields(); i++ {
		fld := st.Field(i)
		key := base + "." + fld.Name()
		switch {
		case forb[fld.Name()]:
			c.Check(!got[i], key, f.Pos(), "field is not read", fmt.Sprintf("%s reads %s.%s, which it must not depend on", fnName(f), T.Obj().Name(), fld.Name()))
		case !got[i] && exempt(fld) != "":
			c.Exempt(key, f.Pos(), exempt(fld))
		default:
			c.Check(got[i], key, f.Pos(), "field is read", fmt.Sprintf("field %s.%s is not read by %s", T.Obj().Name(), fld.Name(), fnName(f)))
		}
	}
	if noWhole {
		c.Check(len(whole) == 0, base+".<whole>", f.Pos(), "the object is never handed whole to a callee",
			fmt.Sprintf("%s passes the whole %s to a callee (all fields, including forbidden ones, may be read)", fnName(f), T.Obj().Name()))
	}
	c.Sites += st.NumFields()
}

// CovWrites: like CovCopy for decoders that fill a fresh T (unmarshal): every
// field stored, no aliasing requirement.
func (c *Ctx) CovWrites(name string, f *ssa.Function, T *types.Named, exempt Exemptions) {
	c.CovCopy(name, f, T, false, exempt)
}

func fieldNames(T *types.Named) string {
	st := T.Underlying().(*types.Struct)
	var n []string
	for i := 0; i < st.NumFields(); i++ {
		n = append(n, st.Field(i).Name())
	}
	return strings.Join(n, ",")
}

// appendChain returns the append calls a slice value was built from,
// following phis (loops) and re-slicing.
func appendChain(v ssa.Value) []*ssa.Call {
	var out []*ssa.Call
	seen := map[ssa.Value]bool{}
	var walk func(v ssa.Value, d int)
	walk = func(v ssa.Value, d int) {
		if v == nil || seen[v] || d > 8 {
			return
		}
		seen[v] = true
		switch x := v.(type) {
		case *ssa.Call:
			if b, ok := x.Call.Value.(*ssa.Builtin); ok && b.Name() == "append" {
				out = append(out, x)
				walk(x.Call.Args[0], d+1)
			}
		case *ssa.Phi:
			for _, e := range x.Edges {
				walk(e, d+1)
			}
		case *ssa.Slice:
			walk(x.X, d+1)
		case *ssa.UnOp:
			if a, ok := x.X.(*ssa.Alloc); ok && x.Op == token.MUL {
				for _, r := range *a.Referrers() {
					if st, ok := r.(*ssa.Store); ok && st.Addr == a {
						walk(st.Val, d+1)
					}
				}
			}
		}
	}
	walk(v, 0)
	return out
}

// appendedValues returns the element values an append call adds: the stores
// into the varargs array, or the spread slice itself.
func appendedValues(ap *ssa.Call) ([]ssa.Value, ssa.Value) {
	if len(ap.Call.Args) < 2 {
		return nil, nil
	}
	arg := ap.Call.Args[1]
	if sl, ok := arg.(*ssa.Slice); ok {
		if al, ok := sl.X.(*ssa.Alloc); ok {
			var out []ssa.Value
			for _, r := range *al.Referrers() {
				if ia, ok := r.(*ssa.IndexAddr); ok {
					for _, rr := range *ia.Referrers() {
						if st, ok := rr.(*ssa.Store); ok && st.Addr == ia {
							out = append(out, st.Val)
						}
					}
				}
			}
			return out, nil
		}
	}
	// spread of an existing slice: its elements are taken over as they are
	if el, ok := arg.Type().Underlying().(*types.Slice); ok && isRefType(el.Elem()) {
		return nil, arg
	}
	return nil, nil
}
