package main

import (
	"go/token"
	"sort"
	"strings"

	"golang.org/x/tools/go/ssa"
)

func init() {
	Register(&Prop{
		ID:   "C34",
		Pkgs: []string{"trie", "core/stateless", "core", "core/state"},
		Decided: "every trie node that the state-access paths of a Trie load from its reader is recorded in the prevalue tracer before it is decoded and used (the set of functions reading nodes without tracing is closed: raw node API, iterators, proofs, inspection), and Trie.Witness hands out exactly the tracer's values; the state database adds contract code to the witness on every code read of an existing account, the storage-trie witnesses of mutated, destructed and read-only accounts and finally the account-trie witness in IntermediateRoot whenever a witness is attached; the witness database is content-addressed (codes and nodes are stored under the Keccak hash of the very blob stored), so a removed or altered node cannot be served under its hash; stateless execution builds its state from the witness root over that database, and returns roots only after Process and ValidateState succeeded, computed from the processed result and the executed state.",
		NotDec: "that the collected witness is sufficient for every block (value-level: depends on every access going through the traced paths, of which the enumerated ones are the ones that exist today) and equality of the recomputed roots.",
		Rules:  "TRACE node-read ↔ tracer.Put (WHO table for untraced readers); CADDR MakeHashDB; DOM ExecuteStateless; PAIR witness collection in StateDB",
		MinObs: 31,
		Run:    c34,
	})
}

func c34(c *Ctx) {
	// ---- trie reads are traced ------------------------------------------------------------------------
	c.Rule("TRACE/C34.trie")
	node := "(*trie.Reader).Node"
	put := "(*trie.PrevalueTracer).Put"
	untraced := map[string]string{
		"(*trie.Trie).getNode":              "raw node retrieval by path (GetNode API, serves sync requests; not a state access of block execution)",
		"(*trie.Trie).Prove":                "proof construction: the proof itself carries the nodes",
		"(*trie.nodeIterator).resolveHash":  "iterator (not used by block execution state access)",
		"(*trie.nodeIterator).resolveBlob":  "iterator (not used by block execution state access)",
		"(*trie.inspector).inspect":         "offline inspection tool",
		"trie.(*inspector).trieSpawn":       "offline inspection tool",
	}
	var readers []string
	nt := 0
	for _, f := range c.AllFuncs("trie") {
		calls := c.Calls(f, node)
		if len(calls) == 0 {
			continue
		}
		n := fnName(f)
		readers = append(readers, n)
		if why, ok := untraced[n]; ok {
			for _, s := range calls {
				c.Exempt("untraced/"+n, s.Pos(), why)
			}
			continue
		}
		if strings.Contains(n, "inspect") || strings.Contains(n, "Inspect") {
			for _, s := range calls {
				c.Exempt("untraced/"+n, s.Pos(), "offline inspection tool")
			}
			continue
		}
		puts := c.Calls(f, put)
		for _, s := range calls {
			nt++
			call := s.Instr.(*ssa.Call)
			var good []Site
			for _, p := range puts {
				a := p.Instr.(*ssa.Call).Call.Args
				if CallResN(node, 0)(a[2]) && sameValue(a[1], call.Call.Args[1]) {
					good = append(good, p)
				}
			}
			errEdges := map[Edge]bool{}
			for e := range ErrNilEdges(call) {
				errEdges[Edge{e.From, 1 - e.Succ}] = true
			}
			hit := ReachesBefore(call, sitesToSet(good), errEdges, sitesToSet(c.Returns(f)))
			c.Check(len(good) > 0 && hit == nil, "traced/"+n, s.Pos(), "the loaded blob is put into the prevalue tracer under its path on every non-error path", "a trie node is loaded for state access without being recorded in the prevalue tracer on every path: the collected witness misses a node that execution depended on")
		}
	}
	sort.Strings(readers)
	c.Expect(1, nt, "traced node reads")
	c.Expect(5, len(readers), "functions reading trie nodes: "+strings.Join(readers, ", "))
	if w := c.Fn("trie", "(*Trie).Witness"); w != nil {
		for _, r := range c.Returns(w) {
			c.Check(CallRes("(*trie.PrevalueTracer).Values")(retVal(r.Instr.(*ssa.Return), 0)), "witness/"+fnName(w), r.Pos(), "Witness returns the tracer's values", "Trie.Witness does not return the traced nodes")
		}
	}
	if rs := c.Fn("trie", "(*Trie).resolve"); rs != nil {
		c.Check(len(c.Calls(rs, "(*trie.Trie).resolveAndTrack")) == 1, "resolve/"+fnName(rs), rs.Pos(), "hash nodes are resolved through resolveAndTrack", "resolve no longer goes through the tracking loader")
	}

	// ---- content-addressed witness database ---------------------------------------------------------
	c.Rule("CADDR/C34")
	if mk := c.Fn("core/stateless", "(*Witness).MakeHashDB"); mk != nil {
		c.Funcs[mk] = true
		writes := cat(c.Calls(mk, "core/rawdb.WriteCode"), c.Calls(mk, "core/rawdb.WriteLegacyTrieNode"))
		c.Expect(2, len(writes), "keyed writes in MakeHashDB")
		for _, s := range writes {
			a := s.Instr.(*ssa.Call).Call.Args
			blob := a[2]
			var hbuf ssa.Value
			if bh, ok := a[1].(*ssa.Call); ok && calleeName(&bh.Call) == "common.BytesToHash" {
				hbuf = bh.Call.Args[0]
			}
			stage := 0
			for _, in := range s.Instr.Block().Instrs {
				if in == s.Instr {
					break
				}
				ci, ok := in.(ssa.CallInstruction)
				if !ok {
					continue
				}
				cc := ci.Common()
				name := ""
				if cc.IsInvoke() {
					name = cc.Method.Name()
				} else if fn := cc.StaticCallee(); fn != nil {
					name = fn.Name()
				}
				as := callArgs(cc)
				switch {
				case name == "Reset" && stage == 0:
					stage = 1
				case name == "Write" && stage == 1 && len(as) == 1 && sameValue(as[0], blob):
					stage = 2
				case name == "Read" && stage == 2 && len(as) == 1 && hbuf != nil && sameValue(as[0], hbuf):
					stage = 3
				}
			}
			c.Check(stage == 3, "keyed-by-hash/"+calleeName(s.Instr.(*ssa.Call).Common()), s.Pos(), "the key is the Keccak hash (Reset, Write(blob), Read(hash)) of the very blob stored", "a witness item is stored under a key that is not the hash of its own content")
		}
		hd := c.Calls(mk, "core/rawdb.WriteHeader")
		c.Check(len(hd) == 1, "headers/"+fnName(mk), mk.Pos(), "witness headers are injected", "witness headers are not injected into the database")
	}

	// ---- stateless execution ------------------------------------------------------------------------
	c.Rule("DOM/C34.validate")
	if ex := c.Fn(corep, "ExecuteStateless"); ex != nil {
		pr := c.Calls(ex, "(*core.StateProcessor).Process")
		vs := c.Calls(ex, "(*core.BlockValidator).ValidateState")
		ns := c.Calls(ex, "core/state.New")
		c.Dom("validated", ex, c.SuccessReturns(ex), "success return",
			GErrChecked("state.New succeeded", ns).Then(GErrChecked("Process succeeded", pr)).Then(GErrChecked("ValidateState succeeded", vs)))
		c.ArgIs("root", ex, ns, "state.New(root)", 0, CallRes("(*core/stateless.Witness).Root"), "the witness' pre-state root")
		c.ArgIs("statedb", ex, pr, "Process(statedb)", 2, CallResN("core/state.New", 0), "the witness-backed state")
		c.ArgIs("validate-db", ex, vs, "ValidateState(statedb)", 1, CallResN("core/state.New", 0), "the executed state")
		c.ArgIs("validate-res", ex, vs, "ValidateState(res)", 2, CallResN("(*core.StateProcessor).Process", 0), "the processing result")
		c.ArgIs("validate-block", ex, vs, "ValidateState(block)", 0, Param("block"), "the executed block")
		mh := c.Calls(ex, "(*core/stateless.Witness).MakeHashDB")
		c.Check(len(mh) == 1, "hashdb/"+fnName(ex), ex.Pos(), "the backing database is built from the witness", "the stateless backend is not built from the witness")
		for _, r := range c.SuccessReturns(ex) {
			ret := r.Instr.(*ssa.Return)
			okRoot := false
			if call, ok := retVal(ret, 0).(*ssa.Call); ok && calleeName(&call.Call) == "(*core/state.StateDB).IntermediateRoot" {
				okRoot = CallResN("core/state.New", 0)(call.Call.Args[0])
			}
			c.Check(okRoot, "state-root/"+fnName(ex), r.Pos(), "the returned state root is the executed state's", "the returned state root is not computed from the executed witness state")
			okRcpt := false
			if call, ok := retVal(ret, 1).(*ssa.Call); ok && calleeName(&call.Call) == "core/types.DeriveSha" {
				okRcpt = Mentions(Fld("core.ProcessResult.Receipts"))(call.Call.Args[0])
			}
			c.Check(okRcpt, "receipt-root/"+fnName(ex), r.Pos(), "the returned receipt root is derived from the processed receipts", "the returned receipt root is not derived from the processed receipts")
		}
	}

	// ---- collection in the state database -------------------------------------------------------------
	c.Rule("PAIR/C34.collect")
	W := cst + ".StateDB.witness"
	noW := func(f *ssa.Function) Guard { return GCond("s.witness == nil", f, Cmp(Fld(W), token.EQL, Nil())) }
	for _, name := range []string{"(*StateDB).GetCode", "(*StateDB).GetCodeSize"} {
		f := c.Fn(cst, name)
		if f == nil {
			continue
		}
		ac := c.Calls(f, "(*core/stateless.Witness).AddCode")
		var found []Site
		for _, r := range c.Returns(f) {
			v := retVal(r.Instr.(*ssa.Return), 0)
			if _, isConst := v.(*ssa.Const); !isConst {
				found = append(found, r)
			}
		}
		c.Expect(1, len(found), "returns of "+name+" for an existing account")
		c.Dom("code", f, found, "return for an existing account", noW(f), GCall("s.witness.AddCode(obj.Code())", ac))
		c.ArgIs("code-arg", f, ac, "witness.AddCode", 0, CallRes("(*"+cst+".stateObject).Code"), "the object's code")
	}
	if ir := c.Fn(cst, "(*StateDB).IntermediateRoot"); ir != nil {
		as := c.Calls(ir, "(*core/stateless.Witness).AddState")
		var acct []Site
		for _, s := range as {
			a := s.Instr.(*ssa.Call).Call.Args
			if CallRes("(Trie).Witness", Any())(a[1]) || Mentions(Fld(cst + ".StateDB.trie"))(a[1]) {
				if Mentions(Fld(cst + ".StateDB.trie"))(a[1]) {
					acct = append(acct, s)
				}
			}
		}
		c.Expect(5, len(as), "AddState sites in IntermediateRoot (incl. worker closure excluded)")
		c.Check(len(acct) == 1, "account-trie/"+fnName(ir), ir.Pos(), "the account trie's witness is added", "the account trie's witness is never added")
		var hashed []Site
		for _, r := range c.Returns(ir) {
			if r.Instr.Block() == ir.Recover {
				continue
			}
			if Mentions(CallRes("(core/state.Trie).Hash"))(retVal(r.Instr.(*ssa.Return), 0)) {
				hashed = append(hashed, r)
			}
		}
		c.Expect(1, len(hashed), "returns of the computed root")
		c.Dom("account-trie", ir, hashed, "return of the computed root", noW(ir), GSites("s.witness.AddState(s.trie.Witness(), {})", acct))
		for _, s := range acct {
			hs := c.Calls(ir, "(core/state.Trie).Hash")
			okAfter := false
			for _, h := range hs {
				if instrDominates(h.Instr, s.Instr) {
					okAfter = true
				}
			}
			c.Check(okAfter, "account-trie-after-hash/"+fnName(ir), s.Pos(), "the account witness is gathered after the trie was updated and hashed", "the account witness is gathered before the account trie was updated: deletions' sibling nodes are missing")
		}
		// read-only and destructed objects
		for _, fld := range []string{"stateObjectsDestruct", "stateObjects"} {
			hs := rangeLoopHeadersMap(ir, Fld(cst+".StateDB."+fld))
			okLoop := false
			for _, h := range hs {
				body := loopBlocks(h)
				n := 0
				for _, s := range as {
					if body[s.Instr.Block()] {
						n++
					}
				}
				if n >= 2 {
					okLoop = true
				}
			}
			c.Check(okLoop, "storage-tries/"+fld, ir.Pos(), "storage-trie witnesses of s."+fld+" are gathered (prefetched trie or own trie)", "storage-trie witnesses of s."+fld+" are not gathered")
		}
		// the worker that updates a mutated object's root also gathers its witness
		for _, an := range ir.AnonFuncs {
			if len(c.Calls(an, "(*"+cst+".stateObject).updateRoot")) == 0 {
				continue
			}
			ws := c.Calls(an, "(*core/stateless.Witness).AddState")
			ur := c.Calls(an, "(*"+cst+".stateObject).updateRoot")
			c.Funcs[an] = true
			if c.Check(len(ws) == 1, "mutated-tries/"+fnName(an), an.Pos(), "mutated objects' storage witnesses are gathered", "mutated objects' storage witnesses are not gathered") {
				c.Check(instrDominates(ur[0].Instr, ws[0].Instr), "mutated-after-update/"+fnName(an), ws[0].Pos(), "gathered after the storage trie was updated", "the storage witness is gathered before the trie update (deletion siblings missing)")
			}
		}
	}
	if sp := c.Fn(cst, "(*StateDB).StartPrefetcher"); sp != nil {
		st := c.Stores(sp, W)
		c.Check(len(st) == 1 && Param("witness")(st[0].Instr.(*ssa.Store).Val), "attach/"+fnName(sp), sp.Pos(), "the witness is attached to the state", "StartPrefetcher does not attach the witness")
	}
}

// rangeLoopHeadersMap: headers of `for … range m` loops over a map value matching x.
func rangeLoopHeadersMap(f *ssa.Function, x VPat) []*ssa.BasicBlock {
	var out []*ssa.BasicBlock
	eachInstr(f, func(in ssa.Instruction) {
		if r, ok := in.(*ssa.Range); ok && x(r.X) {
			for _, ref := range *r.Referrers() {
				if nx, ok := ref.(*ssa.Next); ok {
					out = append(out, nx.Block())
				}
			}
		}
	})
	return out
}
