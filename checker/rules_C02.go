package main

import (
	"go/constant"
	"go/token"
	"go/types"
	"reflect"
	"sort"
	"strings"

	"golang.org/x/tools/go/ssa"
)

func init() {
	Register(&Prop{
		ID:   "C02",
		Pkgs: []string{"core/types"},
		Decided: "every transaction type is decodable under exactly the type byte it encodes with (decodeTyped allocates, per byte K, the one type whose txType() is K, and covers every non-legacy implementation of TxData); the hash and both encoders are computed from the same inner object with the prefix tx.Type(), typed envelopes are the type byte followed by inner.encode, legacy ones the plain RLP of the inner value; every non-blob encode serialises its own receiver; the blob sidecar is excluded from the canonical RLP by its struct tag, the with-sidecar wrappers are chosen by exact sidecar version on both sides (encode: version 0 → v0 wrapper, 1 → v1 wrapper, else error; decode: v0 wrapper yields version 0, the v1 wrapper accepts exactly version 1), so an accepted encoding re-encodes in the same wrapper; sidecar wrappers carry every sidecar field in both directions; the cached size is the length of the bytes decoded (list size for legacy), stripping a sidecar keeps the hash and subtracts exactly the sidecar's encoded list size; deep copies cover every field of every transaction type and of the sidecar.",
		NotDec: "byte-exact canonicality of accepted inputs beyond RLP canonicality (inherits C01), Size() arithmetic for uncached transactions, and JSON round-trips (reflection/hand-written codecs; value-level).",
		Rules:  "TABLE type byte ↔ type; SAMEVAL hash/encode object and prefix; TAG rlp:\"-\"; SIBLING exact version dispatch encode↔decode; FIELDCOV copies and sidecar wrappers",
		MinObs: 145,
		Run:    c02,
	})
}

func c02(c *Ctx) {
	ct := "core/types"
	TX := "(*" + ct + ".Transaction)."
	// ---- type bytes -----------------------------------------------------------------------------------
	c.Rule("TABLE/C02.types")
	impl := map[string]int64{} // type name -> txType constant
	for _, f := range c.AllFuncs(ct) {
		if f.Name() != "txType" || f.Signature.Recv() == nil {
			continue
		}
		n := derefNamed(f.Signature.Recv().Type())
		if n == nil {
			continue
		}
		for _, r := range c.Returns(f) {
			if k, ok := retVal(r.Instr.(*ssa.Return), 0).(*ssa.Const); ok && k.Value != nil && k.Value.Kind() == constant.Int {
				v, _ := constant.Int64Val(k.Value)
				impl[n.Obj().Name()] = v
			}
		}
	}
	var names []string
	for n := range impl {
		names = append(names, n)
	}
	sort.Strings(names)
	c.Expect(5, len(names), "TxData implementations: "+strings.Join(names, ","))
	if dt := c.Fn(ct, "(*Transaction).decodeTyped"); dt != nil {
		c.Funcs[dt] = true
		arms := map[int64]string{}
		for _, b := range dt.Blocks {
			iff, ok := b.Instrs[len(b.Instrs)-1].(*ssa.If)
			if !ok {
				continue
			}
			cmp, ok := iff.Cond.(*ssa.BinOp)
			if !ok || cmp.Op != token.EQL {
				continue
			}
			k, ok := cmp.Y.(*ssa.Const)
			if !ok || k.Value == nil || k.Value.Kind() != constant.Int {
				continue
			}
			kv, _ := constant.Int64Val(k.Value)
			for _, in := range b.Succs[0].Instrs {
				if al, ok := in.(*ssa.Alloc); ok && al.Heap {
					if nn := derefNamed(al.Type()); nn != nil {
						arms[kv] = nn.Obj().Name()
					}
				}
			}
		}
		seen := map[string]bool{}
		var ks []int64
		for k := range arms {
			ks = append(ks, k)
		}
		sort.Slice(ks, func(i, j int) bool { return ks[i] < ks[j] })
		for _, k := range ks {
			t := arms[k]
			seen[t] = true
			want, ok := impl[t]
			c.Check(ok && want == k, "arm/"+t, dt.Pos(), "type byte and allocated type agree with txType()", "decodeTyped allocates "+t+" for a type byte that is not its txType(): such a transaction re-encodes under a different type byte")
		}
		for _, n := range names {
			if impl[n] == 0 {
				continue // legacy: not a typed envelope
			}
			c.Check(seen[n], "covered/"+n, dt.Pos(), "the type is decodable", "transaction type "+n+" can be encoded but decodeTyped has no arm for it")
		}
		// inner.decode gets the payload after the type byte
		var dec []Site
		eachInstr(dt, func(in ssa.Instruction) {
			if ci, ok := in.(ssa.CallInstruction); ok && ci.Common().IsInvoke() && ci.Common().Method.Name() == "decode" {
				dec = append(dec, Site{dt, in})
			}
		})
		c.Expect(1, len(dec), "inner.decode call")
		for _, s := range dec {
			sl, ok := s.Instr.(ssa.CallInstruction).Common().Args[0].(*ssa.Slice)
			c.Check(ok && Param("b")(sl.X) && ConstInt(1)(sl.Low) && sl.High == nil, "payload/"+fnName(dt), s.Pos(), "the payload is everything after the type byte", "the typed payload handed to decode is not b[1:]")
		}
		c.Dom("nonempty", dt, dec, "inner.decode", GCond("len(b) > 1", dt, Cmp(Len(Param("b")), token.GTR, ConstInt(1))))
	}

	// ---- hash and encoders ----------------------------------------------------------------------------
	c.Rule("SAMEVAL/C02.hash")
	inner := Fld(ct + ".Transaction.inner")
	if h := c.Fn(ct, "(*Transaction).Hash"); h != nil {
		ph, rh := c.Calls(h, ct+".prefixedRlpHash"), c.Calls(h, ct+".rlpHash")
		c.Expect(1, len(ph), "prefixedRlpHash in Hash")
		c.Expect(1, len(rh), "rlpHash in Hash")
		c.ArgIs("typed-prefix", h, ph, "prefixedRlpHash(prefix)", 0, CallRes(TX+"Type"), "tx.Type()")
		c.ArgIs("typed-object", h, ph, "prefixedRlpHash(x)", 1, Mentions(inner), "tx.inner")
		c.ArgIs("legacy-object", h, rh, "rlpHash(x)", 0, Mentions(inner), "tx.inner")
		c.Dom("legacy-only", h, rh, "unprefixed hash", GCond("tx.Type() == LegacyTxType", h, Cmp(CallRes(TX+"Type"), token.EQL, ConstInt(0))))
		c.Dom("typed-only", h, ph, "prefixed hash", GCond("tx.Type() != LegacyTxType", h, Cmp(CallRes(TX+"Type"), token.NEQ, ConstInt(0))))
	}
	if et := c.Fn(ct, "(*Transaction).encodeTyped"); et != nil {
		wb := c.Calls(et, "(*bytes.Buffer).WriteByte")
		var enc []Site
		eachInstr(et, func(in ssa.Instruction) {
			if ci, ok := in.(ssa.CallInstruction); ok && ci.Common().IsInvoke() && ci.Common().Method.Name() == "encode" {
				enc = append(enc, Site{et, in})
			}
		})
		if c.Check(len(wb) == 1 && len(enc) == 1, "envelope/"+fnName(et), et.Pos(), "type byte then payload", "the typed envelope is not one type byte followed by the payload") {
			c.ArgIs("envelope-type", et, wb, "WriteByte", 0, CallRes(TX+"Type"), "tx.Type()")
			c.Check(instrDominates(wb[0].Instr, enc[0].Instr), "envelope-order/"+fnName(et), enc[0].Pos(), "the type byte precedes the payload", "the payload is written before the type byte")
			c.Check(inner(enc[0].Instr.(ssa.CallInstruction).Common().Value), "envelope-object/"+fnName(et), enc[0].Pos(), "the payload is tx.inner's encoding", "the payload is not encoded from tx.inner")
			c.ArgIs("envelope-buffer", et, enc, "inner.encode(w)", 0, Param("w"), "the same buffer")
		}
	}
	for _, name := range []string{"(*Transaction).MarshalBinary", "(*Transaction).EncodeRLP"} {
		f := c.Fn(ct, name)
		if f == nil {
			continue
		}
		leg := cat(c.Calls(f, "rlp.EncodeToBytes"), c.CallsWhere(f, "rlp.Encode", func(cc *ssa.CallCommon) bool { return Mentions(inner)(cc.Args[1]) }))
		typ := c.Calls(f, TX+"encodeTyped")
		if c.Check(len(leg) == 1 && len(typ) == 1, "arms/"+fnName(f), f.Pos(), "legacy and typed arms", "the encoder lost its legacy or its typed arm") {
			c.Dom("legacy-arm/"+name, f, leg, "plain RLP of inner", GCond("tx.Type() == LegacyTxType", f, Cmp(CallRes(TX+"Type"), token.EQL, ConstInt(0))))
			c.Dom("typed-arm/"+name, f, typ, "typed envelope", GCond("tx.Type() != LegacyTxType", f, Cmp(CallRes(TX+"Type"), token.NEQ, ConstInt(0))))
			for _, s := range leg {
				a := s.Instr.(*ssa.Call).Call.Args
				c.Check(Mentions(inner)(a[len(a)-1]), "legacy-object/"+fnName(f), s.Pos(), "the legacy encoding is the RLP of tx.inner", "the legacy encoding is not taken from tx.inner")
			}
		}
	}
	// each non-blob encode serialises its own receiver
	ne := 0
	for _, n := range names {
		f := c.TryFn(ct, "(*"+n+").encode")
		if f == nil || n == "BlobTx" || n == "LegacyTx" {
			continue // the legacy type is never wrapped in a typed envelope (its encode panics)
		}
		ne++
		en := c.Calls(f, "rlp.Encode")
		if c.Check(len(en) == 1, "encode/"+n, f.Pos(), "one rlp.Encode", n+".encode does not consist of one rlp.Encode") {
			c.ArgIs("encode-self/"+n, f, en, "rlp.Encode(x)", 1, Mentions(func(v ssa.Value) bool { _, ok := v.(*ssa.Parameter); return ok && v.Name() == "tx" }), "the receiver")
			c.ArgIs("encode-buffer/"+n, f, en, "rlp.Encode(w)", 0, Mentions(Param("b")), "the given buffer")
		}
	}
	c.Expect(3, ne, "non-blob encode methods")

	// ---- blob sidecar ------------------------------------------------------------------------------------
	c.Rule("TAG/C02.sidecar")
	if _, st := c.Struct(ct, "BlobTx"); st != nil {
		for i := 0; i < st.NumFields(); i++ {
			if st.Field(i).Name() == "Sidecar" {
				tag := reflect.StructTag(st.Tag(i)).Get("rlp")
				c.Check(tag == "-", "excluded", st.Field(i).Pos(), "the sidecar is excluded from the canonical RLP (and therefore from the hash)", "BlobTx.Sidecar is not tagged rlp:\"-\": hash and canonical encoding would include the sidecar")
			}
		}
	}
	c.Rule("SIBLING/C02.versions")
	SC := ct + ".BlobTxSidecar."
	if en := c.Fn(ct, "(*BlobTx).encode"); en != nil {
		c.Funcs[en] = true
		ver := FieldOf(SC+"Version", Any())
		for _, s := range c.Calls(en, "rlp.Encode") {
			x := s.Instr.(*ssa.Call).Call.Args[1]
			mi, _ := x.(*ssa.MakeInterface)
			tn := ""
			if mi != nil {
				if n := derefNamed(mi.X.Type()); n != nil {
					tn = n.Obj().Name()
				}
			}
			switch tn {
			case "BlobTx":
				c.Dom("plain", en, []Site{s}, "canonical encoding", GCond("no sidecar", en, Cmp(Fld(ct+".BlobTx.Sidecar"), token.EQL, Nil())))
			case "blobTxWithBlobsV0":
				c.Dom("v0", en, []Site{s}, "v0 wrapper", GCond("Sidecar.Version == 0", en, Cmp(ver, token.EQL, ConstInt(0))))
			case "blobTxWithBlobsV1":
				c.Dom("v1", en, []Site{s}, "v1 wrapper", GCond("Sidecar.Version == 1", en, Cmp(ver, token.EQL, ConstInt(1))))
			default:
				c.Bad("wrapper/"+fnName(en), s.Pos(), "BlobTx.encode serialises an unexpected wrapper type "+tn)
			}
		}
		c.Expect(3, len(c.Calls(en, "rlp.Encode")), "encodings in BlobTx.encode")
		// every field of the sidecar is carried by each wrapper literal
		for _, w := range []string{"blobTxWithBlobsV0", "blobTxWithBlobsV1"} {
			_, wst := c.Struct(ct, w)
			for i := 0; wst != nil && i < wst.NumFields(); i++ {
				fn := wst.Field(i).Name()
				st := c.Stores(en, ct+"."+w+"."+fn)
				if !c.Check(len(st) == 1, "wrapper-field/"+w+"."+fn, en.Pos(), "the wrapper field is filled", "BlobTx.encode leaves "+w+"."+fn+" unset") {
					continue
				}
				v := st[0].Instr.(*ssa.Store).Val
				want := Param("tx")
				if fn != "BlobTx" {
					want = FieldOf(SC+fn, Any())
				}
				c.Check(want(v), "wrapper-value/"+w+"."+fn, st[0].Pos(), "filled from the transaction / the same-named sidecar field", w+"."+fn+" is filled from a different source")
			}
		}
	}
	for _, w := range []struct {
		name string
		ver  int64
	}{{"blobTxWithBlobsV0", 0}, {"blobTxWithBlobsV1", 1}} {
		f := c.Fn(ct, "(*"+w.name+").assign")
		if f == nil {
			continue
		}
		c.Funcs[f] = true
		vs := c.Stores(f, SC+"Version")
		if c.Check(len(vs) == 1, "assign-version/"+w.name, f.Pos(), "the decoded sidecar's version is set", "assign does not set the sidecar version") {
			v := vs[0].Instr.(*ssa.Store).Val
			okV := ConstInt(w.ver)(v)
			if w.ver == 1 && !okV {
				// the wrapper's own version field, but only behind an exact equality test
				okV = Fld(ct + "." + w.name + ".Version")(v)
			}
			c.Check(okV, "assign-version-value/"+w.name, vs[0].Pos(), "the version set matches the wrapper format", "the "+w.name+" wrapper yields a sidecar version other than the one that re-encodes in this wrapper")
		}
		if w.ver == 1 {
			c.Dom("assign-exact", f, c.SuccessReturns(f), "accept", GCond("Version == 1", f, Cmp(Fld(ct+"."+w.name+".Version"), token.EQL, ConstInt(1))))
		}
		for _, fld := range []string{"Blobs", "Commitments", "Proofs"} {
			st := c.Stores(f, SC+fld)
			c.Check(len(st) == 1 && Fld(ct+"."+w.name+"."+fld)(st[0].Instr.(*ssa.Store).Val), "assign-field/"+w.name+"."+fld, f.Pos(), "the sidecar field is taken from the same-named wrapper field", "assign does not carry "+fld+" from the wrapper to the sidecar")
		}
	}
	if _, st := c.Struct(ct, "BlobTxSidecar"); st != nil {
		c.Expect(4, st.NumFields(), "fields of BlobTxSidecar (Version, Blobs, Commitments, Proofs)")
	}
	if de := c.Fn(ct, "(*BlobTx).decode"); de != nil {
		// wrapper chosen by the kind of the second element; decode error and assign error reject
		as := []Site{}
		eachInstr(de, func(in ssa.Instruction) {
			if ci, ok := in.(ssa.CallInstruction); ok && ci.Common().IsInvoke() && ci.Common().Method.Name() == "assign" {
				as = append(as, Site{de, in})
			}
		})
		c.Expect(1, len(as), "assign call in BlobTx.decode")
		for _, s := range as {
			c.Check(ErrCheckedSite(s), "assign-err/"+fnName(de), s.Pos(), "an unsupported version rejects the transaction", "assign's version error is ignored")
		}
		c.Dom("assigned", de, c.Stores(de, ct+".BlobTx.Sidecar"), "tx.Sidecar = sc", GErrChecked("assign succeeded", as))
	}

	// ---- sizes and sidecar stripping -------------------------------------------------------------------------
	c.Rule("SAMEVAL/C02.size")
	if ub := c.Fn(ct, "(*Transaction).UnmarshalBinary"); ub != nil {
		for _, s := range c.Calls(ub, TX+"setDecoded") {
			a := s.Instr.(*ssa.Call).Call.Args
			c.Check(Len(Param("b"))(stripConv(a[2])), "binary-size/"+fnName(ub), s.Pos(), "the cached size is the length of the bytes decoded", "the size cached after UnmarshalBinary is not len(b)")
		}
		c.Expect(2, len(c.Calls(ub, TX+"setDecoded")), "setDecoded calls in UnmarshalBinary")
		leg := c.Calls(ub, "rlp.DecodeBytes")
		c.Dom("legacy-detect", ub, leg, "legacy decoding", GCond("first byte > 0x7f", ub, Cmp(Any(), token.GTR, func(v ssa.Value) bool { return constIs(v, 0x7f) })))
	}
	if dr := c.Fn(ct, "(*Transaction).DecodeRLP"); dr != nil {
		for _, s := range c.Calls(dr, TX+"setDecoded") {
			a := s.Instr.(*ssa.Call).Call.Args
			sz := CallResN("(*rlp.Stream).Kind", 1)
			okS := sz(a[2]) || (CallRes("rlp.ListSize")(a[2]) && sz(a[2].(*ssa.Call).Call.Args[0]))
			c.Check(okS, "rlp-size/"+fnName(dr), s.Pos(), "the cached size derives from the size announced by the stream", "the size cached after DecodeRLP is not derived from the element's announced size")
		}
		rb := c.Calls(dr, "(*rlp.Stream).ReadBytes")
		c.Dom("typed-read", dr, c.Calls(dr, TX+"decodeTyped"), "decodeTyped", GErrChecked("payload read", rb))
	}
	if ws := c.Fn(ct, "(*Transaction).WithoutBlobTxSidecar"); ws != nil {
		// hash kept; size reduced by exactly the sidecar's list size
		okH, okS := false, false
		eachInstr(ws, func(in ssa.Instruction) {
			call, ok := in.(*ssa.Call)
			if !ok {
				return
			}
			n := calleeName(&call.Call)
			if strings.HasSuffix(n, ".Store") && strings.Contains(n, "atomic.Pointer") && CallRes("(*sync/atomic.Pointer[T]).Load")(call.Call.Args[1]) {
				okH = true
			}
			if n == "(*sync/atomic.Uint64).Store" {
				if b, ok := call.Call.Args[1].(*ssa.BinOp); ok && b.Op == token.SUB && CallRes("(*sync/atomic.Uint64).Load")(b.X) && CallRes("rlp.ListSize")(b.Y) {
					if ls, ok := b.Y.(*ssa.Call); ok && CallRes("(*"+ct+".BlobTxSidecar).encodedSize")(ls.Call.Args[0]) {
						okS = true
					}
				}
			}
		})
		c.Check(okH, "strip-keeps-hash/"+fnName(ws), ws.Pos(), "the hash cache is carried over (the hash does not depend on the sidecar)", "stripping the sidecar does not carry the cached hash over")
		c.Check(okS, "strip-size/"+fnName(ws), ws.Pos(), "the cached size shrinks by the sidecar's encoded list size", "stripping the sidecar does not reduce the cached size by ListSize(sidecar.encodedSize())")
	}

	// ---- copies ----------------------------------------------------------------------------------------
	c.Rule("FIELDCOV/C02.copy")
	for _, n := range names {
		T := c.Type(ct, n)
		f := c.TryFn(ct, "(*"+n+").copy")
		if T == nil || f == nil {
			continue
		}
		c.CovCopy("copy", f, T, true, ExFields(map[string]string{
			"To":         "pointer to a fixed-size address: copied through copyAddressPtr / value copy; an address is never mutated in place",
			"AccessList": "the tuples are copied by value into a fresh slice; their StorageKeys slices stay shared with the source, which is sound only because nothing writes elements of StorageKeys (WHO/C02.accesslist below)",
		}))
	}
	// the exemption above rests on this: access-list storage keys are never written in place
	c.Rule("WHO/C02.accesslist")
	nw := 0
	for _, f := range c.AllFuncs(ct) {
		eachInstr(f, func(in ssa.Instruction) {
			st, ok := in.(*ssa.Store)
			if !ok {
				return
			}
			ia, ok := st.Addr.(*ssa.IndexAddr)
			if !ok || !Fld(ct + ".AccessTuple.StorageKeys")(ia.X) {
				return
			}
			nw++
			c.Bad("write/"+fnName(f), st.Pos(), "an element of AccessTuple.StorageKeys is written in place: transaction copies share these slices")
		})
	}
	if nw == 0 {
		c.OK("write/none", token.NoPos, "no function of core/types writes an element of AccessTuple.StorageKeys")
	}
	c.Rule("FIELDCOV/C02.copy")
	if T := c.Type(ct, "BlobTxSidecar"); T != nil {
		c.CovCopy("copy", c.Fn(ct, "(*BlobTxSidecar).Copy"), T, true, nil)
	}
	_ = types.Typ
}
