package ctl

import "sync"

type box struct {
	mu   sync.RWMutex
	vals map[int]int
	n    int
}

func newBox() *box { return &box{vals: map[int]int{}} }

func (b *box) GoodGet(k int) int {
	b.mu.RLock()
	defer b.mu.RUnlock()
	return b.vals[k]
}

func (b *box) GoodSet(k, v int) {
	b.mu.Lock()
	b.setLocked(k, v)
	b.mu.Unlock()
}

// helper: requires the lock, all callers hold it
func (b *box) setLocked(k, v int) {
	b.vals[k] = v
	b.n++
}

// write under the read lock only
func (b *box) BadSetUnderRLock(k, v int) {
	b.mu.RLock()
	defer b.mu.RUnlock()
	b.vals[k] = v
}

// access after unlock
func (b *box) BadAfterUnlock() int {
	b.mu.Lock()
	b.n++
	b.mu.Unlock()
	return b.n
}

// calls the lock-requiring helper without the lock
func (b *box) BadHelperNoLock(k, v int) {
	b.setLocked(k, v)
}

// goroutine body touches state without the lock
func (b *box) BadGo() {
	b.mu.Lock()
	defer b.mu.Unlock()
	go func() {
		b.n++
	}()
}

// lock taken on one branch only
func (b *box) BadBranch(c bool) int {
	if c {
		b.mu.RLock()
		defer b.mu.RUnlock()
	}
	return b.n
}

type rec struct {
	id   int
	tags []string
	meta map[string]int
	next *rec
}

func (r *rec) goodCopy() *rec {
	cpy := &rec{id: r.id, next: r.next.goodCopy()}
	cpy.tags = append([]string(nil), r.tags...)
	cpy.meta = make(map[string]int)
	for k, v := range r.meta {
		cpy.meta[k] = v
	}
	return cpy
}

// forgets a field
func (r *rec) badCopyMissing() *rec {
	return &rec{id: r.id, tags: append([]string(nil), r.tags...), next: nil}
}

// aliases a map
func (r *rec) badCopyAlias() *rec {
	cpy := *r
	cpy.tags = append([]string(nil), r.tags...)
	cpy.next = nil
	return &cpy
}

func (r *rec) goodReset() {
	r.id = 0
	r.tags = r.tags[:0]
	clear(r.meta)
	r.next = nil
}

func (r *rec) badReset() {
	r.id = 0
	r.tags = r.tags[:0]
	r.next = nil
}

type bag struct {
	items map[int]*rec
	n     int
}

func (b *bag) goodBagCopy() *bag {
	c := &bag{items: make(map[int]*rec, len(b.items)), n: b.n}
	for k, v := range b.items {
		c.items[k] = v.goodCopy()
	}
	return c
}

// elements shared
func (b *bag) badBagCopyShared() *bag {
	c := &bag{items: make(map[int]*rec, len(b.items)), n: b.n}
	for k, v := range b.items {
		c.items[k] = v
	}
	return c
}

// container never filled
func (b *bag) badBagCopyEmpty() *bag {
	return &bag{items: make(map[int]*rec, len(b.items)), n: b.n}
}

type budget struct {
	left, used uint64
}

func (b *budget) goodSpend(n uint64) bool {
	if b.left < n {
		return false
	}
	b.left -= n
	b.used += n
	return true
}

// guard compares against a stale balance
func (b *budget) badSpendStale(n, fee uint64) bool {
	if b.left < n {
		return false
	}
	b.left -= fee
	b.left -= n
	return true
}

// no guard at all
func (b *budget) badSpendUnguarded(n uint64) {
	b.left -= n
}

func (b *budget) goodRepay(s uint64) {
	r := min(s, b.used)
	b.used -= r
}
