package ctl

import "sync"

type box struct {
	mu   sync.RWMutex
	vals map[int]int
	n    int
}

func newBox() *box { return &box{vals: map[int]int{}} }

func (b *box) GoodGet(k int) int {
	b.mu.RLock()
	defer b.mu.RUnlock()
	return b.vals[k]
}

func (b *box) GoodSet(k, v int) {
	b.mu.Lock()
	b.setLocked(k, v)
	b.mu.Unlock()
}

// helper: requires the lock, all callers hold it
func (b *box) setLocked(k, v int) {
	b.vals[k] = v
	b.n++
}

// write under the read lock only
func (b *box) BadSetUnderRLock(k, v int) {
	b.mu.RLock()
	defer b.mu.RUnlock()
	b.vals[k] = v
}

// access after unlock
func (b *box) BadAfterUnlock() int {
	b.mu.Lock()
	b.n++
	b.mu.Unlock()
	return b.n
}

// calls the lock-requiring helper without the lock
func (b *box) BadHelperNoLock(k, v int) {
	b.setLocked(k, v)
}

// goroutine body touches state without the lock
func (b *box) BadGo() {
	b.mu.Lock()
	defer b.mu.Unlock()
	go func() {
		b.n++
	}()
}

// lock taken on one branch only
func (b *box) BadBranch(c bool) int {
	if c {
		b.mu.RLock()
		defer b.mu.RUnlock()
	}
	return b.n
}
