module ctl

go 1.24
