// Package ctl holds the positive controls of the checker: for each engine one
// conforming (good*) and at least one violating (bad*) function.
package ctl

import "errors"

var errX = errors.New("x")

func check(x int) error {
	if x > 0 {
		return errX
	}
	return nil
}

var sink int

func effect() { sink++ }

func goodDom(x int) error {
	if err := check(x); err != nil {
		return err
	}
	effect()
	return nil
}

// error looked at but not rejecting
func badDomIgnored(x int) error {
	if err := check(x); err != nil {
		sink--
	}
	effect()
	return nil
}

// check only on one arm
func badDomArm(x int) error {
	if x > 3 {
		if err := check(x); err != nil {
			return err
		}
	}
	effect()
	return nil
}

// effect moved before the check
func badDomOrder(x int) error {
	effect()
	if err := check(x); err != nil {
		return err
	}
	return nil
}

func goodCond(a, b []int) error {
	if len(a) != len(b) {
		return errX
	}
	effect()
	return nil
}

func badCond(a, b []int) error {
	if len(a) == len(b) {
		return errX
	}
	effect()
	return nil
}
