package main

func init() {
	addControl("CTL.fieldcov", func(c *Ctx) {
		T := c.Type("ctl", "rec")
		for _, n := range []string{"goodCopy", "badCopyMissing", "badCopyAlias"} {
			c.CovCopy("copy", c.Fn("ctl", "(*rec)."+n), T, true, nil)
		}
		for _, n := range []string{"goodReset", "badReset"} {
			c.CovReset("reset", c.Fn("ctl", "(*rec)."+n), T, nil)
		}
		B := c.Type("ctl", "bag")
		for _, n := range []string{"goodBagCopy", "badBagCopyShared", "badBagCopyEmpty"} {
			c.CovCopy("copy", c.Fn("ctl", "(*bag)."+n), B, true, nil)
		}
	}, "badCopyMissing", "badCopyAlias", "badReset", "badBagCopyShared", "badBagCopyEmpty")
}
