package main

import (
	"go/token"
	"go/types"

	"golang.org/x/tools/go/ssa"
)

// CANON/C05.google: in the pure-Go BN254 backend, field elements are big.Ints
// that are only sometimes reduced mod P. The point addition formulas decide
// "same point → use the doubling formula" by an exact zero test on a
// difference; that test is only meaningful when both operands are canonical
// residues (last written by Mod(·,P), or by a copy of such a value). A
// non-canonical operand makes the backend return a different result from
// gnark/cloudflare for the inputs that reach the equal-point case.
func init() {
	p := registry["C05"]
	if p == nil {
		return
	}
	p.Pkgs = append(p.Pkgs, "crypto/bn256/google")
	old := p.Run
	p.Run = func(c *Ctx) {
		old(c)
		c05canon(c)
	}
	p.Decided += " In the pure-Go BN254 backend, the operands of the differences whose exact zero test selects the doubling formula in curvePoint.Add and twistPoint.Add are canonical residues on every path (last written by Mod(·,P), by a copy of a canonical value, or — on the twist — by a gfP2 operation that leaves both coordinates canonical)."
	p.Rules += "; CANON reduced-before-exact-compare typestate in the google backend"
	p.MinObs += 8
}

// canonAnalysis tracks "last writer" of in-place updated pointer values inside
// one function.
type canonAnalysis struct {
	c     *Ctx
	f     *ssa.Function
	elem  string                       // "math/big.Int" or "crypto/bn256/google.gfP2"
	wr    map[string][]*ssa.Call       // key -> mutating calls
	canon func(cal *ssa.Function) bool // gfP2 level: callee leaves receiver canonical
}

func recvNamed(f *ssa.Function) string {
	if f == nil || f.Signature.Recv() == nil {
		return ""
	}
	n := derefNamed(f.Signature.Recv().Type())
	if n == nil || n.Obj().Pkg() == nil {
		return ""
	}
	return n.Obj().Pkg().Path() + "." + n.Obj().Name()
}

// isMutator: method of elem with pointer receiver returning the same pointer type.
func (a *canonAnalysis) isMutator(call *ssa.Call) *ssa.Function {
	cal := call.Call.StaticCallee()
	if cal == nil || cal.Signature.Recv() == nil {
		return nil
	}
	rn := recvNamed(cal)
	if !hasSuffix(rn, a.elem) {
		return nil
	}
	res := cal.Signature.Results()
	if res.Len() != 1 || !types.Identical(res.At(0).Type(), cal.Signature.Recv().Type()) {
		return nil
	}
	return cal
}

func hasSuffix(s, suf string) bool {
	return len(s) >= len(suf) && s[len(s)-len(suf):] == suf
}

// key identifies the storage a pointer value denotes.
func (a *canonAnalysis) key(v ssa.Value) string {
	for {
		if cl, ok := v.(*ssa.Call); ok && a.isMutator(cl) != nil {
			v = cl.Call.Args[0]
			continue
		}
		break
	}
	if u, ok := v.(*ssa.UnOp); ok && u.Op == token.MUL {
		if fa, ok := u.X.(*ssa.FieldAddr); ok {
			return "fld:" + a.key(fa.X) + "." + fieldAddrName(fa)
		}
	}
	return v.Name()
}

func newCanon(c *Ctx, f *ssa.Function, elem string) *canonAnalysis {
	a := &canonAnalysis{c: c, f: f, elem: elem, wr: map[string][]*ssa.Call{}}
	eachInstr(f, func(in ssa.Instruction) {
		if cl, ok := in.(*ssa.Call); ok && a.isMutator(cl) != nil {
			k := a.key(cl.Call.Args[0])
			a.wr[k] = append(a.wr[k], cl)
		}
	})
	return a
}

// lastWriters of key reaching `at`; ok=false when some path reaches `at`
// with no writer at all (no writer dominates it).
func (a *canonAnalysis) lastWriters(k string, at ssa.Instruction) ([]*ssa.Call, bool) {
	ws := a.wr[k]
	dom := false
	var out []*ssa.Call
	for _, w := range ws {
		if w == at {
			continue
		}
		if instrDominates(w, at) {
			dom = true
		}
		stop := map[ssa.Instruction]bool{}
		for _, o := range ws {
			if o != w && o != at {
				stop[o] = true
			}
		}
		if ReachesBefore(w, stop, nil, map[ssa.Instruction]bool{at: true}) != nil {
			out = append(out, w)
		}
	}
	return out, dom
}

func isGlobalP(v ssa.Value) bool {
	u, ok := v.(*ssa.UnOp)
	if !ok {
		return false
	}
	g, ok := u.X.(*ssa.Global)
	return ok && g.Name() == "P"
}

// canonAt: is the value stored under key canonical just before `at`?
// Returns the offending writer (or nil + reason).
func (a *canonAnalysis) canonAt(k string, at ssa.Instruction, depth int) (bool, string) {
	if depth > 6 {
		return false, "copy chain too deep"
	}
	ws, dom := a.lastWriters(k, at)
	if !dom || len(ws) == 0 {
		return false, "no write to " + k + " on some path"
	}
	for _, w := range ws {
		cal := a.isMutator(w)
		switch {
		case a.canon == nil && cal.Name() == "Mod" && len(w.Call.Args) == 3 && isGlobalP(w.Call.Args[2]):
		case cal.Name() == "Set" && len(w.Call.Args) == 2:
			if ok, why := a.canonAt(a.key(w.Call.Args[1]), w, depth+1); !ok {
				return false, why
			}
		case a.canon != nil && a.canon(cal):
		default:
			return false, "last written by " + cal.Name() + " at " + a.c.pos(w.Pos()) + " without reduction mod P"
		}
	}
	return true, ""
}

func c05canon(c *Ctx) {
	c.Rule("CANON/C05.google")
	g := "crypto/bn256/google"
	// gfP2 operations that leave both coordinates canonical
	memo := map[*ssa.Function]int{}
	var gfCanon func(cal *ssa.Function) bool
	gfCanon = func(cal *ssa.Function) bool {
		if v, ok := memo[cal]; ok {
			return v == 1
		}
		memo[cal] = 2
		if len(cal.Blocks) == 0 || len(cal.Params) == 0 {
			return false
		}
		a := newCanon(c, cal, "math/big.Int")
		okAll := true
		nret := 0
		for _, r := range c.Returns(cal) {
			nret++
			for _, fld := range []string{"x", "y"} {
				k := "fld:" + cal.Params[0].Name() + "." + g + ".gfP2." + fld
				if ok, _ := a.canonAt(k, r.Instr, 0); !ok {
					okAll = false
				}
			}
		}
		if okAll && nret > 0 {
			memo[cal] = 1
		}
		return memo[cal] == 1
	}
	n := 0
	check := func(fname, elem, test string, canon func(*ssa.Function) bool) {
		f := c.TryFn(g, fname)
		if f == nil {
			return
		}
		c.Funcs[f] = true
		a := newCanon(c, f, elem)
		a.canon = canon
		for _, s := range c.Calls(f, test) {
			call := s.Instr.(*ssa.Call)
			k := a.key(call.Call.Args[0])
			ws, _ := a.lastWriters(k, call)
			for _, w := range ws {
				cal := a.isMutator(w)
				if cal.Name() != "Sub" {
					continue // zero tests of other values are not equality decisions
				}
				n++
				for i, nm := range []string{"minuend", "subtrahend"} {
					ok, why := a.canonAt(a.key(w.Call.Args[1+i]), w, 0)
					name := fname + "/" + nm
					if ok {
						c.OK(name, w.Pos(), "operand of the difference tested for zero is a canonical residue on every path")
					} else {
						c.Bad(name, w.Pos(), "the "+nm+" of the difference whose zero test selects the doubling formula is not canonical: "+why+"; equal points are then not recognised and this backend disagrees with the others")
					}
				}
			}
		}
	}
	check("(*curvePoint).Add", "math/big.Int", "(*math/big.Int).Sign", nil)
	check("(*twistPoint).Add", g+".gfP2", "(*"+g+".gfP2).IsZero", gfCanon)
	c.Expect(4, n, "differences tested for zero in curvePoint.Add / twistPoint.Add")
}
