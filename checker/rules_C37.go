package main

import (
	"fmt"
	"go/token"
	"go/types"

	"golang.org/x/tools/go/ssa"
)

func init() {
	Register(&Prop{
		ID:   "C37",
		Pkgs: []string{"eth/gasestimator"},
		Decided: "every value that can reach Estimate's final `return hi` is a gas limit that was passed to execute() and came back not-failed with a nil error on the path taken (the capped allowance after the first full execution, the optimistic limit, or a bisection midpoint) — no unexecuted upper bound is ever returned; every lower bound `lo` is either usedGas-1 of the successful full execution or a limit whose execution failed; the 21000 short-cut is returned only after executing at 21000 successfully; the loop is left only when lo+1 >= hi or, with a positive ErrorRatio, by the ratio break; the first full execution runs at a limit that went through the per-transaction cap (Osaka, pre-Amsterdam), the balance allowance (with value and blob cost subtracted under guards) and the caller's gas cap, each as a min-shaped phi; the optimistic probe only lowers hi; execute() installs the probed limit on the message before running it, restores it afterwards, reports intrinsic-gas/limit-too-high errors as failed, and every probe runs on a fresh copy of the state.",
		NotDec: "that the program is gas-monotone (a property of the callee), the arithmetic of the optimistic limit and of the midpoint, and minimality as a value-level fact.",
		Rules:  "WITNESS over SSA φ-graph of hi/lo; DOM loop exits; CAP min-shaped φ chain; DOM/ARG rules in execute and run",
		MinObs: 19,
		Run:    c37,
	})
}

func c37(c *Ctx) {
	ge := "eth/gasestimator"
	est := c.Fn(ge, "Estimate")
	if est == nil {
		return
	}
	c.Funcs[est] = true
	execs := c.Calls(est, ge+".execute")
	c.Rule("WITNESS/C37")
	c.Expect(4, len(execs), "execute calls in Estimate")

	// per execute call: success edges and failure edges
	type probe struct {
		call *ssa.Call
		arg  ssa.Value
		ok   []map[Edge]bool // all must dominate: failed==false, err==nil
		fail []map[Edge]bool // failed==true, err==nil
	}
	var probes []probe
	for _, s := range execs {
		call := s.Instr.(*ssa.Call)
		fv := resultValues(call, 0)
		isF := func(v ssa.Value) bool { return fv[v] }
		probes = append(probes, probe{call: call, arg: call.Call.Args[3],
			ok:   []map[Edge]bool{EdgesWhere(est, False(isF)), ErrNilEdges(call)},
			fail: []map[Edge]bool{EdgesWhere(est, True(isF)), ErrNilEdges(call)}})
	}
	holdsAt := func(sets []map[Edge]bool, pred, to *ssa.BasicBlock) bool {
		for _, set := range sets {
			found := false
			for e := range set {
				if (e.From == pred && e.From.Succs[e.Succ] == to) || edgeDominates(e, pred) {
					found = true
				}
			}
			if !found {
				return false
			}
		}
		return true
	}
	var witnessed func(v ssa.Value, pred, to *ssa.BasicBlock, wantFail bool, seen map[*ssa.Phi]bool, extra func(ssa.Value) bool) (bool, string)
	witnessed = func(v ssa.Value, pred, to *ssa.BasicBlock, wantFail bool, seen map[*ssa.Phi]bool, extra func(ssa.Value) bool) (bool, string) {
		if extra != nil && extra(v) {
			return true, ""
		}
		for _, p := range probes {
			if p.arg == v || sameValue(p.arg, v) {
				sets := p.ok
				if wantFail {
					sets = p.fail
				}
				if holdsAt(sets, pred, to) {
					return true, ""
				}
			}
		}
		if phi, ok := v.(*ssa.Phi); ok {
			if seen[phi] {
				return true, ""
			}
			seen[phi] = true
			for i, e := range phi.Edges {
				if ok, why := witnessed(e, phi.Block().Preds[i], phi.Block(), wantFail, seen, extra); !ok {
					return false, why
				}
			}
			return true, ""
		}
		kind := "succeeded"
		if wantFail {
			kind = "failed"
		}
		return false, fmt.Sprintf("%s (%s) arrives from block %d without an execute() at that limit having %s on the path", valDesc(v), c.pos(v.Pos()), pred.Index, kind)
	}

	// the final return: non-constant first result with nil error
	var final *ssa.Return
	for _, r := range c.SuccessReturns(est) {
		ret := r.Instr.(*ssa.Return)
		v := retVal(ret, 0)
		if k, isConst := v.(*ssa.Const); isConst {
			if ConstInt(0)(v) {
				continue // 0 is never an estimate: these are the error exits whose error is a field load
			}
			// short-cut return of a constant limit (21000): the execution at exactly that limit succeeded
			okc := false
			for _, p := range probes {
				if pk, ok := p.arg.(*ssa.Const); ok && pk.Value != nil && k.Value != nil && pk.Value.ExactString() == k.Value.ExactString() {
					if len(ret.Block().Preds) == 1 && holdsAt(p.ok, ret.Block().Preds[0], ret.Block()) {
						okc = true
					}
				}
			}
			c.Check(okc, "const-return/"+fnName(est), r.Pos(), "the constant limit is returned only after executing at that limit without failure", "a constant gas limit is returned without a successful execution at that limit")
			continue
		}
		if final != nil {
			c.Undecided("final/"+fnName(est), r.Pos(), "more than one non-constant success return")
		}
		final = ret
		ok, why := true, ""
		if len(ret.Block().Preds) > 0 {
			// the return block has no probes of its own: judge the value at each way in
			for _, p := range ret.Block().Preds {
				if o, w := witnessed(v, p, ret.Block(), false, map[*ssa.Phi]bool{}, nil); !o {
					ok, why = false, w
				}
			}
		}
		c.Check(ok, "hi/"+fnName(est), r.Pos(), "every definition of the returned limit was executed successfully on its path", "an unverified upper bound can be returned: "+why)
	}
	if final == nil {
		c.Undecided("final/"+fnName(est), est.Pos(), "no non-constant success return found")
		return
	}
	// lo: the loop phi paired with hi in the loop condition lo+1 < hi
	hiPhi, _ := retVal(final, 0).(*ssa.Phi)
	var loPhi *ssa.Phi
	var loopIf *ssa.If
	if hiPhi != nil {
		for _, in := range hiPhi.Block().Instrs {
			if iff, ok := in.(*ssa.If); ok {
				if b, ok := iff.Cond.(*ssa.BinOp); ok && b.Op == token.LSS && b.Y == ssa.Value(hiPhi) {
					if add, ok := b.X.(*ssa.BinOp); ok && add.Op == token.ADD && ConstInt(1)(add.Y) {
						loPhi, _ = add.X.(*ssa.Phi)
						loopIf = iff
					}
				}
			}
		}
	}
	if loPhi == nil {
		c.Undecided("lo/"+fnName(est), final.Pos(), "loop condition lo+1 < hi not recognised")
	} else {
		usedMinus1 := func(v ssa.Value) bool {
			b, ok := v.(*ssa.BinOp)
			return ok && b.Op == token.SUB && Fld("core.ExecutionResult.UsedGas")(b.X) && ConstInt(1)(b.Y)
		}
		ok, why := true, ""
		for i, e := range loPhi.Edges {
			if o, w := witnessed(e, loPhi.Block().Preds[i], loPhi.Block(), true, map[*ssa.Phi]bool{loPhi: true}, usedMinus1); !o {
				ok, why = false, w
			}
		}
		c.Check(ok, "lo/"+fnName(est), loPhi.Pos(), "every lower bound is usedGas-1 or a limit whose execution failed", "a lower bound is adopted without a failed execution at that limit: "+why)
		// loop exits
		c.Rule("DOM/C37.exit")
		exitEdge := map[Edge]bool{{loopIf.Block(), 1}: true}
		g1 := Guard{Desc: "lo+1 >= hi", Steps: []Step{{Edges: exitEdge}}, Sites: 1}
		c.Dom("loop-exit", est, []Site{{est, final}}, "return hi", g1,
			GCond("opts.ErrorRatio > 0", est, Cmp(Fld(ge+".Options.ErrorRatio"), token.GTR, Any())))
	}

	// ---- caps before the first full execution ---------------------------------------------------------
	c.Rule("CAP/C37")
	var full *ssa.Call
	for _, p := range probes {
		if hiPhi != nil {
			for _, e := range hiPhi.Edges {
				if e == p.arg {
					if _, isPhi := p.arg.(*ssa.Phi); isPhi && full == nil {
						full = p.call
					}
				}
			}
		}
	}
	// the full execution is the one whose argument is the capped chain: it dominates the other non-constant probes
	for _, p := range probes {
		if _, isConst := p.arg.(*ssa.Const); isConst {
			continue
		}
		if full == nil || p.call.Block().Dominates(full.Block()) {
			full = p.call
		}
	}
	if full == nil {
		c.Undecided("full/"+fnName(est), est.Pos(), "first full execution not found")
		return
	}
	cur := full.Call.Args[3]
	steps := []struct {
		name  string
		cap   VPat
		skip  []Cond
		after string
	}{
		{"gascap", Param("gasCap"), []Cond{Cmp(Param("gasCap"), token.EQL, ConstInt(0))}, "the caller's gas cap"},
		{"allowance", func(v ssa.Value) bool {
			call, ok := v.(*ssa.Call)
			return ok && calleeName(&call.Call) == "(*github.com/holiman/uint256.Int).Uint64" && CallRes("(*github.com/holiman/uint256.Int).Div")(call.Call.Args[0])
		}, []Cond{Cmp(CallRes("(*github.com/holiman/uint256.Int).BitLen"), token.EQL, ConstInt(0)), False(CallRes("(*github.com/holiman/uint256.Int).IsUint64"))}, "what the balance can pay for"},
		{"maxtxgas", func(v ssa.Value) bool {
			k, ok := v.(*ssa.Const)
			return ok && k.Value != nil && k.Value.ExactString() == "16777216"
		}, []Cond{False(CallRes("(*params.ChainConfig).IsOsaka")), True(CallRes("(*params.ChainConfig).IsAmsterdam"))}, "the per-transaction gas cap (EIP-7825)"},
	}
	for _, st := range steps {
		phi, ok := cur.(*ssa.Phi)
		if !ok {
			c.Bad(st.name+"/"+fnName(est), full.Pos(), "the limit of the first full execution is not capped by "+st.after+" (no min-shaped merge found at this point of the chain)")
			break
		}
		var x ssa.Value
		nCap := 0
		for _, e := range phi.Edges {
			if st.cap(e) {
				nCap++
			} else if x == nil {
				x = e
			} else if x != e {
				x = nil
				break
			}
		}
		if nCap == 0 || x == nil {
			c.Bad(st.name+"/"+fnName(est), phi.Pos(), "the limit of the first full execution is not capped by "+st.after)
			break
		}
		isX := Is(x)
		okAll := true
		leq := EdgesWhere(est, Cmp(isX, token.LEQ, st.cap))
		gtr := EdgesWhere(est, Cmp(isX, token.GTR, st.cap))
		for i, e := range phi.Edges {
			pred := phi.Block().Preds[i]
			if st.cap(e) {
				if !holdsAt([]map[Edge]bool{gtr}, pred, phi.Block()) {
					okAll = false
				}
				continue
			}
			good := holdsAt([]map[Edge]bool{leq}, pred, phi.Block())
			for _, sk := range st.skip {
				if holdsAt([]map[Edge]bool{EdgesWhere(est, sk)}, pred, phi.Block()) {
					good = true
				}
			}
			if !good {
				okAll = false
			}
		}
		c.Check(okAll, st.name+"/"+fnName(est), phi.Pos(), "min-shaped: the uncapped value survives only where it is <= "+st.after+" (or the cap does not apply)", "the limit can exceed "+st.after+" on some path to the first execution")
		cur = x
	}
	// allowance arithmetic is guarded
	subs := c.CallsWhere(est, "(*github.com/holiman/uint256.Int).Sub", func(cc *ssa.CallCommon) bool { return true })
	c.Expect(2, len(subs), "balance subtractions")
	for _, s := range subs {
		arg := s.Instr.(*ssa.Call).Call.Args[2]
		c.Dom("CAP/C37/funds", est, []Site{s}, "available.Sub",
			GCond("cost < available", est, Cmp(func(v ssa.Value) bool {
				cl, ok := v.(*ssa.Call)
				return ok && calleeName(&cl.Call) == "(*github.com/holiman/uint256.Int).Cmp" && sameValue(cl.Call.Args[0], arg)
			}, token.LSS, ConstInt(0))))
	}
	// the optimistic probe only lowers hi
	for _, p := range probes {
		if p.call == full {
			continue
		}
		if _, isConst := p.arg.(*ssa.Const); isConst {
			continue
		}
		if hiPhi != nil && p.call.Block() != hiPhi.Block() && !hiPhi.Block().Dominates(p.call.Block()) {
			c.Dom("CAP/C37/optimistic", est, []Site{{est, p.call}}, "optimistic execute",
				GCond("optimisticGasLimit < hi", est, Cmp(Is(p.arg), token.LSS, Is(full.Call.Args[3]))))
		}
	}

	// ---- execute / run ---------------------------------------------------------------------------------
	c.Rule("DOM/C37.execute")
	if ex := c.Fn(ge, "execute"); ex != nil {
		runs := c.Calls(ex, ge+".run")
		set := c.Stores(ex, "core.Message.GasLimit")
		var inst []Site
		for _, s := range set {
			if Param("gasLimit")(s.Instr.(*ssa.Store).Val) {
				inst = append(inst, s)
			}
		}
		c.Dom("limit-installed", ex, runs, "run", GSites("call.GasLimit = gasLimit", inst))
		// every return after a run error reports failure
		for _, r := range c.Returns(ex) {
			ret := r.Instr.(*ssa.Return)
			if ret.Block() == ex.Recover {
				continue // only reached after a recovered panic; there is no recover() here
			}
			v := retVal(ret, 0)
			if ConstBool(true)(v) {
				c.OK("failed-flag/"+fnName(ex), r.Pos(), "reports failure")
				continue
			}
			okv := CallRes("(*core.ExecutionResult).Failed")(v)
			c.Check(okv, "failed-flag/"+fnName(ex), r.Pos(), "the failed flag is the execution result's own", "execute reports success without consulting the execution result")
			if okv {
				c.Dom("failed-flag-noerr", ex, []Site{r}, "non-failed return", GErrChecked("run succeeded", runs))
			}
		}
		// the deferred restore puts the caller's limit back
		var defers []Site
		eachInstr(ex, func(in ssa.Instruction) {
			if d, ok := in.(*ssa.Defer); ok {
				if fn, ok := d.Call.Value.(*ssa.Function); ok && len(c.Stores(fn, "core.Message.GasLimit")) == 1 {
					defers = append(defers, Site{ex, in})
				} else if mc, ok := d.Call.Value.(*ssa.MakeClosure); ok {
					if fn, ok := mc.Fn.(*ssa.Function); ok && len(c.Stores(fn, "core.Message.GasLimit")) == 1 {
						defers = append(defers, Site{ex, in})
					}
				}
			}
		})
		c.Dom("limit-restored", ex, inst, "call.GasLimit = gasLimit", GSites("defer restore of the caller's gas limit", defers))
	}
	if rn := c.Fn(ge, "run"); rn != nil {
		ne := c.Calls(rn, "core/vm.NewEVM")
		c.ArgIs("fresh-state", rn, ne, "vm.NewEVM(statedb)", 1, CallRes("(*core/state.StateDB).Copy"), "a copy of opts.State (each probe starts from the same state)")
		am := c.Calls(rn, "core.ApplyMessage")
		c.ArgIs("msg", rn, am, "core.ApplyMessage(msg)", 1, Param("call"), "the message carrying the probed gas limit")
		_ = types.Typ
	}
}
