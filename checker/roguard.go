package main

import (
	"fmt"
	"go/ast"
	"go/token"
	"go/types"
	"sort"
	"strings"

	"golang.org/x/tools/go/packages"
	"golang.org/x/tools/go/ssa"
)

// ROGUARD — every opcode whose execute function can mutate state is behind a
// read-only reject, either in execute itself or in every dynamicGas function
// that any jump table binds to that opcode (the interpreter calls dynamicGas,
// error tested, before execute: rule ORDER/C27.run).

// gasChain resolves a gasFunc expression to the layered functions it runs:
// outermost first. `gasCallEIP2929` -> [makeCallVariantGasCallEIP2929$1,
// makeCallVariantGasCost$1, gasCallIntrinsic].
func gasChain(c *Ctx, pkg *packages.Package, e ast.Expr, depth int) ([]*ssa.Function, bool) {
	if depth > 6 {
		return nil, false
	}
	info := pkg.TypesInfo
	switch x := e.(type) {
	case *ast.Ident:
		switch obj := info.Uses[x].(type) {
		case *types.Func:
			f := c.Prog.FuncValue(obj)
			return []*ssa.Function{f}, f != nil && len(f.Blocks) > 0
		case *types.Var:
			// package-level variable: find its initialiser
			for _, file := range pkg.Syntax {
				for _, d := range file.Decls {
					gd, ok := d.(*ast.GenDecl)
					if !ok || gd.Tok != token.VAR {
						continue
					}
					for _, sp := range gd.Specs {
						vs := sp.(*ast.ValueSpec)
						for i, n := range vs.Names {
							if info.Defs[n] == obj && i < len(vs.Values) {
								return gasChain(c, pkg, vs.Values[i], depth+1)
							}
						}
					}
				}
			}
		}
	case *ast.CallExpr:
		id, ok := x.Fun.(*ast.Ident)
		if !ok {
			return nil, false
		}
		fo, ok := info.Uses[id].(*types.Func)
		if !ok {
			return nil, false
		}
		maker := c.Prog.FuncValue(fo)
		if maker == nil || len(maker.AnonFuncs) != 1 {
			return nil, false
		}
		chain := []*ssa.Function{maker.AnonFuncs[0]}
		for _, a := range x.Args {
			if tv, ok := info.Types[a]; ok {
				if _, isFn := tv.Type.Underlying().(*types.Signature); isFn {
					inner, ok := gasChain(c, pkg, a, depth+1)
					if !ok {
						return nil, false
					}
					chain = append(chain, inner...)
				}
			}
		}
		return chain, true
	}
	return nil, false
}

// roEdges: edges on which the frame is known not to be read-only, plus (for
// value-conditional opcodes) edges on which the transferred value is zero.
func roGuards(f *ssa.Function, valueConditional bool) []Guard {
	gs := []Guard{GCond("!evm.readOnly", f, False(Fld(vmp+".EVM.readOnly")))}
	if valueConditional {
		isZero := CallRes("(*github.com/holiman/uint256.Int).IsZero")
		gs = append(gs, GCond("value.IsZero()", f, True(isZero)))
	}
	var out []Guard
	for _, g := range gs {
		if g.Sites > 0 {
			out = append(out, g)
		}
	}
	return out
}

// guardsAllSuccess: every non-error return of f passes one of the guards.
func guardsAllSuccess(c *Ctx, f *ssa.Function, valueConditional bool) bool {
	gs := roGuards(f, valueConditional)
	if len(gs) == 0 {
		return false
	}
	succ := c.SuccessReturns(f)
	if len(succ) == 0 {
		return true
	}
	return len(MustPass(f, succ, gs)) == 0
}

// layerPropagates: every non-error return of the wrapper either returns the
// error of a call through a captured function value (the inner gas function)
// or lies behind that call with its error known nil.
func layerPropagates(c *Ctx, f *ssa.Function) bool {
	var inner []Site
	for _, s := range c.Calls(f, "dynamic") {
		inner = append(inner, s)
	}
	eachInstr(f, func(in ssa.Instruction) {
		if call, ok := in.(*ssa.Call); ok {
			if _, isFV := call.Call.Value.(*ssa.FreeVar); isFV {
				inner = append(inner, Site{f, in})
			}
		}
	})
	if len(inner) == 0 {
		return false
	}
	prop := map[ssa.Value]bool{}
	for _, s := range inner {
		if call, ok := s.Instr.(*ssa.Call); ok {
			for v := range errValues(call) {
				prop[v] = true
			}
		}
	}
	gs := []Guard{GErrChecked("inner gas function", inner)}
	// Listed wrappers may also leave through a "guaranteed out of gas" exit:
	// they return a cost that an `x > contract.Gas.ExecutionGas` branch has
	// just shown to exceed the remaining gas, so the interpreter's charge
	// fails and execute is never reached.
	if _, ok := oogExitWrappers[fnName(f)]; ok {
		oog := GCond("cost > remaining execution gas", f, Cmp(Any(), token.GTR, Fld(vmp+".GasBudget.ExecutionGas")))
		if oog.Sites > 0 {
			gs = append(gs, oog)
		}
	}
	res := f.Signature.Results()
	for _, r := range c.SuccessReturns(f) {
		ev := retVal(r.Instr.(*ssa.Return), res.Len()-1)
		if prop[ev] {
			continue
		}
		if len(MustPass(f, []Site{r}, gs)) != 0 {
			return false
		}
	}
	return true
}

var oogExitWrappers = map[string]string{
	vmp + ".makeCallVariantGasEIP4762$1": "EIP-4762 witness gas: returns the wanted witness gas without consulting the inner calculator only when it exceeds contract.Gas.ExecutionGas, which makes the interpreter's charge fail",
}

// chainGuards: some layer of the chain rejects read-only frames on all its
// success exits, and every layer outside it propagates the inner error.
func chainGuards(c *Ctx, chain []*ssa.Function, valueConditional bool) (bool, string) {
	for i, f := range chain {
		c.Funcs[f] = true
		if guardsAllSuccess(c, f, valueConditional) {
			return true, fnName(f)
		}
		if i == len(chain)-1 || !layerPropagates(c, f) {
			return false, fnName(f)
		}
	}
	return false, ""
}

var roMutators = func() string {
	var s []string
	for _, m := range []string{"SetState", "SetTransientState", "AddLog", "SelfDestruct", "SelfDestruct6780", "AddBalance", "SubBalance", "SetCode", "SetNonce", "CreateAccount", "CreateContract"} {
		s = append(s, "("+vmp+".StateDB)."+m)
	}
	s = append(s, "(*"+vmp+".EVM).Create", "(*"+vmp+".EVM).Create2")
	return strings.Join(s, "|")
}()

func (c *Ctx) roGuard(pkg *packages.Package, binds []opBinding) {
	c.Rule("ROGUARD/C29")
	type opInfo struct {
		name string
		exec map[*ssa.Function]token.Pos
		dyn  []ast.Expr
	}
	ops := map[int64]*opInfo{}
	for _, b := range binds {
		oi := ops[b.Op]
		if oi == nil {
			oi = &opInfo{name: b.OpName, exec: map[*ssa.Function]token.Pos{}}
			ops[b.Op] = oi
		}
		if e, ok := b.Fields["execute"]; ok {
			if fn, _, ok := resolveFuncExpr(c, pkg, e); ok {
				oi.exec[fn] = b.Pos
			}
		}
		if e, ok := b.Fields["dynamicGas"]; ok {
			oi.dyn = append(oi.dyn, e)
		}
	}
	var keys []int64
	for k := range ops {
		keys = append(keys, k)
	}
	sort.Slice(keys, func(i, j int) bool { return keys[i] < keys[j] })
	n := 0
	for _, k := range keys {
		oi := ops[k]
		var execs []*ssa.Function
		for fn := range oi.exec {
			execs = append(execs, fn)
		}
		sortFuncs(execs)
		for _, fn := range execs {
			muts := c.Calls(fn, roMutators)
			valueCalls := c.Calls(fn, "(*"+vmp+".EVM).Call")
			if len(muts) == 0 && len(valueCalls) == 0 {
				continue
			}
			n++
			c.Funcs[fn] = true
			valueConditional := len(muts) == 0
			construct := oi.name + "/" + fnName(fn)
			// (a) guarded inside execute
			gs := roGuards(fn, false)
			if len(gs) > 0 && len(muts) > 0 && len(MustPass(fn, muts, gs)) == 0 {
				c.OK(construct, oi.exec[fn], "every state mutation in execute is behind the evm.readOnly reject")
				continue
			}
			// (b) every dynamicGas ever bound to the opcode rejects
			if len(oi.dyn) == 0 {
				c.Bad(construct, oi.exec[fn], "execute mutates state, has no read-only reject, and the opcode has no dynamicGas function that could reject")
				continue
			}
			bad := ""
			var via []string
			for _, de := range oi.dyn {
				chain, ok := gasChain(c, pkg, de, 0)
				if !ok {
					bad = "cannot resolve dynamicGas expression " + types.ExprString(de)
					break
				}
				ok, where := chainGuards(c, chain, valueConditional)
				if !ok {
					bad = fmt.Sprintf("dynamicGas %s bound to %s does not reject read-only frames on every success exit (layer %s)", types.ExprString(de), oi.name, where)
					break
				}
				via = append(via, types.ExprString(de)+"→"+where)
			}
			if bad != "" {
				c.Bad(construct, oi.exec[fn], bad)
			} else {
				cond := "evm.readOnly"
				if valueConditional {
					cond = "evm.readOnly && value != 0"
				}
				c.OK(construct, oi.exec[fn], fmt.Sprintf("every dynamicGas bound to the opcode rejects %s: %s", cond, strings.Join(via, ", ")))
			}
		}
	}
	c.Expect(8, n, "state-mutating execute functions")
}
