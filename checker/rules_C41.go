package main

import (
	"go/token"
	"strings"

	"golang.org/x/tools/go/ssa"
)

func init() {
	Register(&Prop{
		ID:   "C41",
		Pkgs: []string{"core/txpool/legacypool"},
		Decided: "pool state (pending set, queue contents, price heaps, current state, pending nonces, drop counter) is touched only under LegacyPool.mu (writes under the write lock), the lookup index only under its own lock, the virtual nonces under the noncer lock; every mutation of a SortedMap's items invalidates (or re-slices) its sorted cache in the same function, under cacheMu; every transaction added to the lookup index is also put on the price heap and every removal from the index is matched by priced.Removed before the function returns; heap-ordered index slices are re-established (heap.Init/Push/Pop/Remove) after element changes.",
		NotDec: "nonce contiguity, affordability, replacement price bump and limit invariants of the pool contents (value-level over histories).",
		Rules:  "LOCKSET over core/txpool/legacypool; PAIR items-mutation ↔ cache invalidation per SortedMap method; PAIR all.Add ↔ priced.Put and all.Remove ↔ priced.Removed per function",
		MinObs: 170,
		Run:    c41,
	})
}

func c41(c *Ctx) {
	lp := "core/txpool/legacypool"
	P := lp + ".LegacyPool."
	c.Lockset(LockSpec{Name: "C41.pool", Pkg: lp, Mutex: P + "mu", RW: true,
		Fields: []string{P + "pending", P + "currentState", P + "pendingNonces", P + "changesSinceReorg",
			lp + ".queue.queued", lp + ".queue.beats", lp + ".pricedList.urgent", lp + ".pricedList.floating"},
		Exempt: map[string]string{
			"(*" + lp + ".LegacyPool).Init": "initialisation: runs before the pool's goroutines are started and before the pool is handed to the tx pool",
			lp + ".New":                       "constructor",
			lp + ".newQueue":                  "constructor",
			lp + ".newPricedList":             "constructor",
		},
		Held: map[string]string{
			"(*" + lp + ".LegacyPool).validateTx$1": "callback stored in the validation options and invoked synchronously by txpool.ValidateTransactionWithState inside validateTx, which runs under pool.mu",
			"(*" + lp + ".LegacyPool).validateTx$2": "as validateTx$1",
		},
		MinSites: 60})
	c.Lockset(LockSpec{Name: "C41.lookup", Pkg: lp, Mutex: lp + ".lookup.lock", RW: true,
		Fields: []string{lp + ".lookup.txs", lp + ".lookup.slots", lp + ".lookup.auths"},
		Exempt: map[string]string{lp + ".newLookup": "constructor"}, MinSites: 10})
	c.Lockset(LockSpec{Name: "C41.noncer", Pkg: lp, Mutex: lp + ".noncer.lock",
		Fields: []string{lp + ".noncer.nonces"}, Exempt: map[string]string{lp + ".newNoncer": "constructor"}, MinSites: 4})
	c.Lockset(LockSpec{Name: "C41.cache", Pkg: lp, Mutex: lp + ".SortedMap.cacheMu",
		Fields: []string{lp + ".SortedMap.cache"}, Exempt: map[string]string{lp + ".NewSortedMap": "constructor"}, MinSites: 8})

	// ---- sorted cache follows the items -------------------------------------------------------------
	c.Rule("PAIR/C41.cache")
	sm := lp + ".SortedMap."
	n := 0
	for _, f := range c.AllFuncs(lp) {
		if !strings.HasPrefix(fnName(f), "(*"+lp+".SortedMap).") {
			continue
		}
		w := cat(c.MapWrites(f, sm+"items", false), c.MapWrites(f, sm+"items", true))
		if len(w) == 0 {
			continue
		}
		n += len(w)
		cacheStores := c.Stores(f, sm+"cache")
		nilCache := EdgesWhere(f, Cmp(Fld(sm+"cache"), token.EQL, Nil()))
		// filter(): invalidation is skipped only when nothing was removed
		if f.Name() == "filter" {
			for e := range EdgesWhere(f, Cmp(Len(Any()), token.LEQ, ConstInt(0))) {
				nilCache[e] = true
			}
		}
		for _, x := range w {
			hit := ReachesBefore(x.Instr, sitesToSet(cacheStores), nilCache, sitesToSet(c.Returns(f)))
			c.Check(len(cacheStores) > 0 && hit == nil, "invalidate/"+fnName(f), x.Pos(), "the sorted cache is reset or re-sliced before the function returns", "items changes but the sorted cache may keep serving the old transactions (Flatten/LastElement would return stale data)")
		}
	}
	c.Expect(6, n, "SortedMap.items mutations")

	// ---- lookup index and price heap move together ------------------------------------------------------
	c.Rule("PAIR/C41.index")
	na := 0
	for _, f := range c.AllFuncs(lp) {
		adds := c.CallsRecv(f, "(*"+lp+".lookup).Add", Fld(P+"all"))
		if len(adds) > 0 {
			na += len(adds)
			c.Followed("add", f, adds, "pool.all.Add(tx)", c.Calls(f, "(*"+lp+".pricedList).Put"), "pool.priced.Put(tx)", c.Returns(f))
		}
		rms := c.CallsRecv(f, "(*"+lp+".lookup).Remove", Fld(P+"all"))
		if len(rms) > 0 {
			na += len(rms)
			rmd := c.Calls(f, "(*"+lp+".pricedList).Removed")
			// removeTx(hash, outofbound=false, …) is used by callers that popped the
			// transaction off the price heap themselves (Discard): nothing is stale then
			skip := EdgesWhere(f, False(Param("outofbound")))
			for _, r := range rms {
				hit := ReachesBefore(r.Instr, sitesToSet(rmd), skip, sitesToSet(c.Returns(f)))
				c.Check(hit == nil, "remove/"+fnName(f), r.Pos(), "pool.priced.Removed(n) follows on every path to return", "a transaction leaves the lookup index without the price heap's stale counter being told (Removed)")
			}
		}
	}
	c.Expect(12, na, "index add/remove sites")
	_ = ssa.NaiveForm
}
