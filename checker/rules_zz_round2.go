package main

import (
	"fmt"
	"go/token"

	"golang.org/x/tools/go/ssa"
)

// Rules added after the second round of independently seeded changes
// (seeded/<id>-r2) was run against the rule set and a change was missed.
// SEEDS.md marks them "after".

func extendProp(id string, decided string, pkgs []string, run func(c *Ctx)) {
	p := registry[id]
	if p == nil {
		return
	}
	old := p.Run
	p.Run = func(c *Ctx) {
		old(c)
		run(c)
	}
	p.Decided += " " + decided
	for _, pk := range pkgs {
		have := false
		for _, x := range p.Pkgs {
			if x == pk {
				have = true
			}
		}
		if !have {
			p.Pkgs = append(p.Pkgs, pk)
		}
	}
}

// errorReturns: returns whose idx-th result is not the nil constant.
func errorReturns(c *Ctx, f *ssa.Function, idx int) []Site {
	var out []Site
	for _, r := range c.Returns(f) {
		ret := r.Instr.(*ssa.Return)
		if idx < len(ret.Results) && !Nil()(retVal(ret, idx)) {
			out = append(out, r)
		}
	}
	return out
}

// RejectSet: every error return of f lies behind one of the audited reject
// conditions. An error return that does not is reported UNDECIDED, not
// violated: whether a new reject can fire on a genuine input is a value-level
// question, but it must not pass unnoticed (completeness clauses).
func (c *Ctx) RejectSet(name string, f *ssa.Function, idx int, min int, guards ...Guard) {
	c.Funcs[f] = true
	errs := errorReturns(c, f, idx)
	c.Expect(min, len(errs), "error returns of "+fnName(f))
	var present []Guard
	var gd string
	for _, g := range guards {
		if g.Sites > 0 {
			present = append(present, g)
			if gd != "" {
				gd += " | "
			}
			gd += g.Desc
		} else {
			c.Undecided(name+"/"+fnName(f)+"/audited-reject-missing", f.Pos(), "audited reject condition no longer found: "+g.Desc)
		}
	}
	if len(present) == 0 || len(errs) == 0 {
		return
	}
	bad := MustPass(f, errs, present)
	for _, t := range errs {
		construct := name + "/" + fnName(f) + "/reject"
		if path, isBad := bad[t.Instr]; isBad {
			c.Undecided(construct, t.Pos(), fmt.Sprintf("error return not behind any audited reject condition [%s] (witness path blocks %v): a reject was added or moved; inputs the property requires to be accepted may now be refused", gd, path))
		} else {
			c.OK(construct, t.Pos(), "behind an audited reject condition ["+gd+"]")
		}
	}
}

func init() {
	extendProp("C08", "VerifyProof refuses a proof only for a missing or an undecodable node: every error return lies behind one of these two audited conditions (a further reject is reported as undecided, since it may refuse genuine proofs).", nil, func(c *Ctx) {
		c.Rule("REJECTSET/C08.verify")
		f := c.Fn("trie", "VerifyProof")
		if f == nil {
			return
		}
		c.RejectSet("closed", f, 1, 2,
			GCond("proofDb.Get(wantHash)==nil", f, Cmp(CallResN("(ethdb.KeyValueReader).Get", 0), token.EQL, Nil())),
			GCond("decodeNode error", f, Cmp(CallResN("trie.decodeNode", 1), token.NEQ, Nil())))
	})
}

func init() {
	extendProp("C07", "Within the live-trie walkers (methods of *Trie), a node is decoded from a database blob only by resolveAndTrack, which records the blob as the path's previous value before decoding it; the one other decoder (Prove) never links the decoded node into the trie.", nil, func(c *Ctx) {
		c.Rule("WHO/C07.decode")
		dec := "trie.decodeNode|trie.decodeNodeUnsafe|trie.mustDecodeNode|trie.mustDecodeNodeUnsafe"
		n := 0
		for _, f := range c.AllFuncs("trie") {
			root := f
			for root.Parent() != nil {
				root = root.Parent()
			}
			if recvNamed(root) != modPrefix+"trie.Trie" {
				continue
			}
			for _, s := range c.Calls(f, dec) {
				n++
				c.Funcs[f] = true
				switch fnName(root) {
				case "(*trie.Trie).resolveAndTrack":
					call := s.Instr.(*ssa.Call)
					// the decoded blob is the one just recorded
					puts := c.Calls(f, "(*trie.PrevalueTracer).Put")
					okPut := false
					for _, p := range puts {
						pa := callArgs(&p.Instr.(*ssa.Call).Call)
						da := callArgs(&call.Call)
						if len(pa) == 2 && len(da) == 2 && sameValue(pa[1], da[1]) && Param("prefix")(pa[0]) && instrDominates(p.Instr, call) {
							okPut = true
						}
					}
					c.Check(okPut, "tracked/"+fnName(f), s.Pos(), "the blob is recorded under its path in the prevalue tracer before it is decoded", "resolveAndTrack decodes a blob that was not first recorded (under the node's path) in the prevalue tracer: the commit would report a wrong or empty previous value")
				case "(*trie.Trie).Prove":
					// decoded node must stay local: never stored into a node's child slot
					call := s.Instr.(*ssa.Call)
					linked := false
					var walk func(v ssa.Value, d int)
					seen := map[ssa.Value]bool{}
					walk = func(v ssa.Value, d int) {
						if seen[v] || d > 8 {
							return
						}
						seen[v] = true
						if refs := v.Referrers(); refs != nil {
							for _, r := range *refs {
								switch x := r.(type) {
								case *ssa.Store:
									if x.Val == v {
										addr := x.Addr
										if ia, ok := addr.(*ssa.IndexAddr); ok {
											addr = ia.X
										}
										if fa, ok := addr.(*ssa.FieldAddr); ok {
											if fn := fieldAddrName(fa); fn == "trie.shortNode.Val" || fn == "trie.fullNode.Children" {
												linked = true
											}
										}
									}
								case *ssa.Phi:
									walk(x, d+1)
								case *ssa.MakeInterface:
									walk(x, d+1)
								case *ssa.ChangeInterface:
									walk(x, d+1)
								}
							}
						}
					}
					walk(call, 0)
					c.Check(!linked, "local/"+fnName(f), s.Pos(), "the untracked decoded node stays local to the proof walk", "Prove stores an untracked decoded node into a trie node: later updates below it bypass the prevalue tracer")
				default:
					c.Bad("decoder/"+fnName(f), s.Pos(), fnName(f)+" decodes a node from a blob without going through resolveAndTrack: a node linked into the live trie this way is not recorded in the prevalue tracer, so a later commit reports an empty previous value and drops the deletion of its path")
				}
			}
		}
		c.Expect(2, n, "node decoders inside *Trie methods")
	})
}
