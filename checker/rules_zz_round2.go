package main

import (
	"fmt"
	"go/constant"
	"go/token"
	"go/types"
	"strings"

	"golang.org/x/tools/go/ssa"
)

// Rules added after the second round of independently seeded changes
// (seeded/<id>-r2) was run against the rule set and a change was missed.
// SEEDS.md marks them "after".

func extendProp(id string, decided string, pkgs []string, run func(c *Ctx)) {
	p := registry[id]
	if p == nil {
		return
	}
	old := p.Run
	p.Run = func(c *Ctx) {
		old(c)
		run(c)
	}
	p.Decided += " " + decided
	for _, pk := range pkgs {
		have := false
		for _, x := range p.Pkgs {
			if x == pk {
				have = true
			}
		}
		if !have {
			p.Pkgs = append(p.Pkgs, pk)
		}
	}
}

// errorReturns: returns whose idx-th result is not the nil constant.
func errorReturns(c *Ctx, f *ssa.Function, idx int) []Site {
	var out []Site
	for _, r := range c.Returns(f) {
		ret := r.Instr.(*ssa.Return)
		if idx < len(ret.Results) && !Nil()(retVal(ret, idx)) {
			out = append(out, r)
		}
	}
	return out
}

// GErrFailed: the path takes the branch on which the error result of one of the
// calls is non-nil (the audited origin of an error return).
func GErrFailed(desc string, f *ssa.Function, ss []Site) Guard {
	edges := map[Edge]bool{}
	for _, s := range ss {
		call, ok := s.Instr.(*ssa.Call)
		if !ok {
			continue
		}
		isErr := func(v ssa.Value) bool {
			if v == ssa.Value(call) {
				return true
			}
			ex, ok := v.(*ssa.Extract)
			return ok && ex.Tuple == ssa.Value(call) && ex.Index == call.Type().(*types.Tuple).Len()-1
		}
		for e := range EdgesWhere(f, Cmp(isErr, token.NEQ, Nil())) {
			edges[e] = true
		}
	}
	return Guard{Desc: desc + " failed", Steps: []Step{{Edges: edges}}, Sites: len(edges)}
}

// returnsCallOf: the idx-th result of ret is directly the (error) result of one of the calls.
func returnsCallOf(ret *ssa.Return, idx int, ss []Site) bool {
	v := retVal(ret, idx)
	for _, s := range ss {
		if call, ok := s.Instr.(*ssa.Call); ok {
			if v == ssa.Value(call) {
				return true
			}
			if ex, ok := v.(*ssa.Extract); ok && ex.Tuple == ssa.Value(call) {
				return true
			}
		}
	}
	return false
}

// RejectSet: every error return of f lies behind one of the audited reject
// conditions. An error return that does not is reported UNDECIDED, not
// violated: whether a new reject can fire on a genuine input is a value-level
// question, but it must not pass unnoticed (completeness clauses).
func (c *Ctx) RejectSet(name string, f *ssa.Function, idx int, min int, guards ...Guard) {
	c.RejectSetDirect(name, f, idx, min, nil, guards...)
}

// RejectSetDirect additionally accepts a return that hands on the error result of one of `direct` unchanged.
func (c *Ctx) RejectSetDirect(name string, f *ssa.Function, idx int, min int, direct []Site, guards ...Guard) {
	c.Funcs[f] = true
	var errs []Site
	all := errorReturns(c, f, idx)
	c.Expect(min, len(all), "error returns of "+fnName(f))
	for _, r := range all {
		if returnsCallOf(r.Instr.(*ssa.Return), idx, direct) {
			c.OK(name+"/"+fnName(f)+"/reject", r.Pos(), "hands on the error of an audited call unchanged")
			continue
		}
		errs = append(errs, r)
	}
	var present []Guard
	var gd string
	for _, g := range guards {
		if g.Sites > 0 {
			present = append(present, g)
			if gd != "" {
				gd += " | "
			}
			gd += g.Desc
		} else {
			c.Undecided(name+"/"+fnName(f)+"/audited-reject-missing", f.Pos(), "audited reject condition no longer found: "+g.Desc)
		}
	}
	if len(present) == 0 || len(errs) == 0 {
		return
	}
	bad := MustPass(f, errs, present)
	for _, t := range errs {
		construct := name + "/" + fnName(f) + "/reject"
		if path, isBad := bad[t.Instr]; isBad {
			c.Undecided(construct, t.Pos(), fmt.Sprintf("error return not behind any audited reject condition [%s] (witness path blocks %v): a reject was added or moved; inputs the property requires to be accepted may now be refused", gd, path))
		} else {
			c.OK(construct, t.Pos(), "behind an audited reject condition ["+gd+"]")
		}
	}
}

func init() {
	extendProp("C08", "VerifyProof refuses a proof only for a missing or an undecodable node: every error return lies behind one of these two audited conditions (a further reject is reported as undecided, since it may refuse genuine proofs).", nil, func(c *Ctx) {
		c.Rule("REJECTSET/C08.verify")
		f := c.Fn("trie", "VerifyProof")
		if f == nil {
			return
		}
		c.RejectSet("closed", f, 1, 2,
			GCond("proofDb.Get(wantHash)==nil", f, Cmp(CallResN("(ethdb.KeyValueReader).Get", 0), token.EQL, Nil())),
			GCond("decodeNode error", f, Cmp(CallResN("trie.decodeNode", 1), token.NEQ, Nil())))
	})
}

func init() {
	extendProp("C07", "Within the live-trie walkers (methods of *Trie), a node is decoded from a database blob only by resolveAndTrack, which records the blob as the path's previous value before decoding it; the one other decoder (Prove) never links the decoded node into the trie.", nil, func(c *Ctx) {
		c.Rule("WHO/C07.decode")
		dec := "trie.decodeNode|trie.decodeNodeUnsafe|trie.mustDecodeNode|trie.mustDecodeNodeUnsafe"
		n := 0
		for _, f := range c.AllFuncs("trie") {
			root := f
			for root.Parent() != nil {
				root = root.Parent()
			}
			if recvNamed(root) != modPrefix+"trie.Trie" {
				continue
			}
			for _, s := range c.Calls(f, dec) {
				n++
				c.Funcs[f] = true
				switch fnName(root) {
				case "(*trie.Trie).resolveAndTrack":
					call := s.Instr.(*ssa.Call)
					// the decoded blob is the one just recorded
					puts := c.Calls(f, "(*trie.PrevalueTracer).Put")
					okPut := false
					for _, p := range puts {
						pa := callArgs(&p.Instr.(*ssa.Call).Call)
						da := callArgs(&call.Call)
						if len(pa) == 2 && len(da) == 2 && sameValue(pa[1], da[1]) && Param("prefix")(pa[0]) && instrDominates(p.Instr, call) {
							okPut = true
						}
					}
					c.Check(okPut, "tracked/"+fnName(f), s.Pos(), "the blob is recorded under its path in the prevalue tracer before it is decoded", "resolveAndTrack decodes a blob that was not first recorded (under the node's path) in the prevalue tracer: the commit would report a wrong or empty previous value")
				case "(*trie.Trie).Prove":
					// decoded node must stay local: never stored into a node's child slot
					call := s.Instr.(*ssa.Call)
					linked := false
					var walk func(v ssa.Value, d int)
					seen := map[ssa.Value]bool{}
					walk = func(v ssa.Value, d int) {
						if seen[v] || d > 8 {
							return
						}
						seen[v] = true
						if refs := v.Referrers(); refs != nil {
							for _, r := range *refs {
								switch x := r.(type) {
								case *ssa.Store:
									if x.Val == v {
										addr := x.Addr
										if ia, ok := addr.(*ssa.IndexAddr); ok {
											addr = ia.X
										}
										if fa, ok := addr.(*ssa.FieldAddr); ok {
											if fn := fieldAddrName(fa); fn == "trie.shortNode.Val" || fn == "trie.fullNode.Children" {
												linked = true
											}
										}
									}
								case *ssa.Phi:
									walk(x, d+1)
								case *ssa.MakeInterface:
									walk(x, d+1)
								case *ssa.ChangeInterface:
									walk(x, d+1)
								}
							}
						}
					}
					walk(call, 0)
					c.Check(!linked, "local/"+fnName(f), s.Pos(), "the untracked decoded node stays local to the proof walk", "Prove stores an untracked decoded node into a trie node: later updates below it bypass the prevalue tracer")
				default:
					c.Bad("decoder/"+fnName(f), s.Pos(), fnName(f)+" decodes a node from a blob without going through resolveAndTrack: a node linked into the live trie this way is not recorded in the prevalue tracer, so a later commit reports an empty previous value and drops the deletion of its path")
				}
			}
		}
		c.Expect(2, n, "node decoders inside *Trie methods")
	})
}

func init() {
	extendProp("C16", "When a diff layer is flattened, the frozen buffer reference handed to the new disk layer becomes nil only after the buffer being dropped was waited on (waitFlush, error tested) or was already nil: a frozen buffer whose flush may still be in flight stays visible to reads.", nil, func(c *Ctx) {
		c.Rule("ORDER/C16.frozen")
		pd := "triedb/pathdb"
		f := c.Fn(pd, "(*diskLayer).commit")
		if f == nil {
			return
		}
		c.Funcs[f] = true
		isFrozenAddr := func(v ssa.Value) bool {
			fa, ok := v.(*ssa.FieldAddr)
			return ok && fieldAddrName(fa) == pd+".diskLayer.frozen"
		}
		var targets []Site
		nCalls := 0
		for _, s := range c.Calls(f, pd+".newDiskLayer") {
			nCalls++
			args := s.Instr.(*ssa.Call).Call.Args
			arg := args[len(args)-1]
			switch x := arg.(type) {
			case *ssa.Const:
				targets = append(targets, s)
			case *ssa.Phi:
				for i, e := range x.Edges {
					if Nil()(e) {
						pb := x.Block().Preds[i]
						targets = append(targets, Site{f, pb.Instrs[len(pb.Instrs)-1]})
					}
				}
			case *ssa.UnOp:
				if !isFrozenAddr(x.X) {
					c.Undecided("source/"+fnName(f), s.Pos(), "the frozen buffer given to the new disk layer is neither the stale layer's field nor a local merged from audited assignments")
				}
			default:
				c.Undecided("source/"+fnName(f), s.Pos(), "the frozen buffer given to the new disk layer could not be traced")
			}
		}
		c.Expect(1, nCalls, "newDiskLayer in commit")
		eachInstr(f, func(in ssa.Instruction) {
			if st, ok := in.(*ssa.Store); ok && isFrozenAddr(st.Addr) && Nil()(st.Val) {
				targets = append(targets, Site{f, in})
			}
		})
		c.Expect(1, len(targets), "points at which the frozen reference becomes nil")
		waits := c.Calls(f, "(*"+pd+".buffer).waitFlush")
		c.Dom("nil-only-after-wait", f, targets, "frozen reference dropped",
			GErrChecked("frozen.waitFlush()", waits),
			GCond("dl.frozen == nil", f, Cmp(func(v ssa.Value) bool {
				u, ok := v.(*ssa.UnOp)
				return ok && isFrozenAddr(u.X)
			}, token.EQL, Nil())))
	})
}

func init() {
	extendProp("C15", "A stashed pre-transaction original (balance/nonce/code) is dropped on revert only when the journal holds no further entry of that kind for the account: every clearKind call is dominated by the per-kind counter reaching zero, the counter test is `c[kind] == 0` after the decrement, and the stash fields are written only by the stash helpers, clearKind and copy.", nil, func(c *Ctx) {
		c.Rule("DOM/C15.stash")
		cs := "core/state"
		n := 0
		for _, f := range c.AllFuncs(cs) {
			cl := c.Calls(f, "(*"+cs+".journalMutationState).clearKind")
			if len(cl) == 0 {
				continue
			}
			n += len(cl)
			c.Funcs[f] = true
			rm := c.Calls(f, "(*"+cs+".journalMutationCounts).remove")
			edges := map[Edge]bool{}
			for _, r := range rm {
				for e := range ResultTrueEdges(r.Instr.(*ssa.Call), 0) {
					edges[e] = true
				}
			}
			g := Guard{Desc: "counts.remove(kind) reported zero", Steps: []Step{{Edges: edges}}, Sites: len(edges)}
			c.Dom("cleared-only-at-zero", f, cl, "stashed original dropped", g)
			for _, s := range cl {
				call := s.Instr.(*ssa.Call)
				same := false
				for _, r := range rm {
					if sameValue(callArgs(&call.Call)[0], callArgs(&r.Instr.(*ssa.Call).Call)[0]) {
						same = true
					}
				}
				c.Check(same, "same-kind/"+fnName(f), s.Pos(), "the kind cleared is the kind whose counter was decremented", "clearKind is called for a different kind than the one whose counter reached zero")
			}
		}
		c.Expect(1, n, "clearKind call sites")
		if f := c.Fn(cs, "(*journalMutationCounts).remove"); f != nil {
			c.Funcs[f] = true
			ok := false
			for _, r := range c.Returns(f) {
				if b, isB := retVal(r.Instr.(*ssa.Return), 0).(*ssa.BinOp); isB && b.Op == token.EQL && constIs(b.Y, 0) {
					if u, isU := b.X.(*ssa.UnOp); isU {
						if ia, isIA := u.X.(*ssa.IndexAddr); isIA && Param("kind")(ia.Index) {
							ok = true
						}
					}
				}
			}
			c.Check(ok, "zero-test/"+fnName(f), f.Pos(), "reports exactly `c[kind] == 0` after the decrement", "journalMutationCounts.remove no longer reports c[kind] == 0: stashed originals are dropped while entries of the kind remain (or kept after the last is reverted)")
		}
	})
}

// loopBackEdges: last instructions of the blocks that jump back to header from inside its loop.
func loopBackEdges(f *ssa.Function, header *ssa.BasicBlock) []Site {
	var out []Site
	for _, p := range header.Preds {
		if header.Dominates(p) {
			out = append(out, Site{f, p.Instrs[len(p.Instrs)-1]})
		}
	}
	return out
}

func pendingAggregation(c *Ctx, rule string) {
		c.Rule(rule)
		cst := "core/state"
		fin := c.Fn(cst, "(*stateObject).finalise")
		if fin == nil {
			return
		}
		hs := rangeLoopHeadersMap(fin, func(v ssa.Value) bool { return matchField(fieldOfLoad(v), cst+".stateObject.dirtyStorage") })
		c.Expect(1, len(hs), "range loop over dirtyStorage in finalise")
		for _, h := range hs {
			var next *ssa.Next
			for _, in := range h.Instrs {
				if nx, ok := in.(*ssa.Next); ok {
					next = nx
				}
			}
			var writes []Site
			for _, w := range c.MapWrites(fin, cst+".stateObject.pendingStorage", false) {
				mu := w.Instr.(*ssa.MapUpdate)
				k, okK := mu.Key.(*ssa.Extract)
				v, okV := mu.Value.(*ssa.Extract)
				if okK && okV && k.Tuple == ssa.Value(next) && v.Tuple == ssa.Value(next) && k.Index == 1 && v.Index == 2 {
					writes = append(writes, w)
				}
			}
			c.Dom("every-dirty-slot", fin, loopBackEdges(fin, h), "end of one iteration", GSites("pendingStorage[key] = value", writes))
		}
		nd := 0
		for _, f := range c.AllFuncs(cst) {
			for _, d := range c.MapWrites(f, cst+".stateObject.pendingStorage", true) {
				nd++
				c.Bad("no-single-delete/"+fnName(f), d.Pos(), fnName(f)+" deletes a single entry from pendingStorage: a slot written earlier in the block and already hashed into the trie would then be read back from the stale origin")
			}
		}
		if nd == 0 {
			c.OK("no-single-delete", fin.Pos(), "no function of core/state deletes from pendingStorage")
		}
	}

const pendingDecided = "At the end of a transaction every dirty slot is aggregated into the pending set: each iteration of finalise's loop over dirtyStorage stores pendingStorage[key] = value (the loop's own key and value), and no pending entry is deleted individually anywhere (the set is only replaced wholesale after the trie update)."

func init() {
	extendProp("C13", pendingDecided, nil, func(c *Ctx) { pendingAggregation(c, "LOOPALL/C13.pending") })
	extendProp("C14", pendingDecided+" (Without it a slot already hashed into the trie is read back from the stale origin and is missing from the commit's storage set.)", []string{"core/state"}, func(c *Ctx) { pendingAggregation(c, "LOOPALL/C14.pending") })
}

func init() {
	extendProp("C11", "Every account reaches the account trie only after its stored storage root was compared with the root recomputed from its flat slots (so a stale root — including a non-empty root over no slots — is rewritten).", nil, func(c *Ctx) {
		c.Rule("DOM/C11.staleroot")
		f := c.Fn("triedb", "generatePartition")
		if f == nil {
			return
		}
		enc := c.CallsWhere(f, "rlp.EncodeToBytes", func(cc *ssaCall) bool {
			n := derefNamed(ifaceSrc(cc.Args[0]).Type())
			return n != nil && n.Obj().Name() == "StateAccount"
		})
		c.Expect(1, len(enc), "encoding of the (corrected) account in generatePartition")
		isRoot := func(v ssa.Value) bool {
			u, ok := v.(*ssa.UnOp)
			if !ok {
				return false
			}
			fa, ok := u.X.(*ssa.FieldAddr)
			return ok && fieldAddrName(fa) == "core/types.StateAccount.Root"
		}
		hash := CallRes("(*trie.StackTrie).Hash")
		edges := map[Edge]bool{}
		for _, op := range []token.Token{token.EQL, token.NEQ} {
			for e := range EdgesWhere(f, Cmp(hash, op, isRoot)) {
				edges[e] = true
			}
			for e := range EdgesWhere(f, Cmp(isRoot, op, hash)) {
				edges[e] = true
			}
		}
		g := Guard{Desc: "storageTrie.Hash() compared with account.Root", Steps: []Step{{Edges: edges}}, Sites: len(edges)}
		c.Dom("compared-before-use", f, enc, "account encoded for the account trie", g)
	})
}

func init() {
	extendProp("C10", "In hexToCompact the terminator flag of the first byte is derived from hasTerm(hex): a constant flag byte is stored only under the matching outcome of that test, and a computed `t<<5` takes t = 1 only from the branch where hasTerm held.", nil, func(c *Ctx) {
		c.Rule("DOM/C10.termflag")
		f := c.Fn("trie", "hexToCompact")
		if f == nil {
			return
		}
		c.Funcs[f] = true
		ht := c.Calls(f, "trie.hasTerm")
		tEdges, fEdges := map[Edge]bool{}, map[Edge]bool{}
		for _, s := range ht {
			call := s.Instr.(*ssa.Call)
			for e := range ResultTrueEdges(call, 0) {
				tEdges[e] = true
			}
			for e := range EdgesWhere(f, False(Is(call))) {
				fEdges[e] = true
			}
		}
		domBy := func(es map[Edge]bool, b *ssa.BasicBlock) bool {
			for e := range es {
				if edgeDominates(e, b) {
					return true
				}
			}
			return false
		}
		n := 0
		eachInstr(f, func(in ssa.Instruction) {
			st, ok := in.(*ssa.Store)
			if !ok {
				return
			}
			ia, ok := st.Addr.(*ssa.IndexAddr)
			if !ok || !constIs(ia.Index, 0) {
				return
			}
			name := "flag-store/" + fnName(f)
			switch v := st.Val.(type) {
			case *ssa.Const:
				n++
				bit := false
				if k, okc := constInt64(v); okc {
					bit = k&0x20 != 0
				}
				if bit {
					c.Check(domBy(tEdges, in.Block()), name, st.Pos(), "constant flag byte with the terminator bit is stored only where hasTerm(hex) held", "a flag byte with the terminator bit set is stored without hasTerm(hex) having been tested true: an unterminated path of that shape is encoded as a leaf")
				} else {
					c.Check(domBy(fEdges, in.Block()), name, st.Pos(), "constant flag byte without the terminator bit is stored only where hasTerm(hex) failed", "a flag byte without the terminator bit is stored without hasTerm(hex) having been tested false: a terminated path of that shape loses its leaf flag")
				}
			case *ssa.BinOp:
				if v.Op != token.SHL || !constIs(v.Y, 5) {
					// `buf[0] |= …` updates: must not introduce the terminator bit by a constant
					if v.Op == token.OR {
						if k, okc := constInt64(v.Y); okc && k&0x20 != 0 {
							n++
							c.Check(domBy(tEdges, in.Block()), name, st.Pos(), "terminator bit or-ed in only where hasTerm(hex) held", "the terminator bit is or-ed into the flag byte without hasTerm(hex) having been tested true")
						}
					}
					return
				}
				n++
				phi, isPhi := stripConv(v.X).(*ssa.Phi)
				good := isPhi
				if isPhi {
					for i, e := range phi.Edges {
						switch {
						case constIs(e, 1):
							pb := phi.Block().Preds[i]
							good = good && (domBy(tEdges, pb) || tEdgeIs(tEdges, pb, phi.Block()))
						case constIs(e, 0):
						default:
							good = false
						}
					}
				}
				c.Check(good, name, st.Pos(), "the shifted terminator value is 1 only on the hasTerm(hex) branch", "the value shifted into the terminator bit is not {0, 1-iff-hasTerm(hex)}")
			}
		})
		c.Expect(1, n, "flag byte stores in hexToCompact")
	})
}

func tEdgeIs(es map[Edge]bool, from, to *ssa.BasicBlock) bool {
	for e := range es {
		if e.From == from && e.From.Succs[e.Succ] == to {
			return true
		}
	}
	return false
}

func constInt64(v ssa.Value) (int64, bool) {
	k, ok := v.(*ssa.Const)
	if !ok || k.Value == nil {
		return 0, false
	}
	return k.Int64(), true
}

func init() {
	extendProp("C23", "The in-memory batch distinguishes its operation kinds (put / delete / range delete) by record fields that the constructors fill with constants, never by caller-supplied data: following Write's and Replay's dispatch for the record each of Put, Delete and DeleteRange builds, no test of a caller-filled field is reached.", nil, func(c *Ctx) {
		c.Rule("TABLE/C23.discriminator")
		mp := "ethdb/memorydb"
		kv := c.Type(mp, "keyvalue")
		if kv == nil {
			return
		}
		st := kv.Underlying().(*types.Struct)
		isKV := func(t types.Type) bool { n := derefNamed(t); return n != nil && n.Obj() == kv.Obj() }
		// the record each constructor builds: field -> constant (nil entry = filled from an argument)
		type rec map[int]constant.Value
		zero := func(i int) constant.Value {
			if b, ok := st.Field(i).Type().Underlying().(*types.Basic); ok {
				switch {
				case b.Info()&types.IsBoolean != 0:
					return constant.MakeBool(false)
				case b.Info()&types.IsString != 0:
					return constant.MakeString("")
				case b.Info()&types.IsInteger != 0:
					return constant.MakeInt64(0)
				}
			}
			return constant.MakeUnknown()
		}
		ctors := map[string]rec{}
		for _, fn := range []string{"(*batch).Put", "(*batch).Delete", "(*batch).DeleteRange"} {
			f := c.Fn(mp, fn)
			if f == nil {
				continue
			}
			c.Funcs[f] = true
			r := rec{}
			for i := 0; i < st.NumFields(); i++ {
				r[i] = zero(i)
			}
			eachInstr(f, func(in ssa.Instruction) {
				s, ok := in.(*ssa.Store)
				if !ok {
					return
				}
				fa, ok := s.Addr.(*ssa.FieldAddr)
				if !ok || !isKV(fa.X.Type()) {
					return
				}
				if k, isConst := s.Val.(*ssa.Const); isConst && k.Value != nil {
					r[fa.Field] = k.Value
				} else {
					r[fa.Field] = nil
				}
			})
			ctors[fn] = r
		}
		c.Expect(3, len(ctors), "batch record constructors")
		// field of the record a condition value reads (through one load), or -1
		fieldOf := func(v ssa.Value) int {
			switch x := v.(type) {
			case *ssa.Field:
				if isKV(x.X.Type()) {
					return x.Field
				}
			case *ssa.UnOp:
				if fa, ok := x.X.(*ssa.FieldAddr); ok && isKV(fa.X.Type()) {
					return fa.Field
				}
			}
			return -1
		}
		nTests := 0
		for _, fn := range []string{"(*batch).Write", "(*batch).Replay"} {
			f := c.Fn(mp, fn)
			if f == nil {
				continue
			}
			c.Funcs[f] = true
			for cn, r := range ctors {
				seen := map[*ssa.BasicBlock]bool{}
				bad := ""
				var badPos token.Pos
				var dfs func(b *ssa.BasicBlock)
				dfs = func(b *ssa.BasicBlock) {
					if seen[b] || bad != "" {
						return
					}
					seen[b] = true
					iff, ok := b.Instrs[len(b.Instrs)-1].(*ssa.If)
					if !ok {
						for _, s := range b.Succs {
							dfs(s)
						}
						return
					}
					// dispatch test: a record field used as a bool, or compared with a non-nil constant
					fld, want, op := -1, constant.Value(nil), token.EQL
					if i := fieldOf(iff.Cond); i >= 0 {
						fld, want = i, constant.MakeBool(true)
					} else if bo, ok := iff.Cond.(*ssa.BinOp); ok && (bo.Op == token.EQL || bo.Op == token.NEQ) {
						if k, ok := bo.Y.(*ssa.Const); ok && k.Value != nil && fieldOf(bo.X) >= 0 {
							fld, want, op = fieldOf(bo.X), k.Value, bo.Op
						} else if k, ok := bo.X.(*ssa.Const); ok && k.Value != nil && fieldOf(bo.Y) >= 0 {
							fld, want, op = fieldOf(bo.Y), k.Value, bo.Op
						}
					}
					if fld < 0 {
						for _, s := range b.Succs {
							dfs(s)
						}
						return
					}
					nTests++
					have := r[fld]
					if have == nil || have.Kind() == constant.Unknown {
						bad = st.Field(fld).Name()
						badPos = iff.Cond.Pos()
						if badPos == token.NoPos {
							badPos = b.Instrs[0].Pos()
						}
						return
					}
					eq := constant.Compare(have, token.EQL, want)
					if op == token.NEQ {
						eq = !eq
					}
					if eq {
						dfs(b.Succs[0])
					} else {
						dfs(b.Succs[1])
					}
				}
				dfs(f.Blocks[0])
				name := "dispatch/" + fnName(f) + "/" + cn
				if bad == "" {
					c.OK(name, f.Pos(), "the record built by "+cn+" is dispatched by constant fields only")
				} else {
					c.Bad(name, badPos, fnName(f)+" decides how to apply the record built by "+cn+" by testing field `"+bad+"`, which "+cn+" fills from its argument: a caller-chosen value (the empty key) makes a single-key deletion be applied as a range deletion over the whole store, unlike the other backends")
				}
			}
		}
		c.Expect(6, nTests, "dispatch tests followed in Write/Replay")
	})
}

func init() {
	extendProp("C23", "An error returned by the target writer while a batch is replayed reaches Replay's caller on every backend: each call of the writer's Put/Delete/DeleteRange inside the replay machinery has its error tested and returned, or parks it in a field that Replay returns.", nil, func(c *Ctx) {
		c.Rule("ERRUSE/C23.replay")
		writerOps := "(ethdb.KeyValueWriter).Put|(ethdb.KeyValueWriter).Delete|(ethdb.KeyValueRangeDeleter).DeleteRange"
		total := 0
		for _, pk := range []string{"ethdb/memorydb", "ethdb/pebble", "ethdb/leveldb"} {
			rp := c.TryFn(pk, "(*batch).Replay")
			if rp == nil {
				c.Undecided("replay/"+pk, token.NoPos, "no (*batch).Replay in "+pk)
				continue
			}
			c.Funcs[rp] = true
			for _, f := range c.AllFuncs(pk) {
				rn := recvNamed(f)
				if f != rp && !hasSuffix(rn, pk+".replayer") {
					continue
				}
				for _, s := range c.Calls(f, writerOps) {
					total++
					call := s.Instr.(*ssa.Call)
					name := "writer-error/" + fnName(f) + "/" + calleeName(&call.Call)
					if ErrCheckedSite(s) {
						c.OK(name, s.Pos(), "the writer's error is tested and returned")
						continue
					}
					// parked in a field?
					var parked *ssa.FieldAddr
					for _, r := range *call.Referrers() {
						if st, ok := r.(*ssa.Store); ok && st.Val == ssa.Value(call) {
							if fa, ok := st.Addr.(*ssa.FieldAddr); ok {
								parked = fa
							}
						}
					}
					if parked == nil {
						c.Bad(name, s.Pos(), "the error of "+calleeName(&call.Call)+" is neither tested nor kept: a failing target writer goes unnoticed by Replay's caller")
						continue
					}
					fld := fieldAddrName(parked)
					returned := false
					for _, r := range c.Returns(rp) {
						v := retVal(r.Instr.(*ssa.Return), 0)
						if Mentions(func(x ssa.Value) bool {
							u, ok := x.(*ssa.UnOp)
							if !ok {
								return false
							}
							fa, ok := u.X.(*ssa.FieldAddr)
							return ok && fieldAddrName(fa) == fld
						})(v) {
							returned = true
						}
					}
					c.Check(returned, name, s.Pos(), "the writer's error is parked in "+fld+", which Replay returns",
						"the writer's error is parked in "+fld+" but "+fnName(rp)+" never returns that field: Replay reports success although the target writer failed (the other backends return the error)")
				}
			}
		}
		c.Expect(9, total, "writer operations inside the replay machinery of the three backends")
	})
}

func init() {
	extendProp("C23", "Recording an operation in a batch does not consult the database: no backend's batch Put/Delete/DeleteRange calls a method on the batch's database handle, so what a batch does is fixed by its recorded operations and their order, not by the store's content at record time.", nil, func(c *Ctx) {
		c.Rule("EFFECT/C23.deferred")
		n := 0
		for _, pk := range []string{"ethdb/memorydb", "ethdb/pebble", "ethdb/leveldb"} {
			for _, m := range []string{"Put", "Delete", "DeleteRange"} {
				f := c.TryFn(pk, "(*batch)."+m)
				if f == nil {
					continue
				}
				n++
				c.Funcs[f] = true
				var hits []ssa.Instruction
				eachInstr(f, func(in ssa.Instruction) {
					call, ok := in.(ssa.CallInstruction)
					if !ok {
						return
					}
					cc := call.Common()
					var recv ssa.Value
					if cc.IsInvoke() {
						recv = cc.Value
					} else if len(cc.Args) > 0 && cc.StaticCallee() != nil && cc.StaticCallee().Signature.Recv() != nil {
						recv = cc.Args[0]
					}
					if recv == nil {
						return
					}
					if u, ok := recv.(*ssa.UnOp); ok {
						if fa, ok := u.X.(*ssa.FieldAddr); ok && fieldAddrName(fa) == pk+".batch.db" {
							hits = append(hits, in)
						}
					}
				})
				name := "record-only/" + fnName(f)
				if len(hits) == 0 {
					c.OK(name, f.Pos(), "only records the operation")
				}
				for _, h := range hits {
					c.Bad(name, h.Pos(), fnName(f)+" calls "+calleeName(h.(ssa.CallInstruction).Common())+" on the database while recording: the batch's effect depends on the store's content at record time (a key put earlier in the same batch, or written to the store before Write, is not covered), unlike the backends that apply the recorded operation at Write")
				}
			}
		}
		c.Expect(9, n, "batch mutators of the three backends")
	})
}

func init() {
	extendProp("C19", "A block writer opened by the index writer/deleter works on the very descriptor object that sits in descList (the list finish() encodes): the descriptor handed to newBlockWriter is an element loaded from a descriptor list, or a fresh descriptor that is also placed in the list — never a detached copy.", nil, func(c *Ctx) {
		c.Rule("SAMEVAL/C19.shareddesc")
		pd := "triedb/pathdb"
		n := 0
		for _, f := range c.AllFuncs(pd) {
			for _, s := range c.Calls(f, pd+".newBlockWriter") {
				n++
				c.Funcs[f] = true
				arg := s.Instr.(*ssa.Call).Call.Args[1]
				name := "desc/" + fnName(f)
				ok, why := false, ""
				switch x := arg.(type) {
				case *ssa.UnOp:
					if _, isElem := x.X.(*ssa.IndexAddr); isElem && x.Op == token.MUL {
						ok, why = true, "element of the descriptor list"
					}
				case *ssa.Call:
					if calleeName(&x.Call) == pd+".newIndexBlockDesc" {
						// fresh: must also be placed in a descriptor list
						for _, r := range *x.Referrers() {
							switch y := r.(type) {
							case *ssa.Store:
								if _, isElem := y.Addr.(*ssa.IndexAddr); isElem && y.Val == ssa.Value(x) {
									ok, why = true, "fresh descriptor also stored in the descriptor list"
								}
							}
						}
					}
				}
				if ok {
					c.OK(name, s.Pos(), why)
				} else {
					c.Bad(name, s.Pos(), "the block writer is opened on a descriptor that is not the object held in descList (a copy or another value): the writer's updates of max/entries/bitmap are lost when finish() encodes descList, so the stored metadata disagrees with the block data")
				}
			}
		}
		c.Expect(6, n, "newBlockWriter call sites")
	})
}

// afterEdge: on every path from the edge e to one of exits, one of Q executes.
// Returns the offending exit or nil.
func afterEdge(e Edge, Q, exits map[ssa.Instruction]bool) ssa.Instruction {
	succ := e.From.Succs[e.Succ]
	if len(succ.Instrs) == 0 {
		return nil
	}
	first := succ.Instrs[0]
	if Q[first] {
		return nil
	}
	if exits[first] {
		return first
	}
	return ReachesBefore(first, Q, nil, exits)
}

func init() {
	extendProp("C21", "In dereference, whenever the reference count is found to be zero the node is uncached: every path from the `parents == 0` outcome to a return deletes the node from the dirty set (and the deletion site recurses into the children first).", nil, func(c *Ctx) {
		c.Rule("PAIR/C21.collect")
		h := "triedb/hashdb"
		dr := c.Fn(h, "(*Database).dereference")
		if dr == nil {
			return
		}
		c.Funcs[dr] = true
		isParents := func(v ssa.Value) bool {
			u, ok := v.(*ssa.UnOp)
			if !ok {
				return false
			}
			fa, ok := u.X.(*ssa.FieldAddr)
			return ok && fieldAddrName(fa) == h+".cachedNode.parents"
		}
		zero := EdgesWhere(dr, Cmp(isParents, token.EQL, ConstInt(0)))
		c.Expect(1, len(zero), "`parents == 0` outcomes in dereference")
		dels := sitesToSet(c.MapWrites(dr, h+".Database.dirties", true))
		exits := sitesToSet(c.Returns(dr))
		for e := range zero {
			// only dedicated edges (the successor is entered through this edge alone)
			succ := e.From.Succs[e.Succ]
			if len(succ.Preds) != 1 {
				c.Undecided("zero-means-uncached/"+fnName(dr), e.From.Instrs[len(e.From.Instrs)-1].Pos(), "the `parents == 0` branch merges with other paths before acting; cannot attribute the deletion")
				continue
			}
			if bad := afterEdge(e, dels, exits); bad != nil {
				c.Bad("zero-means-uncached/"+fnName(dr), succ.Instrs[0].Pos(), "a node whose reference count is zero can leave dereference without being deleted from db.dirties (exit at "+c.pos(bad.Pos())+"): it stays cached after every root that reached it is gone, and the reported sizes keep counting it")
			} else {
				c.OK("zero-means-uncached/"+fnName(dr), succ.Instrs[0].Pos(), "every path from parents == 0 to a return deletes the node from db.dirties")
			}
		}
	})
}

func init() {
	extendProp("C26", "A contract creation warms its destination address before the collision check: the ErrContractAddressCollision return of (*EVM).create lies behind AddAddressToAccessList(address) (or the pre-EIP-2929 branch), and the warm-up precedes the snapshot.", nil, func(c *Ctx) {
		c.Rule("ORDER/C26.createwarm")
		vmp := "core/vm"
		f := c.Fn(vmp, "(*EVM).create")
		if f == nil {
			return
		}
		var coll []Site
		for _, r := range c.Returns(f) {
			ret := r.Instr.(*ssa.Return)
			if Global(vmp + ".ErrContractAddressCollision")(retVal(ret, len(ret.Results)-1)) {
				coll = append(coll, r)
			}
		}
		c.Expect(1, len(coll), "collision return of create")
		warm := c.CallsWhere(f, "(core/vm.StateDB).AddAddressToAccessList", func(cc *ssaCall) bool { return Param("address")(cc.Args[0]) })
		isRule := func(v ssa.Value) bool {
			u, ok := v.(*ssa.UnOp)
			if !ok {
				return false
			}
			fa, ok := u.X.(*ssa.FieldAddr)
			return ok && fieldAddrName(fa) == "params.Rules.IsEIP2929"
		}
		pre := GCond("!IsEIP2929", f, False(isRule))
		c.Dom("warm-before-collision", f, coll, "address collision reported", GSites("AddAddressToAccessList(address)", warm), pre)
		c.Dom("warm-before-snapshot", f, c.Calls(f, "(core/vm.StateDB).Snapshot"), "snapshot", GSites("AddAddressToAccessList(address)", warm), pre)
	})
}

func init() {
	extendProp("C23", "LevelDB's direct DeleteRange makes progress when it gives up on a large range: ErrTooManyKeys is returned only after the deletions collected so far were written (error tested), so a caller's retry loop converges as it does on the other backends; its other error returns come from the audited sources only.", nil, func(c *Ctx) {
		c.Rule("ORDER/C23.rangeprogress")
		lp := "ethdb/leveldb"
		f := c.Fn(lp, "(*Database).DeleteRange")
		if f == nil {
			return
		}
		var many []Site
		for _, r := range c.Returns(f) {
			if Global("ethdb.ErrTooManyKeys")(retVal(r.Instr.(*ssa.Return), 0)) {
				many = append(many, r)
			}
		}
		c.Expect(1, len(many), "ErrTooManyKeys return of leveldb Database.DeleteRange")
		writes := c.Calls(f, "(ethdb.Batch).Write")
		c.Dom("written-before-giving-up", f, many, "ErrTooManyKeys returned", GErrChecked("batch.Write()", writes))
		dels := c.Calls(f, "(ethdb.Batch).Delete|(ethdb.KeyValueWriter).Delete")
		c.RejectSetDirect("sources", f, 0, 4, cat(writes, dels),
			GErrFailed("batch.Write()", f, writes),
			GErrFailed("batch.Delete(key)", f, dels),
			GCond("count > 10000 (after the partial write)", f, Cmp(Any(), token.GTR, func(v ssa.Value) bool { return constIs(v, 10000) })),
			GCond("it.Error() != nil", f, Cmp(CallRes("(ethdb.Iterator).Error"), token.NEQ, Nil())))
	})
}

func init() {
	extendProp("C32", "The created-in-this-transaction flag that SELFDESTRUCT (EIP-6780) trusts is revoked at the end of every transaction: every return of stateObject.finalise passes `s.newContract = false`, so a later transaction cannot destroy (and burn the balance of) a contract deployed earlier in the block.", []string{"core/state"}, func(c *Ctx) {
		c.Rule("DOM/C32.newcontract")
		cst := "core/state"
		fin := c.Fn(cst, "(*stateObject).finalise")
		if fin == nil {
			return
		}
		var clr []Site
		for _, s := range c.Stores(fin, cst+".stateObject.newContract") {
			if ConstBool(false)(s.Instr.(*ssa.Store).Val) {
				clr = append(clr, s)
			}
		}
		c.Dom("revoked-at-tx-end", fin, c.Returns(fin), "return", GSites("s.newContract = false", clr))
		// and the opcode consults exactly that flag
		n := 0
		for _, f := range c.AllFuncs("core/vm") {
			if f.Name() != "opSelfdestruct6780" {
				continue
			}
			n++
			c.Funcs[f] = true
			calls := c.Calls(f, "(core/vm.StateDB).IsNewContract")
			c.Check(len(calls) > 0, "consults-flag/"+fnName(f), f.Pos(), "the EIP-6780 opcode asks the state whether the contract is new", "opSelfdestruct6780 no longer consults IsNewContract")
		}
		c.Expect(1, n, "opSelfdestruct6780")
	})
}

// journalCapturesPrev: a journal entry that records the previous value of a
// field reads that field before the field is changed (in the same function, or
// through the raw setter called there).
func journalCapturesPrev(c *Ctx, rule string) {
	c.Rule(rule)
	cst := "core/state"
	jn := "(*" + cst + ".journal)."
	rawSetter := map[string]string{ // field -> raw writer called by the journalling wrapper
		"core/types.StateAccount.Balance": "(*" + cst + ".stateObject).setBalance",
		"core/types.StateAccount.Nonce":   "(*" + cst + ".stateObject).setNonce",
	}
	n := 0
	for _, f := range c.AllFuncs(cst) {
		for _, j := range c.Calls(f, jn+"refundChange|"+jn+"balanceChange|"+jn+"nonceChange") {
			call := j.Instr.(*ssa.Call)
			for _, a := range callArgs(&call.Call) {
				ld, ok := a.(*ssa.UnOp)
				if !ok || ld.Op != token.MUL {
					continue
				}
				fa, ok := ld.X.(*ssa.FieldAddr)
				if !ok {
					continue
				}
				fld := fieldAddrName(fa)
				if fld != cst+".StateDB.refund" && rawSetter[fld] == "" {
					continue
				}
				n++
				c.Funcs[f] = true
				var muts []ssa.Instruction
				eachInstr(f, func(in ssa.Instruction) {
					if st, ok := in.(*ssa.Store); ok {
						if sfa, ok := st.Addr.(*ssa.FieldAddr); ok && fieldAddrName(sfa) == fld {
							muts = append(muts, in)
						}
					}
				})
				if rs := rawSetter[fld]; rs != "" {
					for _, s := range c.Calls(f, rs) {
						muts = append(muts, s.Instr)
					}
				}
				bad := ""
				for _, m := range muts {
					if instrReaches(m, ld) {
						bad = c.pos(m.Pos())
					}
				}
				name := "prev-read-before-write/" + fnName(f) + "/" + calleeName(&call.Call)
				switch {
				case len(muts) == 0:
					c.Undecided(name, j.Pos(), "no mutation of "+fld+" found next to the journal entry that records its previous value")
				case bad != "":
					c.Bad(name, j.Pos(), "the journal entry reads "+fld+" after it was changed (at "+bad+"): reverting the frame restores the new value, not the one before the change")
				default:
					c.OK(name, j.Pos(), "the previous value is read before the field is changed")
				}
			}
		}
	}
	c.Expect(4, n, "journal entries capturing a previous value by reading the field")
}

func init() {
	dec := "A journal entry that records a field's previous value by reading the field (refund counter, balance, nonce) reads it before the field is changed, so a revert restores the value from before the frame."
	extendProp("C13", dec, nil, func(c *Ctx) { journalCapturesPrev(c, "ORDER/C13.prevalue") })
	extendProp("C29", dec, []string{"core/state"}, func(c *Ctx) { journalCapturesPrev(c, "ORDER/C29.prevalue") })
}

// linTerms decomposes v into a signed sum of struct fields of type owner.
// A phi is accepted only at the top (a clamp of the whole sum to the constant 0).
func linTerms(v ssa.Value, owner string, top bool, depth int) (map[string]int, bool) {
	if depth > 12 {
		return nil, false
	}
	add := func(a, b map[string]int, sign int) map[string]int {
		out := map[string]int{}
		for k, n := range a {
			out[k] += n
		}
		for k, n := range b {
			out[k] += sign * n
		}
		for k, n := range out {
			if n == 0 {
				delete(out, k)
			}
		}
		return out
	}
	switch x := v.(type) {
	case *ssa.Convert:
		return linTerms(x.X, owner, top, depth+1)
	case *ssa.ChangeType:
		return linTerms(x.X, owner, top, depth+1)
	case *ssa.BinOp:
		if x.Op != token.ADD && x.Op != token.SUB {
			return nil, false
		}
		a, ok1 := linTerms(x.X, owner, false, depth+1)
		b, ok2 := linTerms(x.Y, owner, false, depth+1)
		if !ok1 || !ok2 {
			return nil, false
		}
		if x.Op == token.ADD {
			return add(a, b, 1), true
		}
		return add(a, b, -1), true
	case *ssa.Field:
		if n := fieldName(x); hasPrefix(n, owner+".") {
			return map[string]int{n[len(owner)+1:]: 1}, true
		}
	case *ssa.UnOp:
		if fa, ok := x.X.(*ssa.FieldAddr); ok && x.Op == token.MUL {
			if n := fieldAddrName(fa); hasPrefix(n, owner+".") {
				return map[string]int{n[len(owner)+1:]: 1}, true
			}
		}
		if a, ok := x.X.(*ssa.Alloc); ok && x.Op == token.MUL {
			// local cell: single value or clamp pattern handled through its stores
			var vals []ssa.Value
			for _, r := range *a.Referrers() {
				if st, ok := r.(*ssa.Store); ok && st.Addr == ssa.Value(a) {
					vals = append(vals, st.Val)
				}
			}
			if len(vals) == 1 {
				return linTerms(vals[0], owner, top, depth+1)
			}
		}
	case *ssa.Phi:
		if !top {
			return nil, false
		}
		var res map[string]int
		for _, e := range x.Edges {
			if constIs(e, 0) {
				continue
			}
			t, ok := linTerms(e, owner, false, depth+1)
			if !ok {
				return nil, false
			}
			if res != nil && fmt.Sprint(res) != fmt.Sprint(t) {
				return nil, false
			}
			res = t
		}
		return res, res != nil
	case *ssa.Call:
		cal := x.Call.StaticCallee()
		if cal == nil || len(cal.Blocks) == 0 || cal.Signature.Recv() == nil {
			return nil, false
		}
		var rets []*ssa.Return
		eachInstr(cal, func(in ssa.Instruction) {
			if r, ok := in.(*ssa.Return); ok {
				rets = append(rets, r)
			}
		})
		if len(rets) != 1 || len(rets[0].Results) != 1 {
			return nil, false
		}
		return linTerms(rets[0].Results[0], owner, top, depth+1)
	}
	return nil, false
}

func hasPrefix(s, p string) bool { return len(s) >= len(p) && s[:len(p)] == p }

func fieldName(x *ssa.Field) string {
	st := x.X.Type().Underlying().(*types.Struct)
	return namedName(x.X.Type()) + "." + st.Field(x.Field).Name()
}

func init() {
	extendProp("C31", "A reverted or halted frame hands back exactly the reservoir it started with: the StateGas of the budget returned by ExitRevert/ExitHalt is the signed sum StateGas + UsedStateGas − Spilled (clamped at zero only as a whole), and its execution gas on revert is ExecutionGas + Spilled.", nil, func(c *Ctx) {
		c.Rule("SHAPE/C31.reservoir")
		vmp := "core/vm"
		gb := vmp + ".GasBudget"
		for _, fn := range []string{"ExitRevert", "ExitHalt"} {
			f := c.Fn(vmp, "(GasBudget)."+fn)
			if f == nil {
				continue
			}
			c.Funcs[f] = true
			sts := c.Stores(f, gb+".StateGas")
			c.Expect(1, len(sts), "StateGas of the budget returned by "+fn)
			for _, s := range sts {
				t, ok := linTerms(s.Instr.(*ssa.Store).Val, gb, true, 0)
				good := ok && len(t) == 3 && t["StateGas"] == 1 && t["UsedStateGas"] == 1 && t["Spilled"] == -1
				c.Check(good, "reservoir/"+fn, s.Pos(), "handed-back reservoir = StateGas + UsedStateGas − Spilled (clamped only as a whole)",
					fmt.Sprintf("the reservoir handed back by %s is not the signed sum StateGas + UsedStateGas − Spilled clamped as a whole (decomposed: %v, linear=%v): a frame whose net state-gas use is negative mints state gas, or one that borrowed loses it", fn, t, ok))
			}
		}
		if f := c.Fn(vmp, "(GasBudget).ExitRevert"); f != nil {
			for _, s := range c.Stores(f, gb+".ExecutionGas") {
				t, ok := linTerms(s.Instr.(*ssa.Store).Val, gb, true, 0)
				good := ok && len(t) == 2 && t["ExecutionGas"] == 1 && t["Spilled"] == 1
				c.Check(good, "execution/ExitRevert", s.Pos(), "a reverted frame returns ExecutionGas + Spilled", fmt.Sprintf("ExitRevert's execution gas is not ExecutionGas + Spilled (decomposed: %v)", t))
			}
		}
	})
}

func init() {
	extendProp("C34", "Every mutated, non-deleted account gets its storage-trie witness collected: in IntermediateRoot's per-account loop (Merkle-Patricia arm) an iteration ends only after the account was skipped as applied/deleted or its worker — the one place that adds the storage trie's accessed nodes for mutated accounts — was launched, and that worker adds obj.trie.Witness() when a witness is being built.", nil, func(c *Ctx) {
		c.Rule("LOOPALL/C34.mutated")
		cst := "core/state"
		ir := c.Fn(cst, "(*StateDB).IntermediateRoot")
		if ir == nil {
			return
		}
		gos := c.Calls(ir, "(*golang.org/x/sync/errgroup.Group).Go")
		c.Expect(1, len(gos), "worker launches in IntermediateRoot")
		hs := rangeLoopHeadersMap(ir, func(v ssa.Value) bool { return matchField(fieldOfLoad(v), cst+".StateDB.mutations") })
		n := 0
		for _, h := range hs {
			// the loop that launches the workers
			inLoop := false
			for _, g := range gos {
				if h.Dominates(g.Instr.Block()) {
					for _, be := range loopBackEdges(ir, h) {
						if instrReaches(g.Instr, be.Instr) {
							inLoop = true
						}
					}
				}
			}
			if !inLoop {
				continue
			}
			n++
			isApplied := func(v ssa.Value) bool {
				u, ok := v.(*ssa.UnOp)
				if !ok {
					return false
				}
				fa, ok := u.X.(*ssa.FieldAddr)
				return ok && fieldAddrName(fa) == cst+".mutation.applied"
			}
			gA := GCond("op.applied", ir, True(isApplied))
			gD := GCond("op.isDelete()", ir, True(CallRes("(*"+cst+".mutation).isDelete")))
			// a back edge that is itself one of the skip edges is discharged by construction
			var targets []Site
			for _, p := range h.Preds {
				if !h.Dominates(p) {
					continue
				}
				skip := false
				for i, sc := range p.Succs {
					if sc == h && (gA.Steps[0].Edges[Edge{p, i}] || gD.Steps[0].Edges[Edge{p, i}]) {
						skip = true
					}
				}
				if skip {
					c.OK("worker-per-account/"+fnName(ir)+"/skip-edge", p.Instrs[len(p.Instrs)-1].Pos(), "iteration ends on the applied/deleted skip itself")
					continue
				}
				targets = append(targets, Site{ir, p.Instrs[len(p.Instrs)-1]})
			}
			c.Dom("worker-per-account", ir, targets, "end of one iteration", GSites("workers.Go(update root + witness)", gos), gA, gD)
		}
		c.Expect(1, n, "mutation loop launching the workers")
		// the worker adds the storage trie's witness
		for _, g := range gos {
			mc, ok := g.Instr.(*ssa.Call).Call.Args[1].(*ssa.MakeClosure)
			if !ok {
				c.Undecided("worker-body", g.Pos(), "worker is not a closure literal")
				continue
			}
			w := mc.Fn.(*ssa.Function)
			c.Funcs[w] = true
			as := c.Calls(w, "(*core/stateless.Witness).AddState")
			c.Check(len(as) == 1 && Mentions(CallRes("(core/state.Trie).Witness"))(as[0].Instr.(*ssa.Call).Call.Args[1]), "worker-adds-witness/"+fnName(w), w.Pos(), "the worker adds obj.trie.Witness()", "the per-account worker no longer adds the storage trie's witness")
		}
	})
}

func init() {
	extendProp("C36", "The block builder derives the new header's excess blob gas under the schedule of the block being built: the head timestamp given to CalcExcessBlobGas in prepareWork is the new header's own time (the value stored in its Time field, or a read of it), the same value the importer's VerifyEIP4844Header uses, and the parent argument is the parent header.", []string{"consensus/misc/eip4844"}, func(c *Ctx) {
		c.Rule("SAMEVAL/C36.forktime")
		f := c.Fn("miner", "(*Miner).prepareWork")
		if f == nil {
			return
		}
		calls := c.Calls(f, "consensus/misc/eip4844.CalcExcessBlobGas")
		c.Expect(1, len(calls), "CalcExcessBlobGas in prepareWork")
		// the value stored as the new header's time
		var timeVals []ssa.Value
		var hdr ssa.Value
		for _, s := range c.Stores(f, "core/types.Header.Time") {
			st := s.Instr.(*ssa.Store)
			timeVals = append(timeVals, st.Val)
			hdr = st.Addr.(*ssa.FieldAddr).X
		}
		c.Expect(1, len(timeVals), "store of the new header's Time in prepareWork")
		for _, s := range calls {
			arg := s.Instr.(*ssa.Call).Call.Args[2]
			ok := false
			for _, tv := range timeVals {
				if sameValue(arg, tv) {
					ok = true
				}
			}
			if u, isLoad := arg.(*ssa.UnOp); isLoad && hdr != nil {
				if fa, isFA := u.X.(*ssa.FieldAddr); isFA && fieldAddrName(fa) == "core/types.Header.Time" && sameValue(fa.X, hdr) {
					ok = true
				}
			}
			c.Check(ok, "head-time/"+fnName(f), s.Pos(), "excess blob gas is computed for the new header's own timestamp", "the timestamp given to CalcExcessBlobGas is not the new header's time: on the first block of a fork that changes the blob schedule the builder and the importer (VerifyEIP4844Header, header.Time) disagree and the built block is rejected")
		}
		// importer side uses header.Time with the parent
		if v := c.TryFn("consensus/misc/eip4844", "VerifyEIP4844Header"); v != nil {
			c.Funcs[v] = true
			for _, s := range c.Calls(v, "consensus/misc/eip4844.CalcExcessBlobGas") {
				a := s.Instr.(*ssa.Call).Call.Args
				u, isLoad := a[2].(*ssa.UnOp)
				good := false
				if isLoad {
					if fa, isFA := u.X.(*ssa.FieldAddr); isFA && fieldAddrName(fa) == "core/types.Header.Time" && Param("header")(fa.X) {
						good = true
					}
				}
				c.Check(good && Param("parent")(a[1]), "importer/"+fnName(v), s.Pos(), "the importer recomputes with (parent, header.Time)", "VerifyEIP4844Header no longer recomputes the excess with (parent, header.Time)")
			}
		}
	})
}

func init() {
	extendProp("C22", "The merged iterator's inputs carry pairwise distinct priorities ordered by recency: in newFastIterator every in-memory (diff/buffer) iterator gets the loop's depth counter and every persistent-state iterator gets depth+1, so a key present in the write buffer and on disk is resolved in favour of the buffer.", nil, func(c *Ctx) {
		c.Rule("SHAPE/C22.priority")
		pd := "triedb/pathdb"
		f := c.Fn(pd, "newFastIterator")
		if f == nil {
			return
		}
		c.Funcs[f] = true
		type lit struct {
			it, prio ssa.Value
			pos      token.Pos
		}
		lits := map[ssa.Value]*lit{}
		eachInstr(f, func(in ssa.Instruction) {
			st, ok := in.(*ssa.Store)
			if !ok {
				return
			}
			fa, ok := st.Addr.(*ssa.FieldAddr)
			if !ok {
				return
			}
			switch fieldAddrName(fa) {
			case pd + ".weightedIterator.it":
				l := lits[fa.X]
				if l == nil {
					l = &lit{}
					lits[fa.X] = l
				}
				l.it, l.pos = st.Val, st.Pos()
			case pd + ".weightedIterator.priority":
				l := lits[fa.X]
				if l == nil {
					l = &lit{}
					lits[fa.X] = l
				}
				l.prio = st.Val
			}
		})
		c.Expect(6, len(lits), "weightedIterator literals in newFastIterator")
		isDepth := func(v ssa.Value) bool {
			phi, ok := v.(*ssa.Phi)
			if !ok || len(phi.Edges) != 2 {
				return false
			}
			for i, e := range phi.Edges {
				if constIs(e, 0) {
					b, ok := phi.Edges[1-i].(*ssa.BinOp)
					return ok && b.Op == token.ADD && b.X == ssa.Value(phi) && constIs(b.Y, 1)
				}
			}
			return false
		}
		for _, l := range lits {
			kind := ""
			if call, ok := ifaceSrc(l.it).(*ssa.Call); ok {
				kind = calleeName(&call.Call)
			}
			short := kind[strings.LastIndex(kind, ".")+1:]
			switch {
			case strings.HasPrefix(short, "newDisk"):
				b, ok := l.prio.(*ssa.BinOp)
				good := ok && b.Op == token.ADD && isDepth(b.X) && constIs(b.Y, 1)
				c.Check(good, "disk-below-buffer/"+short, l.pos, "the persistent-state iterator ranks one below the write buffer of the same layer (depth+1)", "the persistent-state iterator does not get priority depth+1: it ties with (or outranks) the write buffer, so a stale on-disk entry can win over the unflushed one")
			case strings.HasPrefix(short, "newDiff"):
				c.Check(isDepth(l.prio), "memory-at-depth/"+short, l.pos, "the in-memory iterator ranks at the layer's depth", "an in-memory iterator's priority is not the layer's depth counter")
			default:
				c.Undecided("kind", l.pos, "weightedIterator built from an unrecognised constructor "+kind)
			}
		}
	})
}

func init() {
	extendProp("C38", "Logs are flagged as removed only on freshly decoded receipts: the function that sets Log.Removed obtains its receipts from the database decoder and calls no reader of the shared receipts cache, so receipts served to other readers (and re-emitted when the block becomes canonical again) are never marked removed.", nil, func(c *Ctx) {
		c.Rule("IMMUT/C38.cachedreceipts")
		readers := map[string]bool{}
		for _, f := range c.AllFuncs("core") {
			uses := false
			eachInstr(f, func(in ssa.Instruction) {
				if fa, ok := in.(*ssa.FieldAddr); ok && fieldAddrName(fa) == "core.BlockChain.receiptsCache" {
					uses = true
				}
			})
			if uses && len(c.Calls(f, "*.Get")) > 0 {
				readers[fnName(f)] = true
			}
		}
		c.Expect(2, len(readers), "functions reading the receipts cache")
		n := 0
		for _, f := range c.AllFuncs("core") {
			var marks []Site
			eachInstr(f, func(in ssa.Instruction) {
				if st, ok := in.(*ssa.Store); ok {
					if fa, ok := st.Addr.(*ssa.FieldAddr); ok && fieldAddrName(fa) == "core/types.Log.Removed" && ConstBool(true)(st.Val) {
						marks = append(marks, Site{f, in})
					}
				}
			})
			if len(marks) == 0 {
				continue
			}
			n++
			c.Funcs[f] = true
			bad := ""
			eachInstr(f, func(in ssa.Instruction) {
				if call, ok := in.(ssa.CallInstruction); ok {
					if cal := call.Common().StaticCallee(); cal != nil && readers[fnName(cal)] {
						bad = fnName(cal)
					}
				}
			})
			fresh := len(c.Calls(f, "core/rawdb.ReadRawReceipts|core/rawdb.ReadReceipts")) > 0
			c.Check(bad == "" && fresh, "fresh-receipts/"+fnName(f), marks[0].Pos(), "logs marked removed belong to receipts decoded for this call", "logs are marked removed on receipts obtained through "+bad+" (shared receipts cache) rather than decoded afresh: the cached objects other readers get, and the logs re-emitted if the block becomes canonical again, keep Removed=true")
		}
		c.Expect(1, n, "functions that flag logs as removed")
	})
}

func init() {
	extendProp("C39", "In the hash-scheme node database a node is moved into the write batch only after all of its children were (recursively, errors tested): the state root is the last node of a commit to reach disk, so the root-presence test used by the startup repair implies the whole state is present.", []string{"triedb/hashdb"}, func(c *Ctx) {
		c.Rule("ORDER/C39.childrenfirst")
		h := "triedb/hashdb"
		f := c.Fn(h, "(*Database).commit")
		if f == nil {
			return
		}
		wr := c.Calls(f, "core/rawdb.WriteLegacyTrieNode")
		c.Expect(1, len(wr), "node write in hashdb commit")
		fc := c.Calls(f, "(*"+h+".cachedNode).forChildren")
		c.Dom("children-before-node", f, wr, "node written to the batch", GSites("node.forChildren(commit child)", fc))
		// the callback recurses into commit
		rec := 0
		for _, s := range fc {
			if mc, ok := s.Instr.(*ssa.Call).Call.Args[1].(*ssa.MakeClosure); ok {
				w := mc.Fn.(*ssa.Function)
				c.Funcs[w] = true
				rec += len(c.Calls(w, "(*"+h+".Database).commit"))
			}
		}
		c.Check(rec == 1, "recurses/"+fnName(f), f.Pos(), "the children callback commits each child", "the children callback of commit no longer commits the children")
	})
}

func init() {
	extendProp("C41", "A replacement is inserted into the sender's pending list only on a lookup of that list made after the pool-full eviction: no removeTx call lies between the pending-list lookup whose result receives list.Add and that insertion (an eviction can demote the very nonce being replaced).", nil, func(c *Ctx) {
		c.Rule("STALE/C41.pendinglookup")
		lp := "core/txpool/legacypool"
		f := c.Fn(lp, "(*LegacyPool).add")
		if f == nil {
			return
		}
		c.Funcs[f] = true
		adds := c.Calls(f, "(*"+lp+".list).Add")
		c.Expect(1, len(adds), "list.Add in LegacyPool.add")
		evict := c.Calls(f, "(*"+lp+".LegacyPool).removeTx")
		c.Expect(1, len(evict), "removeTx (eviction) in LegacyPool.add")
		for _, a := range adds {
			recv := a.Instr.(*ssa.Call).Call.Args[0]
			// root lookup(s) of the receiver
			var lookups []ssa.Instruction
			seen := map[ssa.Value]bool{}
			var walk func(v ssa.Value)
			walk = func(v ssa.Value) {
				if seen[v] {
					return
				}
				seen[v] = true
				switch x := v.(type) {
				case *ssa.Lookup:
					if matchField(fieldOfLoad(x.X), lp+".LegacyPool.pending") {
						lookups = append(lookups, x)
					}
				case *ssa.Extract:
					walk(x.Tuple)
				case *ssa.Phi:
					for _, e := range x.Edges {
						walk(e)
					}
				case *ssa.UnOp:
					if al, ok := x.X.(*ssa.Alloc); ok {
						for _, r := range *al.Referrers() {
							if st, ok := r.(*ssa.Store); ok && st.Addr == ssa.Value(al) {
								walk(st.Val)
							}
						}
					}
				}
			}
			walk(recv)
			if len(lookups) == 0 {
				c.Undecided("fresh-lookup/"+fnName(f), a.Pos(), "the list receiving the replacement could not be traced to a lookup of pool.pending")
				continue
			}
			stale := ""
			for _, l := range lookups {
				for _, m := range evict {
					if instrReaches(l, m.Instr) && instrReaches(m.Instr, a.Instr) {
						stale = c.pos(m.Pos())
					}
				}
			}
			c.Check(stale == "", "fresh-lookup/"+fnName(f), a.Pos(), "the pending list is looked up after the eviction loop", "the pending list receiving the replacement was looked up before the eviction at "+stale+": evicting one of the sender's own lower nonces demotes the replaced nonce (or deletes the list), and the insert then creates a gapped or orphaned pending list")
		}
		// the same holds for the gap test guarding the eviction: it is evaluated on current state (a call, not a cached flag)
		gaps := c.Calls(f, "(*"+lp+".LegacyPool).isGapped")
		c.Check(len(gaps) >= 1, "gap-test/"+fnName(f), f.Pos(), "the future-transaction guard calls isGapped", "LegacyPool.add no longer evaluates isGapped before churning pending transactions")
	})
}

func init() {
	extendProp("C42", "After a reorg-driven recheck the account's position in the eviction heap is restored: every return of recheck lies behind heap.Fix or heap.Remove of the account, the account not being indexed, or the call not being reorg-driven (inclusions == nil) — reinject pushes accounts and lower nonces into the heap without sifting and relies on it.", nil, func(c *Ctx) {
		c.Rule("HEAPFIX/C42.recheck")
		bp := "core/txpool/blobpool"
		f := c.Fn(bp, "(*BlobPool).recheck")
		if f == nil {
			return
		}
		fix := c.Calls(f, "container/heap.Fix")
		rem := c.Calls(f, "container/heap.Remove")
		c.Expect(1, len(fix), "heap.Fix in recheck")
		notIndexed := Guard{Desc: "account not indexed", Steps: []Step{{Edges: map[Edge]bool{}}}}
		eachInstr(f, func(in ssa.Instruction) {
			lk, ok := in.(*ssa.Lookup)
			if !ok || !lk.CommaOk || !matchField(fieldOfLoad(lk.X), bp+".BlobPool.index") {
				return
			}
			for e := range EdgesWhere(f, False(func(v ssa.Value) bool {
				ex, ok := v.(*ssa.Extract)
				return ok && ex.Tuple == ssa.Value(lk) && ex.Index == 1
			})) {
				notIndexed.Steps[0].Edges[e] = true
			}
		})
		notIndexed.Sites = len(notIndexed.Steps[0].Edges)
		var rets []Site
		for _, r := range c.Returns(f) {
			if r.Instr.Block() != f.Recover {
				rets = append(rets, r)
			}
		}
		c.Dom("heap-restored", f, rets, "return", GSites("heap.Fix(p.evict, …)", fix), GSites("heap.Remove(p.evict, …)", rem), notIndexed,
			GCond("inclusions == nil", f, Cmp(Param("inclusions"), token.EQL, Nil())),
			GCond("p.index[addr] == nil", f, Cmp(func(v ssa.Value) bool {
				isIdx := func(x ssa.Value) bool {
					lk, ok := x.(*ssa.Lookup)
					return ok && matchField(fieldOfLoad(lk.X), bp+".BlobPool.index")
				}
				if isIdx(v) {
					return true
				}
				// a local cell still holding the lookup (no other store reaches this read)
				u, ok := v.(*ssa.UnOp)
				if !ok {
					return false
				}
				al, ok := u.X.(*ssa.Alloc)
				if !ok {
					return false
				}
				holds := false
				for _, r := range *al.Referrers() {
					st, ok := r.(*ssa.Store)
					if !ok || st.Addr != ssa.Value(al) {
						continue
					}
					if isIdx(st.Val) && instrDominates(st, u) {
						holds = true
					} else if instrReaches(st, u) {
						return false
					}
				}
				return holds
			}, token.EQL, Nil())))
		// reinject's raw push is only reachable from the reorg path that rechecks afterwards
		if ri := c.TryFn(bp, "(*BlobPool).reinject"); ri != nil {
			c.Funcs[ri] = true
			raw := c.Calls(ri, "(*"+bp+".evictHeap).Push")
			sift := c.Calls(ri, "container/heap.Push|container/heap.Fix")
			if len(raw) > 0 && len(sift) == 0 {
				// callers must recheck with inclusions
				n := 0
				for _, g := range c.AllFuncs(bp) {
					rc := c.Calls(g, "(*"+bp+".BlobPool).reinject")
					if len(rc) == 0 {
						continue
					}
					n++
					c.Funcs[g] = true
					c.Followed("reinject-then-recheck", g, rc, "reinject", c.Calls(g, "(*"+bp+".BlobPool).recheck"), "p.recheck(addr, inclusions)", c.Returns(g))
				}
				c.Expect(1, n, "callers of reinject")
			}
		}
	})
}

func init() {
	extendProp("C43", "The effective tip that orders the heap is computed without wrap-around: the ordering package performs no unchecked 256-bit addition or multiplication on fee values, and every 256-bit subtraction a−b lies behind an established a ≥ b.", nil, func(c *Ctx) {
		c.Rule("OVF/C43.tip")
		pk := "core/txpool/txorder"
		u := "(*github.com/holiman/uint256.Int)."
		nSub := 0
		for _, f := range c.AllFuncs(pk) {
			for _, s := range c.Calls(f, u+"Add|"+u+"Mul|"+u+"Lsh") {
				c.Funcs[f] = true
				c.Bad("wrapping/"+fnName(f), s.Pos(), fnName(f)+" computes a fee with "+calleeName(s.Instr.(*ssa.Call).Common())+", which wraps silently at 2^256: a head with a near-maximal tip cap is ranked by an overstated tip (use the fee-cap − base-fee form or AddOverflow with the flag tested)")
			}
			for _, s := range c.Calls(f, u+"Sub") {
				nSub++
				c.Funcs[f] = true
				a := callArgs(&s.Instr.(*ssa.Call).Call)
				c.Dom("sub-guarded", f, []Site{s}, "256-bit subtraction", GCond("minuend >= subtrahend", f, Cmp(func(v ssa.Value) bool { return sameValue(v, a[0]) }, token.GEQ, func(v ssa.Value) bool { return sameValue(v, a[1]) })))
			}
		}
		c.Expect(1, nSub, "256-bit subtractions in the ordering package")
		if nSub > 0 {
			c.OK("no-wrapping-add", token.NoPos, "no wrapping 256-bit Add/Mul/Lsh in the ordering package (any found is reported above)")
		}
	})
}

func init() {
	extendProp("C44", "The shared write buffer of the RLPx transport holds exactly the payload being sent: in WriteMsg the buffer is reset (not deferred) before the payload is copied into it, on every path to the copy, so bytes left by an earlier failed write never precede the next message.", []string{"p2p"}, func(c *Ctx) {
		c.Rule("ORDER/C44.wbuf")
		f := c.Fn("p2p", "(*rlpxTransport).WriteMsg")
		if f == nil {
			return
		}
		isWbuf := func(v ssa.Value) bool {
			fa, ok := v.(*ssa.FieldAddr)
			return ok && fieldAddrName(fa) == "p2p.rlpxTransport.wbuf"
		}
		cp := c.CallsWhere(f, "io.CopyN|io.Copy", func(cc *ssaCall) bool { return isWbuf(ifaceSrc(cc.Args[0])) })
		c.Expect(1, len(cp), "payload copy into the write buffer")
		var resets []Site
		for _, s := range c.Calls(f, "(*bytes.Buffer).Reset") {
			if call, ok := s.Instr.(*ssa.Call); ok && isWbuf(call.Call.Args[0]) { // *ssa.Call only: a deferred Reset is not one
				resets = append(resets, s)
			}
		}
		c.Dom("reset-before-copy", f, cp, "payload copied into wbuf", GSites("t.wbuf.Reset()", resets))
		wr := c.Calls(f, "(*p2p/rlpx.Conn).Write")
		c.Dom("copy-before-write", f, wr, "frame written", GErrChecked("io.CopyN(&t.wbuf, payload, size)", cp))
	})
}

func init() {
	extendProp("C02", "Attaching a sidecar does not carry the receiver's cached size over: WithBlobTxSidecar stores no size into the copy unless the receiver is known to have no sidecar (the cached size already includes any sidecar it carries).", nil, func(c *Ctx) {
		c.Rule("SAMEVAL/C02.withsize")
		ct := "core/types"
		f := c.Fn(ct, "(*Transaction).WithBlobTxSidecar")
		if f == nil {
			return
		}
		c.Funcs[f] = true
		var sizeStores []Site
		eachInstr(f, func(in ssa.Instruction) {
			call, ok := in.(*ssa.Call)
			if !ok || len(call.Call.Args) == 0 {
				return
			}
			cal := call.Call.StaticCallee()
			if cal == nil || cal.Name() != "Store" {
				return
			}
			if fa, ok := call.Call.Args[0].(*ssa.FieldAddr); ok && fieldAddrName(fa) == ct+".Transaction.size" {
				sizeStores = append(sizeStores, Site{f, in})
			}
		})
		if len(sizeStores) == 0 {
			c.OK("size-not-carried/"+fnName(f), f.Pos(), "the copy's size cache is left empty (recomputed with the new sidecar on demand)")
			return
		}
		isSidecar := func(v ssa.Value) bool {
			u, ok := v.(*ssa.UnOp)
			if !ok {
				return false
			}
			fa, ok := u.X.(*ssa.FieldAddr)
			return ok && fieldAddrName(fa) == ct+".BlobTx.Sidecar"
		}
		c.Dom("size-not-carried", f, sizeStores, "size cached on the copy", GCond("receiver has no sidecar", f, Cmp(isSidecar, token.EQL, Nil())))
	})
}

func init() {
	extendProp("C27", "Opcode handlers never slice with a bound produced by an unchecked 64-bit addition of run-time operands: a uint64 sum that reaches a slice bound in an opcode handler is either overflow-tested (sum < operand) or both operands are bounded by a dominating comparison; and RETURNDATACOPY tests the 256-bit overflow flag of offset+length before slicing the return data.", nil, func(c *Ctx) {
		c.Rule("OVF/C27.slicebounds")
		vmp := "core/vm"
		n := 0
		for _, f := range c.FuncsInFiles(vmp, "instructions.go", "eips.go") {
			eachInstr(f, func(in ssa.Instruction) {
				sl, ok := in.(*ssa.Slice)
				if !ok {
					return
				}
				for _, b := range []ssa.Value{sl.Low, sl.High} {
					if b == nil {
						continue
					}
					add, ok := stripConv(b).(*ssa.BinOp)
					if !ok || add.Op != token.ADD || !isUnsigned(add.Type()) {
						continue
					}
					if _, k := add.X.(*ssa.Const); k {
						continue
					}
					if _, k := add.Y.(*ssa.Const); k {
						continue
					}
					n++
					c.Funcs[f] = true
					// overflow test: sum < operand (either polarity) on a dominating edge
					tested := false
					for _, opd := range []ssa.Value{add.X, add.Y} {
						for e := range EdgesWhere(f, Cmp(Is(add), token.GEQ, Is(opd))) {
							if edgeDominates(e, in.Block()) {
								tested = true
							}
						}
					}
					c.Check(tested, "sum-bound/"+fnName(f), in.Pos(), "the 64-bit sum used as a slice bound is overflow-tested", fnName(f)+" slices with a bound computed by an unchecked uint64 addition of two run-time operands: operands near 2^64 wrap the bound below the other one and the slice expression panics instead of the frame halting")
				}
			})
		}
		if n == 0 {
			c.OK("sum-bound/none", token.NoPos, "no opcode handler slices with a 64-bit sum of run-time operands")
		}
		// RETURNDATACOPY: the 256-bit end offset's overflow flag is consulted before the slice
		if f := c.TryFn(vmp, "opReturnDataCopy"); f != nil {
			c.Funcs[f] = true
			var slices []Site
			eachInstr(f, func(in ssa.Instruction) {
				if sl, ok := in.(*ssa.Slice); ok {
					if u, ok := sl.X.(*ssa.UnOp); ok {
						if fa, ok := u.X.(*ssa.FieldAddr); ok && fieldAddrName(fa) == vmp+".EVM.returnData" {
							slices = append(slices, Site{f, in})
						}
					}
				}
			})
			c.Expect(1, len(slices), "slice of the return data in RETURNDATACOPY")
			ov := c.Calls(f, "(*github.com/holiman/uint256.Int).Uint64WithOverflow")
			c.Expect(2, len(ov), "Uint64WithOverflow conversions in RETURNDATACOPY")
			for i, o := range ov {
				call := o.Instr.(*ssa.Call)
				noOv := EdgesWhere(f, False(func(v ssa.Value) bool { return resultValues(call, 1)[v] }))
				g := Guard{Desc: "overflow flag clear", Steps: []Step{{Edges: noOv}}, Sites: len(noOv)}
				c.Dom(fmt.Sprintf("returndata-overflow-flag-%d", i), f, slices, "return data sliced", g)
			}
		}
	})
}

func init() {
	extendProp("C46", "The node that pushNode reports as evicted from a full replacement list is no longer in the returned list (its IP is released by the caller): the reported element is read before the list's elements are shifted/overwritten, never from the list as returned.", nil, func(c *Ctx) {
		c.Rule("SAMEVAL/C46.evicted")
		f := c.Fn("p2p/discover", "pushNode")
		if f == nil {
			return
		}
		c.Funcs[f] = true
		n := 0
		for _, r := range c.Returns(f) {
			ret := r.Instr.(*ssa.Return)
			ev := retVal(ret, 1)
			if Nil()(ev) {
				continue
			}
			n++
			ld, ok := ev.(*ssa.UnOp)
			if !ok {
				c.Undecided("evicted-not-kept/"+fnName(f), r.Pos(), "the evicted node is not a plain element read")
				continue
			}
			ia, ok := ld.X.(*ssa.IndexAddr)
			if !ok {
				c.Undecided("evicted-not-kept/"+fnName(f), r.Pos(), "the evicted node is not a plain element read")
				continue
			}
			// is the element overwritten (shift) after it was read?
			overwritten := false
			eachInstr(f, func(in ssa.Instruction) {
				if !instrReaches(ld, in) {
					return
				}
				switch x := in.(type) {
				case *ssa.Call:
					if b, ok := x.Call.Value.(*ssa.Builtin); ok && b.Name() == "copy" {
						overwritten = true
					}
				case *ssa.Store:
					if _, ok := x.Addr.(*ssa.IndexAddr); ok {
						overwritten = true
					}
				}
			})
			sameList := sameValue(retVal(ret, 0), ia.X)
			c.Check(overwritten || !sameList, "evicted-not-kept/"+fnName(f), r.Pos(), "the reported node was read before the list was shifted over it", "pushNode reports as evicted an element read from the very list it returns, with no later overwrite: the node is still in the replacement list, so the caller releases the IP of a live replacement and never releases the one actually dropped")
		}
		c.Expect(1, n, "returns of pushNode reporting an evicted node")
	})
}

func init() {
	extendProp("C47", "A sync cycle that commits to running never persists a stale `complete` status: in syncerV2.Sync the completed phase is demoted (or known not to be complete) before the catch-up runs and before the deferred status save is armed, so an interrupted catch-up cannot journal a completed sync at a block whose trie was never generated.", nil, func(c *Ctx) {
		c.Rule("ORDER/C47.demote")
		sp := "eth/protocols/snap"
		f := c.Fn(sp, "(*syncerV2).Sync")
		if f == nil {
			return
		}
		isComplete := func(v ssa.Value) bool {
			k, ok := v.(*ssa.Const)
			if !ok || k.Value == nil {
				return false
			}
			return k.Int64() == c.constInt(sp, "phaseComplete")
		}
		demote := c.CallsWhere(f, "(*"+sp+".syncerV2).setPhase", func(cc *ssaCall) bool {
			k, ok := cc.Args[1].(*ssa.Const)
			return ok && k.Value != nil && k.Int64() == c.constInt(sp, "phaseGenerate")
		})
		notComplete := GCond("phase != complete", f, Cmp(CallRes("(*"+sp+".syncerV2).getPhase"), token.NEQ, isComplete))
		var targets []Site
		targets = append(targets, c.Calls(f, "(*"+sp+".syncerV2).catchUp")...)
		nDefer := 0
		eachInstr(f, func(in ssa.Instruction) {
			d, ok := in.(*ssa.Defer)
			if !ok {
				return
			}
			if mc, ok := d.Call.Value.(*ssa.MakeClosure); ok {
				if len(c.Calls(mc.Fn.(*ssa.Function), "(*"+sp+".syncerV2).saveSyncStatus")) > 0 {
					nDefer++
					targets = append(targets, Site{f, in})
				}
			}
		})
		c.Expect(1, nDefer, "deferred status save in Sync")
		c.Expect(2, len(targets), "catch-up call and deferred save in Sync")
		c.Dom("demoted-before-running", f, targets, "catch-up / deferred save armed", GSites("setPhase(phaseGenerate)", demote), notComplete)
	})
}

func init() {
	extendProp("C50", "Unsubscribe returns only after the subscription's removal from the feed has completed, whichever caller performs it: the removal (feed.remove and closing the error channel) runs inside a sync.Once.Do that every return of Unsubscribe passes (a concurrent second caller waits for the first), not behind a flag that lets later callers return early.", nil, func(c *Ctx) {
		c.Rule("ONCE/C50.unsubscribe")
		n := 0
		for _, f := range c.AllFuncs("event") {
			if f.Name() != "Unsubscribe" || f.Signature.Recv() == nil {
				continue
			}
			rn := derefNamed(f.Signature.Recv().Type())
			if rn == nil || (rn.Obj().Name() != "feedSub" && rn.Obj().Name() != "feedOfSub") {
				continue
			}
			if f.Synthetic != "" && len(f.Blocks) == 0 {
				continue
			}
			n++
			c.Funcs[f] = true
			do := c.Calls(f, "(*sync.Once).Do")
			var rets []Site
			for _, r := range c.Returns(f) {
				if r.Instr.Block() != f.Recover {
					rets = append(rets, r)
				}
			}
			c.Dom("waits-for-removal", f, rets, "return", GSites("sub.errOnce.Do(remove)", do))
			inOnce := 0
			for _, d := range do {
				if mc, ok := d.Instr.(*ssa.Call).Call.Args[1].(*ssa.MakeClosure); ok {
					w := mc.Fn.(*ssa.Function)
					c.Funcs[w] = true
					inOnce += len(c.Calls(w, "*.remove"))
				}
			}
			direct := len(c.Calls(f, "*.remove"))
			c.Check(inOnce == 1 && direct == 0, "removal-inside-once/"+fnName(f), f.Pos(), "feed.remove runs inside the Once", "feed.remove is not (only) run inside the sync.Once of Unsubscribe")
		}
		c.Expect(2, n, "Unsubscribe methods of feed subscriptions")
	})
}

func init() {
	extendProp("C06", "The hasher's scratch buffer does not escape through hash(): no value returned by (*hasher).hash is (a slice of) the result of encodeShortNode/encodeFullNode/encodedBytes — an embedded child's blob is copied before it is returned, so a parent (in particular the parallel arm, whose per-child hashers go back to the pool at once) never holds bytes that the next user of the hasher overwrites.", nil, func(c *Ctx) {
		c.Rule("ESCAPE/C06.scratch")
		f := c.Fn("trie", "(*hasher).hash")
		if f == nil {
			return
		}
		c.Funcs[f] = true
		scratch := "(*trie.hasher).encodeShortNode|(*trie.hasher).encodeFullNode|(*trie.hasher).encodedBytes"
		fromScratch := func(v ssa.Value) bool {
			seen := map[ssa.Value]bool{}
			var walk func(v ssa.Value) bool
			walk = func(v ssa.Value) bool {
				if v == nil || seen[v] {
					return false
				}
				seen[v] = true
				switch x := v.(type) {
				case *ssa.Call:
					return matchCallee(calleeName(&x.Call), scratch)
				case *ssa.Slice:
					return walk(x.X)
				case *ssa.ChangeType:
					return walk(x.X)
				case *ssa.Convert:
					return walk(x.X)
				case *ssa.Phi:
					for _, e := range x.Edges {
						if walk(e) {
							return true
						}
					}
				}
				return false
			}
			return walk(v)
		}
		n := 0
		for _, r := range c.Returns(f) {
			if r.Instr.Block() == f.Recover {
				continue
			}
			n++
			v := retVal(r.Instr.(*ssa.Return), 0)
			c.Check(!fromScratch(v), "no-scratch-return/"+fnName(f), r.Pos(), "the returned bytes are a cached hash, a fresh hash, the hash node itself or a copy", "hash() returns the hasher's scratch buffer (the encoder's output) for an embedded node: the buffer is reused by the next encode on that hasher — in the parallel arm by another goroutine's child after the hasher went back to the pool — so the parent embeds overwritten bytes and the root hash is wrong")
		}
		c.Expect(5, n, "returns of hasher.hash")
	})
}
