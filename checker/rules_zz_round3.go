package main

import (
	"go/token"
	"go/types"
	"strings"

	"golang.org/x/tools/go/ssa"
)

// Rules added during the third round of seeded changes (seeded/<id>-r3) and
// for defects found on the way. SEEDS.md marks which seeds each answers.

// withVariant type-checks pkgs under another build configuration (extra
// environment, e.g. CGO_ENABLED=0) and runs fn with a context whose program is
// that variant; obligations land in c. A variant that does not load is
// UNDECIDED.
func withVariant(c *Ctx, name string, env []string, pkgs []string, fn func(v *Ctx)) {
	l, err := load(c.Repo, pkgs, c.Overlay, env, nil)
	if err != nil {
		c.Undecided("variant/"+name, token.NoPos, "build variant "+name+" does not load: "+err.Error())
		return
	}
	v := *c
	v.Fset, v.Prog, v.Pkgs, v.SSA = l.Fset, l.Prog, l.Pkgs, l.SSA
	v.doms = map[*ssa.Function]*struct{}{}
	fn(&v)
	c.Obs, c.Sites, c.rule = v.Obs, v.Sites, v.rule
}

func init() {
	extendProp("C03", "Both secp256k1 backends refuse a recovery id outside 0..3 before recovering a key: the cgo backend's RecoverPubkey succeeds only behind checkSignature (which rejects sig[64] >= 4), and the pure-Go backend's sigToPub (type-checked under CGO_ENABLED=0) reaches RecoverCompact only behind the same bound — the decred library would otherwise accept the compressed-key codes 4..7.", []string{"crypto", "crypto/secp256k1"}, func(c *Ctx) {
		c.Rule("CHECKSHAPE/C03.recid")
		isRecID := func(v ssa.Value) bool {
			u, ok := stripConv(v).(*ssa.UnOp)
			if !ok {
				return false
			}
			ia, ok := u.X.(*ssa.IndexAddr)
			return ok && constIs(ia.Index, 64)
		}
		four := func(v ssa.Value) bool { return constIs(v, 4) }
		bounded := func(f *ssa.Function) Guard {
			return GCond("sig[64] < 4", f, Cmp(isRecID, token.LSS, four))
		}
		// cgo backend (the loaded build)
		if cs := c.TryFn("crypto/secp256k1", "checkSignature"); cs != nil {
			c.Dom("cgo/checkSignature", cs, c.SuccessReturns(cs), "accepted signature", bounded(cs))
			if rp := c.TryFn("crypto/secp256k1", "RecoverPubkey"); rp != nil {
				c.Dom("cgo/RecoverPubkey", rp, c.SuccessReturns(rp), "recovered key", GErrChecked("checkSignature(sig)", c.Calls(rp, "crypto/secp256k1.checkSignature")))
			}
		} else {
			c.Undecided("cgo/checkSignature", token.NoPos, "crypto/secp256k1.checkSignature not found in the loaded build")
		}
		// pure-Go backend
		withVariant(c, "CGO_ENABLED=0", []string{"CGO_ENABLED=0"}, []string{"crypto"}, func(v *Ctx) {
			f := v.TryFn("crypto", "sigToPub")
			if f == nil {
				v.Undecided("nocgo/sigToPub", token.NoPos, "crypto.sigToPub not found in the CGO_ENABLED=0 build")
				return
			}
			rc := v.Calls(f, "github.com/decred/dcrd/dcrec/secp256k1/v4/ecdsa.RecoverCompact")
			v.Expect(1, len(rc), "RecoverCompact call in the pure-Go sigToPub")
			v.Dom("nocgo/sigToPub", f, rc, "key recovered by the library", bounded(f))
		})
	})
}

func init() {
	extendProp("C01", "Entering a nested list reduces the enclosing list's remaining size by the inner list's full declared size (no clamping): an inner list that overruns its parent is therefore never absorbed silently.", nil, func(c *Ctx) {
		c.Rule("SHAPE/C01.nestedlimit")
		f := c.Fn("rlp", "(*Stream).List")
		if f == nil {
			return
		}
		c.Funcs[f] = true
		n := 0
		eachInstr(f, func(in ssa.Instruction) {
			st, ok := in.(*ssa.Store)
			if !ok {
				return
			}
			ia, ok := st.Addr.(*ssa.IndexAddr)
			if !ok || !matchField(fieldOfLoad(ia.X), "rlp.Stream.stack") {
				return
			}
			n++
			b, isSub := st.Val.(*ssa.BinOp)
			good := isSub && b.Op == token.SUB && CallResN("(*rlp.Stream).listLimit", 1)(b.X) && CallResN("(*rlp.Stream).Kind", 1)(b.Y)
			c.Check(good, "outer-minus-inner/"+fnName(f), st.Pos(), "outer remaining size := limit − size of the inner list (as reported by Kind)", "the enclosing list's remaining size is not reduced by exactly the inner list's declared size: an inner list overrunning its parent no longer makes the parent's ListEnd fail, and the decoder reads past the enclosing list")
		})
		c.Expect(1, n, "update of the enclosing list's limit in Stream.List")
	})

	extendProp("C02", "A list element is decoded as a typed envelope only through decodeTyped: DecodeRLP never hands the string payload to UnmarshalBinary (which also accepts a bare legacy list, so a string-wrapped legacy transaction would be accepted and re-encode differently).", nil, func(c *Ctx) {
		c.Rule("WHO/C02.listelement")
		f := c.Fn("core/types", "(*Transaction).DecodeRLP")
		if f == nil {
			return
		}
		c.Funcs[f] = true
		bad := c.Calls(f, "(*core/types.Transaction).UnmarshalBinary")
		for _, s := range bad {
			c.Bad("typed-only/"+fnName(f), s.Pos(), "DecodeRLP decodes a string element through UnmarshalBinary, which also accepts legacy lists: a legacy transaction wrapped in an RLP string is accepted as a list element and does not re-encode to its input")
		}
		if len(bad) == 0 {
			c.Check(len(c.Calls(f, "(*core/types.Transaction).decodeTyped")) == 1, "typed-only/"+fnName(f), f.Pos(), "string elements are decoded by decodeTyped only", "DecodeRLP no longer decodes string elements through decodeTyped")
		}
	})

	extendProp("C03", "Signer equality — which decides whether a cached sender may be reused — compares everything the signer's accept/reject decision depends on: every field of modernSigner (chain id, supported-type set, legacy signer) is read in its Equal.", nil, func(c *Ctx) {
		c.Rule("FIELDCOV/C03.equal")
		ct := "core/types"
		T := c.Type(ct, "modernSigner")
		f := c.Fn(ct, "(*modernSigner).Equal")
		if T == nil || f == nil {
			return
		}
		c.CovReads("equal", f, T, ExFields(map[string]string{}), nil, false)
	})

	extendProp("C05", "The cloudflare BN254 backend accepts a coordinate only if it is strictly below the field modulus, like gnark and the pure-Go backend: gfP.Unmarshal returns nil only behind a word comparison coordinate < modulus, or behind the non-zero borrow of a coordinate − modulus subtraction chain.", []string{"crypto/bn256/cloudflare"}, func(c *Ctx) {
		c.Rule("CHECKSHAPE/C05.modulus")
		cf := "crypto/bn256/cloudflare"
		f := c.Fn(cf, "(*gfP).Unmarshal")
		if f == nil {
			return
		}
		c.Funcs[f] = true
		succ := c.SuccessReturns(f)
		c.Expect(1, len(succ), "accepting return of gfP.Unmarshal")
		isCoord := func(v ssa.Value) bool {
			u, ok := v.(*ssa.UnOp)
			if !ok {
				return false
			}
			ia, ok := u.X.(*ssa.IndexAddr)
			return ok && Param("e")(ia.X)
		}
		isMod := func(v ssa.Value) bool {
			u, ok := v.(*ssa.UnOp)
			if !ok {
				return false
			}
			ia, ok := u.X.(*ssa.IndexAddr)
			if !ok {
				return false
			}
			g, ok := ia.X.(*ssa.Global)
			return ok && g.Name() == "p2"
		}
		word := GCond("e[i] < p2[i]", f, Cmp(isCoord, token.LSS, isMod))
		subs := c.Calls(f, "math/bits.Sub64")
		if len(subs) == 0 {
			c.Dom("strictly-below", f, succ, "coordinate accepted", word)
			return
		}
		// borrow-chain idiom: coordinate − modulus, accepted on a non-zero final borrow
		order := true
		for _, s := range subs {
			a := s.Instr.(*ssa.Call).Call.Args
			if !(isCoord(a[0]) && isMod(a[1])) {
				order = false
			}
		}
		borrow := GCond("borrow of (coordinate − modulus) != 0", f, Cmp(func(v ssa.Value) bool {
			for _, s := range subs {
				if resultValues(s.Instr.(*ssa.Call), 1)[v] {
					return true
				}
			}
			if phi, ok := v.(*ssa.Phi); ok {
				for _, e := range phi.Edges {
					for _, s := range subs {
						if resultValues(s.Instr.(*ssa.Call), 1)[e] {
							return true
						}
					}
				}
			}
			return false
		}, token.NEQ, ConstInt(0)))
		if !order {
			c.Bad("strictly-below/"+fnName(f), subs[0].Pos(), "the range check subtracts the coordinate from the modulus: a zero borrow also holds for coordinate == modulus, which this backend then accepts (as the point's reduction 0) while gnark and the pure-Go backend reject it")
			return
		}
		c.Dom("strictly-below", f, succ, "coordinate accepted", borrow, word)
	})
}

func init() {
	extendProp("C06", "insert and delete never change a node while it keeps a cached hash: every store into a short node's Key/Val or a branch's Children is made on a node whose flags were replaced by t.newFlag() first (or on a fresh literal carrying it), so no cached hash survives a change below it.", nil, func(c *Ctx) {
		c.Rule("IMMUT/C06.inplace")
		n := 0
		for _, fn := range []string{"(*Trie).insert", "(*Trie).delete"} {
			f := c.Fn("trie", fn)
			if f == nil {
				continue
			}
			c.Funcs[f] = true
			eachInstr(f, func(in ssa.Instruction) {
				st, ok := in.(*ssa.Store)
				if !ok {
					return
				}
				addr := st.Addr
				if ia, ok := addr.(*ssa.IndexAddr); ok {
					addr = ia.X
				}
				fa, ok := addr.(*ssa.FieldAddr)
				if !ok {
					return
				}
				switch fieldAddrName(fa) {
				case "trie.shortNode.Val", "trie.shortNode.Key", "trie.fullNode.Children":
				default:
					return
				}
				n++
				base := fa.X
				// the node's flags are replaced by the new dirty flag in this function: before the
				// store for a node that already existed, anywhere in the literal for a fresh one
				_, isLit := base.(*ssa.Alloc)
				reset := false
				eachInstr(f, func(in2 ssa.Instruction) {
					s2, ok := in2.(*ssa.Store)
					if !ok {
						return
					}
					f2, ok := s2.Addr.(*ssa.FieldAddr)
					if !ok || f2.X != base {
						return
					}
					if nm := fieldAddrName(f2); nm == "trie.shortNode.flags" || nm == "trie.fullNode.flags" {
						if CallRes("(*trie.Trie).newFlag")(s2.Val) && (isLit || instrDominates(s2, st)) {
							reset = true
						}
					}
				})
				c.Check(reset, "flags-reset/"+fnName(f), st.Pos(), "the modified node gets the new dirty flag (cached hash dropped) before it is changed", fnName(f)+" stores into a node without first replacing its flags by t.newFlag(): a node that was already hashed keeps its cached hash, so the next Hash() returns a root that does not reflect the change")
			})
		}
		c.Expect(4, n, "child/key stores in insert and delete")
	})
}

// freshReturns: every (non-recover) return of f hands out a newly allocated
// object, never the receiver itself.
func freshReturns(c *Ctx, name string, f *ssa.Function) {
	c.Funcs[f] = true
	for _, r := range c.Returns(f) {
		if r.Instr.Block() == f.Recover {
			continue
		}
		v := retVal(r.Instr.(*ssa.Return), 0)
		fresh := false
		seen := map[ssa.Value]bool{}
		var walk func(v ssa.Value) bool
		walk = func(v ssa.Value) bool {
			if seen[v] {
				return true
			}
			seen[v] = true
			switch x := v.(type) {
			case *ssa.Alloc:
				return true
			case *ssa.Phi:
				for _, e := range x.Edges {
					if !walk(e) {
						return false
					}
				}
				return true
			case *ssa.Call:
				return x.Call.StaticCallee() != nil // a constructor; the receiver itself is a Parameter
			case *ssa.MakeInterface:
				return walk(x.X)
			}
			return false
		}
		fresh = walk(v)
		c.Check(fresh, name+"/"+fnName(f), r.Pos(), "returns a newly allocated object", fnName(f)+" can return its receiver (or another existing object) instead of a fresh copy: the copy and the original then share the tracker, and changes made through one are committed by the other")
	}
}

func init() {
	extendProp("C07", "Copies of a trie's change trackers are independent objects: opTracer.copy and PrevalueTracer.Copy return a newly allocated tracker on every path (never the receiver), so a copied trie's insertions/deletions are not recorded in the original's commit set.", nil, func(c *Ctx) {
		c.Rule("FRESH/C07.tracercopy")
		n := 0
		for _, fn := range []string{"(*opTracer).copy", "(*PrevalueTracer).Copy"} {
			if f := c.TryFn("trie", fn); f != nil {
				n++
				freshReturns(c, "fresh", f)
			}
		}
		c.Expect(2, n, "tracker copy methods")
	})

	extendProp("C08", "The proof walk matches a short node against the lookup key with the node's full key (terminator included): in get() and Prove the second argument of bytes.HasPrefix is n.Key itself, so a leaf never matches a longer, absent key.", nil, func(c *Ctx) {
		c.Rule("SAMEVAL/C08.fullkey")
		n := 0
		for _, fn := range []string{"get", "(*Trie).Prove"} {
			f := c.TryFn("trie", fn)
			if f == nil {
				continue
			}
			c.Funcs[f] = true
			for _, s := range c.Calls(f, "bytes.HasPrefix") {
				n++
				a := s.Instr.(*ssa.Call).Call.Args[1]
				ok := false
				if u, isLoad := a.(*ssa.UnOp); isLoad {
					if fa, isFA := u.X.(*ssa.FieldAddr); isFA && fieldAddrName(fa) == "trie.shortNode.Key" {
						ok = true
					}
				}
				c.Check(ok, "prefix-is-node-key/"+fnName(f), s.Pos(), "the short node is matched with its whole key", fnName(f)+" matches a short node with something other than its whole key (a stripped or sliced key): a leaf then matches longer lookup keys and the proof of an absent key verifies as present")
			}
		}
		c.Expect(2, n, "short-node prefix matches in the proof walks")
	})

	extendProp("C10", "The stack trie's byte-to-nibble conversion covers the whole key: writeHexKey returns dst[:2*len(key)] and its loop is bounded by the key alone, and the scratch buffers are grown whenever their capacity is below 2*len(key).", nil, func(c *Ctx) {
		c.Rule("SHAPE/C10.hexkey")
		isTwiceLen := func(v ssa.Value) bool {
			b, ok := stripConv(v).(*ssa.BinOp)
			if !ok || b.Op != token.MUL {
				return false
			}
			return (constIs(b.X, 2) && Len(Param("key"))(b.Y)) || (constIs(b.Y, 2) && Len(Param("key"))(b.X))
		}
		if f := c.Fn("trie", "writeHexKey"); f != nil {
			c.Funcs[f] = true
			for _, r := range c.Returns(f) {
				sl, ok := retVal(r.Instr.(*ssa.Return), 0).(*ssa.Slice)
				c.Check(ok && sl.High != nil && isTwiceLen(sl.High) && Param("dst")(sl.X), "whole-key/"+fnName(f), r.Pos(), "returns dst[:2*len(key)]", "writeHexKey does not return exactly 2*len(key) nibbles: a key longer than the scratch buffer is silently truncated")
			}
		}
		if f := c.Fn("trie", "(*StackTrie).grow"); f != nil {
			c.Funcs[f] = true
			for _, fld := range []string{"kBuf", "pBuf"} {
				isCap := func(v ssa.Value) bool {
					call, ok := v.(*ssa.Call)
					if !ok {
						return false
					}
					b, ok := call.Call.Value.(*ssa.Builtin)
					return ok && b.Name() == "cap" && matchField(fieldOfLoad(call.Call.Args[0]), "trie.StackTrie."+fld)
				}
				e := EdgesWhere(f, Cmp(isCap, token.LSS, isTwiceLen))
				c.Check(len(e) > 0, "grow/"+fld, f.Pos(), "grown when cap("+fld+") < 2*len(key)", "StackTrie.grow does not compare cap("+fld+") with 2*len(key): keys longer than the initial buffer are converted into a buffer that is too small")
			}
		}
	})

	extendProp("C12", "A code entry registers a dependency on its parent only if the code will actually be requested: in AddCodeEntry the parent's deps counter is incremented only behind the already-retrieved (membatch) and already-stored (database) checks.", nil, func(c *Ctx) {
		c.Rule("ORDER/C12.codedeps")
		f := c.Fn("trie", "(*Sync).AddCodeEntry")
		if f == nil {
			return
		}
		var incs []Site
		for _, s := range c.Stores(f, "trie.nodeRequest.deps") {
			incs = append(incs, s)
		}
		c.Expect(1, len(incs), "dependency registration in AddCodeEntry")
		c.Dom("not-in-membatch", f, incs, "parent dependency registered", GCond("!membatch.hasCode(hash)", f, False(CallRes("(*trie.syncMemBatch).hasCode"))))
		c.Dom("not-in-database", f, incs, "parent dependency registered", GCond("!HasCodeWithPrefix(db, hash)", f, False(CallRes("core/rawdb.HasCodeWithPrefix"))))
	})

	extendProp("C13", "A slot of an account destructed in this block is never read from the database: in GetCommittedState every path to the storage reader passes the not-destructed outcome of the stateObjectsDestruct lookup (whatever the account's current storage root).", nil, func(c *Ctx) {
		c.Rule("DOM/C13.destructed")
		cst := "core/state"
		f := c.Fn(cst, "(*stateObject).GetCommittedState")
		if f == nil {
			return
		}
		rd := c.Calls(f, "(core/state.Reader).Storage|(core/state.StateReader).Storage")
		c.Expect(1, len(rd), "database read in GetCommittedState")
		edges := map[Edge]bool{}
		eachInstr(f, func(in ssa.Instruction) {
			lk, ok := in.(*ssa.Lookup)
			if !ok || !lk.CommaOk || !matchField(fieldOfLoad(lk.X), cst+".StateDB.stateObjectsDestruct") {
				return
			}
			for e := range EdgesWhere(f, False(func(v ssa.Value) bool {
				ex, ok := v.(*ssa.Extract)
				return ok && ex.Tuple == ssa.Value(lk) && ex.Index == 1
			})) {
				edges[e] = true
			}
		})
		g := Guard{Desc: "account not destructed in this block", Steps: []Step{{Edges: edges}}, Sites: len(edges)}
		c.Dom("no-db-read-after-destruct", f, rd, "slot read from the database", g)
	})

	extendProp("C14", "A copied state carries the account trie whenever the original has one: every return of StateDB.Copy lies behind the copy of s.trie or s.trie == nil (mutations already applied to the trie are marked `applied` in the copy too, so a re-opened pristine trie would lose them).", nil, func(c *Ctx) {
		c.Rule("DOM/C14.copytrie")
		cst := "core/state"
		f := c.Fn(cst, "(*StateDB).Copy")
		if f == nil {
			return
		}
		var sts []Site
		for _, s := range c.Stores(f, cst+".StateDB.trie") {
			if CallRes(cst + ".mustCopyTrie")(s.Instr.(*ssa.Store).Val) {
				sts = append(sts, s)
			}
		}
		c.Expect(1, len(sts), "copy of the account trie in StateDB.Copy")
		var rets []Site
		for _, r := range c.Returns(f) {
			if r.Instr.Block() != f.Recover {
				rets = append(rets, r)
			}
		}
		isTrie := func(v ssa.Value) bool { return matchField(fieldOfLoad(v), cst+".StateDB.trie") }
		c.Dom("trie-copied", f, rets, "return", GSites("state.trie = mustCopyTrie(s.trie)", sts), GCond("s.trie == nil", f, Cmp(isTrie, token.EQL, Nil())))
	})

	extendProp("C15", "Every committed-state slot read is recorded in the block access list, cached or not: each return of GetCommittedState lies behind StorageRead(address, key) or the access list being disabled.", nil, func(c *Ctx) {
		c.Rule("DOM/C15.slotread")
		cst := "core/state"
		f := c.Fn(cst, "(*stateObject).GetCommittedState")
		if f == nil {
			return
		}
		rec := c.Calls(f, "(*core/types/bal.ConstructionBlockAccessList).StorageRead|*.StorageRead")
		c.Expect(1, len(rec), "StorageRead recording in GetCommittedState")
		var rets []Site
		for _, r := range c.Returns(f) {
			if r.Instr.Block() != f.Recover {
				rets = append(rets, r)
			}
		}
		isAL := func(v ssa.Value) bool { return matchField(fieldOfLoad(v), cst+".StateDB.stateAccessList") }
		c.Dom("recorded-on-every-read", f, rets, "return", GSites("stateAccessList.StorageRead(addr, key)", rec), GCond("stateAccessList == nil", f, Cmp(isAL, token.EQL, Nil())))
	})
}

func init() {
	extendProp("C16", "While the bottom diff layer is flattened into the disk layer, the surviving layer above it is write-locked: in layerTree.cap the partial persist of the parent runs behind diff.lock.Lock(), so a concurrent reader never walks down to the disk layer that the flatten is about to mark stale.", nil, func(c *Ctx) {
		c.Rule("ORDER/C16.caplock")
		pd := "triedb/pathdb"
		f := c.Fn(pd, "(*layerTree).cap")
		if f == nil {
			return
		}
		locks := c.CallsWhere(f, "(*sync.RWMutex).Lock", func(cc *ssaCall) bool {
			fa, ok := cc.Args[0].(*ssa.FieldAddr)
			return ok && fieldAddrName(fa) == pd+".diffLayer.lock"
		})
		// the partial persist (force == false) is the flatten that happens under the child's lock
		partial := c.CallsWhere(f, "(*"+pd+".diffLayer).persist", func(cc *ssaCall) bool { return ConstBool(false)(cc.Args[1]) })
		c.Expect(1, len(partial), "partial persist in layerTree.cap")
		c.Dom("flatten-under-child-lock", f, partial, "parent flattened", GSites("diff.lock.Lock()", locks))
	})

	extendProp("C17", "State written back by a rollback also refreshes the clean caches: every caller of writeStates/writeNodes passes a cache (never the nil constant), so flat reads after a rollback cannot be served stale values from the shared clean cache.", nil, func(c *Ctx) {
		c.Rule("CONSTARG/C17.cleancache")
		pd := "triedb/pathdb"
		n := 0
		for _, f := range c.AllFuncs(pd) {
			for _, s := range cat(c.Calls(f, pd+".writeStates"), c.Calls(f, pd+".writeNodes")) {
				n++
				c.Funcs[f] = true
				a := s.Instr.(*ssa.Call).Call.Args
				c.Check(!Nil()(a[len(a)-1]), "cache-arg/"+fnName(f), s.Pos(), "the clean cache is handed to the writer", fnName(f)+" writes states/nodes with a nil clean cache: the entries cached earlier keep their old values and are served after the write")
			}
		}
		c.Expect(4, n, "writeStates/writeNodes call sites")
	})

	stale := func(id string) {
		extendProp(id, "An index reader that is refreshed drops the cached block reader of the block that was last when it was opened: in indexReader.refresh the cached reader is released using the descriptor list held before it is reloaded.", nil, func(c *Ctx) {
			c.Rule("ORDER/" + id + ".refresh")
			pd := "triedb/pathdb"
			f := c.Fn(pd, "(*indexReader).refresh")
			if f == nil {
				return
			}
			c.Funcs[f] = true
			dels := c.MapWrites(f, pd+".indexReader.readers", true)
			c.Expect(1, len(dels), "release of a cached block reader in refresh")
			sts := c.Stores(f, pd+".indexReader.descList")
			c.Expect(1, len(sts), "reload of the descriptor list in refresh")
			for _, d := range dels {
				key := d.Instr.(*ssa.Call).Call.Args[1]
				fromOld := Mentions(func(v ssa.Value) bool { return matchField(fieldOfLoad(v), pd+".indexReader.descList") })(key)
				after := false
				for _, s := range sts {
					if instrReaches(s.Instr, d.Instr) {
						after = true
					}
				}
				c.Check(fromOld && !after, "old-last-block/"+fnName(f), d.Pos(), "the released reader is the last block of the list held before the reload", "refresh releases the cached reader of the last block of the reloaded list: when the writer rotated into a new block the previously-last block keeps its stale cached content and lookups in it return too-old ids")
			}
		})
	}
	stale("C18")
	stale("C19")

	extendProp("C20", "The journal header's disk root is read after the disk layer was terminated (background flush waited for): in Database.Journal the read of the persisted account-trie root lies behind disk.terminate() with its error tested, so the journal never names a pre-flush root and is not discarded on reload.", nil, func(c *Ctx) {
		c.Rule("ORDER/C20.journalroot")
		pd := "triedb/pathdb"
		f := c.Fn(pd, "(*Database).Journal")
		if f == nil {
			return
		}
		rd := c.Calls(f, "core/rawdb.ReadAccountTrieNode")
		c.Expect(1, len(rd), "read of the persisted root in Journal")
		c.Dom("root-after-terminate", f, rd, "persisted root read for the journal header", GErrChecked("disk.terminate()", c.Calls(f, "(*"+pd+".diskLayer).terminate")))
	})

	extendProp("C22", "Deleted slots reloaded from the journal are nil again: in the legacy snapshot's journal loader a storage value is stored into the rebuilt slot map as read only behind len(value) > 0 (RLP loses nil-ness; the fast iterator recognises tombstones by nil).", []string{"core/state/snapshot"}, func(c *Ctx) {
		c.Rule("DOM/C22.tombstones")
		f := c.Fn("core/state/snapshot", "iterateJournal")
		if f == nil {
			return
		}
		c.Funcs[f] = true
		var nonNil []Site
		n := 0
		eachInstr(f, func(in ssa.Instruction) {
			mu, ok := in.(*ssa.MapUpdate)
			if !ok {
				return
			}
			mt, ok := mu.Map.Type().Underlying().(*types.Map)
			if !ok {
				return
			}
			if sl, ok := mt.Elem().Underlying().(*types.Slice); !ok || !isByteType(sl.Elem()) {
				return
			}
			n++
			if !Nil()(mu.Value) {
				nonNil = append(nonNil, Site{f, in})
			}
		})
		c.Expect(2, n, "slot/account map fills in iterateJournal")
		c.Dom("value-only-if-nonempty", f, nonNil, "journalled value stored as read", GCond("len(value) > 0", f, Cmp(Len(Any()), token.GTR, ConstInt(0))))
	})

	extendProp("C23", "The prefixed table view builds each key of a call from its own copy of the prefix: no two append calls in a table method share the same base slice, so one bound of a range cannot overwrite the other through spare capacity.", nil, func(c *Ctx) {
		c.Rule("ALIAS/C23.tablekeys")
		n := 0
		for _, f := range c.FuncsInFiles("core/rawdb", "table.go") {
			bases := map[ssa.Value][]ssa.Instruction{}
			eachInstr(f, func(in ssa.Instruction) {
				call, ok := in.(*ssa.Call)
				if !ok {
					return
				}
				if b, ok := call.Call.Value.(*ssa.Builtin); !ok || b.Name() != "append" {
					return
				}
				base := call.Call.Args[0]
				if _, isConst := base.(*ssa.Const); isConst {
					return
				}
				bases[base] = append(bases[base], in)
			})
			for base, uses := range bases {
				n++
				c.Funcs[f] = true
				_ = base
				c.Check(len(uses) == 1, "own-prefix/"+fnName(f), uses[0].Pos(), "each appended key starts from its own prefix slice", fnName(f)+" appends to the same base slice more than once: with spare capacity the later append overwrites the bytes of the earlier key (a range's start bound is replaced by its end bound)")
			}
		}
		c.Expect(10, n, "prefixed keys built in table.go")
	})
}

func isByteType(t types.Type) bool {
	b, ok := t.Underlying().(*types.Basic)
	return ok && b.Kind() == types.Uint8
}

func init() {
	extendProp("C25", "Freezing deletes block data only through the audited deletion helpers: the rawdb Delete* functions reachable from chainFreezer.freeze (through its package-local helpers) form a closed set that contains no index deletion (transaction lookups, canonical-hash markers of other heights), so migrating or wiping a side block can never remove an index entry that points at canonical data.", nil, func(c *Ctx) {
		c.Rule("WHO/C25.deleters")
		rdb := "core/rawdb"
		f := c.Fn(rdb, "(*chainFreezer).freeze")
		if f == nil {
			return
		}
		audited := map[string]string{
			"DeleteBlockWithoutNumber": "frozen canonical block: header, body, receipts, td (the hash→number mapping is kept)",
			"DeleteBlock":              "side block at a frozen height / dangling descendant",
			"DeleteCanonicalHash":      "canonical marker of the frozen height (now served by the freezer)",
			"DeleteHeader":             "part of DeleteBlock",
			"deleteHeaderWithoutNumber": "part of DeleteBlockWithoutNumber/DeleteHeader",
			"DeleteBody":               "part of DeleteBlock*",
			"DeleteReceipts":           "part of DeleteBlock*",
			"DeleteTd":                 "part of DeleteBlock*",
			"DeleteHeaderNumber":       "part of DeleteHeader (side blocks only)",
			"DeleteAccessList":         "part of DeleteBlock* (the block's own access list, keyed by number and hash)",
		}
		seen := map[*ssa.Function]bool{}
		found := map[string]bool{}
		var walk func(g *ssa.Function, d int)
		walk = func(g *ssa.Function, d int) {
			if seen[g] || d > 3 {
				return
			}
			seen[g] = true
			c.Funcs[g] = true
			eachInstr(g, func(in ssa.Instruction) {
				call, ok := in.(ssa.CallInstruction)
				if !ok {
					return
				}
				if mc, ok := call.Common().Value.(*ssa.MakeClosure); ok {
					walk(mc.Fn.(*ssa.Function), d+1)
				}
				for _, a := range call.Common().Args {
					if mc, ok := a.(*ssa.MakeClosure); ok {
						walk(mc.Fn.(*ssa.Function), d+1)
					}
				}
				cal := call.Common().StaticCallee()
				if cal == nil || cal.Pkg == nil || cal.Pkg != f.Pkg {
					return
				}
				nm := cal.Name()
				if len(nm) >= 6 && (nm[:6] == "Delete" || nm[:6] == "delete") {
					found[nm] = true
					why, ok := audited[nm]
					if ok {
						c.OK("deleter/"+nm, in.Pos(), why)
					} else {
						c.Bad("deleter/"+nm, in.Pos(), "freezing reaches "+nm+" (from "+fnName(g)+"), which is not one of the audited block-data deletions: an index entry (e.g. the transaction lookup shared with the canonical block of the same height) disappears when a side block is wiped")
					}
				}
				walk(cal, d+1)
			})
		}
		walk(f, 0)
		c.Expect(3, len(found), "deletion helpers reachable from freeze")
	})
}

func init() {
	extendProp("C28", "A frame never reads or writes below its own stack base in the shared arena: for every operation bound in a jump table, the deepest stack slot its execute function touches is covered by the declared minStack, and depths computed at run time (DUPN/SWAPN/EXCHANGE) sit behind a Stack.len() guard of at least that depth — otherwise a callee would reach its caller's items.", nil, func(c *Ctx) {
		c.Rule("STACKFX/C28.frames")
		pkg := c.Pkgs[vmp]
		if pkg == nil {
			return
		}
		n := 0
		for _, b := range extractOpBindings(c, pkg) {
			if b.Partial {
				continue
			}
			ex, hasEx := b.Fields["execute"]
			if !hasEx {
				continue
			}
			id := b.OpName + "@" + b.Builder
			fn, env, ok := resolveFuncExpr(c, pkg, ex)
			if !ok {
				continue
			}
			c.Funcs[fn] = true
			fx := stackEffect(fn, env, 0)
			n++
			if fx.Undecided != "" {
				if strings.Contains(fx.Undecided, "no dominating Stack.len() check") {
					c.Bad(id+"/own-frame", b.Pos, "a stack slot at a run-time depth is accessed without a sufficient Stack.len() guard: in a nested frame the slot below the frame's base belongs to the caller ("+fx.Undecided+")")
				}
				continue // other undecided effects are C27's business
			}
			mn, okMin := int64(0), true
			if e, has := b.Fields["minStack"]; has {
				mn, okMin = evalIntExpr(c, pkg, e)
			}
			if !okMin {
				continue
			}
			c.Check(int(mn) >= fx.Need, id+"/own-frame", b.Pos, "deepest slot touched is within the frame's own items", "the operation touches a slot deeper than its declared minStack: in a nested frame that slot is the caller's")
		}
		c.Expect(150, n, "operations checked for frame-local stack access")
	})
}

func init() {
	extendProp("C26", "EXTCODEHASH follows EIP-1052/EIP-161: the hash slot is zeroed exactly under StateDB.Empty(address) (an existing but empty account yields 0, not the empty-code hash), and the code hash is pushed on the other branch.", nil, func(c *Ctx) {
		c.Rule("CHECKSHAPE/C26.extcodehash")
		f := c.Fn(vmp, "opExtCodeHash")
		if f == nil {
			return
		}
		empty := c.Calls(f, "(core/vm.StateDB).Empty")
		clr := c.Calls(f, "(*github.com/holiman/uint256.Int).Clear")
		set := c.Calls(f, "(core/vm.StateDB).GetCodeHash")
		c.Expect(1, len(clr), "zero push in opExtCodeHash")
		c.Expect(1, len(set), "code-hash push in opExtCodeHash")
		tE, fE := map[Edge]bool{}, map[Edge]bool{}
		for _, s := range empty {
			call := s.Instr.(*ssa.Call)
			for e := range ResultTrueEdges(call, 0) {
				tE[e] = true
			}
			for e := range EdgesWhere(f, False(Is(call))) {
				fE[e] = true
			}
		}
		c.Dom("zero-iff-empty", f, clr, "zero pushed", Guard{Desc: "StateDB.Empty(address)", Steps: []Step{{Edges: tE}}, Sites: len(tE)})
		c.Dom("hash-iff-nonempty", f, set, "code hash pushed", Guard{Desc: "!StateDB.Empty(address)", Steps: []Step{{Edges: fE}}, Sites: len(fE)})
	})

	extendProp("C27", "Memory.GetPtr tolerates the zero-length operands that the memory-size functions leave unconstrained: its slice expression lies behind the size != 0 outcome (a zero size returns before slicing), so KECCAK256/CALL with size 0 and an arbitrary offset cannot panic.", nil, func(c *Ctx) {
		c.Rule("DOM/C27.zerosize")
		f := c.Fn(vmp, "(*Memory).GetPtr")
		if f == nil {
			return
		}
		c.Funcs[f] = true
		var sl []Site
		eachInstr(f, func(in ssa.Instruction) {
			if _, ok := in.(*ssa.Slice); ok {
				sl = append(sl, Site{f, in})
			}
		})
		c.Expect(1, len(sl), "slice of the memory store in GetPtr")
		c.Dom("nonzero-size", f, sl, "memory sliced", GCond("size != 0", f, Cmp(Param("size"), token.NEQ, ConstInt(0))))
	})

	extendProp("C32", "A balance credited to an account is a value of its own: what AddBalance/SubBalance hand to SetBalance is a freshly computed integer, never the caller's argument, so a caller that reuses its scratch integer (the uncle-reward loop does) cannot change a balance afterwards.", []string{"core/state"}, func(c *Ctx) {
		c.Rule("IMMUT/C32.balancearg")
		cst := "core/state"
		n := 0
		for _, fn := range []string{"(*stateObject).AddBalance", "(*stateObject).SubBalance"} {
			f := c.TryFn(cst, fn)
			if f == nil {
				continue
			}
			c.Funcs[f] = true
			for _, s := range c.Calls(f, "(*"+cst+".stateObject).SetBalance") {
				n++
				a := s.Instr.(*ssa.Call).Call.Args[1]
				c.Check(!Mentions(Param("amount"))(a) || isFreshArith(a), "fresh-balance/"+fnName(f), s.Pos(), "the stored balance is a newly computed integer", fnName(f)+" stores the caller's own *uint256.Int as the account balance: the balance then aliases an integer the caller may keep mutating (consensus reward loops reuse one scratch value), so ether appears or vanishes after the credit")
			}
		}
		c.Expect(1, n, "SetBalance calls in AddBalance/SubBalance")
	})
}

// isFreshArith: v is the result of an arithmetic method applied on a newly
// allocated uint256/big integer (new(T).Op(...)): a fresh object.
func isFreshArith(v ssa.Value) bool {
	call, ok := v.(*ssa.Call)
	if !ok || call.Call.IsInvoke() || len(call.Call.Args) == 0 {
		return false
	}
	_, isNew := call.Call.Args[0].(*ssa.Alloc)
	return isNew
}

func init() {
	extendProp("C34", "Storage-trie updates precede deletions within one flush: in updateTrie no UpdateStorage can execute after a DeleteStorage, so which nodes are resolved (and end up in the witness) does not depend on map iteration order.", nil, func(c *Ctx) {
		c.Rule("ORDER/C34.updatesfirst")
		cst := "core/state"
		f := c.Fn(cst, "(*stateObject).updateTrie")
		if f == nil {
			return
		}
		c.Funcs[f] = true
		ups := c.Calls(f, "(core/state.Trie).UpdateStorage")
		dels := c.Calls(f, "(core/state.Trie).DeleteStorage")
		c.Expect(1, len(ups), "UpdateStorage in updateTrie")
		c.Expect(1, len(dels), "DeleteStorage in updateTrie")
		for _, d := range dels {
			bad := ""
			for _, u := range ups {
				if instrReaches(d.Instr, u.Instr) {
					bad = c.pos(u.Pos())
				}
			}
			c.Check(bad == "", "no-update-after-delete/"+fnName(f), d.Pos(), "every update has been applied before the first deletion", "a slot update (at "+bad+") can run after a deletion: a deletion applied first collapses a two-child branch and resolves the sibling from disk, which the opposite order never touches — the witness collected in one order is insufficient for a re-execution that iterates the map in another")
		}
	})

	extendProp("C35", "The excess blob gas of a header is computed under the rules of the fork that header belongs to: inside CalcExcessBlobGas every fork predicate and the blob-schedule lookup take the head timestamp parameter, never the parent's time.", nil, func(c *Ctx) {
		c.Rule("SAMEVAL/C35.forkselect")
		ep := "consensus/misc/eip4844"
		f := c.Fn(ep, "CalcExcessBlobGas")
		if f == nil {
			return
		}
		c.Funcs[f] = true
		n := 0
		eachInstr(f, func(in ssa.Instruction) {
			call, ok := in.(*ssa.Call)
			if !ok {
				return
			}
			cal := call.Call.StaticCallee()
			if cal == nil {
				return
			}
			nm := cal.Name()
			isFork := recvNamed(cal) == modPrefix+"params.ChainConfig" && len(nm) > 2 && nm[:2] == "Is" && cal.Signature.Params().Len() == 2
			isSched := nm == "latestBlobConfig"
			if !isFork && !isSched {
				return
			}
			n++
			a := call.Call.Args[len(call.Call.Args)-1]
			c.Check(Param("headTimestamp")(a), "head-time/"+nm, in.Pos(), "decided by the head timestamp", "CalcExcessBlobGas selects "+nm+" by something other than the head timestamp: on the first block of the fork the client computes (and demands) the previous fork's formula")
		})
		c.Expect(2, n, "fork/schedule selections in CalcExcessBlobGas")
	})

	extendProp("C37", "The estimator never mutates the caller's state: the balance it subtracts the value and blob fees from is a Clone() of State.GetBalance, not the state object's own integer.", nil, func(c *Ctx) {
		c.Rule("IMMUT/C37.balance")
		f := c.Fn("eth/gasestimator", "Estimate")
		if f == nil {
			return
		}
		c.Funcs[f] = true
		u := "(*github.com/holiman/uint256.Int)."
		n := 0
		for _, s := range c.Calls(f, u+"Sub|"+u+"Add|"+u+"Mul|"+u+"Div|"+u+"Set") {
			recv := s.Instr.(*ssa.Call).Call.Args[0]
			// does the receiver alias the state's balance?
			seen := map[ssa.Value]bool{}
			var aliasesState func(v ssa.Value) bool
			aliasesState = func(v ssa.Value) bool {
				if v == nil || seen[v] {
					return false
				}
				seen[v] = true
				switch x := v.(type) {
				case *ssa.Call:
					nm := calleeName(&x.Call)
					if strings.HasSuffix(nm, ").GetBalance") {
						return true
					}
					if strings.HasPrefix(nm, u) && !strings.HasSuffix(nm, ").Clone") && len(x.Call.Args) > 0 {
						// in-place arithmetic returns its receiver
						if res := x.Call.StaticCallee().Signature.Results(); res.Len() == 1 && types.Identical(res.At(0).Type(), x.Call.Args[0].Type()) {
							return aliasesState(x.Call.Args[0])
						}
					}
				case *ssa.Phi:
					for _, e := range x.Edges {
						if aliasesState(e) {
							return true
						}
					}
				}
				return false
			}
			if _, isAlloc := recv.(*ssa.Alloc); isAlloc {
				continue
			}
			n++
			c.Check(!aliasesState(recv), "own-copy/"+fnName(f), s.Pos(), "arithmetic is done on the estimator's own copy", "Estimate does in-place arithmetic on the integer returned by State.GetBalance: the sender's balance in the caller's state is reduced by the transfer value, every probe then double-charges it and the estimate fails (and the pre-state stays mutated)")
		}
		c.Expect(1, n, "in-place balance arithmetic in Estimate")
	})

	extendProp("C38", "A log slice handed to event subscribers is never reused as a buffer: reorg does not re-slice its removed/reborn log buffers to length zero (it drops them), so logs collected afterwards cannot overwrite an event already delivered.", nil, func(c *Ctx) {
		c.Rule("ALIAS/C38.logbuffers")
		f := c.Fn("core", "(*BlockChain).reorg")
		if f == nil {
			return
		}
		c.Funcs[f] = true
		bad := 0
		eachInstr(f, func(in ssa.Instruction) {
			sl, ok := in.(*ssa.Slice)
			if !ok || sl.High == nil || !constIs(sl.High, 0) {
				return
			}
			if st, ok := sl.X.Type().Underlying().(*types.Slice); ok {
				if n := derefNamed(st.Elem()); n != nil && n.Obj().Name() == "Log" {
					bad++
					c.Bad("no-buffer-reuse/"+fnName(f), in.Pos(), "reorg truncates a log buffer with [:0] after it was sent to subscribers: the delivered event shares its backing array with the buffer and is overwritten by the logs of the following blocks")
				}
			}
		})
		if bad == 0 {
			c.OK("no-buffer-reuse/"+fnName(f), f.Pos(), "log buffers are dropped, not re-sliced, after being sent")
		}
		sends := c.Calls(f, "(*event.FeedOf[T]).Send|(*event.Feed).Send")
		c.Check(len(sends) >= 2, "sends/"+fnName(f), f.Pos(), "reorg sends removed and reborn log events", "reorg no longer sends the removed/reborn log events")
	})

	extendProp("C39", "State-history tail truncation never passes the persisted state: truncateFromTail in writeHistory lies behind a comparison of the state id read from the database (not an in-memory counter) with the new first history.", []string{"triedb/pathdb"}, func(c *Ctx) {
		c.Rule("ORDER/C39.historytail")
		pdb := "triedb/pathdb"
		w := c.Fn(pdb, "(*diskLayer).writeHistory")
		if w == nil {
			return
		}
		tt := c.Calls(w, pdb+".truncateFromTail")
		c.Dom("tail-below-persisted", w, tt, "truncateFromTail",
			GCond("persistentID>=newFirst", w, Cmp(CallRes("core/rawdb.ReadPersistentStateID"), token.GEQ, Any())))
	})

	extendProp("C40", "Unindexing an epoch also drops its maps from the render cache: the deletion callback of deleteTailEpoch removes the epoch's maps from filterMapCache (the renderer skips rows equal to the cached copy, so a stale cached map would never be written back).", nil, func(c *Ctx) {
		c.Rule("PAIR/C40.tailcache")
		fm := "core/filtermaps"
		f := c.Fn(fm, "(*FilterMaps).deleteTailEpoch")
		if f == nil {
			return
		}
		n := 0
		for _, cl := range allClosures(f) {
			rows := c.Calls(cl, "core/rawdb.DeleteFilterMapRows")
			if len(rows) == 0 {
				continue
			}
			n++
			c.Funcs[cl] = true
			var rm []Site
			for _, s := range c.Calls(cl, "*.Remove") {
				if matchField(fieldOfLoad(s.Instr.(*ssa.Call).Call.Args[0]), fm+".FilterMaps.filterMapCache") {
					rm = append(rm, s)
				}
			}
			// the eviction sits in a loop over the epoch's maps, so it is not on *every* path (an empty
			// epoch skips it); what is decided: it exists, inside a loop, behind the successful row deletion
			ok := false
			for _, r := range rm {
				if innermostLoopHeader(cl, r.Instr.Block()) != nil && instrReaches(rows[0].Instr, r.Instr) {
					ok = true
				}
			}
			c.Check(ok, "rows-and-cache/"+fnName(cl), rows[0].Pos(), "the epoch's maps are evicted from the render cache in a loop after their rows were deleted", "deleteTailEpoch deletes an epoch's rows without evicting its maps from filterMapCache: when the epoch is rendered again the renderer finds the rows equal to the stale cached map and never writes them back, so indexed searches silently miss the logs of those maps")
		}
		c.Expect(1, n, "row deletion callback in deleteTailEpoch")
	})

	extendProp("C41", "The nonce heap of a transaction list never keeps nonces whose transactions were filtered out: every use of the non-reheaping SortedMap.filter in the pool is followed by reheap() on all paths to the function's return.", nil, func(c *Ctx) {
		c.Rule("PAIR/C41.reheap")
		lp := "core/txpool/legacypool"
		n := 0
		for _, f := range c.AllFuncs(lp) {
			if recvNamed(f) == modPrefix+lp+".SortedMap" {
				continue // the map's own methods compose filter+reheap themselves
			}
			fl := c.Calls(f, "(*"+lp+".SortedMap).filter")
			if len(fl) == 0 {
				continue
			}
			n++
			var rets []Site
			for _, r := range c.Returns(f) {
				if r.Instr.Block() != f.Recover {
					rets = append(rets, r)
				}
			}
			c.Followed("filter-then-reheap", f, fl, "txs.filter(...)", c.Calls(f, "(*"+lp+".SortedMap).reheap"), "txs.reheap()", rets)
		}
		c.Expect(1, n, "users of the raw SortedMap.filter")
	})

	extendProp("C42", "Pulling a blob out of the limbo removes its store id from its block's group: in getAndDrop every successful return lies behind delete(l.groups[block], id), so a later finalize of that block cannot delete a store slot that has been reused.", nil, func(c *Ctx) {
		c.Rule("PAIR/C42.limbogroup")
		bp := "core/txpool/blobpool"
		f := c.Fn(bp, "(*limbo).getAndDrop")
		if f == nil {
			return
		}
		c.Funcs[f] = true
		var inner []Site
		eachInstr(f, func(in ssa.Instruction) {
			call, ok := in.(*ssa.Call)
			if !ok {
				return
			}
			b, ok := call.Call.Value.(*ssa.Builtin)
			if !ok || b.Name() != "delete" {
				return
			}
			lk, ok := call.Call.Args[0].(*ssa.Lookup)
			if ok && matchField(fieldOfLoad(lk.X), bp+".limbo.groups") && Param("id")(call.Call.Args[1]) {
				inner = append(inner, Site{f, in})
			}
		})
		c.Dom("id-leaves-group", f, c.SuccessReturns(f), "blob pulled", GSites("delete(l.groups[item.Block], id)", inner))
	})
}

func init() {
	extendProp("C37", "A constant estimate (the plain-transfer shortcut's 21000) is returned only where the capped upper bound — the very value the first full execution would run with — is known to be at least that constant, so the shortcut cannot exceed the gas cap or the funds allowance.", nil, func(c *Ctx) {
		c.Rule("CAP/C37.shortcut")
		ge := "eth/gasestimator"
		est := c.Fn(ge, "Estimate")
		if est == nil {
			return
		}
		c.Funcs[est] = true
		// the capped upper bound: gas argument of the execute call that is not a constant and dominates the search loop
		var hi ssa.Value
		for _, s := range c.Calls(est, ge+".execute") {
			a := s.Instr.(*ssa.Call).Call.Args[3]
			if _, isConst := a.(*ssa.Const); isConst {
				continue
			}
			if hi == nil || instrDominates(s.Instr, hi.(ssa.Instruction)) {
				if _, ok := a.(ssa.Instruction); ok {
					hi = a
				}
			}
		}
		if hi == nil {
			c.Undecided("upper-bound", est.Pos(), "could not identify the capped upper bound passed to the first full execution")
			return
		}
		n := 0
		for _, r := range c.SuccessReturns(est) {
			k, isConst := retVal(r.Instr.(*ssa.Return), 0).(*ssa.Const)
			if !isConst || ConstInt(0)(k) {
				continue
			}
			n++
			kv := k.Int64()
			g := GCond("hi >= constant", est, Cmp(func(v ssa.Value) bool { return v == hi }, token.GEQ, func(v ssa.Value) bool { return constIs(v, kv) }))
			c.Dom("within-cap", est, []Site{r}, "constant estimate returned", g)
		}
		c.Expect(1, n, "constant estimate returns (plain-transfer shortcut)")
	})
}

func init() {
	extendProp("C44", "The ECDH step of ECIES never multiplies an unchecked point: in GenerateShared the scalar multiplication with the static private key lies behind Curve.IsOnCurve(pub.X, pub.Y) holding (the ephemeral key of a received packet is only parsed, not validated, before it gets here).", []string{"crypto/ecies"}, func(c *Ctx) {
		c.Rule("DOM/C44.oncurve")
		f := c.Fn("crypto/ecies", "(*PrivateKey).GenerateShared")
		if f == nil {
			return
		}
		mul := c.Calls(f, "(crypto/elliptic.Curve).ScalarMult")
		c.Expect(1, len(mul), "ECDH scalar multiplication in GenerateShared")
		c.Dom("point-validated", f, mul, "ScalarMult with the private key", GCond("IsOnCurve(pub.X, pub.Y)", f, True(CallRes("(crypto/elliptic.Curve).IsOnCurve"))))
	})

	extendProp("C45", "A decoded WHOAREYOU owns its challenge data: the ChallengeData stored in the returned packet is a newly made slice (a copy), not a view of the codec's reusable decode buffer, so decoding the next packet cannot change the data the handshake signature and session keys are derived from.", nil, func(c *Ctx) {
		c.Rule("ALIAS/C45.challenge")
		v5 := "p2p/discover/v5wire"
		f := c.Fn(v5, "(*Codec).decodeWhoareyou")
		if f == nil {
			return
		}
		c.Funcs[f] = true
		sts := c.Stores(f, v5+".Whoareyou.ChallengeData")
		c.Expect(1, len(sts), "ChallengeData of the decoded WHOAREYOU")
		for _, s := range sts {
			_, isMake := s.Instr.(*ssa.Store).Val.(*ssa.MakeSlice)
			c.Check(isMake, "own-copy/"+fnName(f), s.Pos(), "ChallengeData is a freshly made slice (filled by copy)", "the decoded WHOAREYOU's ChallengeData aliases the decoder's buffer: the next Decode overwrites it, the handshake built from it is rejected (invalid ID nonce signature)")
		}
	})

	extendProp("C46", "The distance comparison covers the whole node id: DistCmp's loop runs while its index is below the id length (32), with no offset that would skip the last word, so ids sharing a long prefix are still ordered by their true XOR distance.", []string{"p2p/enode"}, func(c *Ctx) {
		c.Rule("SHAPE/C46.distcmp")
		f := c.Fn("p2p/enode", "DistCmp")
		if f == nil {
			return
		}
		c.Funcs[f] = true
		n := 0
		for _, b := range f.Blocks {
			iff, ok := b.Instrs[len(b.Instrs)-1].(*ssa.If)
			if !ok {
				continue
			}
			cmp, ok := iff.Cond.(*ssa.BinOp)
			if !ok || cmp.Op != token.LSS || !constIs(cmp.Y, 32) {
				continue
			}
			n++
			_, isPhi := cmp.X.(*ssa.Phi)
			c.Check(isPhi, "whole-id/"+fnName(f), cmp.Pos(), "the loop index itself is compared with the id length", "DistCmp's loop condition compares an offset index with the id length: the last 8 bytes of the ids are never compared, nodes sharing a 24-byte prefix count as equidistant and closest-node results are wrong")
		}
		c.Expect(1, n, "loop condition of DistCmp")
	})

	extendProp("C48", "Serving a trie-node request never damages the trie it is served from: getNode returns a nil replacement node (with no error) only for a nil or value node; for short and full nodes it hands back the node itself, so a non-existent path cannot make the parent drop a resolved subtree that later paths of the same request need.", []string{"trie"}, func(c *Ctx) {
		c.Rule("DOM/C48.getnode")
		f := c.Fn("trie", "(*Trie).getNode")
		if f == nil {
			return
		}
		c.Funcs[f] = true
		var targets []Site
		for _, r := range c.Returns(f) {
			if r.Instr.Block() == f.Recover {
				continue
			}
			ret := r.Instr.(*ssa.Return)
			if Nil()(retVal(ret, 1)) && Nil()(retVal(ret, 3)) {
				targets = append(targets, r)
			}
		}
		c.Expect(2, len(targets), "returns of getNode without replacement node")
		isValueAssert := func(v ssa.Value) bool {
			ex, ok := v.(*ssa.Extract)
			if !ok || ex.Index != 1 {
				return false
			}
			ta, ok := ex.Tuple.(*ssa.TypeAssert)
			return ok && namedName(ta.AssertedType) == "trie.valueNode"
		}
		c.Dom("nil-only-for-leafless", f, targets, "nil replacement returned",
			GCond("origNode == nil", f, Cmp(Param("origNode"), token.EQL, Nil())),
			GCond("origNode is a valueNode", f, True(isValueAssert)))
	})

	extendProp("C49", "A batch that is cut short answers calls only: respondWithError appends an error response for an entry only behind !msg.isNotification().", nil, func(c *Ctx) {
		c.Rule("DOM/C49.batcherror")
		r := "rpc"
		f := c.Fn(r, "(*batchCallBuffer).respondWithError")
		if f == nil {
			return
		}
		sts := c.Stores(f, r+".batchCallBuffer.resp")
		c.Expect(1, len(sts), "error responses appended in respondWithError")
		c.Dom("calls-only", f, sts, "error response appended", GCond("!msg.isNotification()", f, False(CallRes("(*"+r+".jsonrpcMessage).isNotification"))))
	})

	extendProp("C51", "Signed integers decode over their full range: ReadInteger's native signed arms reject by comparing the 64-bit value with the type's exact minimum and maximum (−2^(N−1) and 2^(N−1)−1), so the minimum value that Pack produces is accepted.", nil, func(c *Ctx) {
		c.Rule("CHECKSHAPE/C51.signedrange")
		f := c.Fn("accounts/abi", "ReadInteger")
		if f == nil {
			return
		}
		c.Funcs[f] = true
		for _, n := range []struct {
			name     string
			min, max int64
		}{{"int8", -128, 127}, {"int16", -32768, 32767}, {"int32", -2147483648, 2147483647}} {
			lo := EdgesWhere(f, Cmp(Any(), token.LSS, func(v ssa.Value) bool { return constIs(v, n.min) }))
			hi := EdgesWhere(f, Cmp(Any(), token.GTR, func(v ssa.Value) bool { return constIs(v, n.max) }))
			c.Check(len(lo) > 0 && len(hi) > 0, "bounds/"+n.name, f.Pos(), "rejects below the exact minimum and above the exact maximum", "ReadInteger no longer compares "+n.name+" values with the exact bounds of the type: a symmetric magnitude test rejects the minimum value, which Pack encodes")
		}
	})

	extendProp("C52", "Unlocking always proves knowledge of the passphrase: every successful return of TimedUnlock lies behind getDecryptedKey with its error tested — there is no path that answers from the unlocked-accounts map alone.", nil, func(c *Ctx) {
		c.Rule("DOM/C52.unlock")
		ks := "accounts/keystore"
		f := c.Fn(ks, "(*KeyStore).TimedUnlock")
		if f == nil {
			return
		}
		c.Dom("passphrase-checked", f, c.SuccessReturns(f), "unlock reported as successful", GErrChecked("ks.getDecryptedKey(a, passphrase)", c.Calls(f, "(*"+ks+".KeyStore).getDecryptedKey")))
	})
}

func init() {
	extendProp("C47", "The resume-time wipe of uncovered flat state is bounded per task: in pruneStaleState every range deletion that starts at a task's (or storage chunk's) Next cursor ends at that same task's Last key, so progress journalled by other, out-of-order chunks is never deleted.", nil, func(c *Ctx) {
		c.Rule("SAMEVAL/C47.prunerange")
		sp := "eth/protocols/snap"
		f := c.Fn(sp, "(*syncerV2).pruneStaleState")
		if f == nil {
			return
		}
		c.Funcs[f] = true
		fieldBase := func(v ssa.Value, fld string) []ssa.Value {
			var out []ssa.Value
			seen := map[ssa.Value]bool{}
			var walk func(v ssa.Value, d int)
			walk = func(v ssa.Value, d int) {
				if v == nil || seen[v] || d > 10 {
					return
				}
				seen[v] = true
				switch x := v.(type) {
				case *ssa.UnOp:
					if fa, ok := x.X.(*ssa.FieldAddr); ok {
						if n := fieldAddrName(fa); strings.HasSuffix(n, "."+fld) {
							out = append(out, fa.X)
						}
					}
					walk(x.X, d+1)
				case *ssa.Call:
					for _, a := range x.Call.Args {
						walk(a, d+1)
					}
				case *ssa.Slice:
					walk(x.X, d+1)
				case *ssa.Convert:
					walk(x.X, d+1)
				case *ssa.ChangeType:
					walk(x.X, d+1)
				case *ssa.Alloc:
					for _, r := range *x.Referrers() {
						ia, ok := r.(*ssa.IndexAddr)
						if !ok {
							continue
						}
						for _, r2 := range *ia.Referrers() {
							if st, ok := r2.(*ssa.Store); ok && st.Addr == ssa.Value(ia) {
								walk(st.Val, d+1)
							}
						}
					}
				}
				// not through phis: a start that moves along a list of protected keys is a gap wipe,
				// bounded by the next protected key, not a task window
			}
			walk(v, 0)
			return out
		}
		n := 0
		for _, s := range c.Calls(f, sp+".deleteKeyRange") {
			a := s.Instr.(*ssa.Call).Call.Args
			starts := fieldBase(a[1], "Next")
			if len(starts) == 0 {
				continue // a range between protected hashes, not a task window
			}
			n++
			ends := fieldBase(a[2], "Last")
			same := false
			for _, x := range starts {
				for _, y := range ends {
					if sameValue(x, y) {
						same = true
					}
				}
			}
			c.Check(same, "window/"+fnName(f), s.Pos(), "the wipe [task.Next, task.Last] uses one task's own bounds", "a range deletion starts at a task's Next cursor but does not end at that task's Last key: slots already downloaded (and journalled) by later chunks are wiped on resume and never requested again, so the sync ends with a state-root mismatch")
		}
		c.Expect(2, n, "task-window wipes in pruneStaleState")
	})
}

func init() {
	extendProp("C17", "Every history store that a rollback truncates is one whose coverage of the target was checked beforehand: each freezer field of Database that Recover hands to truncateFromHead is also read by Recoverable (a store with its own retention limit that is truncated but never consulted makes Recover fail after the state was already reverted).", nil, func(c *Ctx) {
		c.Rule("SIBLING/C17.recoverstores")
		pd := "triedb/pathdb"
		rec := c.Fn(pd, "(*Database).Recover")
		able := c.Fn(pd, "(*Database).Recoverable")
		if rec == nil || able == nil {
			return
		}
		c.Funcs[rec], c.Funcs[able] = true, true
		read := map[string]bool{}
		eachInstr(able, func(in ssa.Instruction) {
			if fa, ok := in.(*ssa.FieldAddr); ok {
				read[fieldAddrName(fa)] = true
			}
		})
		n := 0
		for _, s := range c.Calls(rec, pd+".truncateFromHead") {
			store := ifaceSrc(s.Instr.(*ssa.Call).Call.Args[0])
			fld := fieldOfLoad(store)
			if fld == "" {
				c.Undecided("store/"+fnName(rec), s.Pos(), "the store truncated by Recover is not a field of the database")
				continue
			}
			n++
			short := fld[strings.LastIndex(fld, ".")+1:]
			c.Check(read[fld], "consulted/"+short, s.Pos(), "Recoverable consults "+short+" before Recover truncates it", "Recover truncates "+short+" down to the target, but Recoverable never consults that store: when its tail lies above the target (it has its own retention limit, or was enabled later) Recover fails with a head-truncation error after the state has already been reverted and the state history truncated, and the database no longer reopens")
		}
		c.Expect(2, n, "history stores truncated by Recover")
	})
}

func init() {
	extendProp("C09", "The edge walk never recurses into a value child unprepared: where unset descends into Children[key[pos]] of a branch, either the index is known to be below 16 (not the terminator slot) or unset handles a value node as its child argument instead of panicking.", nil, func(c *Ctx) {
		c.Rule("PANIC/C09.valuechild")
		f := c.Fn("trie", "unset")
		if f == nil {
			return
		}
		c.Funcs[f] = true
		// does unset handle a valueNode passed as `child`?
		handles := false
		eachInstr(f, func(in ssa.Instruction) {
			if ta, ok := in.(*ssa.TypeAssert); ok && namedName(ta.AssertedType) == "trie.valueNode" && Param("child")(ta.X) {
				handles = true
			}
		})
		n := 0
		for _, s := range c.Calls(f, "trie.unset") {
			call := s.Instr.(*ssa.Call)
			ld, ok := call.Call.Args[1].(*ssa.UnOp)
			if !ok {
				continue
			}
			ia, ok := ld.X.(*ssa.IndexAddr)
			if !ok {
				continue
			}
			if fa, ok := ia.X.(*ssa.FieldAddr); !ok || fieldAddrName(fa) != "trie.fullNode.Children" {
				continue
			}
			n++
			if handles {
				c.OK("branch-descent/"+fnName(f), s.Pos(), "unset handles a value node as child")
				continue
			}
			idx := ia.Index
			g := GCond("key[pos] < 16", f, Cmp(func(v ssa.Value) bool { return sameValue(stripConv(v), stripConv(idx)) }, token.LSS, func(v ssa.Value) bool { return constIs(v, 16) }))
			c.Dom("branch-descent", f, []Site{s}, "descent into Children[key[pos]]", g)
		}
		c.Expect(1, n, "descents into a branch child in unset")
	})
}

func init() {
	extendProp("C08", "The proof of an empty trie verifies: Prove stores no node for an empty trie, so VerifyProof must accept the empty root without a node — some accepting return of VerifyProof lies behind rootHash == types.EmptyRootHash.", nil, func(c *Ctx) {
		c.Rule("SIBLING/C08.emptyroot")
		f := c.Fn("trie", "VerifyProof")
		if f == nil {
			return
		}
		c.Funcs[f] = true
		isEmptyRoot := func(v ssa.Value) bool {
			u, ok := v.(*ssa.UnOp)
			if !ok {
				return false
			}
			g, ok := u.X.(*ssa.Global)
			return ok && g.Name() == "EmptyRootHash"
		}
		isRoot := func(v ssa.Value) bool {
			if Param("rootHash")(v) {
				return true
			}
			u, ok := v.(*ssa.UnOp)
			if !ok {
				return false
			}
			a, ok := u.X.(*ssa.Alloc)
			return ok && (a.Comment == "rootHash" || a.Comment == "wantHash")
		}
		edges := map[Edge]bool{}
		for e := range EdgesWhere(f, Cmp(isRoot, token.EQL, isEmptyRoot)) {
			edges[e] = true
		}
		for e := range EdgesWhere(f, Cmp(isEmptyRoot, token.EQL, isRoot)) {
			edges[e] = true
		}
		ok := false
		for _, r := range c.SuccessReturns(f) {
			for e := range edges {
				if edgeDominates(e, r.Instr.Block()) {
					ok = true
				}
			}
		}
		c.Check(ok, "empty-trie-accepted/"+fnName(f), f.Pos(), "the empty root is accepted without a proof node", "VerifyProof has no accepting path for the empty root: the (empty) proof that Prove produces for an empty trie is refused with `proof node 0 missing` instead of verifying every key as absent")
	})
}

func init() {
	extendProp("C02", "Decoding into a transaction object replaces everything derived from its previous contents: setDecoded stores the hash, size and sender caches on every path (the hash of a decoded transaction is the hash of the bytes just decoded, also when the object was used before).", nil, func(c *Ctx) {
		c.Rule("RESET/C02.caches")
		ct := "core/types"
		f := c.Fn(ct, "(*Transaction).setDecoded")
		if f == nil {
			return
		}
		c.Funcs[f] = true
		var rets []Site
		for _, r := range c.Returns(f) {
			if r.Instr.Block() != f.Recover {
				rets = append(rets, r)
			}
		}
		for _, fld := range []string{"hash", "size", "from"} {
			var stores []Site
			eachInstr(f, func(in ssa.Instruction) {
				call, ok := in.(*ssa.Call)
				if !ok || len(call.Call.Args) == 0 {
					return
				}
				cal := call.Call.StaticCallee()
				if cal == nil || cal.Name() != "Store" {
					return
				}
				if fa, ok := call.Call.Args[0].(*ssa.FieldAddr); ok && fieldAddrName(fa) == ct+".Transaction."+fld {
					stores = append(stores, Site{f, in})
				}
			})
			if len(stores) == 0 {
				c.Bad("cache-replaced/"+fld, f.Pos(), "setDecoded never stores the `"+fld+"` cache: a transaction object that is decoded into again keeps the value cached for its previous contents (Hash() then returns the hash of other bytes)")
				continue
			}
			c.Dom("cache-replaced/"+fld, f, rets, "return", GSites("tx."+fld+".Store(…)", stores))
		}
	})
}
