package main

import (
	"go/token"
	"sort"
	"strings"

	"golang.org/x/tools/go/ssa"
)

func init() {
	Register(&Prop{
		ID:   "C26",
		Pkgs: []string{"core/vm"},
		Decided: "every rule set can be selected and selects what it is named for: the EVM's instruction-set dispatch tests forks newest-first in exactly the order in which each set's constructor derives from its predecessor (each constructor starts from the preceding fork's set and returns through validate; each table variable is initialised by the constructor of its own fork), the two precompile dispatchers test the same flags in the same newest-first order and return the contract map and the address list of the same fork, and every address list is filled from the map of its own fork; in the CALL-family gas functions that charge cost components provisionally (EIP-2929/7702/8037), the components charged before the callee's gas is computed, the components added back to the frame, the components taken back out of the used-gas counter and the components reported in the returned cost are the same set, every charge is checked for out-of-gas, and the 63/64 computation runs after all of them.",
		NotDec: "agreement with the execution specification's reference implementation on any state transition (requires the reference at run time; outside this technique); opcode semantics and gas constants.",
		Rules:  "TABLE fork order ↔ constructor lineage; TABLE paired precompile dispatch; PREPAY charged ≡ restored ≡ reported components",
		MinObs: 98,
		Run:    c26,
	})
}

type forkArm struct {
	flag   string // params.Rules field tested ("" = default)
	result string // name of the global selected
	pos    token.Pos
}

// switchArms walks a tagless switch over params.Rules flags compiled to an
// if-chain: each block tests one flag; the true successor selects a global.
func switchArms(f *ssa.Function, start *ssa.BasicBlock, pick func(b *ssa.BasicBlock) string) []forkArm {
	var out []forkArm
	b := start
	seen := map[*ssa.BasicBlock]bool{}
	for b != nil && !seen[b] {
		seen[b] = true
		iff, ok := b.Instrs[len(b.Instrs)-1].(*ssa.If)
		if !ok {
			if r := pick(b); r != "" {
				out = append(out, forkArm{"", r, b.Instrs[0].Pos()})
			}
			break
		}
		flag := ""
		if u, ok := iff.Cond.(*ssa.UnOp); ok {
			if fa, ok := u.X.(*ssa.FieldAddr); ok && strings.HasPrefix(fieldAddrName(fa), "params.Rules.") {
				flag = strings.TrimPrefix(fieldAddrName(fa), "params.Rules.")
			}
		}
		if fl, ok := iff.Cond.(*ssa.Field); ok {
			flag = fl.X.Type().Underlying().(interface{ Field(int) interface{ Name() string } }).Field(fl.Field).Name()
		}
		if flag == "" {
			break
		}
		out = append(out, forkArm{flag, pick(b.Succs[0]), iff.Pos()})
		b = b.Succs[1]
	}
	return out
}

func c26(c *Ctx) {
	// ---- instruction sets ---------------------------------------------------------------------------
	c.Rule("TABLE/C26.forkorder")
	ne := c.Fn(vmp, "NewEVM")
	var order []string // flags, newest first
	if ne != nil {
		c.Funcs[ne] = true
		var start *ssa.BasicBlock
		for _, b := range ne.Blocks {
			if iff, ok := b.Instrs[len(b.Instrs)-1].(*ssa.If); ok {
				if u, ok := iff.Cond.(*ssa.UnOp); ok {
					if fa, ok := u.X.(*ssa.FieldAddr); ok && fieldAddrName(fa) == "params.Rules.IsBogota" || ok && start == nil && strings.HasPrefix(fieldAddrName(fa), "params.Rules.Is") && tableStore(b.Succs[0]) != "" {
						if start == nil {
							start = b
						}
					}
				}
			}
		}
		if start == nil {
			c.Undecided("dispatch", ne.Pos(), "instruction-set dispatch not found in NewEVM")
			return
		}
		arms := switchArms(ne, start, tableStore)
		c.Expect(17, len(arms), "instruction-set arms in NewEVM")
		init := c.Fn(vmp, "init")
		_ = init
		ctorOf := func(tbl string) *ssa.Function {
			// table variable "xInstructionSet" is initialised by "newXInstructionSet"
			n := "new" + strings.ToUpper(tbl[:1]) + tbl[1:]
			return c.TryFn(vmp, n)
		}
		firstCall := func(f *ssa.Function) string {
			name := ""
			for _, in := range f.Blocks[0].Instrs {
				if call, ok := in.(*ssa.Call); ok {
					if fn := call.Call.StaticCallee(); fn != nil {
						name = fn.Name()
						break
					}
				}
			}
			return name
		}
		// package initialiser assigns each table from its own constructor
		inits := map[string]string{}
		for _, f := range c.AllFuncs(vmp) {
			if f.Name() != "init" || f.Synthetic == "" {
				continue
			}
			eachInstr(f, func(in ssa.Instruction) {
				if st, ok := in.(*ssa.Store); ok {
					if g, ok := st.Addr.(*ssa.Global); ok && strings.HasSuffix(g.Name(), "InstructionSet") {
						if call, ok := st.Val.(*ssa.Call); ok {
							if fn := call.Call.StaticCallee(); fn != nil {
								inits[g.Name()] = fn.Name()
							}
						}
					}
				}
			})
		}
		var mainline []forkArm
		for _, a := range arms {
			if a.flag == "IsUBT" {
				c.Exempt("branch/"+a.flag, a.pos, "the UBT/verkle set forks off an earlier fork's set and is orthogonal to the main fork order")
				continue
			}
			mainline = append(mainline, a)
			if a.flag != "" {
				order = append(order, a.flag)
			}
		}
		for i, a := range mainline {
			ct := ctorOf(a.result)
			if !c.Check(ct != nil, "ctor/"+a.result, a.pos, "the table has a constructor of its own name", "table "+a.result+" has no constructor named after it") {
				continue
			}
			c.Funcs[ct] = true
			c.Check(inits[a.result] == ct.Name(), "init/"+a.result, a.pos, "the table variable is built by its own constructor", "table "+a.result+" is initialised by "+inits[a.result]+", not by "+ct.Name())
			if i+1 < len(mainline) {
				pred := ctorOf(mainline[i+1].result)
				c.Check(pred != nil && firstCall(ct) == pred.Name(), "lineage/"+a.result, ct.Pos(), "the set derives from the set of the fork tested next (the preceding fork)", "instruction set "+a.result+" does not derive from "+mainline[i+1].result+", the set of the fork tested after it: dispatch order and lineage disagree")
			}
			// returns through validate
			for _, r := range c.Returns(ct) {
				v := retVal(r.Instr.(*ssa.Return), 0)
				isLit := a.flag == "" // frontier builds the literal
				c.Check(CallRes(vmp+".validate")(v) || isLit, "validated/"+a.result, r.Pos(), "the set is returned through validate", "instruction set "+a.result+" is not validated")
			}
		}
	}

	// ---- precompiles --------------------------------------------------------------------------------
	c.Rule("TABLE/C26.pairs")
	ret := func(b *ssa.BasicBlock) string {
		for _, in := range b.Instrs {
			if r, ok := in.(*ssa.Return); ok && len(r.Results) == 1 {
				v := r.Results[0]
				if u, ok := v.(*ssa.UnOp); ok {
					v = u.X
				}
				if g, ok := v.(*ssa.Global); ok {
					return g.Name()
				}
			}
		}
		return ""
	}
	pm, pa := c.Fn(vmp, "activePrecompiledContracts"), c.Fn(vmp, "ActivePrecompiles")
	if pm != nil && pa != nil {
		c.Funcs[pm], c.Funcs[pa] = true, true
		am, aa := switchArms(pm, pm.Blocks[0], ret), switchArms(pa, pa.Blocks[0], ret)
		byFlag := map[string]string{}
		var seqM, seqA []string
		for _, a := range am {
			if a.flag == "IsUBT" {
				continue
			}
			seqM = append(seqM, a.flag)
			byFlag[a.flag] = a.result
		}
		for _, a := range aa {
			seqA = append(seqA, a.flag)
			m := byFlag[a.flag]
			c.Check(m != "" && strings.TrimPrefix(m, "PrecompiledContracts") == strings.TrimPrefix(a.result, "PrecompiledAddresses"), "pair/"+a.flag, a.pos, "the address list and the contract map selected under this flag belong to the same fork", "under "+a.flag+" the contract map is "+m+" but the address list is "+a.result)
		}
		c.Check(strings.Join(seqM, ",") == strings.Join(seqA, ","), "same-order", pm.Pos(), "both dispatchers test the same flags in the same order", "the two precompile dispatchers test different flags / orders: "+strings.Join(seqM, ",")+" vs "+strings.Join(seqA, ","))
		c.Expect(8, len(seqA), "precompile dispatch arms")
		// newest first, consistent with the instruction-set order
		pos := map[string]int{}
		for i, f := range order {
			pos[f] = i
		}
		last := -1
		okOrder := true
		for _, f := range seqA {
			if f == "" {
				continue
			}
			p, known := pos[f]
			if !known || p < last {
				okOrder = false
			}
			last = p
		}
		c.Check(okOrder, "newest-first", pa.Pos(), "precompile flags are tested newest fork first", "a precompile dispatcher tests an older fork before a newer one: the newer rule set can never be selected")
	}
	// address lists filled from their own map
	for _, f := range c.AllFuncs(vmp) {
		if !strings.HasPrefix(f.Name(), "init#") && f.Name() != "init" {
			continue
		}
		eachInstr(f, func(in ssa.Instruction) {
			st, ok := in.(*ssa.Store)
			if !ok {
				return
			}
			g, ok := st.Addr.(*ssa.Global)
			if !ok || !strings.HasPrefix(g.Name(), "PrecompiledAddresses") {
				return
			}
			h := innermostLoopHeader(f, st.Block())
			src := ""
			if h != nil {
				for _, hin := range h.Instrs {
					if nx, ok := hin.(*ssa.Next); ok {
						if rg, ok := nx.Iter.(*ssa.Range); ok {
							if u, ok := rg.X.(*ssa.UnOp); ok {
								if sg, ok := u.X.(*ssa.Global); ok {
									src = sg.Name()
								}
							}
						}
					}
				}
			}
			c.Funcs[f] = true
			c.Check(strings.TrimPrefix(src, "PrecompiledContracts") == strings.TrimPrefix(g.Name(), "PrecompiledAddresses") && src != "", "filled/"+g.Name(), st.Pos(), "the address list is filled from the map of the same fork", g.Name()+" is filled from "+src)
		})
	}

	// ---- provisional charges ----------------------------------------------------------------------------
	c.Rule("PREPAY/C26.callgas")
	np := 0
	for _, f := range c.AllFuncs(vmp) {
		ch := c.Calls(f, "(*"+vmp+".Contract).chargeExecution")
		cg := c.Calls(f, vmp+".callGas")
		if len(ch) == 0 || !strings.HasPrefix(f.Name(), "makeCallVariantGasCall") {
			continue
		}
		np++
		c.Funcs[f] = true
		var charged []ssa.Value
		for _, s := range ch {
			call := s.Instr.(*ssa.Call)
			charged = append(charged, call.Call.Args[1])
			ok := len(EdgesWhere(f, True(Is(call)))) > 0 || len(EdgesWhere(f, False(Is(call)))) > 0
			c.Check(ok, "charge-checked/"+fnName(f), s.Pos(), "an unaffordable component aborts with out-of-gas", "the result of a provisional charge is ignored")
			for _, g := range cg {
				c.Check(instrReaches(s.Instr, g.Instr) && !instrReaches(g.Instr, s.Instr), "charge-before-callgas/"+fnName(f), s.Pos(), "the component is charged before the callee's gas is computed", "a cost component is charged after the 63/64 computation")
			}
		}
		leaves := func(v ssa.Value) []ssa.Value {
			var out []ssa.Value
			var walk func(v ssa.Value, d int)
			walk = func(v ssa.Value, d int) {
				if b, ok := v.(*ssa.BinOp); ok && b.Op == token.ADD && d < 6 {
					walk(b.X, d+1)
					walk(b.Y, d+1)
					return
				}
				out = append(out, v)
			}
			walk(v, 0)
			return out
		}
		same := func(comp, charge ssa.Value) bool {
			if comp == charge || sameValue(comp, charge) {
				return true
			}
			if phi, ok := comp.(*ssa.Phi); ok {
				hit := false
				for _, e := range phi.Edges {
					if e == charge || sameValue(e, charge) {
						hit = true
					} else if ep, ok := e.(*ssa.Phi); ok {
						for _, ee := range ep.Edges {
							if ee == charge || sameValue(ee, charge) {
								hit = true
							}
						}
					} else if !ConstInt(0)(e) {
						if _, isC := e.(*ssa.Const); !isC {
							return false
						}
					}
				}
				return hit
			}
			// the charge argument itself may be the phi (e.g. eip7702Cost = warm | cold)
			return false
		}
		setEq := func(name string, comps []ssa.Value, pos token.Pos, what string) {
			var missing, extra []string
			for _, ch := range charged {
				ok := false
				for _, cp := range comps {
					if same(cp, ch) {
						ok = true
					}
				}
				if !ok {
					missing = append(missing, valDesc(ch))
				}
			}
			for _, cp := range comps {
				ok := false
				for _, ch := range charged {
					if same(cp, ch) {
						ok = true
					}
				}
				if !ok {
					extra = append(extra, valDesc(cp))
				}
			}
			sort.Strings(missing)
			sort.Strings(extra)
			c.Check(len(missing) == 0 && len(extra) == 0, name+"/"+fnName(f), pos, what+" are exactly the provisionally charged components", what+" differ from the charged components (charged but absent: ["+strings.Join(missing, ", ")+"]; present but never charged: ["+strings.Join(extra, ", ")+"])")
		}
		// restored to the frame
		for _, s := range c.Stores(f, vmp+".GasBudget.ExecutionGas") {
			b, ok := s.Instr.(*ssa.Store).Val.(*ssa.BinOp)
			if !ok || b.Op != token.ADD {
				continue
			}
			setEq("restored", leaves(b.Y), s.Pos(), "the components added back to the frame's gas")
		}
		var usedBack []ssa.Value
		var usedPos token.Pos
		for _, s := range c.Stores(f, vmp+".GasBudget.UsedExecutionGas") {
			b, ok := s.Instr.(*ssa.Store).Val.(*ssa.BinOp)
			if ok && b.Op == token.SUB {
				usedBack = append(usedBack, leaves(b.Y)...)
				usedPos = s.Pos()
			}
		}
		if len(usedBack) > 0 {
			setEq("used-restored", usedBack, usedPos, "the components taken back out of the used-gas counter")
		}
		// reported
		var reported []ssa.Value
		var repPos token.Pos
		for _, s := range c.Calls(f, "common/math.SafeAdd") {
			for _, a := range s.Instr.(*ssa.Call).Call.Args {
				if CallRes("common/math.SafeAdd")(a) || Mentions(Fld(vmp + ".EVM.callGasTemp"))(a) || Fld(vmp+".GasCosts.ExecutionGas")(a) {
					continue
				}
				if ex, ok := a.(*ssa.Extract); ok {
					if _, isCall := ex.Tuple.(*ssa.Call); isCall && !CallRes(vmp + ".callGas")(a) {
						if cc := ex.Tuple.(*ssa.Call); cc.Call.StaticCallee() == nil {
							// the result of the wrapped calculator / intrinsic function value
						}
					}
				}
				reported = append(reported, a)
				repPos = s.Pos()
			}
		}
		if len(reported) > 0 {
			setEq("reported", reported, repPos, "the components reported in the returned cost")
		}
	}
	c.Expect(3, np, "CALL-family gas functions with provisional charges")
}

// tableStore: name of the instruction-set global stored to evm.table in block b.
func tableStore(b *ssa.BasicBlock) string {
	for _, in := range b.Instrs {
		if st, ok := in.(*ssa.Store); ok {
			if fa, ok := st.Addr.(*ssa.FieldAddr); ok && fieldAddrName(fa) == vmp+".EVM.table" {
				if g, ok := st.Val.(*ssa.Global); ok {
					return g.Name()
				}
			}
		}
	}
	return ""
}
