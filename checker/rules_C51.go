package main

import (
	"go/token"

	"golang.org/x/tools/go/ssa"
)

func init() {
	Register(&Prop{
		ID:   "C51",
		Pkgs: []string{"accounts/abi"},
		Decided: "every offset or length taken from the encoded bytes is range-checked as a big integer (at most the output length and at most 63 bits — directly, or through the sum it is part of) before it is narrowed to int, and the functions return the narrowed values only past those rejects; toGoType touches output only after index+32 <= len(output), checks the 64-bit offset of a dynamic array against the output length before slicing, and takes begin/length from the checked prefix; forEachUnpack rejects a negative size and start+32*size beyond the output before creating or filling the container and advances by the element's static size; head positions in tuples and argument lists advance by the same rule in all four places (static arrays and static tuples occupy getTypeSize/32 words), and the packer's head size uses the same getTypeSize, so encoder and decoder agree on where heads end; Pack writes a dynamic value's offset as the running head+tail size and appends tails after all heads.",
		NotDec: "round-trip equality and layout conformance for all types and values (value-level; reflection-driven); canonical-prefix re-encoding of arbitrary input.",
		Rules:  "NARROW big.Int→int guards; DOM bounds before slicing; SIBLING head-advance formula (4 sites) + pack/unpack agreement on getTypeSize",
		MinObs: 42,
		Run:    c51,
	})
}

func c51(c *Ctx) {
	ab := "accounts/abi"
	// ---- narrowing ------------------------------------------------------------------------------------
	c.Rule("NARROW/C51")
	nn := 0
	for _, name := range []string{"lengthPrefixPointsTo", "tuplePointsTo"} {
		f := c.Fn(ab, name)
		if f == nil {
			continue
		}
		c.Funcs[f] = true
		// values that stand for x in a check: x itself and sums that include x
		carriers := func(x ssa.Value) []ssa.Value {
			out := []ssa.Value{x}
			for _, s := range c.Calls(f, "(*math/big.Int).Add") {
				a := s.Instr.(*ssa.Call).Call.Args
				if sameValue(a[1], x) || sameValue(a[2], x) {
					out = append(out, s.Instr.(ssa.Value))
				}
				// x.Add(x, k) returns x itself: the check on x after the Add covers the sum
			}
			return out
		}
		for _, s := range c.Calls(f, "(*math/big.Int).Uint64") {
			nn++
			x := s.Instr.(*ssa.Call).Call.Args[0]
			okBits, okLen := false, false
			for _, cv := range carriers(x) {
				cvp := Is(cv)
				bitLenOf := func(v ssa.Value) bool {
					call, ok := v.(*ssa.Call)
					return ok && calleeName(&call.Call) == "(*math/big.Int).BitLen" && cvp(call.Call.Args[0])
				}
				for e := range EdgesWhere(f, Cmp(bitLenOf, token.LEQ, func(v ssa.Value) bool { return constIs(v, 63) })) {
					if edgeDominates(e, s.Instr.Block()) {
						okBits = true
					}
				}
				for e := range EdgesWhere(f, Cmp(cvp, token.LEQ, CallRes("math/big.NewInt"))) {
					if edgeDominates(e, s.Instr.Block()) {
						okLen = true
					}
				}
			}
			c.Check(okBits, "bits/"+fnName(f), s.Pos(), "the value is known to fit 63 bits before it is narrowed", "a big integer read from the input is narrowed to int without a BitLen() <= 63 reject: a huge offset wraps to a small or negative int")
			c.Check(okLen, "length/"+fnName(f), s.Pos(), "the value is known to be at most the output length before it is narrowed", "a big integer read from the input is narrowed without being compared with the output length")
		}
		// the BitLen receiver must be the checked value: CallRes with receiver constraint is not expressible, so verify directly
		for _, s := range c.Calls(f, "(*math/big.Int).BitLen") {
			c.Check(ErrOrBranchUses(f, s.Instr.(*ssa.Call)), "bits-tested/"+fnName(f), s.Pos(), "the bit length decides a branch", "a BitLen() result is computed but not tested")
		}
		// outputLength really is len(output)
		for _, s := range c.Calls(f, "math/big.NewInt") {
			a := s.Instr.(*ssa.Call).Call.Args[0]
			c.Check(Len(Param("output"))(stripConv(a)), "outlen/"+fnName(f), s.Pos(), "the bound is the output's length", "the bound compared against is not len(output)")
		}
	}
	c.Expect(4, nn, "big.Int → int narrowings")

	// ---- bounds ---------------------------------------------------------------------------------------
	c.Rule("DOM/C51.bounds")
	if tg := c.Fn(ab, "toGoType"); tg != nil {
		c.Funcs[tg] = true
		var uses []Site
		eachInstr(tg, func(in ssa.Instruction) {
			switch x := in.(type) {
			case *ssa.Slice:
				if Param("output")(x.X) {
					uses = append(uses, Site{tg, in})
				}
			case *ssa.Call:
				if _, isB := x.Call.Value.(*ssa.Builtin); isB {
					return
				}
				for _, a := range x.Call.Args {
					if Param("output")(a) {
						uses = append(uses, Site{tg, in})
					}
				}
			}
		})
		c.Expect(6, len(uses), "uses of output in toGoType")
		isEnd := func(v ssa.Value) bool {
			b, ok := v.(*ssa.BinOp)
			return ok && b.Op == token.ADD && Param("index")(b.X) && constIs(b.Y, 32)
		}
		c.Dom("word-in-range", tg, uses, "use of output", GCond("index+32 <= len(output)", tg, Cmp(isEnd, token.LEQ, Len(Param("output")))))
		// dynamic array offset
		for _, s := range uses {
			sl, ok := s.Instr.(*ssa.Slice)
			if !ok || sl.Low == nil {
				continue
			}
			if CallRes("(encoding/binary.bigEndian).Uint64")(sl.Low) {
				c.Dom("array-offset", tg, []Site{s}, "output[offset:]", GCond("offset <= len(output)", tg, Cmp(Is(sl.Low), token.LEQ, func(v ssa.Value) bool { return Len(Param("output"))(stripConv(v)) })))
			}
			// begin/length come from the checked prefix
			if ex, ok := sl.Low.(*ssa.Phi); ok {
				_ = ex
			}
		}
		lp := c.Calls(tg, ab+".lengthPrefixPointsTo")
		tp := c.Calls(tg, ab+".tuplePointsTo")
		c.Expect(1, len(lp), "lengthPrefixPointsTo call")
		for _, s := range cat(lp, tp) {
			c.Check(ErrCheckedSite(s), "prefix-err/"+fnName(tg), s.Pos(), "a malformed prefix aborts decoding", "the error of the prefix check is ignored")
			a := s.Instr.(*ssa.Call).Call.Args
			c.Check(Param("index")(a[0]) && Param("output")(a[1]), "prefix-args/"+fnName(tg), s.Pos(), "the prefix is read at index of output", "the prefix is read from a different position/buffer")
		}
	}
	if fe := c.Fn(ab, "forEachUnpack"); fe != nil {
		tgc := c.Calls(fe, ab+".toGoType")
		mk := cat(c.Calls(fe, "reflect.MakeSlice"), c.Calls(fe, "reflect.New"))
		isEnd := func(v ssa.Value) bool {
			b, ok := v.(*ssa.BinOp)
			if !ok || b.Op != token.ADD || !Param("start")(b.X) {
				return false
			}
			m, ok := b.Y.(*ssa.BinOp)
			return ok && m.Op == token.MUL && ((constIs(m.X, 32) && Param("size")(m.Y)) || (constIs(m.Y, 32) && Param("size")(m.X)))
		}
		c.Dom("array-fits", fe, cat(tgc, mk), "element decoding / container creation",
			GCond("size >= 0", fe, Cmp(Param("size"), token.GEQ, ConstInt(0))).Then(GCond("start+32*size <= len(output)", fe, Cmp(isEnd, token.LEQ, Len(Param("output"))))))
		// step = static size of the element type
		for _, s := range tgc {
			i := s.Instr.(*ssa.Call).Call.Args[0]
			phi, ok := i.(*ssa.Phi)
			okStep := false
			if ok {
				for _, e := range phi.Edges {
					if b, ok := e.(*ssa.BinOp); ok && b.Op == token.ADD && b.X == ssa.Value(phi) && CallRes(ab + ".getTypeSize")(b.Y) {
						okStep = true
					}
				}
			}
			c.Check(okStep, "step/"+fnName(fe), s.Pos(), "elements are read getTypeSize(elem) bytes apart", "array elements are not read at a stride of the element's static size")
			c.Check(ErrCheckedSite(s), "elem-err/"+fnName(fe), s.Pos(), "an element error aborts", "element decoding errors are ignored")
		}
	}

	// ---- head advance formula -----------------------------------------------------------------------------
	c.Rule("SIBLING/C51.heads")
	nh := 0
	isWords := func(v ssa.Value) bool {
		// getTypeSize(x)/32 - 1
		b, ok := v.(*ssa.BinOp)
		if !ok || b.Op != token.SUB || !constIs(b.Y, 1) {
			return false
		}
		q, ok := b.X.(*ssa.BinOp)
		return ok && q.Op == token.QUO && constIs(q.Y, 32) && CallRes(ab + ".getTypeSize")(q.X)
	}
	for _, name := range []string{"forTupleUnpack", "(Arguments).UnpackValues"} {
		f := c.Fn(ab, name)
		if f == nil {
			continue
		}
		c.Funcs[f] = true
		n := 0
		eachInstr(f, func(in ssa.Instruction) {
			b, ok := in.(*ssa.BinOp)
			if !ok || b.Op != token.ADD {
				return
			}
			phi, ok := b.X.(*ssa.Phi)
			if !ok || phi.Comment != "virtualArgs" {
				return
			}
			n++
			nh++
			c.Check(isWords(b.Y), "advance/"+fnName(f), b.Pos(), "a static composite occupies getTypeSize/32 head words", "the head position advances by something other than getTypeSize(elem)/32 − 1 for a static composite: following fields are read from the wrong words")
		})
		c.Check(n == 2, "both-kinds/"+fnName(f), f.Pos(), "static arrays and static tuples both widen the head", "static arrays and static tuples are not both accounted for when advancing the head position")
		// the head word index is (index + virtualArgs) * 32
		for _, s := range c.Calls(f, ab+".toGoType") {
			a := s.Instr.(*ssa.Call).Call.Args[0]
			m, ok := a.(*ssa.BinOp)
			okPos := false
			if ok && m.Op == token.MUL && constIs(m.Y, 32) {
				if ad, ok := m.X.(*ssa.BinOp); ok && ad.Op == token.ADD {
					if phi, ok := ad.Y.(*ssa.Phi); ok && phi.Comment == "virtualArgs" {
						okPos = true
					}
					if phi, ok := ad.X.(*ssa.Phi); ok && phi.Comment == "virtualArgs" {
						okPos = true
					}
				}
			}
			c.Check(okPos, "position/"+fnName(f), s.Pos(), "field i is read at word i + extra words of earlier static composites", "a field's head position is not (index + virtualArgs) × 32")
		}
	}
	c.Expect(4, nh, "head-advance sites")
	if pk := c.Fn(ab, "(Arguments).Pack"); pk != nil {
		c.Funcs[pk] = true
		gs := c.Calls(pk, ab+".getTypeSize")
		c.Check(len(gs) == 1, "pack-head-size/"+fnName(pk), pk.Pos(), "the head size is the sum of getTypeSize over the arguments", "Pack no longer sizes the head with getTypeSize (decoder and encoder would disagree on head layout)")
		pn := c.Calls(pk, ab+".packNum")
		c.Dom("pack-offset-dynamic", pk, pn, "offset word", GCond("isDynamicType", pk, True(CallRes(ab+".isDynamicType"))))
		// the tails are appended after all heads
		var finals []Site
		for _, r := range c.SuccessReturns(pk) {
			finals = append(finals, r)
		}
		for _, r := range finals {
			v := retVal(r.Instr.(*ssa.Return), 0)
			okTail := false
			for _, ap := range appendChain(v) {
				if len(ap.Call.Args) == 2 {
					if phi, ok := ap.Call.Args[1].(*ssa.Phi); ok && phi.Comment == "variableInput" {
						okTail = true
					}
				}
			}
			c.Check(okTail, "pack-tails-last/"+fnName(pk), r.Pos(), "the dynamic tails follow the heads", "Pack does not append the tails after the heads")
		}
	}
}

// ErrOrBranchUses: the call's (single) result is used by a comparison that controls a branch.
func ErrOrBranchUses(f *ssa.Function, call *ssa.Call) bool {
	for _, r := range *call.Referrers() {
		if b, ok := r.(*ssa.BinOp); ok {
			for _, rr := range *b.Referrers() {
				if _, ok := rr.(*ssa.If); ok {
					return true
				}
			}
		}
	}
	return false
}
