package main

import (
	"fmt"
	"go/constant"
	"go/token"
	"go/types"
	"strings"

	"golang.org/x/tools/go/ssa"
)

// Site is one SSA instruction in a function.
type Site struct {
	Fn    *ssa.Function
	Instr ssa.Instruction
}

func (s Site) Pos() token.Pos {
	if s.Instr == nil {
		return token.NoPos
	}
	p := s.Instr.Pos()
	if !p.IsValid() {
		// fall back to operand positions, then to the function
		for _, op := range s.Instr.Operands(nil) {
			if *op != nil && (*op).Pos().IsValid() {
				return (*op).Pos()
			}
		}
		if c, ok := s.Instr.(ssa.CallInstruction); ok {
			return c.Common().Pos()
		}
		return s.Fn.Pos()
	}
	return p
}

func instrIndex(in ssa.Instruction) int {
	for i, x := range in.Block().Instrs {
		if x == in {
			return i
		}
	}
	return -1
}

// ---- callee naming -------------------------------------------------------

// calleeName returns the canonical name of what a call invokes:
//
//	static function/method  "(*trie.Trie).Commit", "core/rawdb.WriteTrieNode"
//	interface method        "(ethdb.Batch).Write" (declaring interface)
//	closure                 "pkg.Func$1"
//	builtin                 "builtin.len"
//	func-typed field value  "field:core/vm.operation.execute"
//	other dynamic           "dynamic"
func calleeName(cc *ssa.CallCommon) string {
	if cc.IsInvoke() {
		return canonFuncName(cc.Method)
	}
	switch v := cc.Value.(type) {
	case *ssa.Function:
		if v.Origin() != nil {
			v = v.Origin()
		}
		if obj, ok := v.Object().(*types.Func); ok {
			return canonFuncName(obj)
		}
		return fnName(v)
	case *ssa.MakeClosure:
		return fnName(v.Fn.(*ssa.Function))
	case *ssa.Builtin:
		return "builtin." + v.Name()
	}
	if fa := fieldOfLoad(cc.Value); fa != "" {
		return "field:" + fa
	}
	// closure held in a local variable assigned exactly once
	if mc, ok := strip(cc.Value).(*ssa.MakeClosure); ok {
		return fnName(mc.Fn.(*ssa.Function))
	}
	return "dynamic"
}

// fieldOfLoad returns "pkg.T.f" when v is a load of field f of struct T.
func fieldOfLoad(v ssa.Value) string {
	switch x := v.(type) {
	case *ssa.UnOp:
		if x.Op == token.MUL {
			if fa, ok := x.X.(*ssa.FieldAddr); ok {
				return fieldAddrName(fa)
			}
		}
	case *ssa.Field:
		st := x.X.Type().Underlying().(*types.Struct)
		return namedName(x.X.Type()) + "." + st.Field(x.Field).Name()
	}
	return ""
}

func fieldAddrName(fa *ssa.FieldAddr) string {
	pt, ok := fa.X.Type().Underlying().(*types.Pointer)
	if !ok {
		return ""
	}
	st, ok := pt.Elem().Underlying().(*types.Struct)
	if !ok {
		return ""
	}
	return namedName(pt.Elem()) + "." + st.Field(fa.Field).Name()
}

// matchCallee: spec may be an exact canonical name, or "*.Name" to match any
// receiver/package with that method/function name, or a "|"-separated list.
func matchCallee(name, spec string) bool {
	for _, s := range strings.Split(spec, "|") {
		if s == name {
			return true
		}
		if strings.HasPrefix(s, "*.") {
			if strings.HasSuffix(name, ")."+s[2:]) || strings.HasSuffix(name, "."+s[2:]) {
				return true
			}
		}
	}
	return false
}

// ---- site enumeration ----------------------------------------------------

func eachInstr(f *ssa.Function, fn func(in ssa.Instruction)) {
	for _, b := range f.Blocks {
		for _, in := range b.Instrs {
			fn(in)
		}
	}
}

const (
	kCall  = 1
	kDefer = 2
	kGo    = 4
	kAny   = 7
)

// Calls returns call sites in f whose callee matches spec. kinds selects
// plain calls / defers / go statements.
func (c *Ctx) CallsK(f *ssa.Function, spec string, kinds int) []Site {
	var out []Site
	eachInstr(f, func(in ssa.Instruction) {
		ci, ok := in.(ssa.CallInstruction)
		if !ok {
			return
		}
		switch in.(type) {
		case *ssa.Call:
			if kinds&kCall == 0 {
				return
			}
		case *ssa.Defer:
			if kinds&kDefer == 0 {
				return
			}
		case *ssa.Go:
			if kinds&kGo == 0 {
				return
			}
		}
		if matchCallee(calleeName(ci.Common()), spec) {
			out = append(out, Site{f, in})
		}
	})
	c.Sites += len(out)
	return out
}

func (c *Ctx) Calls(f *ssa.Function, spec string) []Site { return c.CallsK(f, spec, kCall) }

// CallsWhere filters call sites by a predicate on the call.
func (c *Ctx) CallsWhere(f *ssa.Function, spec string, pred func(cc *ssa.CallCommon) bool) []Site {
	var out []Site
	for _, s := range c.Calls(f, spec) {
		if pred(s.Instr.(ssa.CallInstruction).Common()) {
			out = append(out, s)
		}
	}
	return out
}

// Returns lists the return instructions of f.
func (c *Ctx) Returns(f *ssa.Function) []Site {
	var out []Site
	eachInstr(f, func(in ssa.Instruction) {
		if _, ok := in.(*ssa.Return); ok {
			out = append(out, Site{f, in})
		}
	})
	c.Sites += len(out)
	return out
}

// Stores lists stores whose address is field "pkg.T.f" (any base).
func (c *Ctx) Stores(f *ssa.Function, field string) []Site {
	var out []Site
	eachInstr(f, func(in ssa.Instruction) {
		if st, ok := in.(*ssa.Store); ok {
			if fa, ok := st.Addr.(*ssa.FieldAddr); ok && matchField(fieldAddrName(fa), field) {
				out = append(out, Site{f, in})
			}
		}
	})
	c.Sites += len(out)
	return out
}

func matchField(name, spec string) bool {
	for _, s := range strings.Split(spec, "|") {
		if s == name {
			return true
		}
	}
	return false
}

// MapUpdates lists m[k]=v / delete(m,k) where m is a load of field "pkg.T.f".
// del selects deletes (true), updates (false).
func (c *Ctx) MapWrites(f *ssa.Function, field string, del bool) []Site {
	var out []Site
	eachInstr(f, func(in ssa.Instruction) {
		switch x := in.(type) {
		case *ssa.MapUpdate:
			if !del && matchField(fieldOfLoad(x.Map), field) {
				out = append(out, Site{f, in})
			}
		case *ssa.Call:
			if b, ok := x.Call.Value.(*ssa.Builtin); ok && b.Name() == "delete" && del {
				if matchField(fieldOfLoad(x.Call.Args[0]), field) {
					out = append(out, Site{f, in})
				}
			}
		}
	})
	c.Sites += len(out)
	return out
}

// Sends lists channel sends whose channel is a load of field "pkg.T.f".
func (c *Ctx) Sends(f *ssa.Function, field string) []Site {
	var out []Site
	eachInstr(f, func(in ssa.Instruction) {
		switch x := in.(type) {
		case *ssa.Send:
			if matchField(fieldOfLoad(x.Chan), field) {
				out = append(out, Site{f, in})
			}
		case *ssa.Select:
			for _, st := range x.States {
				if st.Dir == types.SendOnly && matchField(fieldOfLoad(st.Chan), field) {
					out = append(out, Site{f, in})
				}
			}
		}
	})
	c.Sites += len(out)
	return out
}

// ---- value patterns ------------------------------------------------------

// VPat matches an SSA value by its origin, never by a local name.
type VPat func(v ssa.Value) bool

func Any() VPat { return func(ssa.Value) bool { return true } }

// strip looks through conversions that do not change the value.
func strip(v ssa.Value) ssa.Value {
	for {
		switch x := v.(type) {
		case *ssa.ChangeType:
			v = x.X
		case *ssa.Convert:
			v = x.X
		case *ssa.ChangeInterface:
			v = x.X
		case *ssa.MakeInterface:
			v = x.X
		case *ssa.UnOp:
			// load of a local variable cell that is assigned exactly once
			if x.Op != token.MUL {
				return v
			}
			var a *ssa.Alloc
			switch cell := x.X.(type) {
			case *ssa.Alloc:
				a = cell
			case *ssa.FreeVar:
				// captured variable: the cell bound in the enclosing function
				a, _ = freeVarBinding(cell).(*ssa.Alloc)
			}
			if a == nil {
				return v
			}
			w := singleStore(a)
			if w == nil {
				return v
			}
			v = w
		default:
			return v
		}
	}
}

// freeVarBinding returns the value the enclosing function binds to the free
// variable when it creates the closure (nil if the closure is created at more
// than one site).
func freeVarBinding(fv *ssa.FreeVar) ssa.Value {
	fn := fv.Parent()
	parent := fn.Parent()
	if parent == nil {
		return nil
	}
	idx := -1
	for i, f := range fn.FreeVars {
		if f == fv {
			idx = i
		}
	}
	var bound ssa.Value
	n := 0
	eachInstr(parent, func(in ssa.Instruction) {
		if mc, ok := in.(*ssa.MakeClosure); ok && mc.Fn == fn && idx >= 0 && idx < len(mc.Bindings) {
			bound = mc.Bindings[idx]
			n++
		}
	})
	if n != 1 {
		return nil
	}
	// a closure nested two levels deep binds the parent's own free variable
	if pfv, ok := bound.(*ssa.FreeVar); ok {
		return freeVarBinding(pfv)
	}
	return bound
}

var singleStoreCache = map[*ssa.Alloc]ssa.Value{}

// singleStore returns the only value ever stored to the local cell a (by its
// function or by closures capturing it), or nil.
func singleStore(a *ssa.Alloc) ssa.Value {
	if v, ok := singleStoreCache[a]; ok {
		return v
	}
	var val ssa.Value
	n := 0
	var scan func(addr ssa.Value, depth int)
	scan = func(addr ssa.Value, depth int) {
		refs := addr.Referrers()
		if refs == nil || depth > 3 {
			return
		}
		for _, r := range *refs {
			switch x := r.(type) {
			case *ssa.Store:
				if x.Addr == addr {
					n++
					val = x.Val
				}
			case *ssa.MakeClosure:
				fn := x.Fn.(*ssa.Function)
				for i, b := range x.Bindings {
					if b == addr && i < len(fn.FreeVars) {
						scan(fn.FreeVars[i], depth+1)
					}
				}
			case *ssa.UnOp, *ssa.DebugRef:
			default:
				// address escapes some other way (call argument, field address)
				if _, isFA := r.(*ssa.FieldAddr); isFA {
					n += 2
				} else if _, isIA := r.(*ssa.IndexAddr); isIA {
					n += 2
				} else if _, isCall := r.(ssa.CallInstruction); isCall {
					n += 2
				}
			}
		}
	}
	scan(a, 0)
	if n != 1 {
		val = nil
	}
	if val != nil {
		// never resolve a cell to a value defined from itself
		if u, ok := val.(*ssa.UnOp); ok && u.X == a {
			val = nil
		}
	}
	singleStoreCache[a] = val
	return val
}

// Param matches the parameter (or receiver) with the given name.
func Param(name string) VPat {
	return func(v ssa.Value) bool {
		v = strip(v)
		if p, ok := v.(*ssa.Parameter); ok {
			return p.Name() == name
		}
		// parameter spilled to an alloc (address taken / captured)
		if u, ok := v.(*ssa.UnOp); ok && u.Op == token.MUL {
			if a, ok := u.X.(*ssa.Alloc); ok && a.Comment == name {
				return allocIsParam(a)
			}
		}
		return false
	}
}

func allocIsParam(a *ssa.Alloc) bool {
	for _, p := range a.Parent().Params {
		if p.Name() == a.Comment {
			return true
		}
	}
	return false
}

// FreeVar matches a captured variable (or a load of it) by name.
func FreeVar(name string) VPat {
	return func(v ssa.Value) bool {
		// look at the value before cells are resolved through the closure binding
		for w := v; w != nil; {
			switch x := w.(type) {
			case *ssa.FreeVar:
				return x.Name() == name
			case *ssa.UnOp:
				if fv, ok := x.X.(*ssa.FreeVar); ok && x.Op == token.MUL {
					return fv.Name() == name
				}
				w = nil
			case *ssa.ChangeType:
				w = x.X
			case *ssa.Convert:
				w = x.X
			case *ssa.ChangeInterface:
				w = x.X
			case *ssa.MakeInterface:
				w = x.X
			default:
				w = nil
			}
		}
		v = strip(v)
		if fv, ok := v.(*ssa.FreeVar); ok {
			return fv.Name() == name
		}
		if u, ok := v.(*ssa.UnOp); ok && u.Op == token.MUL {
			if fv, ok := u.X.(*ssa.FreeVar); ok {
				return fv.Name() == name
			}
		}
		return false
	}
}

// FieldOf matches a load of field "pkg.T.f" whose base matches base.
func FieldOf(field string, base VPat) VPat {
	return func(v ssa.Value) bool {
		v = strip(v)
		switch x := v.(type) {
		case *ssa.UnOp:
			if x.Op != token.MUL {
				return false
			}
			fa, ok := x.X.(*ssa.FieldAddr)
			if !ok || !matchField(fieldAddrName(fa), field) {
				return false
			}
			return base == nil || base(fa.X)
		case *ssa.Field:
			if !matchField(fieldOfLoad(x), field) {
				return false
			}
			return base == nil || base(x.X)
		}
		return false
	}
}

// Fld is FieldOf with any base.
func Fld(field string) VPat { return FieldOf(field, nil) }

// CallRes matches the result (or an extracted component) of a call to spec.
// args optionally constrain leading arguments (for methods: after receiver).
func CallRes(spec string, args ...VPat) VPat {
	return func(v ssa.Value) bool {
		v = strip(v)
		if e, ok := v.(*ssa.Extract); ok {
			v = e.Tuple
		}
		call, ok := v.(*ssa.Call)
		if !ok {
			return false
		}
		if !matchCallee(calleeName(&call.Call), spec) {
			return false
		}
		as := callArgs(&call.Call)
		for i, p := range args {
			if p == nil {
				continue
			}
			if i >= len(as) || !p(as[i]) {
				return false
			}
		}
		return true
	}
}

// CallResN matches exactly the idx-th result of a call to spec.
func CallResN(spec string, idx int, args ...VPat) VPat {
	inner := CallRes(spec, args...)
	return func(v ssa.Value) bool {
		v = strip(v)
		if e, ok := v.(*ssa.Extract); ok {
			return e.Index == idx && inner(e)
		}
		if call, ok := v.(*ssa.Call); ok {
			return idx == 0 && call.Call.Signature().Results().Len() == 1 && inner(v)
		}
		return false
	}
}

// callArgs returns the arguments without the receiver.
func callArgs(cc *ssa.CallCommon) []ssa.Value {
	if cc.IsInvoke() {
		return cc.Args
	}
	if cc.Signature().Recv() != nil && len(cc.Args) > 0 {
		return cc.Args[1:]
	}
	return cc.Args
}

// callRecv returns the receiver value of a method call (or nil).
func callRecv(cc *ssa.CallCommon) ssa.Value {
	if cc.IsInvoke() {
		return cc.Value
	}
	if cc.Signature().Recv() != nil && len(cc.Args) > 0 {
		return cc.Args[0]
	}
	return nil
}

// Len matches len(x).
func Len(x VPat) VPat {
	return func(v ssa.Value) bool {
		v = strip(v)
		call, ok := v.(*ssa.Call)
		if !ok {
			return false
		}
		b, ok := call.Call.Value.(*ssa.Builtin)
		return ok && b.Name() == "len" && x(call.Call.Args[0])
	}
}

// ConstInt matches an integer constant.
func ConstInt(n int64) VPat {
	return func(v ssa.Value) bool {
		v = strip(v)
		k, ok := v.(*ssa.Const)
		if !ok || k.Value == nil || k.Value.Kind() != constant.Int {
			return false
		}
		i, ok := constant.Int64Val(k.Value)
		return ok && i == n
	}
}

// ConstBool matches a boolean constant.
func ConstBool(b bool) VPat {
	return func(v ssa.Value) bool {
		k, ok := v.(*ssa.Const)
		return ok && k.Value != nil && k.Value.Kind() == constant.Bool && constant.BoolVal(k.Value) == b
	}
}

// Nil matches the nil constant.
func Nil() VPat {
	return func(v ssa.Value) bool {
		k, ok := strip(v).(*ssa.Const)
		return ok && k.Value == nil
	}
}

// Global matches a load of the package-level variable "pkg.Name".
func Global(name string) VPat {
	return func(v ssa.Value) bool {
		v = strip(v)
		if u, ok := v.(*ssa.UnOp); ok && u.Op == token.MUL {
			if g, ok := u.X.(*ssa.Global); ok {
				return relPkg(g.Pkg.Pkg.Path())+"."+g.Name() == name
			}
		}
		return false
	}
}

// Is matches exactly the given SSA value (after stripping conversions), or a
// value that is provably the same: a load of the same address.
func Is(w ssa.Value) VPat {
	return func(v ssa.Value) bool { return sameValue(v, w) }
}

// IndexOf matches x[i] (load of IndexAddr, Index, or Lookup).
func IndexOf(x VPat, i VPat) VPat {
	return func(v ssa.Value) bool {
		v = strip(v)
		switch e := v.(type) {
		case *ssa.UnOp:
			if ia, ok := e.X.(*ssa.IndexAddr); ok && e.Op == token.MUL {
				return x(ia.X) && (i == nil || i(ia.Index))
			}
		case *ssa.Index:
			return x(e.X) && (i == nil || i(e.Index))
		case *ssa.Lookup:
			return x(e.X) && (i == nil || i(e.Index))
		}
		return false
	}
}

// Or matches any alternative.
func Or(ps ...VPat) VPat {
	return func(v ssa.Value) bool {
		for _, p := range ps {
			if p(v) {
				return true
			}
		}
		return false
	}
}

// Mentions matches when any value in the backward expression slice of v
// (through pure operators, phis, call arguments and receivers) matches p.
func Mentions(p VPat) VPat {
	return func(v ssa.Value) bool {
		seen := map[ssa.Value]bool{}
		var walk func(v ssa.Value, d int) bool
		walk = func(v ssa.Value, d int) bool {
			if v == nil || seen[v] || d > 12 {
				return false
			}
			seen[v] = true
			if p(v) {
				return true
			}
			switch x := v.(type) {
			case *ssa.BinOp:
				return walk(x.X, d+1) || walk(x.Y, d+1)
			case *ssa.UnOp:
				return walk(x.X, d+1)
			case *ssa.Phi:
				for _, e := range x.Edges {
					if walk(e, d+1) {
						return true
					}
				}
			case *ssa.Call:
				for _, a := range x.Call.Args {
					if walk(a, d+1) {
						return true
					}
				}
				if x.Call.IsInvoke() {
					return walk(x.Call.Value, d+1)
				}
			case *ssa.Extract:
				return walk(x.Tuple, d+1)
			case *ssa.ChangeType:
				return walk(x.X, d+1)
			case *ssa.Convert:
				return walk(x.X, d+1)
			case *ssa.MakeInterface:
				return walk(x.X, d+1)
			case *ssa.ChangeInterface:
				return walk(x.X, d+1)
			case *ssa.FieldAddr:
				return walk(x.X, d+1)
			case *ssa.Field:
				return walk(x.X, d+1)
			case *ssa.IndexAddr:
				return walk(x.X, d+1) || walk(x.Index, d+1)
			case *ssa.Index:
				return walk(x.X, d+1) || walk(x.Index, d+1)
			case *ssa.Lookup:
				return walk(x.X, d+1) || walk(x.Index, d+1)
			case *ssa.Slice:
				return walk(x.X, d+1)
			case *ssa.TypeAssert:
				return walk(x.X, d+1)
			}
			return false
		}
		return walk(v, 0)
	}
}

// sameValue: identical SSA value, or structurally identical pure expressions
// (loads of the same field of the same base, same constants, same parameter).
func sameValue(a, b ssa.Value) bool {
	return sameValueD(a, b, 0)
}

func sameValueD(a, b ssa.Value, d int) bool {
	a, b = strip(a), strip(b)
	if a == b {
		return true
	}
	if d > 8 || a == nil || b == nil {
		return false
	}
	switch x := a.(type) {
	case *ssa.Const:
		y, ok := b.(*ssa.Const)
		if !ok {
			return false
		}
		if x.Value == nil || y.Value == nil {
			return x.Value == nil && y.Value == nil
		}
		return constant.Compare(x.Value, token.EQL, y.Value)
	case *ssa.UnOp:
		y, ok := b.(*ssa.UnOp)
		return ok && x.Op == y.Op && sameValueD(x.X, y.X, d+1)
	case *ssa.FieldAddr:
		y, ok := b.(*ssa.FieldAddr)
		return ok && x.Field == y.Field && sameValueD(x.X, y.X, d+1)
	case *ssa.Field:
		y, ok := b.(*ssa.Field)
		return ok && x.Field == y.Field && sameValueD(x.X, y.X, d+1)
	case *ssa.IndexAddr:
		y, ok := b.(*ssa.IndexAddr)
		return ok && sameValueD(x.X, y.X, d+1) && sameValueD(x.Index, y.Index, d+1)
	case *ssa.Slice:
		y, ok := b.(*ssa.Slice)
		return ok && sameValueD(x.X, y.X, d+1) && sameOpt(x.Low, y.Low, d) && sameOpt(x.High, y.High, d)
	case *ssa.BinOp:
		y, ok := b.(*ssa.BinOp)
		return ok && x.Op == y.Op && sameValueD(x.X, y.X, d+1) && sameValueD(x.Y, y.Y, d+1)
	case *ssa.Call:
		// len/cap of the same value
		y, ok := b.(*ssa.Call)
		if !ok {
			return false
		}
		bx, okx := x.Call.Value.(*ssa.Builtin)
		by, oky := y.Call.Value.(*ssa.Builtin)
		if okx && oky && bx.Name() == by.Name() && (bx.Name() == "len" || bx.Name() == "cap") {
			return sameValueD(x.Call.Args[0], y.Call.Args[0], d+1)
		}
	}
	return false
}

func sameOpt(a, b ssa.Value, d int) bool {
	if a == nil || b == nil {
		return a == nil && b == nil
	}
	return sameValueD(a, b, d+1)
}

func describe(v ssa.Value) string {
	if v == nil {
		return "<nil>"
	}
	return fmt.Sprintf("%s (%T)", v.String(), v)
}

type ssaCall = ssa.CallCommon

// CallsRecv: calls to spec whose receiver matches recv.
func (c *Ctx) CallsRecv(f *ssa.Function, spec string, recv VPat) []Site {
	return c.CallsWhere(f, spec, func(cc *ssa.CallCommon) bool {
		r := callRecv(cc)
		return r != nil && recv(r)
	})
}

// CallsArg: calls to spec whose idx-th argument (receiver excluded) matches p.
func (c *Ctx) CallsArg(f *ssa.Function, spec string, idx int, p VPat) []Site {
	return c.CallsWhere(f, spec, func(cc *ssa.CallCommon) bool {
		as := callArgs(cc)
		return idx < len(as) && p(as[idx])
	})
}

// FuncsInFiles lists functions of the package declared in the named files.
func (c *Ctx) FuncsInFiles(rel string, files ...string) []*ssa.Function {
	var out []*ssa.Function
	for _, f := range c.AllFuncs(rel) {
		p := c.Fset.Position(f.Pos()).Filename
		for _, fn := range files {
			if strings.HasSuffix(p, "/"+fn) {
				out = append(out, f)
			}
		}
	}
	return out
}
