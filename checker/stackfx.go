package main

import (
	"fmt"
	"go/constant"
	"go/token"
	"go/types"
	"sort"
	"strings"

	"golang.org/x/tools/go/ssa"
)

// STACKFX: abstract interpretation of an EVM executionFunc over the *Stack
// API. For every path to a non-error return it tracks the stack height
// relative to entry and the deepest element (below the entry height) that was
// read or popped. Integer values that are compile-time known (constants,
// closure parameters bound at the table site, counted-loop variables) are
// evaluated so that `dup(size)`, `back(n)` and `for i<size {pop1}` are exact.

type stackSummary struct {
	need  int // elements that must be present before this call (relative to current height)
	delta int
	dyn   int // index of the int argument the depth depends on (dup(n): need=n; back(n): need=n+1), -1 none
	dynAdd int
}

var stackMethods = map[string]stackSummary{
	"push": {0, +1, -1, 0}, "get": {0, +1, -1, 0},
	"pop": {1, -1, -1, 0}, "drop": {1, -1, -1, 0}, "pop1": {1, -1, -1, 0},
	"pop2": {2, -2, -1, 0}, "pop3": {3, -3, -1, 0}, "pop4": {4, -4, -1, 0},
	"pop1Peek1": {2, -1, -1, 0}, "pop2Peek1": {3, -2, -1, 0},
	"peek": {1, 0, -1, 0}, "len": {0, 0, -1, 0}, "Data": {0, 0, -1, 0},
	"dup":  {0, +1, 0, 0}, // need = n
	"back": {0, 0, 0, 1},  // need = n+1
}

func init() {
	for i := 1; i <= 16; i++ {
		stackMethods[fmt.Sprintf("swap%d", i)] = stackSummary{i + 1, 0, -1, 0}
	}
}

type sfxResult struct {
	Need       int   // max elements required below entry height
	Deltas     []int // distinct net height changes over non-error returns
	Peak       int   // max transient height above entry
	Undecided  string
	Paths      int
	DynGuarded bool // a dynamic depth was accepted because of a dominating len() guard
}

type sfxState struct {
	b, prev *ssa.BasicBlock
	h       int
	ints    map[ssa.Value]int64
}

func (s sfxState) key() string {
	var ks []string
	for v, n := range s.ints {
		if _, isPhi := v.(*ssa.Phi); isPhi {
			ks = append(ks, fmt.Sprintf("%s=%d", v.Name(), n))
		}
	}
	sort.Strings(ks)
	return fmt.Sprintf("%d/%d/%s", s.b.Index, s.h, strings.Join(ks, ","))
}

func isStackType(t types.Type) bool {
	n := derefNamed(t)
	return n != nil && n.Obj().Name() == "Stack" && n.Obj().Pkg() != nil && relPkg(n.Obj().Pkg().Path()) == vmp
}

func isScopeType(t types.Type) bool {
	n := derefNamed(t)
	return n != nil && n.Obj().Name() == "ScopeContext" && n.Obj().Pkg() != nil && relPkg(n.Obj().Pkg().Path()) == vmp
}

var sfxCache = map[string]sfxResult{}

type sfxAnalyzer struct {
	res    sfxResult
	deltas map[int]bool
	seen   map[string]bool
	steps  int
}

type sfxCtx struct {
	fn     *ssa.Function
	env    map[string]int64
	ctxKey string // call-site context (for memoisation)
	depth  int
	// cont is invoked at each non-error return of fn with the height and the
	// known integer/bool results.
	cont func(h int, rets []*int64)
}

// stackEffect interprets fn. env binds closure free variables / parameters
// (by name) to known integers. Same-package callees that receive the stack or
// the scope are inlined path-sensitively (bound 3), so a helper that pushes on
// one path and tells its caller through a bool result is handled exactly.
func stackEffect(fn *ssa.Function, env map[string]int64, depth int) sfxResult {
	ck := fn.String() + fmt.Sprint(env)
	if r, ok := sfxCache[ck]; ok {
		return r
	}
	a := &sfxAnalyzer{deltas: map[int]bool{}, seen: map[string]bool{}}
	cx := &sfxCtx{fn: fn, env: env, ctxKey: "", depth: depth, cont: func(h int, rets []*int64) { a.deltas[h] = true }}
	a.walk(cx, sfxState{b: fn.Blocks[0], h: 0, ints: map[ssa.Value]int64{}}, 0)
	for d := range a.deltas {
		a.res.Deltas = append(a.res.Deltas, d)
	}
	sort.Ints(a.res.Deltas)
	sfxCache[ck] = a.res
	return a.res
}

func (a *sfxAnalyzer) known(cx *sfxCtx, st *sfxState, v ssa.Value) (int64, bool) {
	if n, ok := st.ints[v]; ok {
		return n, true
	}
	switch x := v.(type) {
	case *ssa.Const:
		if x.Value != nil && (x.Value.Kind() == constant.Int) {
			return constant.Int64Val(x.Value)
		}
		if x.Value != nil && x.Value.Kind() == constant.Bool {
			if constant.BoolVal(x.Value) {
				return 1, true
			}
			return 0, true
		}
	case *ssa.FreeVar:
		n, ok := cx.env[x.Name()]
		return n, ok
	case *ssa.Parameter:
		n, ok := cx.env[x.Name()]
		return n, ok
	case *ssa.UnOp:
		if fv, ok := x.X.(*ssa.FreeVar); ok && x.Op == token.MUL {
			n, ok := cx.env[fv.Name()]
			return n, ok
		}
		if x.Op == token.NOT {
			if n, ok := a.known(cx, st, x.X); ok {
				return 1 - n, true
			}
		}
	}
	return 0, false
}

// walk explores from instruction index i0 of st.b.
func (a *sfxAnalyzer) walk(cx *sfxCtx, st sfxState, i0 int) {
	if a.res.Undecided != "" {
		return
	}
	if i0 == 0 {
		k := cx.ctxKey + "|" + cx.fn.String() + "|" + st.key()
		if a.seen[k] {
			return
		}
		a.seen[k] = true
	}
	ints := map[ssa.Value]int64{}
	for v, n := range st.ints {
		ints[v] = n
	}
	st.ints = ints
	fn := cx.fn
	for idx := i0; idx < len(st.b.Instrs); idx++ {
		in := st.b.Instrs[idx]
		a.steps++
		if a.steps > 400000 {
			a.res.Undecided = "path budget exceeded in " + fnName(fn)
			return
		}
		switch x := in.(type) {
		case *ssa.Phi:
			for i, p := range st.b.Preds {
				if p == st.prev {
					if n, ok := a.known(cx, &st, x.Edges[i]); ok {
						st.ints[x] = n
					}
				}
			}
		case *ssa.BinOp:
			av, ok1 := a.known(cx, &st, x.X)
			bv, ok2 := a.known(cx, &st, x.Y)
			if ok1 && ok2 {
				var r int64
				ok := true
				bl := func(c bool) int64 {
					if c {
						return 1
					}
					return 0
				}
				switch x.Op {
				case token.ADD:
					r = av + bv
				case token.SUB:
					r = av - bv
				case token.MUL:
					r = av * bv
				case token.LSS:
					r = bl(av < bv)
				case token.LEQ:
					r = bl(av <= bv)
				case token.GTR:
					r = bl(av > bv)
				case token.GEQ:
					r = bl(av >= bv)
				case token.EQL:
					r = bl(av == bv)
				case token.NEQ:
					r = bl(av != bv)
				default:
					ok = false
				}
				if ok {
					st.ints[x] = r
				}
			}
		case *ssa.Convert:
			if n, ok := a.known(cx, &st, x.X); ok {
				st.ints[x] = n
			}
		case *ssa.Panic:
			return
		case ssa.CallInstruction:
			cc := x.Common()
			if _, isDefer := in.(*ssa.Defer); isDefer {
				continue
			}
			name := calleeName(cc)
			if strings.HasPrefix(name, "(*"+vmp+".Stack).") {
				m := strings.TrimPrefix(name, "(*"+vmp+".Stack).")
				sm, ok := stackMethods[m]
				if !ok {
					a.res.Undecided = "unknown Stack method " + m + " in " + fnName(fn)
					return
				}
				need := sm.need
				if sm.dyn >= 0 {
					args := callArgs(cc)
					n, ok := a.known(cx, &st, args[sm.dyn])
					if !ok {
						if lenGuardCovers(in, args[sm.dyn], int64(sm.dynAdd)) {
							a.res.DynGuarded = true
							n = 0
						} else {
							a.res.Undecided = fmt.Sprintf("depth argument of Stack.%s is not a known constant and no dominating Stack.len() check establishes len >= depth+%d in %s", m, sm.dynAdd, fnName(fn))
							return
						}
					}
					need = int(n) + sm.dynAdd
				}
				if need-st.h > a.res.Need {
					a.res.Need = need - st.h
				}
				st.h += sm.delta
				if st.h > a.res.Peak {
					a.res.Peak = st.h
				}
				continue
			}
			passes := false
			for _, arg := range cc.Args {
				if isStackType(arg.Type()) || isScopeType(arg.Type()) {
					passes = true
				}
			}
			if !passes {
				continue
			}
			callee := cc.StaticCallee()
			if callee == nil || len(callee.Blocks) == 0 {
				if mc, ok := strip(cc.Value).(*ssa.MakeClosure); ok {
					callee = mc.Fn.(*ssa.Function)
				}
			}
			if callee == nil || len(callee.Blocks) == 0 {
				a.res.Undecided = "stack/scope handed to unresolvable callee " + name + " in " + fnName(fn)
				return
			}
			if cx.depth > 3 {
				a.res.Undecided = "inlining bound exceeded at " + fnName(callee)
				return
			}
			callVal, _ := in.(*ssa.Call)
			resume := st
			nextIdx := idx + 1
			sub := &sfxCtx{fn: callee, env: nil, ctxKey: cx.ctxKey + "|" + fnName(fn) + "#" + fmt.Sprint(st.b.Index, idx, st.h), depth: cx.depth + 1}
			sub.cont = func(h int, rets []*int64) {
				rs := resume
				rs.h = h
				m2 := map[ssa.Value]int64{}
				for v, n := range resume.ints {
					m2[v] = n
				}
				rs.ints = m2
				if callVal != nil {
					if len(rets) == 1 && rets[0] != nil {
						rs.ints[callVal] = *rets[0]
					}
					if refs := callVal.Referrers(); refs != nil {
						for _, r := range *refs {
							if e, ok := r.(*ssa.Extract); ok && e.Index < len(rets) && rets[e.Index] != nil {
								rs.ints[e] = *rets[e.Index]
							}
						}
					}
				}
				a.walkResume(cx, rs, nextIdx)
			}
			a.walk(sub, sfxState{b: callee.Blocks[0], h: st.h, ints: map[ssa.Value]int64{}}, 0)
			return
		case *ssa.Return:
			a.res.Paths++
			r := fn.Signature.Results()
			if r.Len() > 0 && isErrorType(r.At(r.Len()-1).Type()) {
				if knownNonNil(retVal(x, r.Len()-1), x, 0) {
					return // exceptional halt: the stack is discarded
				}
			}
			rets := make([]*int64, len(x.Results))
			for i := range x.Results {
				if n, ok := a.known(cx, &st, retVal(x, i)); ok {
					nn := n
					rets[i] = &nn
				}
			}
			cx.cont(st.h, rets)
			return
		case *ssa.If:
			if n, ok := a.known(cx, &st, x.Cond); ok {
				i := 1
				if n != 0 {
					i = 0
				}
				a.walk(cx, sfxState{b: st.b.Succs[i], prev: st.b, h: st.h, ints: st.ints}, 0)
				return
			}
			a.walk(cx, sfxState{b: st.b.Succs[0], prev: st.b, h: st.h, ints: st.ints}, 0)
			a.walk(cx, sfxState{b: st.b.Succs[1], prev: st.b, h: st.h, ints: st.ints}, 0)
			return
		case *ssa.Jump:
			a.walk(cx, sfxState{b: st.b.Succs[0], prev: st.b, h: st.h, ints: st.ints}, 0)
			return
		}
	}
}

// walkResume continues a caller after an inlined call (mid-block, no memo).
func (a *sfxAnalyzer) walkResume(cx *sfxCtx, st sfxState, idx int) {
	a.walk(cx, st, idx)
}

// lenGuarded: the instruction is dominated by an edge of an If whose
// condition mentions Stack.len() (the explicit underflow reject of the
// dynamic-depth opcodes).
func lenGuarded(in ssa.Instruction) bool {
	f := in.Parent()
	isLen := CallRes("(*" + vmp + ".Stack).len")
	for _, b := range f.Blocks {
		iff, ok := b.Instrs[len(b.Instrs)-1].(*ssa.If)
		if !ok || !Mentions(isLen)(iff.Cond) {
			continue
		}
		for i := range b.Succs {
			if edgeDominates(Edge{b, i}, in.Block()) {
				return true
			}
		}
	}
	return false
}

// stackMethodDeltas checks the summary table against stack.go: the net change
// each method applies to s.size.
func (c *Ctx) stackMethodDeltas() {
	for m, sm := range stackMethods {
		f := c.TryFn(vmp, "(*Stack)."+m)
		if f == nil || len(f.Blocks) == 0 {
			c.Undecided("summary/"+m, token.NoPos, "Stack method in the summary table does not exist")
			continue
		}
		c.Funcs[f] = true
		d := 0
		ok := true
		eachInstr(f, func(in ssa.Instruction) {
			st, isSt := in.(*ssa.Store)
			if !isSt {
				return
			}
			fa, isFA := st.Addr.(*ssa.FieldAddr)
			if !isFA || fieldAddrName(fa) != vmp+".Stack.size" {
				return
			}
			b, isB := st.Val.(*ssa.BinOp)
			if !isB {
				ok = false
				return
			}
			k, isK := b.Y.(*ssa.Const)
			if !isK {
				ok = false
				return
			}
			n, _ := constant.Int64Val(k.Value)
			switch b.Op {
			case token.ADD:
				d += int(n)
			case token.SUB:
				d -= int(n)
			default:
				ok = false
			}
		})
		// push delegates to get
		if m == "push" {
			sub := stackEffect(f, nil, 0)
			ok = len(sub.Deltas) == 1
			if ok {
				d = sub.Deltas[0]
			}
		}
		c.Check(ok && d == sm.delta, "summary/"+m, f.Pos(), fmt.Sprintf("Stack.%s changes size by %+d as summarised", m, d),
			fmt.Sprintf("Stack.%s changes size by %+d but the analyser's summary says %+d", m, d, sm.delta))
	}
}

// symLin splits v into base + constant offset.
func symLin(v ssa.Value) (ssa.Value, int64) {
	off := int64(0)
	for {
		switch x := v.(type) {
		case *ssa.Convert:
			v = x.X
			continue
		case *ssa.ChangeType:
			v = x.X
			continue
		case *ssa.BinOp:
			if k, ok := x.Y.(*ssa.Const); ok && k.Value != nil && k.Value.Kind() == constant.Int {
				n, _ := constant.Int64Val(k.Value)
				if x.Op == token.ADD {
					off += n
					v = x.X
					continue
				}
				if x.Op == token.SUB {
					off -= n
					v = x.X
					continue
				}
			}
		}
		return v, off
	}
}

// symGeq: guard value gx is provably >= need value (nb + nadd).
func symGeq(gx ssa.Value, nb ssa.Value, nadd int64) bool {
	gb, goff := symLin(gx)
	nbb, noff := symLin(nb)
	noff += nadd
	if sameValue(gb, nbb) {
		return goff >= noff
	}
	// max(a, b, …) >= each argument
	if call, ok := gb.(*ssa.Call); ok {
		if b, ok := call.Call.Value.(*ssa.Builtin); ok && b.Name() == "max" {
			for _, a := range call.Call.Args {
				ab, aoff := symLin(a)
				if sameValue(ab, nbb) && goff+aoff >= noff {
					return true
				}
			}
		}
	}
	return false
}

// lenGuardCovers: in is dominated by an edge of `if stack.len() < X` (or an
// equivalent spelling) on which len >= X holds, with X >= depth+add.
func lenGuardCovers(in ssa.Instruction, depth ssa.Value, add int64) bool {
	f := in.Parent()
	isLen := CallRes("(*" + vmp + ".Stack).len")
	for _, b := range f.Blocks {
		iff, ok := b.Instrs[len(b.Instrs)-1].(*ssa.If)
		if !ok {
			continue
		}
		cond := iff.Cond
		neg := false
		for {
			u, ok := cond.(*ssa.UnOp)
			if !ok || u.Op != token.NOT {
				break
			}
			cond = u.X
			neg = !neg
		}
		bo, ok := cond.(*ssa.BinOp)
		if !ok {
			continue
		}
		var x ssa.Value
		op := bo.Op
		switch {
		case isLen(bo.X):
			x = bo.Y
		case isLen(bo.Y):
			x = bo.X
			op = swapOp(op)
		default:
			continue
		}
		// normalised: len op x. pass edge = the one on which len >= x (or len > x-1)
		passIdx := -1
		bonus := int64(0)
		switch op {
		case token.LSS: // len < x : false edge gives len >= x
			passIdx = 1
		case token.GEQ:
			passIdx = 0
		case token.LEQ: // len <= x : false edge gives len >= x+1
			passIdx, bonus = 1, 1
		case token.GTR:
			passIdx, bonus = 0, 1
		default:
			continue
		}
		if neg {
			passIdx = 1 - passIdx
		}
		if !edgeDominates(Edge{b, passIdx}, in.Block()) {
			continue
		}
		gb, goff := symLin(x)
		_ = gb
		_ = goff
		if bonus != 0 {
			// len >= x+1
			if symGeqOff(x, bonus, depth, add) {
				return true
			}
			continue
		}
		if symGeq(x, depth, add) {
			return true
		}
	}
	return false
}

func symGeqOff(gx ssa.Value, gadd int64, nb ssa.Value, nadd int64) bool {
	return symGeq(gx, nb, nadd-gadd)
}
