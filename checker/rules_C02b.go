package main

import (
	"go/types"
	"sort"
	"strings"

	"golang.org/x/tools/go/ssa"
)

// C02 JSON clause: the hand-written JSON codec of transactions mentions every
// field of every transaction type in both directions, and the two directions
// agree on which JSON member carries which field.
func init() {
	p := registry["C02"]
	if p == nil {
		return
	}
	old := p.Run
	p.Run = func(c *Ctx) {
		old(c)
		c02json(c)
	}
	p.Decided += " JSON: for every transaction type, MarshalJSON reads every field into some member of txJSON and UnmarshalJSON stores every field from some member (sidecar excepted, with the reason), and the member↔field correspondence of the two directions is identical."
	p.NotDec = strings.Replace(p.NotDec, ", and JSON round-trips (reflection/hand-written codecs; value-level)", ", and the value conversions inside the JSON codec (hexutil/uint256 conversions, required-field checks)", 1)
	p.Rules += "; FIELDCOV+SIBLING JSON member↔field map"
	p.MinObs += 100
}

type fieldRef struct{ owner, field string }

// fieldSources returns the struct fields (owner type name, field name) that
// the value v is computed from, looking through loads, conversions, calls
// (arguments and receivers), tuples, phis and local cells. A call whose
// receiver is `whole` (the address of a whole struct) contributes the fields
// its static callee reads from its receiver.
func fieldSources(v ssa.Value, whole ssa.Value) map[fieldRef]bool {
	out := map[fieldRef]bool{}
	seen := map[ssa.Value]bool{}
	var walk func(v ssa.Value, d int)
	walk = func(v ssa.Value, d int) {
		if v == nil || seen[v] || d > 24 {
			return
		}
		seen[v] = true
		switch x := v.(type) {
		case *ssa.FieldAddr:
			if n := derefNamed(x.X.Type()); n != nil {
				out[fieldRef{n.Obj().Name(), n.Underlying().(*types.Struct).Field(x.Field).Name()}] = true
			}
			walk(x.X, d+1)
		case *ssa.Field:
			if n := derefNamed(x.X.Type()); n != nil {
				out[fieldRef{n.Obj().Name(), n.Underlying().(*types.Struct).Field(x.Field).Name()}] = true
			}
			walk(x.X, d+1)
		case *ssa.UnOp:
			walk(x.X, d+1)
		case *ssa.BinOp:
			walk(x.X, d+1)
			walk(x.Y, d+1)
		case *ssa.Convert:
			walk(x.X, d+1)
		case *ssa.ChangeType:
			walk(x.X, d+1)
		case *ssa.MakeInterface:
			walk(x.X, d+1)
		case *ssa.ChangeInterface:
			walk(x.X, d+1)
		case *ssa.Slice:
			walk(x.X, d+1)
		case *ssa.TypeAssert:
			walk(x.X, d+1)
		case *ssa.Extract:
			walk(x.Tuple, d+1)
		case *ssa.Phi:
			for _, e := range x.Edges {
				walk(e, d+1)
			}
		case *ssa.Call:
			args := x.Call.Args
			if x.Call.IsInvoke() {
				walk(x.Call.Value, d+1)
			}
			for i, a := range args {
				if whole != nil && a == whole {
					if cal := x.Call.StaticCallee(); cal != nil && i < len(cal.Params) {
						eachInstr(cal, func(in ssa.Instruction) {
							if fa, ok := in.(*ssa.FieldAddr); ok && fa.X == cal.Params[i] {
								n := derefNamed(fa.X.Type())
								out[fieldRef{n.Obj().Name(), n.Underlying().(*types.Struct).Field(fa.Field).Name()}] = true
							}
						})
					}
					continue
				}
				walk(a, d+1)
			}
		case *ssa.Alloc:
			for _, r := range *x.Referrers() {
				if st, ok := r.(*ssa.Store); ok && st.Addr == x {
					walk(st.Val, d+1)
				}
			}
		}
	}
	walk(v, 0)
	return out
}

func c02json(c *Ctx) {
	ct := "core/types"
	mj := c.Fn(ct, "(*Transaction).MarshalJSON")
	uj := c.Fn(ct, "(*Transaction).UnmarshalJSON")
	if mj == nil || uj == nil {
		return
	}
	c.Funcs[mj], c.Funcs[uj] = true, true
	txTypes := []string{"LegacyTx", "AccessListTx", "DynamicFeeTx", "BlobTx", "SetCodeTx"}
	isTx := map[string]bool{}
	for _, t := range txTypes {
		isTx[t] = true
	}
	// marshal direction: member X of txJSON <- fields of T
	M := map[fieldRef]map[string]bool{} // (T,F) -> members
	toViaAccessor := 0
	eachInstr(mj, func(in ssa.Instruction) {
		st, ok := in.(*ssa.Store)
		if !ok {
			return
		}
		fa, ok := st.Addr.(*ssa.FieldAddr)
		if !ok {
			return
		}
		n := derefNamed(fa.X.Type())
		if n == nil || n.Obj().Name() != "txJSON" {
			return
		}
		member := n.Underlying().(*types.Struct).Field(fa.Field).Name()
		if cl, ok := st.Val.(*ssa.Call); ok && member == "To" && calleeName(cl.Common()) == "(*core/types.Transaction).To" {
			toViaAccessor++
		}
		for r := range fieldSources(st.Val, nil) {
			if isTx[r.owner] {
				if M[r] == nil {
					M[r] = map[string]bool{}
				}
				M[r][member] = true
			}
		}
	})
	// unmarshal direction: field F of T <- members of txJSON
	U := map[fieldRef]map[string]bool{}
	var dec ssa.Value
	eachInstr(uj, func(in ssa.Instruction) {
		if a, ok := in.(*ssa.Alloc); ok {
			if n := derefNamed(a.Type()); n != nil && n.Obj().Name() == "txJSON" {
				dec = a
			}
		}
	})
	eachInstr(uj, func(in ssa.Instruction) {
		st, ok := in.(*ssa.Store)
		if !ok {
			return
		}
		fa, ok := st.Addr.(*ssa.FieldAddr)
		if !ok {
			return
		}
		if _, isAlloc := fa.X.(*ssa.Alloc); !isAlloc {
			return
		}
		n := derefNamed(fa.X.Type())
		if n == nil || !isTx[n.Obj().Name()] {
			return
		}
		key := fieldRef{n.Obj().Name(), n.Underlying().(*types.Struct).Field(fa.Field).Name()}
		if U[key] == nil {
			U[key] = map[string]bool{}
		}
		for r := range fieldSources(st.Val, dec) {
			if r.owner == "txJSON" {
				U[key][r.field] = true
			}
		}
	})
	c.Rule("FIELDCOV/C02.json")
	c.Expect(5, toViaAccessor, "arms of MarshalJSON that fill `to` through tx.To()")
	set := func(m map[string]bool) string {
		var s []string
		for k := range m {
			s = append(s, k)
		}
		sort.Strings(s)
		return strings.Join(s, ",")
	}
	exemptU := map[fieldRef]string{
		{"BlobTx", "Sidecar"}: "the JSON form is output-only for sidecars: blobs/commitments/proofs are emitted for display and UnmarshalJSON yields the sidecar-less transaction, whose hash and canonical bytes do not depend on the sidecar (TAG/C02.sidecar)",
	}
	for _, tn := range txTypes {
		_, stt := c.Struct(ct, tn)
		if stt == nil {
			continue
		}
		for i := 0; i < stt.NumFields(); i++ {
			k := fieldRef{tn, stt.Field(i).Name()}
			// marshal coverage
			name := "marshal/" + tn + "." + k.field
			switch {
			case k.field == "To":
				c.Exempt(name, mj.Pos(), "emitted through (*Transaction).To(), which copies inner.to(); counted above")
			case len(M[k]) > 0:
				c.OK(name, mj.Pos(), "read into txJSON."+set(M[k]))
			default:
				c.Bad(name, mj.Pos(), "field "+tn+"."+k.field+" is not read into any member of txJSON by MarshalJSON")
			}
			// unmarshal coverage
			name = "unmarshal/" + tn + "." + k.field
			if why, ok := exemptU[k]; ok {
				if len(U[k]) == 0 {
					c.Exempt(name, uj.Pos(), why)
				} else {
					c.OK(name, uj.Pos(), "stored from txJSON."+set(U[k]))
				}
				continue
			}
			if len(U[k]) > 0 {
				c.OK(name, uj.Pos(), "stored from txJSON."+set(U[k]))
			} else {
				c.Bad(name, uj.Pos(), "field "+tn+"."+k.field+" is not stored from any member of txJSON by UnmarshalJSON")
				continue
			}
			// agreement of the two directions
			name = "pair/" + tn + "." + k.field
			want := M[k]
			if k.field == "To" {
				want = map[string]bool{"To": true}
			}
			if set(want) == set(U[k]) {
				c.OK(name, uj.Pos(), "both directions use txJSON."+set(U[k]))
			} else {
				c.Bad(name, uj.Pos(), "MarshalJSON writes "+tn+"."+k.field+" to {"+set(want)+"} but UnmarshalJSON reads it from {"+set(U[k])+"}")
			}
		}
	}
}
