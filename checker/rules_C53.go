package main

import (
	"go/token"

	"golang.org/x/tools/go/ssa"
)

func init() {
	Register(&Prop{
		ID:   "C53",
		Pkgs: []string{"beacon/light", "beacon/light/api", "beacon/types", "beacon/merkle"},
		Decided: "CommitteeChain.InsertUpdate stores no committee or update (and rolls nothing back) before the period rejects, the minimum-score reject (which carries the configured signer threshold), verifyUpdate succeeding (ok and err both tested) and — when a committee is added — the supplied committee's root equalling the signed next-committee root; verifySignedHeader returns true only as the verdict of the signature verifier over a committee that was found and the fork's signing root; HeadTracker.validate rejects a head below the signer threshold before it asks for verification and accepts only a verified signature; updates and checkpoints entering from the network are Merkle-validated (and root-matched) before they are returned; merkle.VerifyProof rejects on index exhaustion, missing items and root mismatch; the committee chain state is touched only under chainmu.",
		NotDec: "that only genuine committees are ever stored for all update sequences and the BLS arithmetic itself.",
		Rules:  "ORDER/DOM must-pass-through per store/return site in InsertUpdate, verifySignedHeader, HeadTracker.validate, api.GetBestUpdatesAndCommittees/GetCheckpointData, LightClientUpdate.Validate, merkle.VerifyProof; LOCKSET on CommitteeChain fields; CONSTARG on the threshold wiring",
		MinObs: 105,
		Run:    c53,
	})
}

func c53(c *Ctx) {
	bl := "beacon/light"
	cc := "(*" + bl + ".CommitteeChain)."
	f := c.Fn(bl, "(*CommitteeChain).InsertUpdate")
	c.Rule("ORDER/C53.insert")
	// generic method instantiations: match by suffix
	adds := cat(c.Calls(f, "*.add"))
	rb := c.Calls(f, cc+"rollback")
	bw := c.Calls(f, "(ethdb.Batch).Write")
	cnt := c.Stores(f, bl+".CommitteeChain.changeCounter")
	effects := cat(adds, rb, bw, cnt)
	c.Expect(5, len(effects), "storage effects in InsertUpdate")
	vu := c.Calls(f, cc+"verifyUpdate")
	c.Dom("signature-verified", f, effects, "storage-effect", GOkChecked("s.verifyUpdate(update)", vu, 0))
	c.Dom("verify-error-rejects", f, effects, "storage-effect", GErrChecked("s.verifyUpdate(update)", vu))
	c.Dom("score-threshold", f, cat(effects, vu), "effect/verify",
		GCond("!minimumUpdateScore.BetterThan(update.Score())", f, False(CallRes("(beacon/types.UpdateScore).BetterThan", CallRes("(*beacon/types.LightClientUpdate).Score")))))
	c.RecvIs("score-threshold-recv", f, c.CallsArg(f, "(beacon/types.UpdateScore).BetterThan", 0, CallRes("(*beacon/types.LightClientUpdate).Score"))[:1], "BetterThan", Fld(bl+".CommitteeChain.minimumUpdateScore"), "s.minimumUpdateScore")
	c.Dom("period-valid", f, cat(effects, vu), "effect/verify", GCond("updates.periods.canExpand(period)", f, True(CallRes("("+bl+".periodRange).canExpand"))))
	// committee added only if supplied and root-matched
	var cadd []Site
	for _, a := range adds {
		if Param("nextCommittee")(callArgs(a.Instr.(*ssa.Call).Common())[2]) {
			cadd = append(cadd, a)
		}
	}
	c.Expect(1, len(cadd), "committees.add(…, nextCommittee)")
	c.Dom("committee-root-matches", f, cadd, "committees.add",
		GCond("nextCommittee.Root()==update.NextSyncCommitteeRoot", f, Cmp(CallRes("(*beacon/types.SerializedSyncCommittee).Root", nil), token.EQL, Fld("beacon/types.LightClientUpdate.NextSyncCommitteeRoot"))))
	c.Dom("committee-present", f, cadd, "committees.add", GCond("nextCommittee!=nil", f, Cmp(Param("nextCommittee"), token.NEQ, Nil())))
	c.ErrUsed("errused", f, cat(adds, rb, bw), "storage-call")
	// all adds go through the batch that is written
	batch := CallRes("(ethdb.Batcher).NewBatch")
	c.ArgIs("batch", f, adds, "store.add", 0, batch, "the batch from s.db.NewBatch()")
	c.Followed("batch-written", f, adds, "store.add", bw, "batch.Write()", c.SuccessReturns(f))

	// ---- threshold wiring -------------------------------------------------------------------------------
	c.Rule("CONSTARG/C53.threshold")
	nc := c.Fn(bl, "newCommitteeChain")
	okT := false
	eachInstr(nc, func(in ssa.Instruction) {
		if st, ok := in.(*ssa.Store); ok {
			if fa, ok := st.Addr.(*ssa.FieldAddr); ok && fieldAddrName(fa) == "beacon/types.UpdateScore.SignerCount" && Mentions(Param("signerThreshold"))(st.Val) {
				okT = true
			}
		}
	})
	c.Check(okT, "minimumUpdateScore.SignerCount", nc.Pos(), "minimumUpdateScore.SignerCount is initialised from signerThreshold", "the configured signer threshold does not reach minimumUpdateScore")

	// ---- signed header verification -------------------------------------------------------------------------
	v := c.Fn(bl, "(*CommitteeChain).verifySignedHeader")
	c.Rule("DOM/C53.sig")
	var yes []Site
	for _, r := range c.Returns(v) {
		if !ConstBool(false)(retVal(r.Instr.(*ssa.Return), 0)) {
			yes = append(yes, r)
		}
	}
	c.Expect(1, len(yes), "non-false returns of verifySignedHeader")
	c.Each("verdict-is-verifier", v, yes, "return", func(s Site) (bool, string) {
		return CallRes("("+bl+".committeeSigVerifier).verifySignature")(retVal(s.Instr.(*ssa.Return), 0)), "the only non-false result is sigVerifier.verifySignature(...)"
	})
	gsc := c.Calls(v, cc+"getSyncCommittee")
	c.Dom("committee-found", v, yes, "return", GErrChecked("s.getSyncCommittee(period(SignatureSlot))", gsc).Then(GCond("committee!=nil", v, Cmp(CallResN(cc+"getSyncCommittee", 0), token.NEQ, Nil()))))
	c.Dom("signing-root", v, yes, "return", GErrChecked("Forks.SigningRoot", c.Calls(v, "(params.Forks).SigningRoot|(beacon/params.Forks).SigningRoot")))
	c.Each("verifier-args", v, c.Calls(v, "("+bl+".committeeSigVerifier).verifySignature"), "verifySignature", func(s Site) (bool, string) {
		as := callArgs(s.Instr.(*ssa.Call).Common())
		return CallResN(cc+"getSyncCommittee", 0)(as[0]) && CallRes("(params.Forks).SigningRoot|(beacon/params.Forks).SigningRoot")(as[1]), "verifies the committee of the signature slot over the signing root"
	})
	c.ArgIs("committee-period", v, gsc, "getSyncCommittee", 0, CallRes("beacon/types.SyncPeriod", Fld("beacon/types.SignedHeader.SignatureSlot")), "SyncPeriod(head.SignatureSlot)")

	// ---- head tracker -------------------------------------------------------------------------------------------
	hv := c.Fn(bl, "(*HeadTracker).validate")
	c.Rule("DOM/C53.head")
	vsh := c.Calls(hv, cc+"VerifySignedHeader")
	c.Dom("threshold-first", hv, vsh, "VerifySignedHeader", GCond("signerCount>=minSignerCount", hv, Cmp(CallRes("(*beacon/types.SyncAggregate).SignerCount|(beacon/types.SyncAggregate).SignerCount"), token.GEQ, Fld(bl+".HeadTracker.minSignerCount"))))
	var acc []Site
	for _, r := range c.Returns(hv) {
		if !ConstBool(false)(retVal(r.Instr.(*ssa.Return), 0)) {
			acc = append(acc, r)
		}
	}
	c.Expect(1, len(acc), "accepting returns of HeadTracker.validate")
	c.Dom("signature-ok", hv, acc, "return-true", GErrChecked("VerifySignedHeader", vsh).Then(GCond("sigOk", hv, True(CallResN(cc+"VerifySignedHeader", 0)))))

	// ---- network entry points validate --------------------------------------------------------------------------------
	c.Rule("DOM/C53.validate")
	api := "beacon/light/api"
	gb := c.Fn(api, "(*BeaconLightApi).GetBestUpdatesAndCommittees")
	var copies []Site
	eachInstr(gb, func(in ssa.Instruction) {
		if st, ok := in.(*ssa.Store); ok {
			if _, isStruct := st.Val.Type().Underlying().(interface{ NumFields() int }); isStruct && namedName(st.Val.Type()) == "beacon/types.LightClientUpdate" {
				copies = append(copies, Site{gb, in})
			}
		}
	})
	c.Expect(1, len(copies), "update copied into the result")
	c.Dom("validated-before-copy", gb, copies, "*updates[i]=d.Update", GErrChecked("d.Update.Validate()", c.Calls(gb, "(*beacon/types.LightClientUpdate).Validate")))
	c.Dom("committee-root-before-copy", gb, copies, "*updates[i]=d.Update",
		GCond("d.NextSyncCommittee.Root()==d.Update.NextSyncCommitteeRoot", gb, Cmp(CallRes("(*beacon/types.SerializedSyncCommittee).Root"), token.EQL, Any())))
	gc := c.Fn(api, "(*BeaconLightApi).GetCheckpointData")
	c.Dom("checkpoint-validated", gc, c.SuccessReturns(gc), "success-return", GErrChecked("checkpoint.Validate()", c.Calls(gc, "(*beacon/types.BootstrapData).Validate")))
	c.Dom("checkpoint-hash", gc, c.SuccessReturns(gc), "success-return", GCond("header.Hash()==checkpointHash", gc, Cmp(CallRes("(*beacon/types.Header).Hash|(beacon/types.Header).Hash"), token.EQL, Param("checkpointHash"))))
	val := c.Fn("beacon/types", "(*LightClientUpdate).Validate")
	vp := c.Calls(val, "beacon/merkle.VerifyProof")
	c.Expect(2, len(vp), "merkle.VerifyProof calls in LightClientUpdate.Validate")
	var vpNext, vpFin []Site
	for _, s := range vp {
		if Mentions(Fld("beacon/types.LightClientUpdate.NextSyncCommitteeRoot"))(callArgs(s.Instr.(*ssa.Call).Common())[3]) {
			vpNext = append(vpNext, s)
		} else {
			vpFin = append(vpFin, s)
		}
	}
	c.Dom("next-committee-proof", val, c.SuccessReturns(val), "success-return", GErrChecked("VerifyProof(next sync committee root)", vpNext))
	c.Dom("finality-proof", val, c.SuccessReturns(val), "success-return",
		GCond("FinalizedHeader==nil", val, Cmp(Fld("beacon/types.LightClientUpdate.FinalizedHeader"), token.EQL, Nil())), GErrChecked("VerifyProof(finalized header)", vpFin))
	c.Dom("same-period", val, c.SuccessReturns(val), "success-return", GCond("SyncPeriod(SignatureSlot)==period", val, Cmp(CallRes("beacon/types.SyncPeriod"), token.EQL, Any())))
	c.Each("proof-against-attested-root", val, vp, "VerifyProof", func(s Site) (bool, string) {
		return Fld("beacon/types.Header.StateRoot")(callArgs(s.Instr.(*ssa.Call).Common())[0]), "proofs are verified against the attested header's state root"
	})

	// ---- merkle ---------------------------------------------------------------------------------------------------
	c.Rule("DOM/C53.merkle")
	mv := c.Fn("beacon/merkle", "VerifyProof")
	ms := c.SuccessReturns(mv)
	c.Dom("root-compared", mv, ms, "success-return", GCond("value==root", mv, Cmp(Any(), token.EQL, Param("root"))))
	c.Dom("index-consumed", mv, ms, "success-return", GCond("index==1", mv, Cmp(Any(), token.EQL, ConstInt(1))))

	// ---- lock --------------------------------------------------------------------------------------------------------
	c.Lockset(LockSpec{
		Name: "C53.chain", Pkg: bl, Mutex: bl + ".CommitteeChain.chainmu", RW: true,
		Fields: []string{bl + ".CommitteeChain.updates", bl + ".CommitteeChain.committees", bl + ".CommitteeChain.fixedCommitteeRoots", bl + ".CommitteeChain.committeeCache", bl + ".CommitteeChain.changeCounter"},
		Exempt: map[string]string{
			bl + ".newCommitteeChain": "constructor: the chain object is not published yet",
		},
		MinSites: 30,
	})
}
