package main

import (
	"go/constant"
	"go/types"
)

var stdSizes = types.SizesFor("gc", "amd64")

// sizeof returns the size in bytes of a type under gc/amd64.
func (c *Ctx) sizeof(t types.Type) int64 { return stdSizes.Sizeof(t) }

// constInt returns the value of a package-level integer constant, or -1.
func (c *Ctx) constInt(rel, name string) int64 {
	p := c.Pkg(rel)
	k, _ := p.Pkg.Scope().Lookup(name).(*types.Const)
	if k == nil || k.Val().Kind() != constant.Int {
		return -1
	}
	v, _ := constant.Int64Val(k.Val())
	return v
}
