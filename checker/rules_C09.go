package main

import (
	"go/token"

	"golang.org/x/tools/go/ssa"
)

func init() {
	Register(&Prop{
		ID:   "C09",
		Pkgs: []string{"trie"},
		Decided: "no accepting return of VerifyRangeProof is reachable without binding the supplied keys/values to rootHash " +
			"(recomputed hash compared with the parameter, or an error-tested proofToPath(rootHash,…) followed by the arm's own value/key rejects), " +
			"and the shape rejects (length agreement, monotonic keys, no prefix, no empty value, firstKey<=keys[0], equal edge-key length) guard the loop latch / the later arms.",
		NotDec: "that the reconstruction in unsetInternal/hasRightElement is correct for every trie shape; panic-freedom on arbitrary node bytes.",
		Rules:  "DOM (must-pass-through path search on the SSA CFG) per success return and per loop latch of trie.VerifyRangeProof",
		MinObs: 10,
		Run:    c09,
	})
}

func c09(c *Ctx) {
	f := c.Fn("trie", "VerifyRangeProof")
	keys, values, first, root := Param("keys"), Param("values"), Param("firstKey"), Param("rootHash")
	succ := c.SuccessReturns(f)

	c.Rule("DOM/C09.shape")
	c.Dom("lens", f, succ, "success-return",
		GCond("len(keys)==len(values)", f, Cmp(Len(keys), token.EQL, Len(values))))
	// the per-element rejects guard the loop latch: an iteration completes
	// only with a non-empty value and either no successor or a strictly
	// greater, non-prefixed successor.
	latch := c.LoopLatches(f, Cmp(Any(), token.LSS, Len(keys)))
	// only the first loop (the validation loop) is a counted for-loop over i;
	// the two range loops over keys have the same header shape, so restrict to
	// latches that can reach the `len(values[i]) == 0` test: do it by requiring
	// the guard on all latches whose block is dominated by that test.
	nonEmpty := GCond("len(values[i])!=0", f, Cmp(Len(IndexOf(values, nil)), token.NEQ, ConstInt(0)))
	var valLatch []Site
	for _, l := range latch {
		for e := range nonEmpty.Steps[0].Edges {
			if edgeDominates(e, l.Instr.Block()) {
				valLatch = append(valLatch, l)
			}
		}
	}
	c.Expect(1, len(valLatch), "validation-loop latch")
	c.Dom("elem", f, valLatch, "loop-latch", nonEmpty)
	// the non-empty test is applied to every element: the index it uses counts up from 0 in steps
	// of 1 (the loop bound is the latch condition matched above), or the loop ranges over the slice
	nIdx := 0
	eachInstr(f, func(in ssa.Instruction) {
		ia, ok := in.(*ssa.IndexAddr)
		if !ok || !values(ia.X) {
			return
		}
		used := false
		for e := range nonEmpty.Steps[0].Edges {
			if Mentions(Is(ia))(e.From.Instrs[len(e.From.Instrs)-1].(*ssa.If).Cond) {
				used = true
			}
		}
		if !used {
			return
		}
		nIdx++
		c.Check(countsFromZero(ia.Index), "elem-all/"+fnName(f), ia.Pos(), "the index of the non-empty test starts at 0 and advances by 1, so no element escapes it",
			"the loop that rejects empty values does not start at index 0 / does not advance by 1: some values[i] is never tested, so a range containing a deletion marker is accepted")
	})
	c.Expect(1, nIdx, "index of the non-empty value test")
	cmpKeys := CallRes("bytes.Compare", IndexOf(keys, nil), IndexOf(keys, nil))
	c.Dom("mono", f, valLatch, "loop-latch",
		GCond("i>=len(keys)-1", f, Cmp(Any(), token.GEQ, Mentions(Len(keys)))),
		GCond("Compare(keys[i],keys[i+1])<0", f, Cmp(cmpKeys, token.LSS, ConstInt(0))).Then(
			GCond("!HasPrefix(keys[i+1],keys[i])", f, False(CallRes("bytes.HasPrefix", IndexOf(keys, nil), IndexOf(keys, nil))))))

	c.Rule("DOM/C09.rootbind")
	p2p := c.CallsWhere(f, "trie.proofToPath", func(cc *ssaCall) bool { return root(cc.Args[0]) && first(cc.Args[2]) || root(cc.Args[0]) })
	c.Expect(4, len(p2p), "proofToPath(rootHash,…) calls")
	hashEq := GCond("Hash()==rootHash", f, Cmp(CallRes("(*trie.StackTrie).Hash|(*trie.Trie).Hash"), token.EQL, root))
	P := GErrChecked("proofToPath(rootHash,…)", p2p)
	val := CallResN("trie.proofToPath", 1)
	lastKey := IndexOf(keys, nil)
	firstLEQ := GCond("Compare(firstKey,keys[0])<=0", f, Cmp(CallRes("bytes.Compare", first, IndexOf(keys, ConstInt(0))), token.LEQ, ConstInt(0)))
	A1 := GCond("proof==nil", f, Cmp(Param("proof"), token.EQL, Nil())).Then(hashEq)
	A2 := GCond("len(keys)==0", f, Cmp(Len(keys), token.EQL, ConstInt(0))).Then(P).
		Then(GCond("val==nil", f, Cmp(val, token.EQL, Nil()))).
		Then(GCond("!hasRightElement", f, False(CallRes("trie.hasRightElement", nil, first))))
	A3 := firstLEQ.Then(P).
		Then(GCond("Equal(firstKey,keys[0])", f, True(CallRes("bytes.Equal", first, IndexOf(keys, ConstInt(0)))))).
		Then(GCond("Equal(val,values[0])", f, True(CallRes("bytes.Equal", val, IndexOf(values, ConstInt(0))))))
	A4 := firstLEQ.
		Then(GCond("len(firstKey)==len(lastKey)", f, Cmp(Len(first), token.EQL, Len(lastKey)))).
		Then(P).Then(P).
		Then(GErrChecked("unsetInternal", c.Calls(f, "trie.unsetInternal"))).
		Then(hashEq)
	c.Dom("arms", f, succ, "success-return", A1, A2, A3, A4)
}

// countsFromZero: v is a loop induction variable phi(0, v+1), or the index of
// a range loop over a slice (phi(-1, ·)+1 in go/ssa's rangeindex lowering).
func countsFromZero(v ssa.Value) bool {
	isK := func(x ssa.Value, k int64) bool { return constIs(x, k) }
	if b, ok := v.(*ssa.BinOp); ok && b.Op == token.ADD && isK(b.Y, 1) {
		if phi, ok := b.X.(*ssa.Phi); ok && len(phi.Edges) == 2 {
			return (isK(phi.Edges[0], -1) && phi.Edges[1] == v) || (isK(phi.Edges[1], -1) && phi.Edges[0] == v)
		}
		return false
	}
	phi, ok := v.(*ssa.Phi)
	if !ok || len(phi.Edges) != 2 {
		return false
	}
	step := func(x ssa.Value) bool {
		b, ok := x.(*ssa.BinOp)
		return ok && b.Op == token.ADD && b.X == ssa.Value(phi) && isK(b.Y, 1)
	}
	return (isK(phi.Edges[0], 0) && step(phi.Edges[1])) || (isK(phi.Edges[1], 0) && step(phi.Edges[0]))
}
