package main

import (
	"go/token"

	"golang.org/x/tools/go/ssa"
)

func init() {
	Register(&Prop{
		ID:   "C08",
		Pkgs: []string{"trie"},
		Decided: "verification only ever consumes a node that was looked up under the hash it expects: the expected hash starts as the given root hash and is afterwards only ever overwritten with the hash child returned by the walk, the lookup key and the decoder's hash argument are that same expected hash, a missing node or a decoding failure rejects, and a value is returned only from the value-node arm (absence from the nil arm); the range-proof walk resolves nodes the same way (root hash, then child hashes); proof generation records a node exactly when the hasher would not have embedded it in its parent — encoding of at least 32 bytes, the same threshold as the hasher's — plus always the root, keyed by the Keccak hash of the recorded bytes, and refuses to run on a committed trie.",
		NotDec: "completeness (that Prove emits every node on the key's path for every trie shape) and panic-freedom on arbitrary node bytes (decoder robustness; value-level); that callers pass a content-addressed proof database.",
		Rules:  "SAMEVAL hash chain in VerifyProof / proofToPath; TABLE embed threshold Prove ↔ hasher; CADDR proof entries; DOM rejects",
		MinObs: 15,
		Run:    c08,
	})
}

func c08(c *Ctx) {
	c.Rule("SAMEVAL/C08.chain")
	if vp := c.Fn("trie", "VerifyProof"); vp != nil {
		c.Funcs[vp] = true
		// wantHash cell: alloc initialised from rootHash
		var cell *ssa.Alloc
		eachInstr(vp, func(in ssa.Instruction) {
			if al, ok := in.(*ssa.Alloc); ok && al.Comment == "wantHash" {
				cell = al
			}
		})
		if !c.Check(cell != nil, "cell/"+fnName(vp), vp.Pos(), "expected-hash variable found", "the expected-hash variable of VerifyProof was not found") {
			return
		}
		fromCell := func(v ssa.Value) bool {
			r, _ := addrRoot(v)
			if r == ssa.Value(cell) {
				return true
			}
			if sl, ok := v.(*ssa.Slice); ok {
				return sl.X == ssa.Value(cell)
			}
			return false
		}
		// writers of the cell: the initial store of rootHash and copy(wantHash[:], cld)
		nw := 0
		for _, r := range *cell.Referrers() {
			switch x := r.(type) {
			case *ssa.Store:
				if x.Addr == ssa.Value(cell) {
					nw++
					c.Check(Param("rootHash")(x.Val), "init/"+fnName(vp), x.Pos(), "the expected hash starts as the given root hash", "the expected hash does not start as the root hash")
				}
			case *ssa.Slice:
				for _, rr := range *x.Referrers() {
					if call, ok := rr.(*ssa.Call); ok {
						if b, ok := call.Call.Value.(*ssa.Builtin); ok && b.Name() == "copy" && call.Call.Args[0] == ssa.Value(x) {
							nw++
							src := call.Call.Args[1]
							okSrc := false
							if ct, ok := src.(*ssa.ChangeType); ok {
								src = ct.X
							}
							if ta, ok := src.(*ssa.TypeAssert); ok {
								okSrc = CallResN("trie.get", 1)(ta.X)
							}
							if ex, ok := src.(*ssa.Extract); ok {
								if ta, ok := ex.Tuple.(*ssa.TypeAssert); ok {
									okSrc = CallResN("trie.get", 1)(ta.X)
								}
							}
							c.Check(okSrc, "advance/"+fnName(vp), call.Pos(), "the expected hash advances to the hash child returned by the walk", "the expected hash is overwritten with something other than the child hash returned by get")
						}
					}
				}
			}
		}
		c.Expect(2, nw, "writers of the expected hash")
		var gets []Site
		eachInstr(vp, func(in ssa.Instruction) {
			if ci, ok := in.(ssa.CallInstruction); ok && ci.Common().IsInvoke() && ci.Common().Method.Name() == "Get" {
				gets = append(gets, Site{vp, in})
			}
		})
		c.Expect(1, len(gets), "proofDb.Get calls")
		for _, g := range gets {
			c.Check(fromCell(g.Instr.(ssa.CallInstruction).Common().Args[0]), "lookup-key/"+fnName(vp), g.Pos(), "the node is looked up under the expected hash", "a proof node is looked up under a key other than the expected hash")
		}
		dn := c.Calls(vp, "trie.decodeNode")
		for _, s := range dn {
			a := s.Instr.(*ssa.Call).Call.Args
			okB := false
			for _, g := range gets {
				if resultValues(g.Instr.(*ssa.Call), 0)[a[1]] {
					okB = true
				}
			}
			c.Check(fromCell(a[0]) && okB, "decode/"+fnName(vp), s.Pos(), "the looked-up bytes are decoded as the node with the expected hash", "decodeNode is given a different hash or different bytes than the lookup")
			c.Check(ErrCheckedSite(s), "decode-err/"+fnName(vp), s.Pos(), "a malformed node rejects the proof", "a decoding error is ignored")
		}
		gt := c.Calls(vp, "trie.get")
		c.Dom("node-present", vp, gt, "walk", GCond("node found", vp, Cmp(Any(), token.NEQ, Nil())).Then(GErrChecked("node decoded", dn)))
		for _, s := range gt {
			a := s.Instr.(*ssa.Call).Call.Args
			c.Check(CallResN("trie.decodeNode", 0)(a[0]) && ConstBool(true)(a[2]), "walk-node/"+fnName(vp), s.Pos(), "the walk runs on the decoded node and stops at hash children", "the walk does not run on the node just decoded (or does not stop at hashes)")
		}
		// values only from the value arm
		for _, r := range c.SuccessReturns(vp) {
			v := retVal(r.Instr.(*ssa.Return), 0)
			if Nil()(v) {
				continue
			}
			c.Check(Mentions(CallResN("trie.get", 1))(v), "value-source/"+fnName(vp), r.Pos(), "a returned value is the value node reached by the walk", "VerifyProof returns a value that is not the value node reached by the walk")
		}
	}
	if pp := c.TryFn("trie", "proofToPath"); pp != nil {
		// resolveNode closure: looked up under the hash given; callers pass rootHash / child hash
		for _, an := range pp.AnonFuncs {
			var gets []Site
			eachInstr(an, func(in ssa.Instruction) {
				if ci, ok := in.(ssa.CallInstruction); ok && ci.Common().IsInvoke() && ci.Common().Method.Name() == "Get" {
					gets = append(gets, Site{an, in})
				}
			})
			if len(gets) == 0 {
				continue
			}
			c.Funcs[an] = true
			for _, g := range gets {
				c.Check(paramCell(g.Instr.(ssa.CallInstruction).Common().Args[0], "hash"), "range-lookup/"+fnName(an), g.Pos(), "range-proof nodes are looked up under the requested hash", "a range-proof node is looked up under a key other than the requested hash")
			}
			for _, s := range c.Calls(an, "trie.decodeNode") {
				c.Check(paramCell(s.Instr.(*ssa.Call).Call.Args[0], "hash"), "range-decode/"+fnName(an), s.Pos(), "decoded as the node with the requested hash", "the range-proof node is decoded under a different hash")
			}
		}
	}

	// ---- generation ------------------------------------------------------------------------------------
	c.Rule("TABLE/C08.threshold")
	if pr := c.Fn("trie", "(*Trie).Prove"); pr != nil {
		var puts []Site
		eachInstr(pr, func(in ssa.Instruction) {
			if ci, ok := in.(ssa.CallInstruction); ok && ci.Common().IsInvoke() && ci.Common().Method.Name() == "Put" {
				puts = append(puts, Site{pr, in})
			}
		})
		c.Expect(1, len(puts), "proofDb.Put in Prove")
		isLen := func(v ssa.Value) bool { return Len(CallRes("(*trie.hasher).proofHash"))(v) }
		big := EdgesWhere(pr, Cmp(isLen, token.GEQ, func(v ssa.Value) bool { return constIs(v, 32) }))
		root := EdgesWhere(pr, Cmp(Any(), token.EQL, ConstInt(0)))
		for _, p := range puts {
			blk := p.Instr.Block()
			okT, sawBig := true, false
			for _, pb := range blk.Preds {
				for si, sc := range pb.Succs {
					if sc != blk {
						continue
					}
					e := Edge{pb, si}
					if big[e] {
						sawBig = true
					} else if !root[e] {
						okT = false
					}
				}
			}
			c.Check(okT && sawBig, "stored-iff-not-embedded/"+fnName(pr), p.Pos(), "a node is recorded exactly when its encoding is at least 32 bytes (the hasher's embedding threshold), or it is the root", "Prove's threshold for recording a node differs from the hasher's embedding threshold (len(enc) < 32 embeds): a 32-byte node would be referenced by hash but missing from the proof")
			// and a 32+ byte node cannot skip the Put
			a := p.Instr.(ssa.CallInstruction).Common().Args
			okKey := false
			if k, ok := a[0].(*ssa.Call); ok && calleeName(&k.Call) == "crypto.Keccak256" {
				okKey = len(k.Call.Args) == 1 && sameSpread(k.Call.Args[0], a[1])
			}
			c.Check(okKey, "content-addressed/"+fnName(pr), p.Pos(), "the entry is keyed by the hash of the recorded bytes", "a proof entry is not keyed by the Keccak hash of its own bytes")
		}
		c.Dom("usable", pr, puts, "proof entry", GCond("!t.committed", pr, False(Fld("trie.Trie.committed"))))
		// every visited node is considered: the recording loop ranges over the collected nodes
		for _, p := range puts {
			h := innermostLoopHeader(pr, p.Instr.Block())
			c.Check(h != nil && loopRangedSlice(h) != nil, "all-nodes/"+fnName(pr), p.Pos(), "every node on the path is considered for recording", "not every collected node is considered for recording")
		}
	}
}

// sameSpread: the variadic argument slice consists of exactly the value w.
func sameSpread(spread ssa.Value, w ssa.Value) bool {
	sl, ok := spread.(*ssa.Slice)
	if !ok {
		return false
	}
	al, ok := sl.X.(*ssa.Alloc)
	if !ok {
		return false
	}
	n, hit := 0, false
	for _, r := range *al.Referrers() {
		if ia, ok := r.(*ssa.IndexAddr); ok {
			for _, rr := range *ia.Referrers() {
				if st, ok := rr.(*ssa.Store); ok && st.Addr == ia {
					n++
					if st.Val == w || sameValue(st.Val, w) {
						hit = true
					}
				}
			}
		}
	}
	return n == 1 && hit
}

// paramCell: v is (a slice of) the local cell that holds the parameter named name.
func paramCell(v ssa.Value, name string) bool {
	if Mentions(Param(name))(v) {
		return true
	}
	r, _ := addrRoot(v)
	if sl, ok := v.(*ssa.Slice); ok {
		r = sl.X
	}
	al, ok := r.(*ssa.Alloc)
	if !ok {
		return false
	}
	for _, ref := range *al.Referrers() {
		if st, ok := ref.(*ssa.Store); ok && st.Addr == ssa.Value(al) && Param(name)(st.Val) {
			return true
		}
	}
	return false
}
