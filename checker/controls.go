package main

import (
	"fmt"
	"os"
	"path/filepath"
	"strings"

	"golang.org/x/tools/go/ssa"
)

// Positive controls: tiny packages under testdata/ctl analysed on every run.
// Each control runs an engine over functions named good*/bad*; obligations for
// bad* must be VIOLATED and for good* discharged. A rule whose expected count
// on /repo is zero thereby still proves on each run that it can fire.

type controlResult struct {
	Total, Failed int
	FailedNames   []string
}

type control struct {
	name    string
	run     func(c *Ctx)
	wantBad []string // every listed function must carry a VIOLATED obligation
}

var controls []control

func addControl(name string, run func(c *Ctx), wantBad ...string) {
	controls = append(controls, control{name, run, wantBad})
}

func controlDir() string {
	if d := os.Getenv("VERIF_CTL"); d != "" {
		return d
	}
	return filepath.Join(verifDir(), "checker", "testdata", "ctl")
}

func runControls() (r controlResult) {
	if os.Getenv("VERIF_SKIP_CONTROLS") != "" {
		return
	}
	l, err := load(controlDir(), []string{"."}, nil, nil, nil)
	if err != nil {
		r.Total, r.Failed = 1, 1
		r.FailedNames = []string{"load controls: " + err.Error()}
		return
	}
	for _, ct := range controls {
		c := &Ctx{Prop: &Prop{ID: "CTL"}, Fset: l.Fset, Prog: l.Prog, Pkgs: l.Pkgs, SSA: l.SSA,
			keys: map[string]int{}, Funcs: map[*ssa.Function]bool{}, doms: map[*ssa.Function]*struct{}{}}
		// controls live in package "ctl" (module path), keyed "."
		for k, v := range l.SSA {
			c.SSA["ctl"] = v
			c.Pkgs["ctl"] = l.Pkgs[k]
		}
		var perr string
		func() {
			defer func() {
				if x := recover(); x != nil {
					perr = fmt.Sprint(x)
				}
			}()
			c.Rule(ct.name)
			ct.run(c)
		}()
		r.Total++
		nGood, nBad := 0, 0
		fail := perr
		for _, o := range c.Obs {
			lk := strings.ToLower(o.Key)
			isBadFn := strings.Contains(lk, "ctl.bad") || strings.Contains(lk, ").bad") || strings.Contains(lk, "/bad")
			isGoodFn := strings.Contains(lk, "ctl.good") || strings.Contains(lk, ").good") || strings.Contains(lk, "/good")
			switch {
			case isBadFn && o.st == Violated:
				nBad++
			case isGoodFn && o.st == Discharged:
				nGood++
			case isBadFn || isGoodFn:
				// a bad function may also have discharged obligations for other
				// sites; only a good function with a violation is wrong, and a
				// bad function with no violation at all (checked below).
				if isGoodFn {
					fail += fmt.Sprintf(" unexpected %s on %s;", o.Status, o.Key)
				}
			}
		}
		for _, w := range ct.wantBad {
			hit := false
			for _, o := range c.Obs {
				if o.st == Violated && strings.Contains(o.Key, w) {
					hit = true
				}
			}
			if !hit {
				fail += " no violation reported for " + w + ";"
			}
		}
		if os.Getenv("VERIF_SHOW_CONTROLS") != "" {
			for _, o := range c.Obs {
				fmt.Printf("  ctl %s %s %s\n", o.Status, o.Key, o.Detail)
			}
		}
		if nBad == 0 {
			fail += " engine did not fire on the violating control;"
		}
		if nGood == 0 {
			fail += " engine did not discharge the conforming control;"
		}
		if fail != "" {
			r.Failed++
			r.FailedNames = append(r.FailedNames, ct.name+":"+fail)
		}
	}
	return
}
