package main

import (
	"go/token"
	"sort"
	"strings"

	"golang.org/x/tools/go/ssa"
)

func init() {
	Register(&Prop{
		ID:   "C06",
		Pkgs: []string{"trie"},
		Decided: "the concurrent batch update runs only when the root is a branch, the batch is large enough and at least two of the root's children survive untouched by any deletion (counted conservatively: only existing children with no deletion below them), otherwise it falls back to one-by-one updates; its workers share only audited objects (the trie with its internally locked tracers and reader, the per-nibble key/value groups, the branch), write only the child slot of their own nibble, and the dirty counters are updated after all workers were joined without error; the parallel hasher's and committer's workers write only their own child slot, use a fresh hasher/committer, are joined before the parent is encoded, and merge node sets under a mutex; the tracers' maps are guarded by their locks; embedding in the hasher uses the `len(enc) < 32 && !force` test in both node kinds, hashes are cached on the node, and pooled encoders are reset on acquisition; the committed flag blocks Update/Delete/UpdateBatch.",
		NotDec: "that the root is a function of the key-value set, lookup/iteration exactness and stack-trie equivalence (value-level over operation sequences); correctness of node collapse in insert/delete.",
		Rules:  "DOM fallback + conservative survivor count; PARWRITE free-variable tables and slot stores (batch, hasher, committer); JOIN; LOCKSET tracers; SIBLING embedding test; DOM committed",
		MinObs: 70,
		Run:    c06,
	})
}

// goClosures returns the closures started by go statements (or errgroup.Go) in f.
func goClosures(c *Ctx, f *ssa.Function) []*ssa.Function {
	var out []*ssa.Function
	eachInstr(f, func(in ssa.Instruction) {
		switch x := in.(type) {
		case *ssa.Go:
			if mc, ok := x.Call.Value.(*ssa.MakeClosure); ok {
				out = append(out, mc.Fn.(*ssa.Function))
			}
		case *ssa.Call:
			if calleeName(&x.Call) == "(*golang.org/x/sync/errgroup.Group).Go" {
				if mc, ok := x.Call.Args[1].(*ssa.MakeClosure); ok {
					out = append(out, mc.Fn.(*ssa.Function))
				}
			}
		}
	})
	return out
}

// capturedTable checks the free variables of a worker against an audited table.
func capturedTable(c *Ctx, w *ssa.Function, table map[string]string, want int) {
	var names []string
	for _, fv := range w.FreeVars {
		names = append(names, fv.Name())
		why, ok := table[fv.Name()]
		c.Check(ok, "captured/"+fnName(w)+"/"+fv.Name(), fv.Pos(), "captured variable is in the audited table: "+why, "worker "+fnName(w)+" captures `"+fv.Name()+"` ("+fv.Type().String()+"), which is not in the audited table of shareable objects")
	}
	sort.Strings(names)
	c.Expect(want, len(names), "captured variables of "+fnName(w)+": "+strings.Join(names, " "))
}

// slotStores checks that every store through a captured variable or parameter-shared object in w
// is an element store x.Children[idx] with idx matching ok.
func slotStores(c *Ctx, w *ssa.Function, rootOK func(v ssa.Value) bool, idxOK func(v ssa.Value) bool, want int) {
	n := 0
	eachInstr(w, func(in ssa.Instruction) {
		st, ok := in.(*ssa.Store)
		if !ok {
			return
		}
		root, path := addrRoot(st.Addr)
		if _, isAlloc := root.(*ssa.Alloc); isAlloc {
			if freshBase(root) {
				return
			}
		}
		if _, isFV := root.(*ssa.FreeVar); !isFV {
			if _, isP := root.(*ssa.Parameter); !isP {
				return
			}
		}
		n++
		good := rootOK(root) && len(path) >= 1
		if good {
			good = false
			for _, ia := range path {
				if idxOK(ia.Index) {
					good = true
				}
			}
		}
		c.Check(good, "shared-store/"+fnName(w), st.Pos(), "writes only its own child slot", "worker "+fnName(w)+" writes shared memory other than its own child slot")
	})
	c.Expect(want, n, "stores to shared memory in "+fnName(w))
}

func c06(c *Ctx) {
	T := "trie.Trie."
	// ---- batch update ---------------------------------------------------------------------------------
	c.Rule("DOM/C06.fallback")
	ub := c.Fn("trie", "(*Trie).UpdateBatch")
	if ub != nil {
		var spawn []Site
		for _, s := range c.Calls(ub, "(*golang.org/x/sync/errgroup.Group).Go") {
			spawn = append(spawn, s)
		}
		c.Expect(1, len(spawn), "worker spawn in UpdateBatch")
		isSurv := func(v ssa.Value) bool { p, ok := v.(*ssa.Phi); return ok && p.Comment == "survivors" }
		c.Dom("concurrent-only-when-safe", ub, spawn, "spawn",
			GCond("!t.committed", ub, False(Fld(T+"committed"))).
				Then(GCond("len(keys) == len(values)", ub, Cmp(Len(Param("keys")), token.EQL, Len(Param("values"))))).
				Then(GCond("root is a branch", ub, True(func(v ssa.Value) bool {
					e, ok := v.(*ssa.Extract)
					if !ok || e.Index != 1 {
						return false
					}
					_, isTA := e.Tuple.(*ssa.TypeAssert)
					return isTA
				}))).
				Then(GCond("len(keys) >= threshold", ub, Cmp(Len(Param("keys")), token.GEQ, Any()))).
				Then(GCond("survivors >= 2", ub, Cmp(isSurv, token.GEQ, ConstInt(2)))))
		// survivors are counted conservatively
		var incs []Site
		eachInstr(ub, func(in ssa.Instruction) {
			if b, ok := in.(*ssa.BinOp); ok && b.Op == token.ADD && ConstInt(1)(b.Y) && isSurv(b.X) {
				incs = append(incs, Site{ub, in})
			}
		})
		if c.Check(len(incs) == 1, "survivor-count/"+fnName(ub), ub.Pos(), "one survivor counter", "the survivor counter was not found") {
			c.Dom("survivor-exists", ub, incs, "survivors++", GCond("child != nil", ub, Cmp(Any(), token.NEQ, Nil())))
			c.Dom("survivor-undeleted", ub, incs, "survivors++", GCond("!deleted[i]", ub, False(func(v ssa.Value) bool {
				u, ok := v.(*ssa.UnOp)
				if !ok {
					return false
				}
				ia, ok := u.X.(*ssa.IndexAddr)
				if !ok {
					return false
				}
				al, ok := ia.X.(*ssa.Alloc)
				return ok && al.Comment == "deleted"
			})))
		}
		// deletions mark their nibble
		var marks []Site
		eachInstr(ub, func(in ssa.Instruction) {
			if st, ok := in.(*ssa.Store); ok {
				if ia, ok := st.Addr.(*ssa.IndexAddr); ok {
					if al, ok := ia.X.(*ssa.Alloc); ok && al.Comment == "deleted" && ConstBool(true)(st.Val) {
						marks = append(marks, Site{ub, in})
					}
				}
			}
		})
		c.Check(len(marks) == 1, "deletion-mark/"+fnName(ub), ub.Pos(), "a deletion marks its first nibble", "deletions do not mark their nibble")
		c.Dom("deletion-mark-cond", ub, marks, "deleted[nibble] = true", GCond("len(value) == 0", ub, Cmp(Len(Any()), token.EQL, ConstInt(0))))
		// fallbacks go to updateSequential with the same batch
		for _, s := range c.Calls(ub, "(*trie.Trie).updateSequential") {
			a := s.Instr.(*ssa.Call).Call.Args
			c.Check(Param("keys")(a[1]) && Param("values")(a[2]), "fallback-args/"+fnName(ub), s.Pos(), "the fallback applies the same batch", "the sequential fallback is given a different batch")
		}

		c.Rule("PARWRITE/C06.batch")
		ws := goClosures(c, ub)
		if c.Check(len(ws) == 1, "worker/"+fnName(ub), ub.Pos(), "one worker closure", "expected one worker closure in UpdateBatch") {
			w := ws[0]
			c.Funcs[w] = true
			capturedTable(c, w, map[string]string{
				"ivals": "per-nibble value groups: read-only after grouping",
				"pos":   "the worker's own nibble (per-iteration copy)",
				"ks":    "the worker's own key group (per-iteration copy)",
				"t":     "the trie: workers use insert/delete, whose shared state is the internally locked tracers and reader",
				"fn":    "the root branch: each worker writes Children[pos] only",
			}, 5)
			slotStores(c, w, func(v ssa.Value) bool { fv, ok := v.(*ssa.FreeVar); return ok && fv.Name() == "fn" }, func(v ssa.Value) bool { return Mentions(FreeVar("pos"))(v) }, 2)
			// the subtree worked on is the worker's own child, with its nibble as prefix
			for _, s := range cat(c.Calls(w, "(*trie.Trie).insert"), c.Calls(w, "(*trie.Trie).delete")) {
				a := s.Instr.(*ssa.Call).Call.Args
				okOwn := false
				if u, ok := a[1].(*ssa.UnOp); ok {
					if ia, ok := u.X.(*ssa.IndexAddr); ok && Mentions(FreeVar("pos"))(ia.Index) {
						okOwn = true
					}
				}
				c.Check(okOwn, "own-child/"+fnName(w), s.Pos(), "the worker operates on the child of its own nibble", "a worker operates on a child other than its own nibble's")
				c.Check(ErrCheckedSite(s), "own-err/"+fnName(w), s.Pos(), "an error aborts the worker", "an insert/delete error is ignored by the worker")
			}
		}
		// counters after the join
		w8 := c.Calls(ub, "(*golang.org/x/sync/errgroup.Group).Wait")
		c.Dom("PARWRITE/C06.batch/joined", ub, cat(c.Stores(ub, T+"unhashed"), c.Stores(ub, T+"uncommitted")), "dirty counters", GErrChecked("eg.Wait() == nil", w8))
		// no worker-visible trie fields are written by the coordinator while workers run
		for _, s := range c.Stores(ub, "trie.fullNode.flags") {
			for _, sp := range spawn {
				c.Check(!instrReaches(sp.Instr, s.Instr), "flags-before-spawn/"+fnName(ub), s.Pos(), "the branch is marked dirty before the workers start", "the root branch's flags are written while workers may run")
			}
		}
	}
	for _, name := range []string{"(*Trie).Update", "(*Trie).Delete", "(*Trie).UpdateBatch"} {
		f := c.Fn("trie", name)
		if f == nil {
			continue
		}
		c.Rule("DOM/C06.committed")
		c.Dom("usable", f, c.SuccessReturns(f), "success", GCond("!t.committed", f, False(Fld(T+"committed"))))
	}

	// ---- parallel hashing and committing -----------------------------------------------------------------
	c.Rule("PARWRITE/C06.hash")
	if ef := c.Fn("trie", "(*hasher).encodeFullNode"); ef != nil {
		ws := goClosures(c, ef)
		if c.Check(len(ws) == 1, "worker/"+fnName(ef), ef.Pos(), "one worker closure", "expected one hashing worker closure") {
			w := ws[0]
			c.Funcs[w] = true
			capturedTable(c, w, map[string]string{
				"wg": "WaitGroup", "fn": "pooled encoder: each worker writes Children[i] only", "n": "the node being hashed: children are read, each hashed by one worker",
			}, 3)
			slotStores(c, w, func(v ssa.Value) bool { fv, ok := v.(*ssa.FreeVar); return ok && fv.Name() == "fn" }, func(v ssa.Value) bool { return Param("i")(v) }, 1)
			hs := c.Calls(w, "(*trie.hasher).hash")
			c.RecvIs("fresh-hasher", w, hs, "h.hash", CallRes("trie.newHasher"), "a hasher obtained inside the worker")
			c.Dom("done", w, c.Returns(w), "return", GSites("defer wg.Done()", deferSites(w, "(*sync.WaitGroup).Done")))
		}
		enc := c.Calls(ef, "(*trie.fullnodeEncoder).encode")
		wt := c.Calls(ef, "(*sync.WaitGroup).Wait")
		c.Dom("joined", ef, enc, "encode",
			GCond("sequential", ef, False(Fld("trie.hasher.parallel"))), GCall("wg.Wait()", wt))
		c.Dom("encoder-reset", ef, enc, "encode", GCall("fn.reset() on acquisition", c.Calls(ef, "(*trie.fullnodeEncoder).reset")))
	}
	c.Rule("PARWRITE/C06.commit")
	if cc := c.Fn("trie", "(*committer).commitChildren"); cc != nil {
		ws := goClosures(c, cc)
		if c.Check(len(ws) == 1, "worker/"+fnName(cc), cc.Pos(), "one worker closure", "expected one commit worker closure") {
			w := ws[0]
			c.Funcs[w] = true
			capturedTable(c, w, map[string]string{
				"wg": "WaitGroup", "path": "parent path: appended to by value per worker", "c": "parent committer: only c.nodes (merged under nodesMu), the locked tracer and the read-only flags are used",
				"n": "the branch: each worker writes Children[index] only", "child": "per-iteration copy", "nodesMu": "the merge mutex",
			}, 6)
			slotStores(c, w, func(v ssa.Value) bool { fv, ok := v.(*ssa.FreeVar); return ok && fv.Name() == "n" }, func(v ssa.Value) bool { return Param("index")(v) }, 1)
			cm := c.Calls(w, "(*trie.committer).commit")
			c.RecvIs("fresh-committer", w, cm, "childCommitter.commit", CallRes("trie.newCommitter"), "a committer created inside the worker")
			mg := c.Calls(w, "(*trie/trienode.NodeSet).MergeDisjoint")
			lk := c.Calls(w, "(*sync.Mutex).Lock")
			ul := c.Calls(w, "(*sync.Mutex).Unlock")
			c.Dom("merge-locked", w, mg, "MergeDisjoint", GCall("nodesMu.Lock()", lk))
			c.Followed("merge-unlocked", w, mg, "MergeDisjoint", ul, "nodesMu.Unlock()", c.Returns(w))
			c.ArgIs("merge-own-set", w, mg, "MergeDisjoint", 0, CallRes("trie/trienode.NewNodeSet"), "the worker's own node set")
			// path slices: append(path, byte(index)) must not alias between workers — the capacity
			// of `path` is the caller's; record the site for the evidence
		}
		wt := c.Calls(cc, "(*sync.WaitGroup).Wait")
		c.Dom("joined", cc, c.Returns(cc), "return", GCond("sequential", cc, False(Param("parallel"))), GCall("wg.Wait()", wt))
	}

	// ---- tracers ------------------------------------------------------------------------------------
	c.Lockset(LockSpec{Name: "C06.optracer", Pkg: "trie", Mutex: "trie.opTracer.lock", RW: true,
		Fields: []string{"trie.opTracer.inserts", "trie.opTracer.deletes"},
		Exempt: map[string]string{"trie.newOpTracer": "constructor"}, MinSites: 8})
	c.Lockset(LockSpec{Name: "C06.prevalue", Pkg: "trie", Mutex: "trie.PrevalueTracer.lock", RW: true,
		Fields: []string{"trie.PrevalueTracer.data"},
		Exempt: map[string]string{"trie.NewPrevalueTracer": "constructor"}, MinSites: 6})

	// ---- embedding test -------------------------------------------------------------------------------
	c.Rule("SIBLING/C06.embed")
	if hf := c.Fn("trie", "(*hasher).hash"); hf != nil {
		c.Funcs[hf] = true
		hd := c.Calls(hf, "(*trie.hasher).hashData")
		c.Expect(2, len(hd), "hashData calls (short and full node)")
		small := func(v ssa.Value) bool {
			call, ok := v.(*ssa.Call)
			if !ok {
				return false
			}
			b, isB := call.Call.Value.(*ssa.Builtin)
			return isB && b.Name() == "len"
		}
		for _, s := range hd {
			// hashed exactly when len(enc) >= 32 or forced
			big := EdgesWhere(hf, Cmp(small, token.GEQ, func(v ssa.Value) bool { return constIs(v, 32) }))
			forced := EdgesWhere(hf, True(Param("force")))
			okT, sawBig := true, false
			blk := s.Instr.Block()
			for _, p := range blk.Preds {
				for si, sc := range p.Succs {
					if sc != blk {
						continue
					}
					e := Edge{p, si}
					if big[e] {
						sawBig = true
					} else if !forced[e] {
						okT = false
					}
				}
			}
			okT = okT && sawBig
			c.Check(okT, "threshold/"+fnName(hf), s.Pos(), "a node is hashed when its encoding is at least 32 bytes (or hashing is forced)", "the embed/hash threshold is not `len(enc) < 32 && !force`")
		}
		hs := c.Stores(hf, "trie.nodeFlag.hash")
		c.Check(len(hs) == 2, "cached/"+fnName(hf), hf.Pos(), "the hash is cached on both node kinds", "a computed hash is not cached on the node")
	}
}

func deferSites(f *ssa.Function, callee string) []Site {
	var out []Site
	eachInstr(f, func(in ssa.Instruction) {
		if d, ok := in.(*ssa.Defer); ok && calleeName(&d.Call) == callee {
			out = append(out, Site{f, in})
		}
	})
	return out
}
