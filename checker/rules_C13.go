package main

import (
	"fmt"
	"go/constant"
	"go/token"
	"go/types"
	"sort"
	"strings"

	"golang.org/x/tools/go/ssa"
)

func init() {
	Register(&Prop{
		ID:   "C13",
		Pkgs: []string{"core/state"},
		Decided: "every raw writer of journaled account state (balance, nonce, code, storage, self-destruct flag, new-contract flag, object creation, refund, logs, transient storage, access list) is invoked only together with its journal entry on the same path, outside the undo entries themselves; the journaled fields are written only by a frozen set of functions (raw writers, undo entries, construction/copy, finalise/commit); every journalEntry type undoes exactly the state its mutator wrote, restoring the entry's own saved value, reports the matching mutation kind and is copied field-complete; the journal reverts newest-first down to the snapshot index and truncates entries and revisions; per-transaction finalisation clears the new-contract flag on every path.",
		NotDec: "equality of every observable read with a reference account model over arbitrary operation sequences, intermediate roots, and fork-specific deletion rules (value-level).",
		Rules:  "PAIR (dominates-or-followed-by path search) per raw-writer call site; WHO per (field, writing function); TABLE over all journalEntry implementations; FIELDCOV on entry copies; DOM in journal.revert/revertToSnapshot/append and stateObject.finalise",
		MinObs: 145,
		Run:    c13,
	})
}

// paired: each P site has a J site that dominates it, or is followed by a J
// site (or one of passEdges) on every path to a return.
func (c *Ctx) paired(name string, f *ssa.Function, P []Site, what string, J []Site, jdesc string, passEdges map[Edge]bool) {
	c.Funcs[f] = true
	for _, p := range P {
		construct := name + "/" + fnName(f) + "/" + what
		if len(J) == 0 && len(passEdges) == 0 {
			c.Bad(construct, p.Pos(), what+" without "+jdesc+" in the same function")
			continue
		}
		domOK := len(J) > 0 && len(MustPass(f, []Site{p}, []Guard{GCall(jdesc, J)})) == 0
		folOK := ReachesBefore(p.Instr, sitesToSet(J), passEdges, sitesToSet(c.Returns(f))) == nil
		c.Check(domOK || folOK, construct, p.Pos(), jdesc+" accompanies the write on every path", what+" can happen without "+jdesc+" (state change not journaled: a revert would not undo it)")
	}
}

func c13(c *Ctx) {
	so := "(*" + cst + ".stateObject)."
	sdb := "(*" + cst + ".StateDB)."
	jn := "(*" + cst + ".journal)."
	isUndo := func(f *ssa.Function) bool {
		return f.Name() == "revert" && f.Signature.Recv() != nil && strings.HasSuffix(fnName(f), ").revert")
	}
	funcs := c.AllFuncs(cst)

	// ---- A. raw writers come with their journal entry -----------------------------
	c.Rule("PAIR/C13.journal")
	type pair struct{ raw, journal, what string }
	pairs := []pair{
		{so + "setBalance", jn + "balanceChange", "setBalance"},
		{so + "setNonce", jn + "nonceChange", "setNonce"},
		{so + "setCode", jn + "setCode", "setCode"},
		{so + "setState", jn + "storageChange", "setState"},
		{so + "markSelfdestructed", jn + "destruct", "markSelfdestructed"},
		{sdb + "setStateObject", jn + "createObject", "setStateObject"},
		{sdb + "setTransientState", jn + "transientStateChange", "setTransientState"},
	}
	exemptCallers := map[string]string{
		sdb + "getStateObject":       "caches an account just loaded from the database; no state change to undo",
		sdb + "prepareBALAccount":    "block-access-list application: writes the post-block values onto a state object it has just built with newObject; runs outside EVM execution, no snapshot can span it",
		sdb + "applyBlockAccessList": "publishes the objects built by prepareBALAccount (see there)",
		sdb + "finaliseAmsterdam": "post-transaction rewrite of self-destructed accounts; the journal is cleared right after (clearInternal), nothing can revert across it",
	}
	nsites := 0
	for _, pr := range pairs {
		for _, f := range funcs {
			P := c.Calls(f, pr.raw)
			if len(P) == 0 {
				continue
			}
			nsites += len(P)
			if isUndo(f) {
				for _, p := range P {
					c.Exempt("undo/"+fnName(f)+"/"+pr.what, p.Pos(), "the undo entry itself restores the saved value")
				}
				continue
			}
			if r, ok := exemptCallers[fnName(f)]; ok {
				for _, p := range P {
					c.Exempt("post-tx/"+fnName(f)+"/"+pr.what, p.Pos(), r)
				}
				continue
			}
			c.paired("writer", f, P, pr.what, c.Calls(f, pr.journal), "journal."+pr.journal[strings.LastIndex(pr.journal, ".")+1:], nil)
		}
	}
	// field-level writers outside the raw-writer functions
	for _, f := range funcs {
		if isUndo(f) {
			continue
		}
		var nc []Site
		for _, s := range c.Stores(f, cst+".stateObject.newContract") {
			if ConstBool(true)(s.Instr.(*ssa.Store).Val) {
				nc = append(nc, s)
			}
		}
		if len(nc) > 0 {
			nsites += len(nc)
			c.paired("writer", f, nc, "newContract=true", c.Calls(f, jn+"createContract"), "journal.createContract", nil)
		}
		if fnName(f) != sdb+"clearInternal" {
			if rs := notFresh(c.Stores(f, cst+".StateDB.refund")); len(rs) > 0 {
				nsites += len(rs)
				c.paired("writer", f, rs, "s.refund=", c.Calls(f, jn+"refundChange"), "journal.refundChange", nil)
			}
		}
		if ls := notFresh(c.MapWrites(f, cst+".StateDB.logs", false)); len(ls) > 0 {
			nsites += len(ls)
			c.paired("writer", f, ls, "s.logs[..]=", c.Calls(f, jn+"logChange"), "journal.logChange", nil)
		}
		for _, al := range [][3]string{{"AddAddress", "accessListAddAccount", "0"}, {"AddSlot", "accessListAddSlot", "1"}} {
			P := c.Calls(f, "(*"+cst+".accessList)."+al[0])
			if len(P) == 0 || fnName(f) == sdb+"Prepare" {
				continue
			}
			nsites += len(P)
			for _, p := range P {
				// journal entry required exactly when the list reports a change
				idx := int(al[2][0] - '0')
				unchanged := EdgesWhere(f, False(func(v ssa.Value) bool { return resultValues(p.Instr.(*ssa.Call), idx)[v] }))
				c.paired("writer", f, []Site{p}, "accessList."+al[0], c.Calls(f, jn+al[1]), "journal."+al[1]+" when the list changed", unchanged)
			}
		}
	}
	c.Expect(14, nsites, "raw writer call sites")

	// ---- B. who may write the journaled fields ------------------------------------------
	c.Rule("WHO/C13.fields")
	raw := "raw writer, always called with its journal entry (rule PAIR/C13.journal)"
	undo := "undo entry restoring the saved value"
	c.WhoWrites("fields", cst, map[string]map[string]string{
		cst + ".stateObject.data.Balance":  {so + "setBalance": raw},
		cst + ".stateObject.data.Nonce":    {so + "setNonce": raw},
		cst + ".stateObject.data.CodeHash": {so + "setCode": raw},
		cst + ".stateObject.data.Root":     {so + "updateRoot": "commit-time storage root update"},
		cst + ".stateObject.code":          {so + "setCode": raw, so + "Code": "lazy load of the committed code into the cache field; account state unchanged"},
		cst + ".stateObject.dirtyCode":     {so + "setCode": raw, so + "commit": "cleared once the code was handed to the update"},
		cst + ".stateObject.dirtyStorage":  {so + "setState": raw, so + "finalise": "per-transaction move of dirty slots to pending"},
		cst + ".stateObject.pendingStorage": {so + "finalise": "per-transaction finalisation", so + "commitStorage": "commit", sdb + "applyBALStorage": "block-access-list driven state application"},
		cst + ".stateObject.selfDestructed": {so + "markSelfdestructed": raw, "(" + cst + ".selfDestructChange).revert": undo},
		cst + ".stateObject.newContract":    {sdb + "CreateContract": "journaled (createContract)", so + "finalise": "per-transaction reset", "(" + cst + ".createContractChange).revert": undo},
		cst + ".StateDB.refund":             {sdb + "AddRefund": "journaled", sdb + "SubRefund": "journaled", sdb + "clearInternal": "per-transaction reset", "(" + cst + ".refundChange).revert": undo},
		cst + ".StateDB.logs":               {sdb + "AddLog": "journaled", "(" + cst + ".addLogChange).revert": undo},
		cst + ".StateDB.logSize":            {sdb + "AddLog": "journaled", "(" + cst + ".addLogChange).revert": undo},
		cst + ".StateDB.transientStorage":   {sdb + "Prepare": "transaction start reset"},
		cst + ".StateDB.accessList":         {sdb + "Prepare": "transaction start reset"},
		cst + ".StateDB.stateObjects": {sdb + "setStateObject": raw, "(" + cst + ".createObjectChange).revert": undo,
			sdb + "Finalise": "removal of destructed/empty accounts at transaction end", sdb + "finaliseAmsterdam": "as Finalise"},
	})

	// ---- C. undo entries -----------------------------------------------------------------------
	c.Rule("TABLE/C13.entries")
	type entry struct {
		kind   string            // journalMutationKind constant name
		call   string            // raw writer invoked by revert ("" = field effect)
		args   map[int]string    // argument index (receiver excluded) -> entry field that must be passed
		field  string            // field stored by revert
		val    string            // entry field stored ("" = constant false / structural)
		mapDel string            // map field deleted from
	}
	table := map[string]entry{
		"createObjectChange":         {kind: "journalMutationKindCreate", mapDel: cst + ".StateDB.stateObjects"},
		"createContractChange":       {kind: "journalMutationKindNone", field: cst + ".stateObject.newContract"},
		"selfDestructChange":         {kind: "journalMutationKindSelfDestruct", field: cst + ".stateObject.selfDestructed"},
		"balanceChange":              {kind: "journalMutationKindBalance", call: so + "setBalance", args: map[int]string{0: "prev"}},
		"nonceChange":                {kind: "journalMutationKindNonce", call: so + "setNonce", args: map[int]string{0: "prev"}},
		"codeChange":                 {kind: "journalMutationKindCode", call: so + "setCode", args: map[int]string{1: "prevCode"}},
		"storageChange":              {kind: "journalMutationKindStorage", call: so + "setState", args: map[int]string{0: "key", 1: "prevvalue", 2: "origvalue"}},
		"transientStorageChange":     {kind: "journalMutationKindNone", call: sdb + "setTransientState", args: map[int]string{0: "account", 1: "key", 2: "prevalue"}},
		"refundChange":               {kind: "journalMutationKindNone", field: cst + ".StateDB.refund", val: "prev"},
		"addLogChange":               {kind: "journalMutationKindNone", field: cst + ".StateDB.logSize"},
		"touchChange":                {kind: "journalMutationKindTouch"},
		"accessListAddAccountChange": {kind: "journalMutationKindNone", call: "(*" + cst + ".accessList).DeleteAddress", args: map[int]string{0: "address"}},
		"accessListAddSlotChange":    {kind: "journalMutationKindNone", call: "(*" + cst + ".accessList).DeleteSlot", args: map[int]string{0: "address", 1: "slot"}},
	}
	// exhaustiveness: every type with a revert(*StateDB) method is in the table
	var entryTypes []string
	scope := c.Pkg(cst).Pkg.Scope()
	for _, n := range scope.Names() {
		tn, ok := scope.Lookup(n).(*types.TypeName)
		if !ok {
			continue
		}
		if _, isIface := tn.Type().Underlying().(*types.Interface); isIface {
			continue
		}
		ms := c.Prog.MethodSets.MethodSet(tn.Type())
		if ms.Lookup(c.Pkg(cst).Pkg, "revert") != nil && ms.Lookup(c.Pkg(cst).Pkg, "mutation") != nil {
			entryTypes = append(entryTypes, n)
		}
	}
	sort.Strings(entryTypes)
	c.Expect(13, len(entryTypes), "journalEntry implementations")
	kindVal := func(name string) (constant.Value, bool) {
		k, ok := scope.Lookup(name).(*types.Const)
		if !ok {
			return nil, false
		}
		return k.Val(), true
	}
	for _, tn := range entryTypes {
		e, known := table[tn]
		if !known {
			c.Bad("entry/"+tn, scope.Lookup(tn).Pos(), "journal entry type "+tn+" is not in the reviewed undo table")
			continue
		}
		T := c.Type(cst, tn)
		rv := c.Fn(cst, tn+".revert")
		efield := func(fname string) VPat { return Fld(cst + "." + tn + "." + fname) }
		switch {
		case e.call != "":
			calls := c.Calls(rv, e.call)
			c.Check(len(calls) == 1, "entry/"+tn+"/undo-call", rv.Pos(), "revert calls "+e.call, fmt.Sprintf("revert of %s does not call %s exactly once (found %d)", tn, e.call, len(calls)))
			var idxs []int
			for i := range e.args {
				idxs = append(idxs, i)
			}
			sort.Ints(idxs)
			for _, i := range idxs {
				c.ArgIs("entry/"+tn+"/undo-arg", rv, calls, e.call[strings.LastIndex(e.call, ".")+1:], i, efield(e.args[i]), "the entry's saved "+e.args[i])
			}
		case e.mapDel != "":
			dels := c.MapWrites(rv, e.mapDel, true)
			c.Check(len(dels) == 1, "entry/"+tn+"/undo-delete", rv.Pos(), "revert deletes from "+e.mapDel, "revert of "+tn+" does not delete the created object from "+e.mapDel)
		case e.field != "":
			sts := c.Stores(rv, e.field)
			if e.field == cst+".StateDB.logSize" {
				c.Check(len(sts) == 1 && len(c.MapWrites(rv, cst+".StateDB.logs", false))+len(c.MapWrites(rv, cst+".StateDB.logs", true)) == 2, "entry/"+tn+"/undo-store", rv.Pos(),
					"revert shrinks s.logs[txhash] and decrements logSize", "revert of addLogChange does not undo both the log list and logSize")
				break
			}
			c.Check(len(sts) == 1, "entry/"+tn+"/undo-store", rv.Pos(), "revert stores "+e.field, "revert of "+tn+" does not restore "+e.field)
			for _, s := range sts {
				v := s.Instr.(*ssa.Store).Val
				if e.val != "" {
					c.Check(efield(e.val)(v), "entry/"+tn+"/undo-value", s.Pos(), "restores the saved "+e.val, "revert of "+tn+" stores something other than its saved "+e.val)
				} else {
					c.Check(ConstBool(false)(v), "entry/"+tn+"/undo-value", s.Pos(), "clears the flag", "revert of "+tn+" does not clear the flag")
				}
			}
		}
		// mutation kind
		mu := c.Fn(cst, tn+".mutation")
		want, ok := kindVal(e.kind)
		for _, r := range c.Returns(mu) {
			k, isK := r.Instr.(*ssa.Return).Results[1].(*ssa.Const)
			c.Check(ok && isK && k.Value != nil && constant.Compare(k.Value, token.EQL, want), "entry/"+tn+"/kind", r.Pos(), "mutation() reports "+e.kind, "mutation() of "+tn+" does not report "+e.kind)
			dirty := r.Instr.(*ssa.Return).Results[2]
			c.Check(ConstBool(e.kind != "journalMutationKindNone")(dirty), "entry/"+tn+"/dirty", r.Pos(), "dirty flag matches the kind", "mutation() of "+tn+" reports the wrong dirty flag")
		}
		// copy
		c.Rule("FIELDCOV/C13.entrycopy")
		c.CovCopy("copy", c.Fn(cst, tn+".copy"), T, true, ExFields(map[string]string{
			"prevCode": "code bytes are immutable by contract",
		}))
		c.Rule("TABLE/C13.entries")
	}

	// ---- D. journal mechanics ------------------------------------------------------------------------
	c.Rule("DOM/C13.revertorder")
	jr := c.Fn(cst, "(*journal).revert")
	undoCalls := c.Calls(jr, "("+cst+".journalEntry).revert")
	c.Expect(1, len(undoCalls), "entry.revert call in journal.revert")
	c.Dom("bounded-below", jr, undoCalls, "entries[i].revert", GCond("i>=snapshot", jr, Cmp(Any(), token.GEQ, Param("snapshot"))))
	c.Each("newest-first", jr, undoCalls, "entries[i].revert", func(s Site) (bool, string) {
		// the index is a loop phi seeded with len(entries)-1 and stepped by -1
		recv := callRecv(s.Instr.(*ssa.Call).Common())
		ok := false
		if u, isU := recv.(*ssa.UnOp); isU {
			if ia, isIA := u.X.(*ssa.IndexAddr); isIA {
				if phi, isPhi := ia.Index.(*ssa.Phi); isPhi {
					seed, step := false, false
					for _, e := range phi.Edges {
						if b, isB := e.(*ssa.BinOp); isB && b.Op == token.SUB && ConstInt(1)(b.Y) {
							if Len(Fld(cst + ".journal.entries"))(b.X) {
								seed = true
							}
							if b.X == phi {
								step = true
							}
						}
					}
					ok = seed && step
				}
			}
		}
		return ok, "undo runs from len(entries)-1 downwards"
	})
	trunc := c.Stores(jr, cst+".journal.entries")
	c.Each("truncate", jr, trunc, "j.entries=", func(s Site) (bool, string) {
		sl, ok := s.Instr.(*ssa.Store).Val.(*ssa.Slice)
		return ok && sl.High != nil && Param("snapshot")(sl.High) && sl.Low == nil, "entries are truncated to [:snapshot]"
	})
	c.Followed("truncated-after-loop", jr, undoCalls, "entries[i].revert", trunc, "j.entries = j.entries[:snapshot]", c.Returns(jr))
	rts := c.Fn(cst, "(*journal).revertToSnapshot")
	c.Followed("revisions-truncated", rts, c.Calls(rts, jn+"revert"), "j.revert", c.Stores(rts, cst+".journal.validRevisions"), "j.validRevisions = j.validRevisions[:idx]", c.Returns(rts))
	c.Dom("valid-revision", rts, c.Calls(rts, jn+"revert"), "j.revert", GCond("validRevisions[idx].id==revid", rts, Cmp(Fld(cst+".revision.id"), token.EQL, Param("revid"))))
	ap := c.Fn(cst, "(*journal).append")
	c.Each("append-stores-entry", ap, c.Stores(ap, cst+".journal.entries"), "j.entries=", func(s Site) (bool, string) {
		return len(appendChain(s.Instr.(*ssa.Store).Val)) == 1, "append grows j.entries"
	})
	// every journal helper goes through append
	for _, f := range funcs {
		if !strings.HasPrefix(fnName(f), jn) || f.Parent() != nil {
			continue
		}
		mk := false
		eachInstr(f, func(in ssa.Instruction) {
			if mi, ok := in.(*ssa.MakeInterface); ok && types.Identical(mi.Type(), c.Type(cst, "journalEntry")) {
				mk = true
			}
		})
		if mk && f.Name() != "copy" {
			c.Dom("helper-appends", f, c.Returns(f), "return", GCall("j.append(entry)", c.Calls(f, jn+"append")))
		}
	}

	// ---- E. per-transaction reset of the new-contract flag ------------------------------------------------
	c.Rule("DOM/C13.finalise")
	fin := c.Fn(cst, "(*stateObject).finalise")
	var clr []Site
	for _, s := range c.Stores(fin, cst+".stateObject.newContract") {
		if ConstBool(false)(s.Instr.(*ssa.Store).Val) {
			clr = append(clr, s)
		}
	}
	c.Dom("newContract-cleared", fin, c.Returns(fin), "return", GSites("s.newContract = false", clr))
}

// notFresh drops sites whose target object was allocated in the same function
// (construction of a copy, not a mutation of published state).
func notFresh(ss []Site) []Site {
	var out []Site
	for _, s := range ss {
		var base ssa.Value
		switch x := s.Instr.(type) {
		case *ssa.Store:
			if fa, ok := x.Addr.(*ssa.FieldAddr); ok {
				base = fa.X
			}
		case *ssa.MapUpdate:
			if u, ok := x.Map.(*ssa.UnOp); ok {
				if fa, ok := u.X.(*ssa.FieldAddr); ok {
					base = fa.X
				}
			}
		}
		if base != nil && freshBase(base) {
			continue
		}
		out = append(out, s)
	}
	return out
}
