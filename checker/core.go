package main

import (
	"fmt"
	"go/token"
	"go/types"
	"sort"
	"strings"

	"golang.org/x/tools/go/packages"
	"golang.org/x/tools/go/ssa"
)

const modPrefix = "github.com/ethereum/go-ethereum/"

// Status of one obligation.
type Status int

const (
	Discharged Status = iota
	Exempted
	Violated
	Undecided
)

func (s Status) String() string {
	return [...]string{"discharged", "exempted", "VIOLATED", "UNDECIDED"}[s]
}

// Ob is one proof obligation: a rule instance applied to one construct.
// Key is stable across line movements: rule/instance/function/construct#ordinal.
type Ob struct {
	Key    string `json:"key"`
	Status string `json:"status"`
	Pos    string `json:"pos,omitempty"`
	Detail string `json:"detail,omitempty"`
	st     Status
}

// Prop is the rule set of one property.
type Prop struct {
	ID      string
	Pkgs    []string // package paths relative to the module root, loaded with syntax
	Decided string   // clause decided (evidence explanation)
	NotDec  string   // what is not decided
	Rules   string   // one-line description of how obligations are enumerated
	Run     func(c *Ctx)
	// MinObs is the hand-confirmed number of obligations on the pinned tree;
	// fewer than this is a vacuity failure.
	MinObs int
	// Whole requests the whole-program load (thorough tier rules).
	Thorough func(c *Ctx)
}

var registry = map[string]*Prop{}

func Register(p *Prop) {
	if _, dup := registry[p.ID]; dup {
		panic("duplicate property " + p.ID)
	}
	registry[p.ID] = p
}

// Ctx is the analysis context handed to rule code.
type Ctx struct {
	Prop  *Prop
	Tier  string
	Fset  *token.FileSet
	Prog  *ssa.Program
	Pkgs  map[string]*packages.Package // by module-relative path
	SSA   map[string]*ssa.Package
	Obs   []*Ob
	keys  map[string]int
	Funcs map[*ssa.Function]bool // functions analysed (for evidence)
	Sites int
	rule  string // current rule prefix
	doms  map[*ssa.Function]*struct{}
	// Repo is the repository root and Overlay the mutant overlay (absolute path
	// -> contents), for rules that parse files outside the loaded build
	// configuration (build-tag variants, assembly).
	Repo    string
	Overlay map[string][]byte
}

type anchorErr struct{ msg string }

func (c *Ctx) failAnchor(format string, a ...any) {
	panic(anchorErr{fmt.Sprintf(format, a...)})
}

func (c *Ctx) pos(p token.Pos) string {
	if !p.IsValid() {
		return ""
	}
	pp := c.Fset.Position(p)
	f := pp.Filename
	if i := strings.Index(f, "/repo/"); i >= 0 {
		f = f[i+6:]
	}
	return fmt.Sprintf("%s:%d", f, pp.Line)
}

// Rule sets the rule/instance prefix for subsequently emitted obligations.
func (c *Ctx) Rule(name string) { c.rule = name }

// ob records an obligation. The key is made unique with an ordinal.
func (c *Ctx) ob(st Status, construct string, pos token.Pos, detail string) *Ob {
	base := c.rule + "/" + construct
	c.keys[base]++
	key := fmt.Sprintf("%s#%d", base, c.keys[base])
	o := &Ob{Key: key, Status: st.String(), Pos: c.pos(pos), Detail: detail, st: st}
	c.Obs = append(c.Obs, o)
	return o
}

func (c *Ctx) OK(construct string, pos token.Pos, detail string) {
	c.ob(Discharged, construct, pos, detail)
}
func (c *Ctx) Exempt(construct string, pos token.Pos, reason string) {
	c.ob(Exempted, construct, pos, reason)
}
func (c *Ctx) Bad(construct string, pos token.Pos, detail string) {
	c.ob(Violated, construct, pos, detail)
}
func (c *Ctx) Undecided(construct string, pos token.Pos, detail string) {
	c.ob(Undecided, construct, pos, detail)
}

// Check records discharged/violated according to ok.
func (c *Ctx) Check(ok bool, construct string, pos token.Pos, okDetail, badDetail string) bool {
	if ok {
		c.OK(construct, pos, okDetail)
	} else {
		c.Bad(construct, pos, badDetail)
	}
	return ok
}

// Expect asserts that a rule matched at least n sites (anti-vacuity).
func (c *Ctx) Expect(n, got int, what string) {
	if got < n {
		c.Undecided("count/"+what, token.NoPos, fmt.Sprintf("matched %d sites, hand-confirmed minimum is %d (rule would pass vacuously)", got, n))
	}
}

func (c *Ctx) sortedObs() []*Ob {
	out := append([]*Ob(nil), c.Obs...)
	sort.SliceStable(out, func(i, j int) bool { return out[i].Key < out[j].Key })
	return out
}

func relPkg(path string) string { return strings.TrimPrefix(path, modPrefix) }

// canonical name of a function object with the module prefix stripped, e.g.
// "(*trie.Trie).Commit", "core/rawdb.WriteTrieNode", "(ethdb.Batch).Write".
func canonFuncName(f *types.Func) string {
	if f == nil {
		return ""
	}
	return strings.ReplaceAll(f.FullName(), modPrefix, "")
}

func fnName(f *ssa.Function) string {
	if f == nil {
		return "<nil>"
	}
	return strings.ReplaceAll(f.String(), modPrefix, "")
}
