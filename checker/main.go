package main

import (
	"encoding/json"
	"flag"
	"fmt"
	"go/token"
	"os"
	"os/exec"
	"path/filepath"
	"regexp"
	"runtime"
	"runtime/debug"
	"sort"
	"strconv"
	"strings"
	"sync"
	"time"

	"golang.org/x/tools/go/ssa"
)

type Finding struct {
	Property string `json:"property"`
	Key      string `json:"key"`
	What     string `json:"what"`
	Status   string `json:"status"` // known | fixed
	Commit   string `json:"commit,omitempty"`
}

type Mutant struct {
	Name   string `json:"name"`
	File   string `json:"file"` // relative to the repo root
	Old    string `json:"old"`
	New    string `json:"new"`
	Expect string `json:"expect"` // substring of an obligation key that must fail
	Note   string `json:"note,omitempty"`
	// Patch, when set, replaces File/Old/New: a unified diff (path relative to
	// /verif, e.g. seeded/C24-r2/patch.diff) applied in memory.
	Patch string `json:"patch,omitempty"`
	// More holds further edits of the same mutant (two cooperating sites).
	More []struct {
		File string `json:"file"`
		Old  string `json:"old"`
		New  string `json:"new"`
	} `json:"more,omitempty"`
}

type runResult struct {
	Obs       []*Ob
	Funcs     int
	Sites     int
	Pkgs      int
	Err       string // load/type/anchor/panic failure
	Undecided bool
}

// analyse loads the property's packages (with an optional overlay) and runs
// its rules. Anchor failures and panics are reported, never swallowed.
func analyse(p *Prop, repo, tier string, overlay map[string][]byte) (res runResult) {
	l, err := load(repo, p.Pkgs, overlay, nil, nil)
	if err != nil {
		res.Err = "load: " + err.Error()
		return
	}
	c := &Ctx{Prop: p, Tier: tier, Fset: l.Fset, Prog: l.Prog, Pkgs: l.Pkgs, SSA: l.SSA,
		keys: map[string]int{}, Funcs: map[*ssa.Function]bool{}, doms: map[*ssa.Function]*struct{}{}}
	c.Repo, c.Overlay = repo, overlay
	res.Pkgs = l.N
	func() {
		defer func() {
			if r := recover(); r != nil {
				if ae, ok := r.(anchorErr); ok {
					res.Err = "anchor: " + ae.msg
				} else {
					res.Err = fmt.Sprintf("panic in analysis: %v\n%s", r, debug.Stack())
				}
			}
		}()
		p.Run(c)
	}()
	// Instances confirmed on the pinned tree are the reference for later
	// changes: a rule instance that is no longer generated at all (its anchor
	// or its only site disappeared) would otherwise pass vacuously.
	if res.Err == "" && !writingBaseline {
		have := map[string]bool{}
		for _, o := range c.Obs {
			have[baseKey(o.Key)] = true
		}
		for _, k := range loadBaseline(p.ID) {
			if !have[k] {
				c.Rule("BASELINE")
				c.Undecided("missing/"+k, token.NoPos, "this rule instance was generated and confirmed on the pinned tree but is no longer generated: its anchor or its only site disappeared, so the rule would pass vacuously; re-confirm the instance (tools: gethsa -baseline) after reading the change")
			}
		}
	}
	res.Obs = c.sortedObs()
	res.Funcs = len(c.Funcs)
	res.Sites = c.Sites
	return
}

var writingBaseline bool

var closureIdx = regexp.MustCompile(`\$\d+`)

// baseKey strips the ordinal and the numbering of anonymous functions (which
// shifts when an unrelated closure is added earlier in the same function).
func baseKey(k string) string {
	if i := strings.LastIndex(k, "#"); i >= 0 {
		k = k[:i]
	}
	return closureIdx.ReplaceAllString(k, "$$")
}

func baselinePath(id string) string { return filepath.Join(verifDir(), "baseline", id+".keys") }

func loadBaseline(id string) []string {
	b, err := os.ReadFile(baselinePath(id))
	if err != nil {
		return nil
	}
	var out []string
	for _, l := range strings.Split(string(b), "\n") {
		if l = strings.TrimSpace(l); l != "" && !strings.HasPrefix(l, "//") {
			out = append(out, l)
		}
	}
	return out
}

// writeBaseline records the distinct rule instances generated on the current
// tree (only when every one of them is decided).
func writeBaseline(p *Prop, repo string) int {
	writingBaseline = true
	res := analyse(p, repo, "quick", nil)
	if res.Err != "" {
		fmt.Fprintln(os.Stderr, res.Err)
		return 2
	}
	set := map[string]bool{}
	known := map[string]bool{}
	for _, f := range loadFindings() {
		if f.Property == p.ID && f.Status == "known" {
			known[f.Key] = true
		}
	}
	for _, o := range res.Obs {
		if o.st == Violated && known[o.Key] {
			set[baseKey(o.Key)] = true // a recorded known finding is a confirmed instance too
			continue
		}
		if o.st == Violated || o.st == Undecided {
			fmt.Fprintf(os.Stderr, "%s: not writing a baseline from a tree with failing obligation %s\n", p.ID, o.Key)
			return 2
		}
		set[baseKey(o.Key)] = true
	}
	var keys []string
	for k := range set {
		keys = append(keys, k)
	}
	sort.Strings(keys)
	os.MkdirAll(filepath.Dir(baselinePath(p.ID)), 0o755)
	hdr := "// rule instances generated and confirmed on the pinned tree for " + p.ID + "; one per line.\n// A run on which one of them is no longer generated is UNDECIDED (never silently passes).\n"
	if err := os.WriteFile(baselinePath(p.ID), []byte(hdr+strings.Join(keys, "\n")+"\n"), 0o644); err != nil {
		fmt.Fprintln(os.Stderr, err)
		return 2
	}
	fmt.Printf("%s baseline: %d rule instances\n", p.ID, len(keys))
	return 0
}

func verifDir() string {
	if d := os.Getenv("VERIF_DIR"); d != "" {
		return d
	}
	return "/verif"
}

func loadFindings() []Finding {
	var fs []Finding
	b, err := os.ReadFile(filepath.Join(verifDir(), "known_findings.json"))
	if err != nil {
		return nil
	}
	if err := json.Unmarshal(b, &fs); err != nil {
		fmt.Fprintln(os.Stderr, "known_findings.json:", err)
		os.Exit(2)
	}
	return fs
}

func loadMutants(id string) []Mutant {
	var out []Mutant
	files, _ := filepath.Glob(filepath.Join(verifDir(), "mutants", id, "*.json"))
	sort.Strings(files)
	for _, f := range files {
		b, err := os.ReadFile(f)
		if err != nil {
			continue
		}
		var ms []Mutant
		if err := json.Unmarshal(b, &ms); err != nil {
			var m Mutant
			if err2 := json.Unmarshal(b, &m); err2 != nil {
				fmt.Fprintln(os.Stderr, f+":", err)
				os.Exit(2)
			}
			ms = []Mutant{m}
		}
		for i := range ms {
			if ms[i].Name == "" {
				ms[i].Name = strings.TrimSuffix(filepath.Base(f), ".json") + "#" + strconv.Itoa(i)
			}
		}
		out = append(out, ms...)
	}
	return out
}

type mutantOutcome struct {
	Name    string   `json:"name"`
	Status  string   `json:"status"` // killed | survived | stale | no-compile | error
	Failed  []string `json:"failed,omitempty"`
	Detail  string   `json:"detail,omitempty"`
	Expect  string   `json:"expect"`
	File    string   `json:"file"`
	Comment string   `json:"note,omitempty"`
}

func runMutant(p *Prop, repo string, m Mutant) mutantOutcome {
	out := mutantOutcome{Name: m.Name, Expect: m.Expect, File: m.File, Comment: m.Note}
	var overlay map[string][]byte
	var err error
	if m.Patch != "" {
		// a kept seeded change (unified diff under /verif) applied in memory
		out.File = m.Patch
		overlay, err = overlayFromPatch(repo, filepath.Join(verifDir(), m.Patch))
		if err != nil {
			out.Status, out.Detail = "stale", err.Error()
			return out
		}
	} else {
		abs := filepath.Join(repo, m.File)
		src, err := os.ReadFile(abs)
		if err != nil {
			out.Status, out.Detail = "stale", err.Error()
			return out
		}
		if strings.Count(string(src), m.Old) != 1 {
			out.Status, out.Detail = "stale", fmt.Sprintf("old text occurs %d times", strings.Count(string(src), m.Old))
			return out
		}
		mut := strings.Replace(string(src), m.Old, m.New, 1)
		overlay = map[string][]byte{abs: []byte(mut)}
	}
	for _, e := range m.More {
		a2 := filepath.Join(repo, e.File)
		var s2 []byte
		if b, ok := overlay[a2]; ok {
			s2 = b
		} else if s2, err = os.ReadFile(a2); err != nil {
			out.Status, out.Detail = "stale", err.Error()
			return out
		}
		if strings.Count(string(s2), e.Old) != 1 {
			out.Status, out.Detail = "stale", fmt.Sprintf("old text of extra edit in %s occurs %d times", e.File, strings.Count(string(s2), e.Old))
			return out
		}
		overlay[a2] = []byte(strings.Replace(string(s2), e.Old, e.New, 1))
	}
	res := analyse(p, repo, "quick", overlay)
	if strings.HasPrefix(res.Err, "load:") {
		out.Status, out.Detail = "no-compile", res.Err
		return out
	}
	for _, o := range res.Obs {
		if o.st == Violated || o.st == Undecided {
			out.Failed = append(out.Failed, o.Key)
		}
	}
	if res.Err != "" {
		out.Failed = append(out.Failed, "ERR:"+res.Err)
	}
	out.Status = "survived"
	for _, k := range out.Failed {
		if strings.Contains(k, m.Expect) {
			out.Status = "killed"
		}
	}
	return out
}

func main() {
	prop := flag.String("prop", "", "property id")
	tier := flag.String("tier", "quick", "quick|thorough")
	repo := flag.String("repo", "/repo", "repository root")
	dump := flag.String("dump", "", "pkg:Func — dump SSA with canonical callee names")
	oneMutant := flag.String("mutant", "", "run one mutant (json on stdin index) — internal")
	list := flag.Bool("list", false, "list registered properties")
	manifest := flag.String("manifest", "", "write MANIFEST.json to this path")
	baseline := flag.Bool("baseline", false, "with -prop: record the rule instances generated on the current tree in baseline/<id>.keys")
	flag.Parse()

	if *manifest != "" {
		if err := writeManifest(*manifest); err != nil {
			fmt.Fprintln(os.Stderr, err)
			os.Exit(2)
		}
		return
	}

	if *list {
		var ids []string
		for id := range registry {
			ids = append(ids, id)
		}
		sort.Strings(ids)
		for _, id := range ids {
			fmt.Println(id)
		}
		return
	}
	if *dump != "" {
		doDump(*repo, *dump)
		return
	}
	p := registry[*prop]
	if p == nil {
		fmt.Fprintf(os.Stderr, "unknown property %q\n", *prop)
		os.Exit(2)
	}
	if *baseline {
		os.Exit(writeBaseline(p, *repo))
	}
	if *oneMutant != "" {
		idx, _ := strconv.Atoi(*oneMutant)
		ms := loadMutants(p.ID)
		o := runMutant(p, *repo, ms[idx])
		json.NewEncoder(os.Stdout).Encode(o)
		return
	}
	os.Exit(runProperty(p, *repo, *tier))
}

func runProperty(p *Prop, repo, tier string) int {
	t0 := time.Now()
	seed, _ := strconv.Atoi(os.Getenv("VERIF_SEED"))
	res := analyse(p, repo, tier, nil)

	ctl := runControls()

	findings := loadFindings()
	known := map[string]Finding{}
	for _, f := range findings {
		if f.Property == p.ID && f.Status == "known" {
			known[f.Key] = f
		}
	}

	var nOK, nEx, nBad, nUnd, nKnown int
	var viol []*Ob
	distinct := map[string]bool{}
	for _, o := range res.Obs {
		base := o.Key[:strings.LastIndex(o.Key, "#")]
		distinct[base] = true
		switch o.st {
		case Discharged:
			nOK++
		case Exempted:
			nEx++
		case Violated:
			if f, ok := known[o.Key]; ok {
				nKnown++
				fmt.Printf("KNOWN-FINDING: property=%s %s [%s at %s]\n", p.ID, f.What, o.Key, o.Pos)
				continue
			}
			nBad++
			viol = append(viol, o)
		case Undecided:
			nUnd++
			viol = append(viol, o)
		}
	}

	// thorough: mutant matrix, one process per mutant, bounded parallelism
	var mouts []mutantOutcome
	if tier == "thorough" {
		mouts = runMutantMatrix(p, repo)
	}
	killed, stale, survived := 0, 0, 0
	for _, m := range mouts {
		switch m.Status {
		case "killed":
			killed++
		case "stale":
			stale++
		default:
			survived++
		}
	}

	vacuous := len(res.Obs) < p.MinObs
	failed := res.Err != "" || nBad > 0 || nUnd > 0 || vacuous || ctl.Failed > 0 || survived > 0

	if f := os.Getenv("VERIF_ALLOBS"); f != "" { // debugging aid: list every obligation whose key contains f
		for _, o := range res.Obs {
			if f == "1" || strings.Contains(o.Key, f) {
				fmt.Printf("  OB %v %s : %s\n", o.st, o.Key, o.Detail)
			}
		}
	}
	// samples: a few obligations of each status
	var samples []any
	perRule := map[string]int{}
	for _, o := range res.Obs {
		r := strings.SplitN(o.Key, "/", 3)
		rk := r[0]
		if len(r) > 1 {
			rk += "/" + r[1]
		}
		if perRule[rk] < 2 || o.st >= Violated {
			perRule[rk]++
			samples = append(samples, o)
		}
		if len(samples) >= 60 {
			break
		}
	}
	if len(samples) == 0 {
		samples = append(samples, map[string]string{"note": "no obligations generated", "error": res.Err})
	}

	vdir := filepath.Join(verifDir(), "evidence", "violations")
	var vpath string
	if failed {
		os.MkdirAll(vdir, 0o755)
		vpath = filepath.Join(vdir, p.ID+"-1.json")
		vb, _ := json.MarshalIndent(map[string]any{
			"property": p.ID, "error": res.Err, "failing_obligations": viol,
			"vacuous": vacuous, "controls_failed": ctl.FailedNames, "mutants": mouts,
		}, "", " ")
		os.WriteFile(vpath, vb, 0o644)
	}

	ev := map[string]any{
		"property_id": p.ID,
		"tier":        tier,
		"seed":        seed,
		"level":       "other",
		"coverage": map[string]any{
			"explanation": "STATIC ANALYSIS (go/packages + go/types + go/ssa over /repo's working tree; nothing executed). Decided: " + p.Decided +
				" NOT decided (outside static reach, stated plainly): " + p.NotDec,
			"rule":                "obligations = rule instance x construct (call site / store / return / field / table row) enumerated from the resolved SSA of the anchored functions: " + p.Rules + "; an obligation is non-trivial when at least one concrete site was analysed for it; distinct = distinct obligation keys modulo ordinal",
			"obligations":         len(res.Obs),
			"discharged":          nOK,
			"exempted":            nEx,
			"known_findings":      nKnown,
			"undecided":           nUnd,
			"evaluations":         len(res.Obs),
			"distinct_nontrivial": len(distinct),
			"samples":             samples,
			"packages":            p.Pkgs,
			"packages_loaded":     res.Pkgs,
			"functions_analysed":  res.Funcs,
			"sites":               res.Sites,
			"min_obligations":     p.MinObs,
			"positive_controls":   ctl.Total,
			"controls_failed":     ctl.Failed,
			"mutants_total":       len(mouts),
			"mutants_killed":      killed,
			"mutants_stale":       stale,
			"mutants":             mouts,
			"checker_cmd":         "/verif/run.sh " + p.ID + " " + tier,
			"trusted_base":        []string{"go/types + go/ssa (golang.org/x/tools v0.50.0, go1.26.8)", "rule tables in /verif/checker/rules_" + p.ID + ".go", "engine code in /verif/checker"},
			"exhaustive":          true,
			"error":               res.Err,
		},
		"assumptions": []string{
			"the structural clause is a necessary condition of the behavioural property, not the property itself",
			"build configuration linux/amd64 with cgo as go/packages resolves it",
		},
		"wall_s":     time.Since(t0).Seconds(),
		"violations": nBad + nUnd,
	}
	eb, _ := json.MarshalIndent(ev, "", " ")
	os.MkdirAll(filepath.Join(verifDir(), "evidence"), 0o755)
	if err := os.WriteFile(filepath.Join(verifDir(), "evidence", p.ID+".json"), eb, 0o644); err != nil {
		fmt.Fprintln(os.Stderr, err)
		return 2
	}

	fmt.Printf("%s %s: %d obligations (%d discharged, %d exempted, %d known, %d violated, %d undecided) in %d functions, %d sites, controls %d/%d, %.1fs\n",
		p.ID, tier, len(res.Obs), nOK, nEx, nKnown, nBad, nUnd, res.Funcs, res.Sites, ctl.Total-ctl.Failed, ctl.Total, time.Since(t0).Seconds())
	if tier == "thorough" {
		fmt.Printf("%s mutants: %d killed, %d survived, %d stale of %d\n", p.ID, killed, survived, stale, len(mouts))
		for _, m := range mouts {
			if m.Status != "killed" && m.Status != "stale" {
				fmt.Printf("  MUTANT-%s %s (%s) expect=%s failed=%v %s\n", strings.ToUpper(m.Status), m.Name, m.File, m.Expect, m.Failed, m.Detail)
			}
		}
	}
	if res.Err != "" {
		fmt.Printf("UNDECIDED property=%s %s\n", p.ID, res.Err)
	}
	if vacuous {
		fmt.Printf("UNDECIDED property=%s only %d obligations, hand-confirmed minimum %d\n", p.ID, len(res.Obs), p.MinObs)
	}
	for _, n := range ctl.FailedNames {
		fmt.Printf("CONTROL-FAILED %s\n", n)
	}
	for _, o := range viol {
		fmt.Printf("  %s %s %s: %s\n", o.Status, o.Pos, o.Key, o.Detail)
	}
	if nBad > 0 {
		fmt.Printf("VIOLATION property=%s replay=%s\n", p.ID, vpath)
		return 1
	}
	if failed {
		// undecided / broken machinery: non-zero without claiming a violation
		return 2
	}
	return 0
}

func runMutantMatrix(p *Prop, repo string) []mutantOutcome {
	ms := loadMutants(p.ID)
	outs := make([]mutantOutcome, len(ms))
	self, _ := os.Executable()
	par := runtime.NumCPU() / 2
	if par < 1 {
		par = 1
	}
	if par > 8 {
		par = 8
	}
	sem := make(chan struct{}, par)
	var wg sync.WaitGroup
	for i := range ms {
		wg.Add(1)
		go func(i int) {
			defer wg.Done()
			sem <- struct{}{}
			defer func() { <-sem }()
			cmd := exec.Command(self, "-prop", p.ID, "-repo", repo, "-mutant", strconv.Itoa(i))
			cmd.Env = os.Environ()
			b, err := cmd.Output()
			var o mutantOutcome
			if err != nil || json.Unmarshal(b, &o) != nil {
				o = mutantOutcome{Name: ms[i].Name, Status: "error", Detail: fmt.Sprint(err, string(b)), Expect: ms[i].Expect, File: ms[i].File}
			}
			outs[i] = o
		}(i)
	}
	wg.Wait()
	return outs
}

func doDump(repo, spec string) {
	i := strings.LastIndex(spec, ":")
	rel, name := spec[:i], spec[i+1:]
	l, err := load(repo, []string{rel}, nil, nil, nil)
	if err != nil {
		fmt.Fprintln(os.Stderr, err)
		os.Exit(2)
	}
	c := &Ctx{Fset: l.Fset, Prog: l.Prog, Pkgs: l.Pkgs, SSA: l.SSA, keys: map[string]int{}, Funcs: map[*ssa.Function]bool{}}
	defer func() {
		if r := recover(); r != nil {
			fmt.Fprintln(os.Stderr, r)
			os.Exit(2)
		}
	}()
	f := c.Fn(rel, name)
	fmt.Printf("func %s  params:", fnName(f))
	for _, p := range f.Params {
		fmt.Printf(" %s", p.Name())
	}
	fmt.Printf("  freevars:")
	for _, p := range f.FreeVars {
		fmt.Printf(" %s", p.Name())
	}
	fmt.Printf("  anon:%d\n", len(f.AnonFuncs))
	for _, b := range f.Blocks {
		fmt.Printf("b%d: preds", b.Index)
		for _, p := range b.Preds {
			fmt.Printf(" %d", p.Index)
		}
		fmt.Printf(" succs")
		for _, s := range b.Succs {
			fmt.Printf(" %d", s.Index)
		}
		fmt.Printf("  ; %s\n", b.Comment)
		for _, in := range b.Instrs {
			line := ""
			if in.Pos().IsValid() {
				line = fmt.Sprintf("L%d", l.Fset.Position(in.Pos()).Line)
			}
			s := in.String()
			if v, ok := in.(ssa.Value); ok {
				s = v.Name() + " = " + s
			}
			extra := ""
			if ci, ok := in.(ssa.CallInstruction); ok {
				extra = "   ;; callee=" + calleeName(ci.Common())
			}
			fmt.Printf("    %-6s %s%s\n", line, strings.ReplaceAll(s, modPrefix, ""), extra)
		}
	}
}
