package main

import (
	"encoding/json"
	"fmt"
	"os"
	"sort"
)

// notApplicable: properties not claimed, with the reason. A property that is
// registered (has rules) is claimed and must not appear here; `-manifest`
// fails if the two sets overlap or do not cover C01..C53.
// (C10 was listed here originally; it is now claimed through the thin
// flag-layout agreement rule of rules_C10.go, which decides only that
// necessary condition and says so.)
var notApplicable = map[string]string{}

// pendingReason is used for properties whose static rules are designed
// (DESIGN.md §5) but not implemented yet: they are honestly not claimed.
const pendingReason = "static rule set designed in DESIGN.md §5 but not yet implemented in the checker; not claimed rather than claimed through a weaker proxy"

func writeManifest(path string) error {
	var checks []map[string]any
	na := []map[string]string{} // must marshal as [] (schema: array), never null
	var ids []string
	for i := 1; i <= 53; i++ {
		ids = append(ids, fmt.Sprintf("C%02d", i))
	}
	engines := map[string][]string{}
	for _, id := range ids {
		p := registry[id]
		if p == nil {
			r := notApplicable[id]
			if r == "" {
				r = pendingReason
			}
			na = append(na, map[string]string{"property_id": id, "reason": r})
			continue
		}
		if _, both := notApplicable[id]; both {
			return fmt.Errorf("%s is both registered and listed not applicable", id)
		}
		engines["gethsa"] = append(engines["gethsa"], id)
		checks = append(checks, map[string]any{
			"property_id":         id,
			"quick_cmd":           "./run.sh " + id + " quick",
			"thorough_cmd":        "./run.sh " + id + " thorough",
			"evidence_file":       "/verif/evidence/" + id + ".json",
			"replay_cmd_template": "./run.sh --replay {path}",
			"engine":              "gethsa",
			"technique":           "static analysis: " + p.Rules,
			"level_claimed": map[string]string{
				"category": "other",
				"text": "Static decision of a structural NECESSARY condition of the property over every path of the anchored functions in /repo's current source (go/types + go/ssa; nothing is executed, no solver). Decided: " + p.Decided +
					" Not decided: " + p.NotDec + " This is the right level because the behavioural property quantifies over run-time values that no sound static argument bounds; the mechanism it rests on is visible in the code shape and is decided for all paths rather than sampled ones.",
				"design_ref": "DESIGN.md §5 " + id,
			},
			"level_note": "trusted base: go/packages loading of the default build configuration, go/types, go/ssa (x/tools v0.50.0), the rule instances in checker/rules_" + id + ".go (anchors resolved through the type checker, never by text), and the engine code; positive controls under checker/testdata/ctl are re-analysed on every run; thorough additionally applies the in-memory mutant matrix under mutants/" + id + "/ and requires every mutant to be reported",
		})
	}
	sort.Slice(checks, func(i, j int) bool { return checks[i]["property_id"].(string) < checks[j]["property_id"].(string) })
	m := map[string]any{
		"version":   1,
		"setup_cmd": "./run.sh build",
		"hooks": map[string]any{
			"guard":            "verif",
			"enable":           "no hooks: the checker reads /repo's sources; nothing in /repo is instrumented or built with a tag",
			"baseline_off_cmd": "cd /repo && GOFLAGS=-mod=mod go test -vet=off -count=1 -timeout 25m ./...",
			"source_commits":   []string{},
			"add_only":         true,
		},
		"engines": []map[string]any{{
			"name": "gethsa", "path": "/verif/checker", "serves_properties": engines["gethsa"],
			"kind_free_text": "repository-specific static analyser over go/packages + go/types + go/ssa: must-pass-through (dominance) path search, effect ordering, lockset, field coverage, pairing, table agreement, abstract stack interpretation; rule instances per property",
		}},
		"checks":         checks,
		"not_applicable": na,
		"notes":          "All claims are level `other`: each check decides a structural necessary condition by static analysis of /repo's current working tree and states in its evidence which clause is decided and which is not. Exit 0 = all obligations discharged/exempted/known; exit 1 + VIOLATION line = an obligation is violated; exit 2 + UNDECIDED line = an anchor no longer resolves or a construct could not be classified (never silently passes).",
	}
	b, err := json.MarshalIndent(m, "", " ")
	if err != nil {
		return err
	}
	return os.WriteFile(path, append(b, '\n'), 0o644)
}
