package main

import (
	"fmt"
	"go/ast"
	"go/parser"
	"go/token"
	"os"
	"path/filepath"
	"sort"
	"strconv"
	"strings"

	"golang.org/x/tools/go/ssa"
)

func init() {
	Register(&Prop{
		ID:   "C05",
		Pkgs: []string{"crypto/kzg4844", "crypto/blake2b"},
		Decided: "the interchangeable backends are wired identically: every KZG entry point that dispatches on the backend switch calls the ckzg and the go-kzg function of the same name with exactly its own parameters in order (checks done before the dispatch apply to both), both ckzg build variants and the go-kzg file declare the same function set with the same signatures; every build variant of the BLAKE2b dispatcher forwards (h, m, c0, c1, flag, rounds) unchanged and in order to each backend it can select, all backend declarations share one signature, and the portable compression selects its message schedule with the full-width round counter modulo 10 over a table whose ten rows are permutations of 0..15; the two BN254 selector files export the same API and forward PairingCheck's arguments in order.",
		NotDec: "that the backends compute the same results and make the same accept/reject decisions on every input, and panic-freedom on malformed input (different libraries / assembly; run-time).",
		Rules:  "SIBLING dispatch arguments (SSA on the loaded build, AST on the other build variants); VARIANT declared API equality; TABLE schedule permutations; SHAPE round-counter width",
		MinObs: 110,
		Run:    c05,
	})
}

type declSig struct {
	params  []string // parameter names in order
	sig     string
	calls   map[string][]string // callee name -> argument expressions of its (last) call
	fileTag string
}

func parseDecls(c *Ctx, rel string) (map[string]*declSig, error) {
	p := filepath.Join(c.Repo, rel)
	var src any
	if ov, ok := c.Overlay[p]; ok {
		src = ov
	} else if b, err := os.ReadFile(p); err == nil {
		src = b
	} else {
		return nil, err
	}
	fset := token.NewFileSet()
	af, err := parser.ParseFile(fset, p, src, parser.SkipObjectResolution)
	if err != nil {
		return nil, err
	}
	out := map[string]*declSig{}
	for _, d := range af.Decls {
		fd, ok := d.(*ast.FuncDecl)
		if !ok || fd.Recv != nil {
			continue
		}
		ds := &declSig{sig: sigString(fd.Type), calls: map[string][]string{}}
		for _, f := range fd.Type.Params.List {
			for _, n := range f.Names {
				ds.params = append(ds.params, n.Name)
			}
		}
		if fd.Body != nil {
			ast.Inspect(fd.Body, func(n ast.Node) bool {
				ce, ok := n.(*ast.CallExpr)
				if !ok {
					return true
				}
				name := ""
				switch fn := ce.Fun.(type) {
				case *ast.Ident:
					name = fn.Name
				case *ast.SelectorExpr:
					name = exprString(fn.X) + "." + fn.Sel.Name
				}
				if name != "" {
					var args []string
					for _, a := range ce.Args {
						args = append(args, exprString(a))
					}
					ds.calls[name] = args
				}
				return true
			})
		}
		out[fd.Name.Name] = ds
	}
	return out, nil
}

func c05(c *Ctx) {
	kz := "crypto/kzg4844"
	// ---- KZG dispatch (SSA, loaded build) ---------------------------------------------------------------
	c.Rule("SIBLING/C05.kzg")
	nd := 0
	for _, f := range c.AllFuncs(kz) {
		if f.Parent() != nil || f.Signature.Recv() != nil {
			continue
		}
		var ck, gk []*ssa.Call
		eachInstr(f, func(in ssa.Instruction) {
			if call, ok := in.(*ssa.Call); ok {
				if fn := call.Call.StaticCallee(); fn != nil && fn.Pkg == f.Pkg {
					switch {
					case strings.HasPrefix(fn.Name(), "ckzg") && fn.Name() != "ckzgInit":
						ck = append(ck, call)
					case strings.HasPrefix(fn.Name(), "gokzg") && fn.Name() != "gokzgInit":
						gk = append(gk, call)
					}
				}
			}
		})
		if len(ck)+len(gk) == 0 {
			continue
		}
		nd++
		c.Funcs[f] = true
		if !c.Check(len(ck) == 1 && len(gk) == 1, "both/"+f.Name(), f.Pos(), "dispatches to one function of each backend", f.Name()+" does not call exactly one ckzg and one go-kzg function") {
			continue
		}
		cn := strings.TrimPrefix(ck[0].Call.StaticCallee().Name(), "ckzg")
		gn := strings.TrimPrefix(gk[0].Call.StaticCallee().Name(), "gokzg")
		c.Check(cn == gn, "same-op/"+f.Name(), ck[0].Pos(), "both backends are asked for the same operation ("+cn+")", f.Name()+" calls ckzg"+cn+" but gokzg"+gn)
		okArgs := len(ck[0].Call.Args) == len(gk[0].Call.Args)
		for i := 0; okArgs && i < len(ck[0].Call.Args); i++ {
			a, b := ck[0].Call.Args[i], gk[0].Call.Args[i]
			if !(a == b || sameValue(a, b)) {
				okArgs = false
			}
			if _, isP := a.(*ssa.Parameter); !isP {
				if !sameValue(a, b) {
					okArgs = false
				}
			}
		}
		c.Check(okArgs, "same-args/"+f.Name(), gk[0].Pos(), "both backends receive the same arguments in the same order", f.Name()+" passes different arguments to the two backends")
		// which one runs depends only on the switch
		sw := CallRes("(*sync/atomic.Bool).Load")
		c.Dom("switch-ckzg/"+f.Name(), f, []Site{{f, ck[0]}}, "ckzg call", GCond("useCKZG", f, True(sw)))
		c.Dom("switch-gokzg/"+f.Name(), f, []Site{{f, gk[0]}}, "go-kzg call", GCond("!useCKZG", f, False(sw)))
	}
	c.Expect(11, nd, "dispatching KZG entry points")
	// ---- KZG declared API across build variants (AST) ------------------------------------------------------
	c.Rule("VARIANT/C05.kzg")
	cg, e1 := parseDecls(c, "crypto/kzg4844/kzg4844_ckzg_cgo.go")
	ng, e2 := parseDecls(c, "crypto/kzg4844/kzg4844_ckzg_nocgo.go")
	gg, e3 := parseDecls(c, "crypto/kzg4844/kzg4844_gokzg.go")
	if e1 != nil || e2 != nil || e3 != nil {
		c.Undecided("parse", token.NoPos, fmt.Sprintf("cannot parse KZG backend files: %v %v %v", e1, e2, e3))
	} else {
		var ops []string
		for n := range cg {
			if strings.HasPrefix(n, "ckzg") {
				ops = append(ops, strings.TrimPrefix(n, "ckzg"))
			}
		}
		sort.Strings(ops)
		c.Expect(12, len(ops), "ckzg functions: "+strings.Join(ops, ","))
		for _, op := range ops {
			a, b, g := cg["ckzg"+op], ng["ckzg"+op], gg["gokzg"+op]
			c.Check(b != nil && a.sig == b.sig, "ckzg-variants/"+op, token.NoPos, "cgo and stub variants declare the same signature", "ckzg"+op+" differs between the cgo and the non-cgo build")
			c.Check(g != nil && a.sig == g.sig, "gokzg/"+op, token.NoPos, "go-kzg declares the same signature", "gokzg"+op+" is missing or has a different signature than ckzg"+op)
		}
	}

	// ---- BLAKE2b dispatchers --------------------------------------------------------------------------------
	c.Rule("SIBLING/C05.blake2b")
	wantArgs := "h,m,c0,c1,flag,rounds"
	backendSig := ""
	nb := 0
	for _, file := range []string{"crypto/blake2b/blake2bAVX2_amd64.go", "crypto/blake2b/blake2b_amd64.go", "crypto/blake2b/blake2b_ref.go", "crypto/blake2b/blake2b_generic.go"} {
		decls, err := parseDecls(c, file)
		if err != nil {
			c.Undecided("parse/"+file, token.NoPos, err.Error())
			continue
		}
		for _, n := range []string{"fAVX2", "fAVX", "fSSE4", "fGeneric"} {
			if d := decls[n]; d != nil {
				if backendSig == "" {
					backendSig = d.sig
				}
				c.Check(d.sig == backendSig, "backend-sig/"+filepath.Base(file)+"/"+n, token.NoPos, "backend declared as "+backendSig, n+" in "+file+" is declared with a different signature: "+d.sig)
			}
		}
		f := decls["f"]
		if f == nil {
			continue
		}
		c.Check(strings.Join(f.params, ",") == wantArgs && f.sig == backendSig, "dispatcher-sig/"+filepath.Base(file), token.NoPos, "the dispatcher has the backends' signature", "the dispatcher in "+file+" does not have the backends' signature")
		n := 0
		for callee, args := range f.calls {
			if !strings.HasPrefix(callee, "f") || len(callee) < 2 {
				continue
			}
			n++
			nb++
			c.Check(strings.Join(args, ",") == wantArgs, "forward/"+filepath.Base(file)+"/"+callee, token.NoPos, "arguments forwarded unchanged and in order", callee+" in "+file+" is called with ("+strings.Join(args, ",")+") instead of ("+wantArgs+")")
		}
		c.Check(n >= 1 && f.calls["fGeneric"] != nil, "fallback/"+filepath.Base(file), token.NoPos, "the portable backend is the fallback", "the dispatcher in "+file+" has no portable fallback")
	}
	c.Expect(7, nb, "backend calls in the BLAKE2b dispatchers")
	// portable compression: schedule index and table
	if fg := c.Fn("crypto/blake2b", "fGeneric"); fg != nil {
		c.Funcs[fg] = true
		var idx []Site
		eachInstr(fg, func(in ssa.Instruction) {
			if ia, ok := in.(*ssa.IndexAddr); ok {
				if g, ok := ia.X.(*ssa.Global); ok && g.Name() == "precomputed" {
					idx = append(idx, Site{fg, in})
				}
			}
		})
		c.Expect(1, len(idx), "schedule lookups in fGeneric")
		for _, s := range idx {
			ia := s.Instr.(*ssa.IndexAddr)
			b, ok := ia.Index.(*ssa.BinOp)
			okIdx := ok && b.Op == token.REM && constIs(b.Y, 10)
			if okIdx {
				phi, isPhi := b.X.(*ssa.Phi)
				okIdx = isPhi && phi.Comment == "i" && phi.Type().String() == "int"
			}
			c.Check(okIdx, "schedule-index/"+fnName(fg), s.Pos(), "the schedule row is the full-width round counter modulo 10", "the message schedule is not selected by the (unnarrowed) round counter modulo 10: the portable backend diverges from the assembly ones for large round counts")
		}
		// the loop runs `rounds` times
		okLoop := false
		for _, b := range fg.Blocks {
			if iff, ok := b.Instrs[len(b.Instrs)-1].(*ssa.If); ok {
				if cmp, ok := iff.Cond.(*ssa.BinOp); ok && cmp.Op == token.LSS {
					if phi, ok := cmp.X.(*ssa.Phi); ok && phi.Comment == "i" && Param("rounds")(stripConv(cmp.Y)) {
						okLoop = true
					}
				}
			}
		}
		c.Check(okLoop, "round-count/"+fnName(fg), fg.Pos(), "the round loop runs i < rounds", "the round loop is not bounded by the rounds argument")
	}
	// schedule table rows are permutations of 0..15
	c.Rule("TABLE/C05.schedule")
	if src, err := os.ReadFile(filepath.Join(c.Repo, "crypto/blake2b/blake2b_generic.go")); err == nil {
		if ov, ok := c.Overlay[filepath.Join(c.Repo, "crypto/blake2b/blake2b_generic.go")]; ok {
			src = ov
		}
		fset := token.NewFileSet()
		af, err := parser.ParseFile(fset, "g.go", src, parser.SkipObjectResolution)
		rows := 0
		if err == nil {
			ast.Inspect(af, func(n ast.Node) bool {
				vs, ok := n.(*ast.ValueSpec)
				if !ok || len(vs.Names) != 1 || vs.Names[0].Name != "precomputed" || len(vs.Values) != 1 {
					return true
				}
				cl, _ := vs.Values[0].(*ast.CompositeLit)
				for ri, r := range cl.Elts {
					row, _ := r.(*ast.CompositeLit)
					seen := map[int]bool{}
					for _, e := range row.Elts {
						if bl, ok := e.(*ast.BasicLit); ok {
							v, _ := strconv.Atoi(bl.Value)
							seen[v] = true
						}
					}
					okRow := len(row.Elts) == 16 && len(seen) == 16
					for v := range seen {
						if v < 0 || v > 15 {
							okRow = false
						}
					}
					rows++
					c.Check(okRow, fmt.Sprintf("row/%d", ri), token.NoPos, "the row is a permutation of 0..15", fmt.Sprintf("row %d of the message schedule is not a permutation of 0..15", ri))
				}
				return false
			})
		}
		c.Expect(10, rows, "rows of the BLAKE2b message schedule")
	}

	// ---- BN254 selector files --------------------------------------------------------------------------------
	c.Rule("VARIANT/C05.bn256")
	fa, ea := parseDecls(c, "crypto/bn256/bn256_fast.go")
	sl, es := parseDecls(c, "crypto/bn256/bn256_slow.go")
	if ea != nil || es != nil {
		c.Undecided("parse-bn256", token.NoPos, fmt.Sprintf("%v %v", ea, es))
	} else {
		var names []string
		for n := range fa {
			names = append(names, n)
		}
		for n := range sl {
			if fa[n] == nil {
				names = append(names, n)
			}
		}
		sort.Strings(names)
		for _, n := range names {
			a, b := fa[n], sl[n]
			c.Check(a != nil && b != nil && a.sig == b.sig, "api/"+n, token.NoPos, "exported by both selector files with the same signature", "bn256."+n+" differs between the fast and the slow selector file")
			if a != nil && b != nil {
				for _, d := range []*declSig{a, b} {
					for callee, args := range d.calls {
						if strings.HasSuffix(callee, "."+n) {
							c.Check(strings.Join(args, ",") == strings.Join(d.params, ","), "forward/"+n+"/"+callee, token.NoPos, "arguments forwarded in order", callee+" is not called with the wrapper's own arguments in order")
						}
					}
				}
			}
		}
		c.Expect(1, len(names), "functions of the BN254 selector files")
		// both alias the same type names
		for _, file := range []string{"crypto/bn256/bn256_fast.go", "crypto/bn256/bn256_slow.go"} {
			b, _ := os.ReadFile(filepath.Join(c.Repo, file))
			if ov, ok := c.Overlay[filepath.Join(c.Repo, file)]; ok {
				b = ov
			}
			c.Check(strings.Contains(string(b), "type G1 = ") && strings.Contains(string(b), "type G2 = "), "aliases/"+filepath.Base(file), token.NoPos, "G1 and G2 are aliased to the backend's types", file+" does not alias both G1 and G2")
		}
	}
}
