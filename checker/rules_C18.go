package main

import (
	"go/token"

	"golang.org/x/tools/go/ssa"
)

func init() {
	Register(&Prop{
		ID:   "C18",
		Pkgs: []string{pdb},
		Decided: "a historic state/node reader is handed out only when indexer and freezer exist, indexing has completed, the root has a state id, the history following that id can be read and names the root as its parent (canonical and retained), and it is bound to exactly that id; a read is served only for state ids at or above the freezer tail with the index covering the disk layer's id; an id never modified since the requested state yields the disk-layer value, otherwise the value recorded in the first later history; the disk-layer value and its id are taken from the same bottom layer; histories are written before the indexer is told to extend and the index is shortened before the reverted state is applied; index pruning is told the id of the first retained history and deletes only leading blocks whose largest id is strictly below it (exact comparison operators), in ascending order, rewriting the metadata with exactly the remaining descriptors; unindexing, indexing and pruning of one key are mutually exclusive (pruner paused around single index updates).",
		NotDec: "that the value read equals the value in that state (value-level over histories, pruning and rollback interleavings); the TODO-acknowledged window in which the bottom layer turns stale during a read.",
		Rules:  "DOM canonical/available chains; SAMEVAL ids; ORDER write≺extend, shorten≺revert; CHECKSHAPE prune comparisons; PAIR pause/resume",
		MinObs: 50,
		Run:    c18,
	})
}

func c18(c *Ctx) {
	D := pdb + ".Database."
	// ---- handing out readers ------------------------------------------------------------------------
	c.Rule("DOM/C18.canonical")
	for _, k := range []struct{ fn, idx, frz, meta, typ string }{
		{"HistoricReader", "stateIndexer", "stateFreezer", pdb + ".readStateHistoryMeta", "HistoricalStateReader"},
		{"HistoricNodeReader", "trienodeIndexer", "trienodeFreezer", pdb + ".readTrienodeMetadata", "HistoricalNodeReader"},
	} {
		f := c.Fn(pdb, "(*Database)."+k.fn)
		if f == nil {
			continue
		}
		mc := c.Calls(f, k.meta)
		c.Dom(k.fn, f, c.SuccessReturns(f), "reader handed out",
			GCond("indexer != nil", f, Cmp(Fld(D+k.idx), token.NEQ, Nil())).
				Then(GCond("freezer != nil", f, Cmp(Fld(D+k.frz), token.NEQ, Nil()))).
				Then(GCond("indexer.inited()", f, True(CallRes("(*"+pdb+".historyIndexer).inited")))).
				Then(GCond("state id known", f, Cmp(CallRes("core/rawdb.ReadStateID"), token.NEQ, Nil()))).
				Then(GErrChecked("history metadata readable", mc)).
				Then(GCond("meta.parent == root", f, Cmp(Mentions(CallResN(k.meta, 0)), token.EQL, Param("root")))))
		// the history consulted is the one following the state: id+1; the reader is bound to id
		isID := func(v ssa.Value) bool {
			u, ok := v.(*ssa.UnOp)
			return ok && u.Op == token.MUL && CallRes("core/rawdb.ReadStateID")(u.X)
		}
		c.ArgIs(k.fn+"-next", f, mc, "metadata lookup", 1, func(v ssa.Value) bool {
			b, ok := v.(*ssa.BinOp)
			return ok && b.Op == token.ADD && isID(b.X) && ConstInt(1)(b.Y)
		}, "*id + 1 (the transition out of the requested state)")
		c.ArgIs(k.fn+"-root", f, c.Calls(f, "core/rawdb.ReadStateID"), "ReadStateID", 1, Param("root"), "the requested root")
		for _, s := range c.Stores(f, pdb+"."+k.typ+".id") {
			c.Check(isID(s.Instr.(*ssa.Store).Val), k.fn+"-bound/"+fnName(f), s.Pos(), "the reader is bound to the root's own state id", "the reader is bound to an id other than the requested root's")
		}
	}
	if ca := c.Fn(pdb, "checkStateAvail"); ca != nil {
		tl := c.Calls(ca, "(ethdb.AncientReaderOp).Tail")
		c.Dom("avail", ca, c.SuccessReturns(ca), "available",
			GErrChecked("freezer tail readable", tl).
				Then(GCond("stateID >= tail", ca, Cmp(Param("stateID"), token.GEQ, CallResN("(ethdb.AncientReaderOp).Tail", 0)))).
				Then(GCond("index metadata present", ca, Cmp(CallRes(pdb+".loadIndexMetadata"), token.NEQ, Nil()))).
				Then(GCond("indexed up to the disk layer", ca, Cmp(Fld(pdb+".indexMetadata.Last"), token.GEQ, Param("lastID")))))
	}
	for _, name := range []string{"(*stateHistoryReader).read"} {
		f := c.Fn(pdb, name)
		if f == nil {
			continue
		}
		av := c.Calls(f, pdb+".checkStateAvail")
		gt := c.Calls(f, "(*"+pdb+".indexReaderWithLimitTag).readGreaterThan")
		c.Dom("read-avail", f, gt, "index lookup", GErrChecked("checkStateAvail succeeded", av))
		c.ArgIs("read-args", f, gt, "readGreaterThan(stateID)", 0, Param("stateID"), "the requested state id")
		c.ArgIs("read-args", f, gt, "readGreaterThan(lastID)", 1, Param("lastID"), "the disk layer's id")
		c.ArgIs("avail-args", f, av, "checkStateAvail(stateID)", 3, Param("stateID"), "the requested state id")
		c.ArgIs("avail-args", f, av, "checkStateAvail(lastID)", 4, Param("lastID"), "the disk layer's id")
		// unmodified since → latest value; else the resolved history
		hid := CallResN("(*"+pdb+".indexReaderWithLimitTag).readGreaterThan", 0)
		var latest, resolved []Site
		for _, r := range c.SuccessReturns(f) {
			v := retVal(r.Instr.(*ssa.Return), 0)
			if Param("latestValue")(v) {
				latest = append(latest, r)
			} else {
				resolved = append(resolved, r)
			}
		}
		c.Check(len(latest) == 1 && len(resolved) >= 1, "read-arms/"+fnName(f), f.Pos(), "latest-value and resolved-history exits exist", "the read lost its latest-value or its resolved-history exit")
		c.Dom("read-latest", f, latest, "return latestValue", GErrChecked("index lookup succeeded", gt).Then(GCond("no later modification (id == MaxUint64)", f, Cmp(hid, token.EQL, constMaxU64Pat))))
		c.Dom("read-history", f, resolved, "return history value", GErrChecked("index lookup succeeded", gt).Then(GCond("a later modification exists", f, Cmp(hid, token.NEQ, constMaxU64Pat))))
		for _, s := range cat(c.Calls(f, "(*"+pdb+".stateHistoryReader).readAccount"), c.Calls(f, "(*"+pdb+".stateHistoryReader).readStorage")) {
			a := s.Instr.(*ssa.Call).Call.Args
			c.Check(hid(a[len(a)-1]), "read-from/"+fnName(f), s.Pos(), "the value is taken from the history the index named", "the value is resolved from a history other than the one found by the index")
		}
	}
	// the latest value and its id come from the same bottom layer
	for _, name := range []string{"(*HistoricalStateReader).AccountRLP", "(*HistoricalStateReader).Storage"} {
		f := c.Fn(pdb, name)
		if f == nil {
			continue
		}
		rd := c.Calls(f, "(*"+pdb+".stateHistoryReader).read")
		bt := c.Calls(f, "(*"+pdb+".layerTree).bottom")
		if c.Check(len(rd) == 1 && len(bt) == 1, "consistent/"+fnName(f), f.Pos(), "one bottom layer, one read", "the read does not use a single bottom-layer snapshot") {
			a := rd[0].Instr.(*ssa.Call).Call.Args
			dl := bt[0].Instr.(ssa.Value)
			okID := false
			if call, ok := a[3].(*ssa.Call); ok && calleeName(&call.Call) == "(*"+pdb+".diskLayer).stateID" {
				okID = call.Call.Args[0] == dl
			}
			okVal := false
			if ex, ok := a[4].(*ssa.Extract); ok {
				if call, ok := ex.Tuple.(*ssa.Call); ok {
					okVal = call.Call.Args[0] == dl
				}
			}
			c.Check(okID && okVal, "consistent-layer/"+fnName(f), rd[0].Pos(), "the latest value and the last id are read from the same disk layer object", "the latest value and the last id come from different layers: a commit in between would pair a new value with an old id")
			c.Check(Fld(pdb+".HistoricalStateReader.id")(a[2]), "consistent-id/"+fnName(f), rd[0].Pos(), "reads at the reader's bound state id", "the read is not made at the reader's bound state id")
		}
	}

	// ---- write / index ordering -----------------------------------------------------------------------
	c.Rule("ORDER/C18.index")
	if wh := c.Fn(pdb, "(*diskLayer).writeHistory"); wh != nil {
		ext := c.Calls(wh, "(*"+pdb+".historyIndexer).extend")
		var wf []Site
		eachInstr(wh, func(in ssa.Instruction) {
			if call, ok := in.(*ssa.Call); ok && !call.Call.IsInvoke() && call.Call.StaticCallee() == nil {
				if _, isB := call.Call.Value.(*ssa.Builtin); !isB && len(call.Call.Args) == 2 {
					wf = append(wf, Site{wh, in})
				}
			}
		})
		c.Expect(1, len(wf), "writeFunc call")
		c.Dom("written-first", wh, ext, "indexer.extend", GErrChecked("history written", wf))
		c.ArgIs("extend-id", wh, ext, "indexer.extend", 0, func(v ssa.Value) bool {
			call, ok := v.(*ssa.Call)
			return ok && calleeName(&call.Call) == "(*"+pdb+".diffLayer).stateID" && Param("diff")(call.Call.Args[0])
		}, "the id of the history just written")
		pr := c.Calls(wh, "(*"+pdb+".historyIndexer).prune")
		tr := c.Calls(wh, pdb+".truncateFromTail")
		c.Dom("pruned-after-truncate", wh, pr, "indexer.prune", GErrChecked("tail truncated", tr))
		// prune(first retained) and truncate(first retained − 1) from the same value
		if len(pr) == 1 && len(tr) == 1 {
			first := pr[0].Instr.(*ssa.Call).Call.Args[1]
			tb, ok := tr[0].Instr.(*ssa.Call).Call.Args[2].(*ssa.BinOp)
			c.Check(ok && tb.Op == token.SUB && tb.X == first && ConstInt(1)(tb.Y), "prune-first-retained/"+fnName(wh), pr[0].Pos(), "the freezer is truncated to newFirst−1 and the pruner is told newFirst", "the pruner is not told the id of the first retained history (tail+1)")
		} else {
			c.Undecided("prune-first-retained/"+fnName(wh), wh.Pos(), "expected one prune and one truncateFromTail call")
		}
	}
	if rv := c.Fn(pdb, "(*diskLayer).revert"); rv != nil {
		sh := c.Calls(rv, "(*"+pdb+".historyIndexer).shorten")
		c.Expect(2, len(sh), "indexer.shorten calls in revert")
		muts := cat(c.Calls(rv, "(*"+pdb+".buffer).revertTo"), c.Calls(rv, pdb+".writeNodes"), c.Calls(rv, pdb+".writeStates"), c.Calls(rv, "(ethdb.Batch).Write"))
		c.Check(len(muts) >= 2, "revert-mutations/"+fnName(rv), rv.Pos(), "state mutations of revert located", "no state mutation found in revert")
		for _, s := range sh {
			for _, m := range muts {
				c.Check(!instrReaches(m.Instr, s.Instr) || instrDominates(s.Instr, m.Instr), "unindex-first/"+fnName(rv), s.Pos(), "the index is shortened before the state is reverted", "the state is reverted before the history is unindexed")
			}
			c.Check(ErrCheckedSite(s), "unindex-err/"+fnName(rv), s.Pos(), "a failed unindex aborts the revert", "errors from unindexing are ignored")
			c.ArgIs("unindex-id", rv, []Site{s}, "indexer.shorten", 0, Fld(pdb+".diskLayer.id"), "the id of the layer being reverted")
		}
	}
	for _, name := range []string{"(*historyIndexer).extend", "(*historyIndexer).shorten"} {
		f := c.Fn(pdb, name)
		if f == nil {
			continue
		}
		single := cat(c.Calls(f, pdb+".indexSingle"), c.Calls(f, pdb+".unindexSingle"))
		var pause, resume []Site
		pause = c.Calls(f, "(*"+pdb+".indexPruner).pause")
		eachInstr(f, func(in ssa.Instruction) {
			if d, ok := in.(*ssa.Defer); ok && calleeName(&d.Call) == "(*"+pdb+".indexPruner).resume" {
				resume = append(resume, Site{f, in})
			}
		})
		resume = append(resume, c.Calls(f, "(*"+pdb+".indexPruner).resume")...)
		c.Dom("pruner-paused", f, single, "single (un)index", GCall("pruner.pause()", pause).Then(GCall("(deferred) pruner.resume()", resume)))
	}

	// ---- pruning ---------------------------------------------------------------------------------
	c.Rule("CHECKSHAPE/C18.prune")
	if pe := c.Fn(pdb, "(*indexPruner).pruneEntry"); pe != nil {
		c.Funcs[pe] = true
		maxF := Fld(pdb + ".indexBlockDesc.max")
		below := EdgesWhere(pe, Cmp(maxF, token.LSS, Param("tail")))
		// count++ only under desc.max < tail
		var incs []Site
		eachInstr(pe, func(in ssa.Instruction) {
			if b, ok := in.(*ssa.BinOp); ok && b.Op == token.ADD && ConstInt(1)(b.Y) {
				if phi, ok := b.X.(*ssa.Phi); ok && phi.Comment == "count" {
					incs = append(incs, Site{pe, in})
				}
			}
		})
		if c.Check(len(incs) == 1, "count/"+fnName(pe), pe.Pos(), "one block counter", "the prunable-block counter was not found") {
			dom := false
			for e := range below {
				if edgeDominates(e, incs[0].Instr.Block()) {
					dom = true
				}
			}
			c.Check(dom, "strictly-below/"+fnName(pe), incs[0].Pos(), "a block is counted prunable exactly when its largest id < first retained id", "a block whose largest id equals the first retained history id can be pruned (or the comparison was changed): that history is still live")
		}
		// fast path: first block's max >= tail → nothing to prune
		var early []Site
		for _, r := range c.SuccessReturns(pe) {
			if ConstInt(0)(retVal(r.Instr.(*ssa.Return), 0)) {
				early = append(early, r)
			}
		}
		// `>=` and `>` are both sound here (skipping is only allowed when nothing can be pruned)
		fast := EdgesWhere(pe, Cmp(CallRes("(encoding/binary.bigEndian).Uint64"), token.GEQ, Param("tail")))
		for e := range EdgesWhere(pe, Cmp(CallRes("(encoding/binary.bigEndian).Uint64"), token.GTR, Param("tail"))) {
			fast[e] = true
		}
		c.Check(len(fast) == 1, "fast-path/"+fnName(pe), pe.Pos(), "the fast path skips only when the first block's largest id is not below the first retained id", "the fast path can skip an entry that still has prunable blocks (its test is not `first max >= tail`)")
		dels := c.Calls(pe, pdb+".deleteStateIndexBlock")
		c.Dom("parsed", pe, dels, "block deletion", GErrChecked("metadata parsed", c.Calls(pe, pdb+".parseIndex")))
		// deletes descList[i] for i < count; keeps descList[count:]
		for _, d := range dels {
			h := innermostLoopHeader(pe, d.Instr.Block())
			okLoop := false
			if h != nil {
				if iff, ok := h.Instrs[len(h.Instrs)-1].(*ssa.If); ok {
					if b, ok := iff.Cond.(*ssa.BinOp); ok && b.Op == token.LSS && len(incs) == 1 {
						// i < count (count is the loop-exit phi of the counter)
						okLoop = Mentions(func(v ssa.Value) bool { return v == incs[0].Instr.(ssa.Value) })(b.Y) || isCountPhi(b.Y)
					}
				}
			}
			c.Check(okLoop, "delete-range/"+fnName(pe), d.Pos(), "exactly the counted leading blocks are deleted", "the deletion loop does not run over the counted leading blocks")
		}
		var rem []Site
		eachInstr(pe, func(in ssa.Instruction) {
			if sl, ok := in.(*ssa.Slice); ok && sl.Low != nil && sl.High == nil && CallResN(pdb+".parseIndex", 0)(sl.X) && isCountPhi(sl.Low) {
				rem = append(rem, Site{pe, in})
			}
		})
		c.Check(len(rem) == 1, "remaining/"+fnName(pe), pe.Pos(), "the metadata is rewritten from descList[count:]", "the remaining descriptors are not descList[count:]")
	}
}

var constMaxU64Pat = func(v ssa.Value) bool { return constIsMaxU64(v) }

func isCountPhi(v ssa.Value) bool {
	phi, ok := v.(*ssa.Phi)
	return ok && phi.Comment == "count"
}
