package main

import (
	"go/token"

	"golang.org/x/tools/go/ssa"
)

func init() {
	Register(&Prop{
		ID:   "C24",
		Pkgs: []string{"core/rawdb"},
		Decided: "the fsync/ordering discipline that freezer-table repair assumes: doSync syncs index and head (errors tested) before it advances the persisted flush offset; batch commit writes item data before index entries; truncateHead shrinks and syncs the index, lowers the flush offset, and only then truncates and syncs the data file before publishing the new item count; truncateTail syncs, rewrites and syncs the index, and lowers the flush offset (synced) after releasing files; resetTo syncs first and re-bases virtual tail and flush offset (both synced) after replacing the index; advanceHead syncs before switching files; no error of Sync/Write/truncate/metadata write/copyFrom is discarded in the freezer table files.",
		NotDec: "that repair() restores one contiguous, correct item range from every possible cut of the files (needs enumeration of crash states — another family); lock discipline and index-entry codec are decided by separate rule groups when present.",
		Rules:  "ORDER must-pass-through per effect site, ARG constant/identity checks, ERRUSE over every call of the listed I/O callees in freezer_table.go, freezer_batch.go, freezer_meta.go",
		MinObs: 90,
		Run:    c24,
	})
}

const rdb = "core/rawdb"

func c24(c *Ctx) {
	ft := "(*" + rdb + ".freezerTable)."
	index := Fld(rdb + ".freezerTable.index")
	head := Fld(rdb + ".freezerTable.head")
	meta := Fld(rdb + ".freezerTable.metadata")
	_ = meta
	setFO := "(*" + rdb + ".freezerTableMeta).setFlushOffset"
	setVT := "(*" + rdb + ".freezerTableMeta).setVirtualTail"
	syncTrue := func(s Site) (bool, string) {
		as := callArgs(s.Instr.(*ssa.Call).Common())
		return ConstBool(true)(as[len(as)-1]), "metadata is written with sync=true"
	}

	// ---- doSync ------------------------------------------------------------
	f := c.Fn(rdb, "(*freezerTable).doSync")
	c.Rule("ORDER/C24.sync")
	fo := c.Calls(f, setFO)
	c.Dom("index-synced", f, fo, "setFlushOffset", GErrChecked("t.index.Sync()", c.CallsRecv(f, "(*os.File).Sync", index)))
	c.Dom("head-synced", f, fo, "setFlushOffset", GErrChecked("t.head.Sync()", c.CallsRecv(f, "(*os.File).Sync", head)))
	c.Each("meta-synced", f, fo, "setFlushOffset", syncTrue)
	c.ArgIs("offset-is-index-size", f, fo, "setFlushOffset", 0, CallRes("(io/fs.FileInfo).Size", nil), "the index file's current size")
	// a writable, open table never returns success from doSync without the flush offset
	c.Dom("always", f, c.SuccessReturns(f), "success-return",
		GCond("t.readonly", f, True(Fld(rdb+".freezerTable.readonly"))), GCall("setFlushOffset", fo))

	// ---- batch commit ------------------------------------------------------------
	bc := c.Fn(rdb, "(*freezerTableBatch).commit")
	c.Rule("ORDER/C24.append")
	iw := c.CallsRecv(bc, "(*os.File).Write", index)
	hw := c.CallsRecv(bc, "(*os.File).Write", head)
	c.Dom("data-before-index", bc, iw, "index.Write", GErrChecked("head.Write(data)", hw))
	c.Dom("published-after-index", bc, c.Calls(bc, "(*sync/atomic.Uint64).Store"), "items.Store", GErrChecked("index.Write", iw))

	// ---- truncateHead --------------------------------------------------------------
	th := c.Fn(rdb, "(*freezerTable).truncateHead")
	c.Rule("ORDER/C24.trunchead")
	tIdx := c.CallsArg(th, rdb+".truncateFreezerFile", 0, index)
	tHead := c.CallsArg(th, rdb+".truncateFreezerFile", 0, head)
	iSync := c.CallsRecv(th, "(*os.File).Sync", index)
	hSync := c.CallsRecv(th, "(*os.File).Sync", head)
	thFO := c.Calls(th, setFO)
	store := c.CallsRecv(th, "(*sync/atomic.Uint64).Store", func(v ssa.Value) bool {
		fa, ok := v.(*ssa.FieldAddr)
		return ok && fieldAddrName(fa) == rdb+".freezerTable.items"
	})
	c.Dom("index-truncated-first", th, cat(iSync, thFO, tHead, hSync, store), "later-step", GErrChecked("truncateFreezerFile(index)", tIdx))
	c.Dom("index-synced", th, cat(thFO, tHead, hSync, store), "later-step", GErrChecked("index.Sync()", iSync))
	c.Dom("flushoffset-lowered", th, cat(tHead, hSync, store), "later-step",
		GCond("flushOffset<=newOffset", th, Cmp(Fld(rdb+".freezerTableMeta.flushOffset"), token.LEQ, Any())),
		GErrChecked("setFlushOffset(newOffset,true)", thFO))
	c.Each("meta-synced", th, thFO, "setFlushOffset", syncTrue)
	c.Dom("head-truncated", th, cat(hSync, store), "later-step", GErrChecked("truncateFreezerFile(head)", tHead))
	c.Dom("head-synced", th, store, "items.Store", GErrChecked("head.Sync()", hSync))

	// ---- truncateTail --------------------------------------------------------------
	tt := c.Fn(rdb, "(*freezerTable).truncateTail")
	c.Rule("ORDER/C24.trunctail")
	cp := c.Calls(tt, rdb+".copyFrom")
	ttSync := c.CallsRecv(tt, "(*os.File).Sync", index)
	rel := c.Calls(tt, ft+"releaseFilesBefore")
	ttFO := c.Calls(tt, setFO)
	c.Dom("sync-before-rewrite", tt, cp, "copyFrom(index)", GErrChecked("t.doSync()", c.Calls(tt, ft+"doSync")))
	c.Dom("rewrite-before-sync", tt, ttSync, "index.Sync", GErrChecked("copyFrom", cp))
	c.Dom("index-synced-before-release", tt, rel, "releaseFilesBefore", GErrChecked("index.Sync()", ttSync))
	c.Dom("release-before-flushoffset", tt, ttFO, "setFlushOffset", GCall("releaseFilesBefore", rel))
	c.Each("meta-synced", tt, ttFO, "setFlushOffset", syncTrue)
	c.Dom("virtual-tail-recorded", tt, cat(cp, c.SuccessReturnsAfter(tt, c.Calls(tt, setVT))), "tail-move", GErrChecked("setVirtualTail", c.Calls(tt, setVT)))
	c.Dom("flushoffset-guard", tt, ttFO, "setFlushOffset",
		GCond("flushOffset>shorten", tt, Cmp(Fld(rdb+".freezerTableMeta.flushOffset"), token.GTR, Any())))

	// ---- resetTo -------------------------------------------------------------------
	rt := c.Fn(rdb, "(*freezerTable).resetTo")
	c.Rule("ORDER/C24.reset")
	rs := c.Calls(rt, rdb+".reset")
	rtVT := c.Calls(rt, setVT)
	rtFO := c.Calls(rt, setFO)
	c.Dom("sync-first", rt, cat(rs, c.CallsRecv(rt, "(*os.File).Close", index)), "index-replace", GErrChecked("t.doSync()", c.Calls(rt, ft+"doSync")))
	c.Dom("tail-rebased", rt, c.SuccessReturns(rt), "success-return", GErrChecked("reset(index)", rs).Then(GErrChecked("setVirtualTail(tail,true)", rtVT)))
	c.Dom("flushoffset-rebased", rt, c.SuccessReturns(rt), "success-return", GErrChecked("reset(index)", rs).Then(GErrChecked("setFlushOffset(indexEntrySize,true)", rtFO)))
	c.Each("meta-synced", rt, cat(rtVT, rtFO), "metadata-write", syncTrue)
	c.Dom("published-last", rt, c.Calls(rt, "(*sync/atomic.Uint64).Store"), "counter.Store", GErrChecked("setFlushOffset", rtFO))

	// ---- advanceHead -----------------------------------------------------------------
	ah := c.Fn(rdb, "(*freezerTable).advanceHead")
	c.Rule("ORDER/C24.advance")
	c.Dom("sync-before-open", ah, c.Calls(ah, ft+"openFile"), "openFile", GErrChecked("t.doSync()", c.Calls(ah, ft+"doSync")))
	c.Dom("sync-before-release", ah, c.Calls(ah, ft+"releaseFile"), "releaseFile", GErrChecked("t.head.Sync()", c.CallsRecv(ah, "(*os.File).Sync", head)))

	// ---- metadata write ------------------------------------------------------------
	mw := c.Fn(rdb, "(*freezerTableMeta).write")
	c.Rule("ORDER/C24.meta")
	enc := c.Calls(mw, "rlp.Encode")
	c.Dom("seek-before-encode", mw, enc, "rlp.Encode", GErrChecked("file.Seek(0)", c.Calls(mw, "(*os.File).Seek")))
	c.Dom("sync-when-asked", mw, c.SuccessReturns(mw), "success-return",
		GCond("!sync", mw, False(Param("sync"))), GCall("file.Sync() (result returned)", c.Calls(mw, "(*os.File).Sync")))
	for _, nm := range []string{"setVirtualTail", "setFlushOffset"} {
		sf := c.Fn(rdb, "(*freezerTableMeta)."+nm)
		c.Dom("setter-writes", sf, c.SuccessReturns(sf), "success-return", GCall("m.write(sync)", c.CallsArg(sf, "(*"+rdb+".freezerTableMeta).write", 0, Param("sync"))))
	}

	// ---- ERRUSE -------------------------------------------------------------------
	c.Rule("ERRUSE/C24")
	n := 0
	for _, fn := range c.FuncsInFiles(rdb, "freezer_table.go", "freezer_batch.go", "freezer_meta.go") {
		calls := c.CallsK(fn, "(*os.File).Sync|(*os.File).Write|(*os.File).Truncate|(*os.File).Seek|"+rdb+".truncateFreezerFile|"+rdb+".copyFrom|"+rdb+".reset|(*"+rdb+".freezerTableMeta).write|"+setFO+"|"+setVT+"|"+ft+"doSync", kAny)
		if len(calls) == 0 {
			continue
		}
		n += len(calls)
		c.ErrUsed("io", fn, calls, "io-call")
	}
	c.Expect(40, n, "I/O calls in freezer table files")
}

// SuccessReturnsAfter: success returns reachable from any of the given sites.
func (c *Ctx) SuccessReturnsAfter(f *ssa.Function, from []Site) []Site {
	var out []Site
	for _, r := range c.SuccessReturns(f) {
		for _, s := range from {
			if instrReaches(s.Instr, r.Instr) {
				out = append(out, r)
				break
			}
		}
	}
	return out
}
