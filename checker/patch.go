package main

import (
	"fmt"
	"os"
	"path/filepath"
	"strconv"
	"strings"
)

// overlayFromPatch applies a unified diff (as written by `git diff`) to the
// files of repo in memory and returns the patched contents keyed by absolute
// path. Only modifications of existing text files are supported; a hunk whose
// context does not match the current file makes the patch stale.
func overlayFromPatch(repo, patchFile string) (map[string][]byte, error) {
	b, err := os.ReadFile(patchFile)
	if err != nil {
		return nil, err
	}
	lines := strings.Split(string(b), "\n")
	out := map[string][]byte{}
	var file string
	var src []string  // current file's lines
	var dst []string  // patched lines so far
	var cursor int    // next unread line of src
	flush := func() {
		if file == "" {
			return
		}
		dst = append(dst, src[cursor:]...)
		out[filepath.Join(repo, file)] = []byte(strings.Join(dst, "\n"))
		file = ""
	}
	for i := 0; i < len(lines); i++ {
		l := lines[i]
		switch {
		case strings.HasPrefix(l, "diff --git "):
			flush()
		case strings.HasPrefix(l, "--- "):
			// handled with +++
		case strings.HasPrefix(l, "+++ "):
			flush()
			name := strings.TrimPrefix(l, "+++ ")
			if name == "/dev/null" {
				return nil, fmt.Errorf("patch deletes a file: not supported")
			}
			name = strings.TrimPrefix(name, "b/")
			if strings.HasPrefix(lines[i-1], "--- /dev/null") {
				return nil, fmt.Errorf("patch creates %s: not supported", name)
			}
			data, err := os.ReadFile(filepath.Join(repo, name))
			if err != nil {
				return nil, err
			}
			file, src, dst, cursor = name, strings.Split(string(data), "\n"), nil, 0
		case strings.HasPrefix(l, "@@ "):
			if file == "" {
				return nil, fmt.Errorf("hunk without file header")
			}
			// @@ -a,b +c,d @@
			f := strings.Fields(l)
			if len(f) < 3 {
				return nil, fmt.Errorf("bad hunk header %q", l)
			}
			old := strings.TrimPrefix(f[1], "-")
			start, _ := strconv.Atoi(strings.SplitN(old, ",", 2)[0])
			if start > 0 {
				start--
			}
			if start < cursor {
				return nil, fmt.Errorf("overlapping hunks in %s", file)
			}
			// hunks may have drifted: search the context nearby
			var want []string
			for j := i + 1; j < len(lines); j++ {
				h := lines[j]
				if strings.HasPrefix(h, "@@ ") || strings.HasPrefix(h, "diff --git ") {
					break
				}
				if strings.HasPrefix(h, " ") || strings.HasPrefix(h, "-") {
					want = append(want, h[1:])
				} else if h == "" && j == len(lines)-1 {
					break
				}
			}
			at := -1
			var offsets []int
			for d := 0; d <= 400; d++ { // hunks drift when /repo gets fix commits: search outwards
				offsets = append(offsets, d)
				if d != 0 {
					offsets = append(offsets, -d)
				}
			}
			for _, d := range offsets {
				p := start + d
				if p < cursor || p+len(want) > len(src) {
					continue
				}
				ok := true
				for k, w := range want {
					if src[p+k] != w {
						ok = false
						break
					}
				}
				if ok {
					at = p
					break
				}
			}
			if at < 0 {
				return nil, fmt.Errorf("hunk at %s:%d does not apply", file, start+1)
			}
			dst = append(dst, src[cursor:at]...)
			cursor = at
			for j := i + 1; j < len(lines); j++ {
				h := lines[j]
				if strings.HasPrefix(h, "@@ ") || strings.HasPrefix(h, "diff --git ") {
					break
				}
				switch {
				case strings.HasPrefix(h, " "):
					dst = append(dst, src[cursor])
					cursor++
				case strings.HasPrefix(h, "-"):
					cursor++
				case strings.HasPrefix(h, "+"):
					dst = append(dst, h[1:])
				}
				i = j
			}
		}
	}
	flush()
	if len(out) == 0 {
		return nil, fmt.Errorf("patch %s touches no file", patchFile)
	}
	return out, nil
}
