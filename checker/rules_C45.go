package main

import (
	"go/token"
	"go/types"

	"golang.org/x/tools/go/ssa"
)

func init() {
	Register(&Prop{
		ID:   "C45",
		Pkgs: []string{"p2p/enr", "p2p/enode", "p2p/discover/v5wire"},
		Decided: "a Node object is built only by newNodeWithID, whose callers are enode.New (behind a verified record signature and an exact ID length), the local database loader (records it stored itself) and the explicit null-signing helper; the record decoder rejects oversized input, duplicate and unsorted keys and incomplete pairs and ends through ListEnd; the v4 identity scheme rejects an undecodable or wrong-length key and a failing signature; a discovery-v5 session is derived only after the pending challenge was found, the handshake record (verified through enode.New and matched against the claimed ID) was accepted, the ID-nonce signature verified and the ephemeral key decoded; a new session is stored only after the handshake message decrypted; a message is returned only from an authenticated GCM open.",
		NotDec: "round-trips of records and packets, and replay rejection across sessions (value-level / histories).",
		Rules:  "WHO on the Node construction site; ORDER/DOM must-pass-through in enode.New, decodeRecord, V4ID.Verify, Codec.decodeHandshake, decodeHandshakeMessage, decodeHandshakeRecord, decryptMessage, decryptGCM, verifyIDSignature",
		MinObs: 37,
		Run:    c45,
	})
}

func c45(c *Ctx) {
	en := "p2p/enode"
	// ---- who may build a Node -----------------------------------------------------------------
	c.Rule("WHO/C45.node")
	allowed := map[string]string{
		en + ".New":            "behind VerifySignature (rule DOM/C45.new)",
		en + ".mustDecodeNode": "loads a record this node database stored itself (written through UpdateNode from verified nodes)",
		en + ".SignNull":       "explicit 'null' identity scheme helper for nodes without a key (tests/bootstrapping by ID); it signs with NullID, callers opt in by name",
	}
	n := 0
	for _, f := range c.AllFuncs(en) {
		for _, s := range c.Calls(f, en+".newNodeWithID") {
			n++
			if why, ok := allowed[fnName(f)]; ok {
				c.OK("construct/"+fnName(f), s.Pos(), "allowed constructor: "+why)
			} else {
				c.Bad("construct/"+fnName(f), s.Pos(), fnName(f)+" builds a Node without going through signature verification")
			}
		}
		// a Node allocated anywhere else bypasses the constructor
		if fnName(f) != en+".newNodeWithID" {
			eachInstr(f, func(in ssa.Instruction) {
				al, ok := in.(*ssa.Alloc)
				if !ok {
					return
				}
				if pt, ok := al.Type().Underlying().(*types.Pointer); ok {
					if nt, ok := pt.Elem().(*types.Named); ok && nt.Obj().Name() == "Node" && nt.Obj().Pkg() != nil && relPkg(nt.Obj().Pkg().Path()) == en {
						// a copy of an existing (already verified) node is fine
						isCopy := false
						for _, r := range *al.Referrers() {
							if st, ok := r.(*ssa.Store); ok && st.Addr == al {
								if u, ok := st.Val.(*ssa.UnOp); ok && u.Op == token.MUL && namedName(u.X.Type()) == en+".Node" {
									isCopy = true
								}
							}
						}
						if isCopy {
							c.Exempt("literal/"+fnName(f), Site{f, in}.Pos(), "value copy of an existing Node (record and id are taken over unchanged)")
						} else {
							c.Bad("literal/"+fnName(f), Site{f, in}.Pos(), fnName(f)+" allocates an enode.Node directly, bypassing newNodeWithID")
						}
					}
				}
			})
		}
	}
	c.Expect(3, n, "newNodeWithID call sites")
	nw := c.Fn(en, "New")
	c.Rule("DOM/C45.new")
	cons := c.Calls(nw, en+".newNodeWithID")
	c.Dom("signature-verified", nw, cat(cons, c.SuccessReturns(nw)), "construct/return", GErrChecked("r.VerifySignature(validSchemes)", c.Calls(nw, "(*p2p/enr.Record).VerifySignature")))
	c.Dom("id-length", nw, cons, "newNodeWithID", GCond("copy(id, NodeAddr)==len(id)", nw, Cmp(Any(), token.EQL, ConstInt(32))))
	c.ArgIs("same-record", nw, c.Calls(nw, "(*p2p/enr.Record).VerifySignature"), "VerifySignature", 0, Param("validSchemes"), "the caller's scheme set")
	c.RecvIs("verified-record", nw, c.Calls(nw, "(*p2p/enr.Record).VerifySignature"), "VerifySignature", Param("r"), "the record the node is built from")
	vs := c.Fn("p2p/enr", "(*Record).VerifySignature")
	for _, r := range c.Returns(vs) {
		c.Check(CallRes("(p2p/enr.IdentityScheme).Verify", Param("r"), Fld("p2p/enr.Record.signature"))(retVal(r.Instr.(*ssa.Return), 0)), "verify-delegates/"+fnName(vs), r.Pos(),
			"VerifySignature returns s.Verify(r, r.signature)", "VerifySignature does not return the scheme's verdict over the record's own signature")
	}

	// ---- record decoding -----------------------------------------------------------------------
	c.Rule("CHECKSHAPE/C45.record")
	dr := c.Fn("p2p/enr", "decodeRecord")
	ok := c.SuccessReturns(dr)
	c.Dom("size-limit", dr, cat(ok, c.Calls(dr, "rlp.NewStream")), "decode", GCond("len(raw)<=SizeLimit", dr, Cmp(Len(CallResN("(*rlp.Stream).Raw", 0)), token.LEQ, ConstInt(300))))
	var grow []Site
	eachInstr(dr, func(in ssa.Instruction) {
		if call, ok := in.(*ssa.Call); ok {
			if b, ok := call.Call.Value.(*ssa.Builtin); ok && b.Name() == "append" {
				grow = append(grow, Site{dr, in})
			}
		}
	})
	c.Expect(1, len(grow), "dec.pairs = append(dec.pairs, kv)")
	first := GCond("i==0", dr, Cmp(Any(), token.LEQ, ConstInt(0)))
	c.Dom("no-duplicate", dr, grow, "append pair", first, GCond("kv.k!=prevkey", dr, Cmp(Fld("p2p/enr.pair.k"), token.NEQ, Any())).Then(GCond("kv.k>=prevkey", dr, Cmp(Fld("p2p/enr.pair.k"), token.GEQ, Any()))))
	decs := c.Calls(dr, "(*rlp.Stream).Decode")
	c.Expect(4, len(decs), "Decode calls in decodeRecord")
	c.Dom("value-decoded", dr, grow, "append pair", GErrChecked("s.Decode(&kv.v)", decs[len(decs)-1:]))
	for _, r := range ok {
		c.Check(CallRes("(*rlp.Stream).ListEnd")(retVal(r.Instr.(*ssa.Return), 2)), "ends-with-ListEnd", r.Pos(), "the final verdict is s.ListEnd()", "decodeRecord can return success without checking the list end")
	}

	// ---- v4 identity scheme -----------------------------------------------------------------------
	c.Rule("DOM/C45.idscheme")
	v4 := c.Fn(en, "(V4ID).Verify")
	vok := c.SuccessReturns(v4)
	c.Dom("sig-verified", v4, vok, "success-return", GCond("crypto.VerifySignature(...)", v4, True(CallRes("crypto.VerifySignature"))))
	c.Dom("key-loaded", v4, cat(vok, c.Calls(v4, "crypto.VerifySignature")), "verify", GErrChecked("r.Load(&entry)", c.Calls(v4, "(*p2p/enr.Record).Load")))
	c.Dom("key-length", v4, c.Calls(v4, "crypto.VerifySignature"), "VerifySignature", GCond("len(entry)==33", v4, Cmp(Len(Any()), token.EQL, ConstInt(33))))
	c.ArgIs("sig-arg", v4, c.Calls(v4, "crypto.VerifySignature"), "VerifySignature", 2, Param("sig"), "the signature handed to Verify")

	// ---- discv5 handshake ---------------------------------------------------------------------------
	w := "p2p/discover/v5wire"
	dh := c.Fn(w, "(*Codec).decodeHandshake")
	c.Rule("ORDER/C45.handshake")
	dk := c.Calls(dh, w+".deriveKeys")
	c.Expect(1, len(dk), "deriveKeys in decodeHandshake")
	tg := cat(dk, c.SuccessReturns(dh))
	c.Dom("auth-decoded", dh, tg, "derive/return", GErrChecked("decodeHandshakeAuthData", c.Calls(dh, "(*"+w+".Codec).decodeHandshakeAuthData")))
	c.Dom("challenge-pending", dh, tg, "derive/return", GCond("challenge!=nil", dh, Cmp(CallRes("(*"+w+".SessionCache).getHandshake"), token.NEQ, Nil())))
	c.Dom("record-accepted", dh, tg, "derive/return", GErrChecked("decodeHandshakeRecord", c.Calls(dh, "(*"+w+".Codec).decodeHandshakeRecord")))
	c.Dom("id-signature", dh, tg, "derive/return", GErrChecked("verifyIDSignature", c.Calls(dh, w+".verifyIDSignature")))
	c.Dom("ephemeral-key", dh, tg, "derive/return", GErrChecked("DecodePubkey", c.Calls(dh, w+".DecodePubkey")))
	c.ArgIs("sig-over-challenge", dh, c.Calls(dh, w+".verifyIDSignature"), "verifyIDSignature", 3, Fld(w+".Whoareyou.ChallengeData"), "the pending challenge's data")
	c.ArgIs("sig-by-record-node", dh, c.Calls(dh, w+".verifyIDSignature"), "verifyIDSignature", 2, CallResN("(*"+w+".Codec).decodeHandshakeRecord", 0), "the node from the accepted record")
	hm := c.Fn(w, "(*Codec).decodeHandshakeMessage")
	c.Dom("session-after-decrypt", hm, c.Calls(hm, "(*"+w+".SessionCache).storeNewSession"), "storeNewSession",
		GErrChecked("decodeHandshake", c.Calls(hm, "(*"+w+".Codec).decodeHandshake")).Then(GErrChecked("decryptMessage", c.Calls(hm, "(*"+w+".Codec).decryptMessage"))))
	hr := c.Fn(w, "(*Codec).decodeHandshakeRecord")
	// a record supplied by the peer becomes the node only via enode.New and with the claimed ID
	newCalls := c.Calls(hr, en+".New")
	c.Expect(1, len(newCalls), "enode.New in decodeHandshakeRecord")
	for _, r := range c.SuccessReturns(hr) {
		v := retVal(r.Instr.(*ssa.Return), 0)
		phi, isPhi := v.(*ssa.Phi)
		okv := Param("local")(v)
		if isPhi {
			okv = true
			for _, e := range phi.Edges {
				if !(Param("local")(e) || CallResN(en+".New", 0)(e) || isPhiOf(e, Param("local"), CallResN(en+".New", 0))) {
					okv = false
				}
			}
		}
		c.Check(okv, "node-origin/"+fnName(hr), r.Pos(), "the returned node is the known local one or the result of enode.New", "decodeHandshakeRecord returns a node that did not pass enode.New")
	}
	c.Dom("claimed-id", hr, c.SuccessReturns(hr), "success-return",
		GCond("len(remote)==0", hr, Cmp(Len(Param("remote")), token.LEQ, ConstInt(0))),
		GCond("record not newer", hr, Cmp(CallRes("(*"+en+".Node).Seq"), token.GEQ, Any())),
		GErrChecked("enode.New", newCalls).Then(GCond("n.ID()==wantID", hr, Cmp(CallRes("(*"+en+".Node).ID"), token.EQL, Param("wantID")))))
	vi := c.Fn(w, "verifyIDSignature")
	c.Dom("nonce-sig", vi, c.SuccessReturns(vi), "success-return", GCond("crypto.VerifySignature", vi, True(CallRes("crypto.VerifySignature"))))

	// ---- authenticated decryption ----------------------------------------------------------------------
	c.Rule("DOM/C45.gcm")
	dm := c.Fn(w, "(*Codec).decryptMessage")
	c.Dom("open-ok", dm, c.Calls(dm, w+".DecodeMessage"), "DecodeMessage", GErrChecked("decryptGCM", c.Calls(dm, w+".decryptGCM")))
	dg := c.Fn(w, "decryptGCM")
	for _, r := range c.SuccessReturns(dg) {
		ret := r.Instr.(*ssa.Return)
		c.Check(CallRes("(crypto/cipher.AEAD).Open")(retVal(ret, 0)) && CallRes("(crypto/cipher.AEAD).Open")(retVal(ret, 1)), "plaintext-is-open-result", r.Pos(),
			"plaintext and error both come from aesgcm.Open", "decryptGCM can return plaintext that did not come from an authenticated Open")
	}
	c.ArgIs("aad", dg, c.Calls(dg, "(crypto/cipher.AEAD).Open"), "aesgcm.Open", 3, Param("authData"), "the header data as additional authenticated data")
}
