package main

import (
	"go/ast"
	"go/constant"
	"go/token"
	"go/types"
	"sort"

	"golang.org/x/tools/go/packages"
	"golang.org/x/tools/go/ssa"
)

// TABLE/core-vm: extraction of the EVM operation bindings from the code that
// builds the jump tables: composite literals `OP: {execute: f, …}` inside
// JumpTable literals, `jt[OP] = &operation{…}` and `jt[OP].field = v`.

type opBinding struct {
	Op      int64             // opcode value
	OpName  string            // constant name
	Builder string            // enclosing function
	Pos     token.Pos
	Fields  map[string]ast.Expr // operation field -> expression (literal bindings: all given fields)
	Partial bool              // single-field assignment jt[OP].f = v
}

func extractOpBindings(c *Ctx, pkg *packages.Package) []opBinding {
	var out []opBinding
	info := pkg.TypesInfo
	isOperation := func(t types.Type) bool {
		n := derefNamed(t)
		return n != nil && n.Obj().Name() == "operation" && n.Obj().Pkg() == pkg.Types
	}
	opOf := func(e ast.Expr) (int64, string, bool) {
		tv, ok := info.Types[e]
		if !ok || tv.Value == nil || tv.Value.Kind() != constant.Int {
			return 0, "", false
		}
		v, _ := constant.Int64Val(tv.Value)
		name := types.ExprString(e)
		return v, name, true
	}
	litFields := func(cl *ast.CompositeLit) map[string]ast.Expr {
		m := map[string]ast.Expr{}
		for _, el := range cl.Elts {
			if kv, ok := el.(*ast.KeyValueExpr); ok {
				if id, ok := kv.Key.(*ast.Ident); ok {
					m[id.Name] = kv.Value
				}
			}
		}
		return m
	}
	for _, file := range pkg.Syntax {
		for _, decl := range file.Decls {
			fd, ok := decl.(*ast.FuncDecl)
			if !ok || fd.Body == nil {
				continue
			}
			builder := fd.Name.Name
			ast.Inspect(fd.Body, func(n ast.Node) bool {
				switch x := n.(type) {
				case *ast.CompositeLit:
					// JumpTable{ OP: {…}, … }
					tv, ok := info.Types[x]
					if !ok {
						return true
					}
					if nt := derefNamed(tv.Type); nt != nil && nt.Obj().Name() == "JumpTable" {
						for _, el := range x.Elts {
							kv, ok := el.(*ast.KeyValueExpr)
							if !ok {
								continue
							}
							op, name, ok := opOf(kv.Key)
							if !ok {
								continue
							}
							val := kv.Value
							if u, ok := val.(*ast.UnaryExpr); ok && u.Op == token.AND {
								val = u.X
							}
							if cl, ok := val.(*ast.CompositeLit); ok {
								out = append(out, opBinding{Op: op, OpName: name, Builder: builder, Pos: cl.Pos(), Fields: litFields(cl)})
							}
						}
					}
				case *ast.AssignStmt:
					if len(x.Lhs) != 1 || len(x.Rhs) != 1 {
						return true
					}
					switch lhs := x.Lhs[0].(type) {
					case *ast.IndexExpr: // jt[OP] = &operation{…}
						op, name, ok := opOf(lhs.Index)
						if !ok {
							return true
						}
						rhs := x.Rhs[0]
						if u, ok := rhs.(*ast.UnaryExpr); ok && u.Op == token.AND {
							rhs = u.X
						}
						if cl, ok := rhs.(*ast.CompositeLit); ok {
							if tv, ok := info.Types[cl]; ok && isOperation(tv.Type) {
								out = append(out, opBinding{Op: op, OpName: name, Builder: builder, Pos: cl.Pos(), Fields: litFields(cl)})
							}
						}
					case *ast.SelectorExpr: // jt[OP].field = v
						ix, ok := lhs.X.(*ast.IndexExpr)
						if !ok {
							return true
						}
						if tv, ok := info.Types[lhs.X]; !ok || !isOperation(tv.Type) {
							return true
						}
						op, name, ok := opOf(ix.Index)
						if !ok {
							return true
						}
						out = append(out, opBinding{Op: op, OpName: name, Builder: builder, Pos: x.Pos(), Partial: true,
							Fields: map[string]ast.Expr{lhs.Sel.Name: x.Rhs[0]}})
					}
				}
				return true
			})
		}
	}
	sort.SliceStable(out, func(i, j int) bool {
		if out[i].Op != out[j].Op {
			return out[i].Op < out[j].Op
		}
		return out[i].Pos < out[j].Pos
	})
	return out
}

// resolveFuncExpr resolves an expression of function type used in a binding
// to the SSA function that will run, plus an environment for closure makers:
// `opAdd` -> (opAdd, nil); `makeDup(3)` -> (makeDup$1, {size:3}).
func resolveFuncExpr(c *Ctx, pkg *packages.Package, e ast.Expr) (*ssa.Function, map[string]int64, bool) {
	info := pkg.TypesInfo
	switch x := e.(type) {
	case *ast.Ident:
		if fo, ok := info.Uses[x].(*types.Func); ok {
			f := c.Prog.FuncValue(fo)
			return f, nil, f != nil && len(f.Blocks) > 0
		}
	case *ast.CallExpr:
		id, ok := x.Fun.(*ast.Ident)
		if !ok {
			return nil, nil, false
		}
		fo, ok := info.Uses[id].(*types.Func)
		if !ok {
			return nil, nil, false
		}
		maker := c.Prog.FuncValue(fo)
		if maker == nil || len(maker.AnonFuncs) != 1 {
			return nil, nil, false
		}
		env := map[string]int64{}
		for i, a := range x.Args {
			tv, ok := info.Types[a]
			if !ok || tv.Value == nil || i >= len(maker.Params) {
				continue
			}
			if v, ok := constant.Int64Val(constant.ToInt(tv.Value)); ok {
				env[maker.Params[i].Name()] = v
			}
		}
		return maker.AnonFuncs[0], env, true
	}
	return nil, nil, false
}

// evalIntExpr evaluates an int-valued binding expression: a constant, or a
// call of a pure same-package helper (minStack(2,1), maxDupStack(3)) whose SSA
// body is interpreted.
func evalIntExpr(c *Ctx, pkg *packages.Package, e ast.Expr) (int64, bool) {
	info := pkg.TypesInfo
	if tv, ok := info.Types[e]; ok && tv.Value != nil {
		return constant.Int64Val(constant.ToInt(tv.Value))
	}
	call, ok := e.(*ast.CallExpr)
	if !ok {
		return 0, false
	}
	id, ok := call.Fun.(*ast.Ident)
	if !ok {
		return 0, false
	}
	fo, ok := info.Uses[id].(*types.Func)
	if !ok {
		return 0, false
	}
	fn := c.Prog.FuncValue(fo)
	var args []int64
	for _, a := range call.Args {
		v, ok := evalIntExpr(c, pkg, a)
		if !ok {
			return 0, false
		}
		args = append(args, v)
	}
	return evalPureInt(fn, args, 0)
}

// evalPureInt interprets a straight-line integer function.
func evalPureInt(fn *ssa.Function, args []int64, depth int) (int64, bool) {
	if fn == nil || len(fn.Blocks) != 1 || depth > 4 || len(args) != len(fn.Params) {
		return 0, false
	}
	val := map[ssa.Value]int64{}
	for i, p := range fn.Params {
		val[p] = args[i]
	}
	var get func(v ssa.Value) (int64, bool)
	get = func(v ssa.Value) (int64, bool) {
		if x, ok := val[v]; ok {
			return x, true
		}
		switch x := v.(type) {
		case *ssa.Const:
			if x.Value == nil {
				return 0, false
			}
			return constant.Int64Val(constant.ToInt(x.Value))
		case *ssa.Convert:
			return get(x.X)
		case *ssa.ChangeType:
			return get(x.X)
		}
		return 0, false
	}
	for _, in := range fn.Blocks[0].Instrs {
		switch x := in.(type) {
		case *ssa.BinOp:
			a, ok1 := get(x.X)
			b, ok2 := get(x.Y)
			if !ok1 || !ok2 {
				return 0, false
			}
			switch x.Op {
			case token.ADD:
				val[x] = a + b
			case token.SUB:
				val[x] = a - b
			case token.MUL:
				val[x] = a * b
			default:
				return 0, false
			}
		case *ssa.Convert:
			a, ok := get(x.X)
			if !ok {
				return 0, false
			}
			val[x] = a
		case *ssa.Call:
			callee := x.Call.StaticCallee()
			var as []int64
			for _, a := range x.Call.Args {
				v, ok := get(a)
				if !ok {
					return 0, false
				}
				as = append(as, v)
			}
			r, ok := evalPureInt(callee, as, depth+1)
			if !ok {
				return 0, false
			}
			val[x] = r
		case *ssa.Return:
			if len(x.Results) != 1 {
				return 0, false
			}
			return get(x.Results[0])
		case *ssa.DebugRef:
		default:
			return 0, false
		}
	}
	return 0, false
}
