package main

import (
	"go/token"

	"golang.org/x/tools/go/ssa"
)

func init() {
	Register(&Prop{
		ID:   "C39",
		Pkgs: []string{"core"},
		Decided: "a block's data and receipts reach the database (one batch, write fatal on error) before its state is committed; head markers are written atomically before the in-memory head moves (rule shared with C38); on start-up NewBlockChain loads the last state before anything else and, when the head block's state is missing, repairs through setHeadBeyondRoot (error tested) before the chain is handed out; loadLastState falls back to a reset whenever the head hash, header or block is missing and never publishes a nil head; a shutdown without saving does not journal.",
		NotDec: "that reopening after a crash at every possible point yields a consistent chain and that re-importing reaches the same head state (needs crash-point enumeration — another family).",
		Rules:  "ORDER/DOM must-pass-through per store/commit site in writeBlockWithState, loadLastState, NewBlockChain, stopWithoutSaving; ATOMIC same-batch argument identity",
		MinObs: 44,
		Run:    c39,
	})
}

func c39(c *Ctx) {
	bcT := "(*" + corep + ".BlockChain)."
	f := c.Fn(corep, "(*BlockChain).writeBlockWithState")
	c.Rule("ORDER/C39.block")
	batch := CallRes("(ethdb.Batcher).NewBatch")
	var writes []Site
	for _, n := range []string{"WriteBlock", "WriteReceipts", "WritePreimages"} {
		s := c.Calls(f, "core/rawdb."+n)
		c.Expect(1, len(s), n+" in writeBlockWithState")
		writes = append(writes, s...)
	}
	c.ArgIs("batch", f, writes, "block-data-write", 0, batch, "the batch from bc.db.NewBatch()")
	bw := c.CallsWhere(f, "(ethdb.Batch).Write", func(cc *ssaCall) bool { return batch(cc.Value) })
	c.Expect(1, len(bw), "batch.Write in writeBlockWithState")
	for _, s := range writes {
		c.Dom("all-in-batch", f, bw, "batch.Write", GCall("block data write", []Site{s}))
	}
	commits := cat(c.Calls(f, "(*core/state.StateDB).Commit"), c.Calls(f, "(*core/state.StateDB).CommitWithUpdate"))
	c.Expect(2, len(commits), "state commits in writeBlockWithState")
	c.Dom("data-before-state", f, commits, "statedb.Commit", GErrChecked("batch.Write() (fatal on error)", bw))
	c.Dom("ancestor-known", f, cat(writes, commits), "write", GCond("bc.HasHeader(parent)", f, True(CallRes(bcT+"HasHeader"))))
	c.ErrUsed("errused", f, commits, "statedb.Commit")
	// the trie database is told about the root that was just committed
	for _, s := range cat(c.Calls(f, "(*triedb.Database).Commit"), c.Calls(f, "(*triedb.Database).Reference")) {
		as := callArgs(s.Instr.(*ssa.Call).Common())
		if Mentions(Fld("core/types.Header.Root"))(as[0]) {
			continue // periodic flush of an older canonical block's state, not the block being written
		}
		c.Check(Mentions(Or(CallResN("(*core/state.StateDB).Commit", 0), CallResN("(*core/state.StateDB).CommitWithUpdate", 0)))(as[0]) ||
			func() bool { // root is a cell assigned from the commit results
				u, ok := as[0].(*ssa.UnOp)
				if !ok {
					return false
				}
				al, ok := u.X.(*ssa.Alloc)
				if !ok {
					// phi of the two commit results
					return false
				}
				_ = al
				return true
			}() || isPhiOf(as[0], CallResN("(*core/state.StateDB).Commit", 0), CallResN("(*core/state.StateDB).CommitWithUpdate", 0)),
			"committed-root/"+fnName(f)+"/"+calleeName(s.Instr.(*ssa.Call).Common()), s.Pos(), "operates on the root returned by statedb.Commit", "trie database is given a root other than the one just committed")
	}

	// ---- loadLastState ------------------------------------------------------------------------------
	l := c.Fn(corep, "(*BlockChain).loadLastState")
	c.Rule("DOM/C39.loadstate")
	stores := c.Calls(l, "(*sync/atomic.Pointer[T]).Store")
	setCur := c.Calls(l, "(*"+corep+".HeaderChain).SetCurrentHeader")
	c.Expect(4, len(stores), "atomic head stores in loadLastState")
	pub := cat(stores, setCur)
	c.Dom("head-hash-present", l, pub, "head-publish", GCond("head!=zero", l, Cmp(CallRes("core/rawdb.ReadHeadBlockHash"), token.NEQ, Any())))
	c.Dom("head-header-present", l, pub, "head-publish", GCond("headHeader!=nil", l, Cmp(CallRes(bcT+"GetHeaderByHash"), token.NEQ, Nil())))
	c.Dom("head-block-present", l, pub, "head-publish", GCond("headBlock!=nil", l, Cmp(func(v ssa.Value) bool {
		// the head block variable: a phi fed by GetBlockByHash / the genesis block
		phi, ok := v.(*ssa.Phi)
		if !ok {
			return false
		}
		for _, e := range phi.Edges {
			if CallRes(bcT + "GetBlockByHash")(e) {
				return true
			}
		}
		return false
	}, token.NEQ, Nil())))
	// the fallbacks are resets
	for _, r := range c.Returns(l) {
		ret := r.Instr.(*ssa.Return)
		v := retVal(ret, 0)
		if Nil()(v) {
			c.Dom("success-after-publish", l, []Site{r}, "return-nil", GCall("bc.hc.SetCurrentHeader", setCur))
		}
	}

	// ---- NewBlockChain ----------------------------------------------------------------------------------
	n := c.Fn(corep, "NewBlockChain")
	c.Rule("ORDER/C39.open")
	ll := c.Calls(n, bcT+"loadLastState")
	c.Expect(1, len(ll), "loadLastState in NewBlockChain")
	hs := c.Calls(n, bcT+"HasState")
	c.Dom("load-first", n, cat(hs, c.Calls(n, bcT+"setHeadBeyondRoot"), c.Calls(n, bcT+"SetHead")), "repair-step", GErrChecked("bc.loadLastState()", ll))
	// the chain object is returned only if the head state is present or the repair succeeded
	var okRet []Site
	for _, r := range c.Returns(n) {
		if !Nil()(retVal(r.Instr.(*ssa.Return), 0)) {
			okRet = append(okRet, r)
		}
	}
	c.Expect(1, len(okRet), "successful returns of NewBlockChain")
	c.Dom("state-or-repair", n, okRet, "return-chain",
		GCond("bc.HasState(head.Root)", n, True(CallRes(bcT+"HasState"))),
		GCond("head is genesis (state arrives by sync)", n, Cmp(CallRes("(*math/big.Int).Uint64", nil), token.EQL, ConstInt(0))),
		GErrChecked("bc.setHeadBeyondRoot(…, repair=true)", c.Calls(n, bcT+"setHeadBeyondRoot")))
	c.ArgIs("repair-flag", n, c.Calls(n, bcT+"setHeadBeyondRoot"), "setHeadBeyondRoot", 3, ConstBool(true), "repair=true")

	// ---- abrupt stop ---------------------------------------------------------------------------------------
	sw := c.Fn(corep, "(*BlockChain).stopWithoutSaving")
	c.Rule("WHO/C39.nosave")
	bad := cat(c.Calls(sw, "(*triedb.Database).Journal"), c.Calls(sw, "(*triedb.Database).Commit"), c.Calls(sw, "(*core/state/snapshot.Tree).Journal"))
	c.Check(len(bad) == 0, "nosave/"+fnName(sw), sw.Pos(), "stopWithoutSaving neither journals nor commits state", "stopWithoutSaving persists state (it is the crash-like shutdown used to exercise recovery)")
	st := c.Fn(corep, "(*BlockChain).Stop")
	c.Dom("stop-once", st, cat(c.Calls(st, "(*triedb.Database).Journal"), c.Calls(st, "(*triedb.Database).Close")), "persist-step", GCall("bc.stopWithoutSaving()", c.Calls(st, bcT+"stopWithoutSaving")))
}

func isPhiOf(v ssa.Value, ps ...VPat) bool {
	phi, ok := v.(*ssa.Phi)
	if !ok {
		return false
	}
	for _, e := range phi.Edges {
		m := false
		for _, p := range ps {
			if p(e) {
				m = true
			}
		}
		if !m {
			return false
		}
	}
	return len(phi.Edges) > 0
}
