package main

import (
	"go/token"
	"strings"

	"golang.org/x/tools/go/ssa"
)

func init() {
	Register(&Prop{
		ID:   "C22",
		Pkgs: []string{"triedb/pathdb", "core/state/snapshot"},
		Decided: "the merged (fast) iterators of both flat-state implementations report an element only after its value was fetched from the winning sub-iterator, that sub-iterator reported no error, and the value is non-nil (tombstones are skipped); the binary iterators' account/storage wrappers report an element only when the looked-up value is non-empty and stop on a lookup failure; an exhausted sub-iterator is released before it is dropped from the merge list; the cached sorted key lists that the per-layer iterators walk are invalidated unconditionally after every mutation of a path-database state set's account or storage maps (merge, revert), are built only under the list lock from the maps they describe, and a flattened legacy snapshot layer starts with empty lists; per-layer iterators start at the first key >= the seek position (binary search on the sorted list with a >= predicate).",
		NotDec: "ascending order and completeness of the merged sequence, priority resolution between layers for equal keys, and agreement with the trie (value-level over layer stacks).",
		Rules:  "DOM tombstone/error guards on every `return true`; PAIR release before removal; PAIR map mutation ↔ clearLists; SHAPE seek predicate",
		MinObs: 42,
		Run:    c22,
	})
}

func c22(c *Ctx) {
	snp := "core/state/snapshot"
	trues := func(f *ssa.Function) []Site {
		var out []Site
		for _, r := range c.Returns(f) {
			if r.Instr.Block() == f.Recover {
				continue
			}
			if ConstBool(true)(retVal(r.Instr.(*ssa.Return), 0)) {
				out = append(out, r)
			}
		}
		return out
	}
	// ---- tombstones and errors ------------------------------------------------------------------------
	c.Rule("DOM/C22.tombstone")
	n := 0
	for _, rel := range []string{pdb, snp} {
		FI := rel + ".fastIterator."
		if f := c.Fn(rel, "(*fastIterator).Next"); f != nil {
			ts := trues(f)
			n += len(ts)
			c.Dom("fast-nonnil", f, ts, "return true",
				GCond("curAccount != nil", f, Cmp(Fld(FI+"curAccount"), token.NEQ, Nil())),
				GCond("curSlot != nil", f, Cmp(Fld(FI+"curSlot"), token.NEQ, Nil())))
			// the value was fetched and the sub-iterator's error consulted
			var errs []Site
			eachInstr(f, func(in ssa.Instruction) {
				if ci, ok := in.(ssa.CallInstruction); ok && ci.Common().IsInvoke() && ci.Common().Method.Name() == "Error" {
					errs = append(errs, Site{f, in})
				}
			})
			c.Dom("fast-noerr", f, ts, "return true", GErrChecked("sub-iterator reported no error", errs))
			var fetch []Site
			eachInstr(f, func(in ssa.Instruction) {
				if ci, ok := in.(ssa.CallInstruction); ok && ci.Common().IsInvoke() && (ci.Common().Method.Name() == "Account" || ci.Common().Method.Name() == "Slot") {
					fetch = append(fetch, Site{f, in})
				}
			})
			c.Dom("fast-fetched", f, ts, "return true", GCall("value fetched from the head sub-iterator", fetch))
			// the loop advances before looking again
			nx := c.Calls(f, "(*"+rel+".fastIterator).next")
			c.Check(len(nx) == 1 && innermostLoopHeader(f, nx[0].Instr.Block()) != nil, "fast-advances/"+fnName(f), f.Pos(), "tombstones are skipped by advancing in a loop", "the tombstone-skipping loop is missing")
		}
	}
	// pathdb: account/storage wrappers around the binary iterator
	for _, w := range []struct{ typ, val string }{{"accountBinaryIterator", "Account"}, {"storageBinaryIterator", "Slot"}} {
		f := c.Fn(pdb, "(*"+w.typ+").Next")
		if f == nil {
			continue
		}
		ts := trues(f)
		n += len(ts)
		c.Dom("binary-nonempty", f, ts, "return true", GCond("len(it."+w.val+"()) != 0", f, Cmp(Len(CallRes("(*"+pdb+"."+w.typ+")."+w.val)), token.NEQ, ConstInt(0))))
		c.Dom("binary-advanced", f, ts, "return true", GCond("binaryIterator.Next()", f, True(CallRes("(*"+pdb+".binaryIterator).Next"))))
		// a failed lookup stops the iteration instead of spinning
		fails := EdgesWhere(f, Cmp(Fld(pdb+".binaryIterator.fail"), token.NEQ, Nil()))
		c.Check(len(fails) > 0, "binary-fail/"+fnName(f), f.Pos(), "a lookup failure ends the iteration", "a lookup failure is not checked: the wrapper would skip the element as if deleted")
	}
	if f := c.Fn(snp, "(*binaryIterator).Next"); f != nil {
		ts := trues(f)
		n += len(ts)
		c.Dom("binary-nonempty", f, ts, "return true",
			GCond("len(it.Account()) != 0", f, Cmp(Len(CallRes("(*"+snp+".binaryIterator).Account")), token.NEQ, ConstInt(0))),
			GCond("len(it.Slot()) != 0", f, Cmp(Len(CallRes("(*"+snp+".binaryIterator).Slot")), token.NEQ, ConstInt(0))))
	}
	c.Expect(7, n, "`return true` exits of the merged/wrapping iterators")

	// ---- release before removal --------------------------------------------------------------------
	c.Rule("PAIR/C22.release")
	for _, rel := range []string{pdb, snp} {
		f := c.Fn(rel, "(*fastIterator).next")
		if f == nil {
			continue
		}
		st := c.Stores(f, rel+".fastIterator.iterators")
		var rel2 []Site
		eachInstr(f, func(in ssa.Instruction) {
			if ci, ok := in.(ssa.CallInstruction); ok && ci.Common().IsInvoke() && ci.Common().Method.Name() == "Release" {
				rel2 = append(rel2, Site{f, in})
			}
		})
		c.Dom("released", f, st, "removal from the merge list", GCall("it.Release()", rel2))
		var nexts []Site
		eachInstr(f, func(in ssa.Instruction) {
			if ci, ok := in.(ssa.CallInstruction); ok && ci.Common().IsInvoke() && ci.Common().Method.Name() == "Next" {
				nexts = append(nexts, Site{f, in})
			}
		})
		if len(nexts) == 1 {
			call := nexts[0].Instr.(*ssa.Call)
			c.Dom("only-exhausted", f, st, "removal from the merge list", GCond("!it.Next()", f, False(Is(call))))
		} else {
			c.Undecided("only-exhausted/"+fnName(f), f.Pos(), "expected one sub-iterator Next call")
		}
	}

	// ---- sorted key lists follow the maps ------------------------------------------------------------
	c.Rule("PAIR/C22.lists")
	SS := pdb + ".stateSet."
	nw := 0
	for _, f := range c.AllFuncs(pdb) {
		if !strings.HasPrefix(fnName(f), "(*"+pdb+".stateSet).") {
			continue
		}
		var writes []Site
		eachInstr(f, func(in ssa.Instruction) {
			mu, ok := in.(*ssa.MapUpdate)
			if !ok {
				return
			}
			m := strip(mu.Map)
			if Fld(SS+"accountData")(m) || Fld(SS+"storageData")(m) {
				writes = append(writes, Site{f, in})
				return
			}
			// inner slot map obtained from storageData
			if l, ok := m.(*ssa.Lookup); ok && Fld(SS + "storageData")(l.X) {
				writes = append(writes, Site{f, in})
			} else if ex, ok := m.(*ssa.Extract); ok {
				if l, ok := ex.Tuple.(*ssa.Lookup); ok && Fld(SS + "storageData")(l.X) {
					writes = append(writes, Site{f, in})
				}
			}
		})
		if len(writes) == 0 {
			continue
		}
		c.Funcs[f] = true
		cl := c.Calls(f, "(*"+pdb+".stateSet).clearLists")
		for _, w := range writes {
			nw++
			hit := ReachesBefore(w.Instr, sitesToSet(cl), nil, sitesToSet(c.Returns(f)))
			c.Check(len(cl) > 0 && hit == nil, "invalidate/"+fnName(f), w.Pos(), "clearLists() follows on every path to return", "the state set's maps change but the cached sorted key lists can survive: iterators over this layer would miss new keys")
		}
	}
	c.Expect(5, nw, "state-set map mutations")
	if cl := c.Fn(pdb, "(*stateSet).clearLists"); cl != nil {
		a, s := c.Stores(cl, SS+"accountListSorted"), c.Stores(cl, SS+"storageListSorted")
		c.Check(len(a) == 1 && len(s) == 1, "clears-both/"+fnName(cl), cl.Pos(), "both the account list and the storage lists are dropped", "clearLists does not drop both cached lists")
		c.Dom("clears-locked", cl, cat(a, s), "list reset", GCall("listLock.Lock()", c.Calls(cl, "(*sync.RWMutex).Lock")))
	}
	for _, name := range []string{"(*stateSet).accountList", "(*stateSet).storageList"} {
		f := c.Fn(pdb, name)
		if f == nil {
			continue
		}
		var st []Site
		eachInstr(f, func(in ssa.Instruction) {
			switch x := in.(type) {
			case *ssa.Store:
				if fa, ok := x.Addr.(*ssa.FieldAddr); ok && strings.HasSuffix(fieldAddrName(fa), "ListSorted") {
					st = append(st, Site{f, in})
				}
			case *ssa.MapUpdate:
				if Fld(SS + "storageListSorted")(x.Map) {
					st = append(st, Site{f, in})
				}
			}
		})
		c.Check(len(st) == 1, "builds/"+fnName(f), f.Pos(), "the cached list is written in one place", "the cached list is not written exactly once")
		c.Dom("build-locked", f, st, "cached list write", GCall("listLock.Lock()", c.Calls(f, "(*sync.RWMutex).Lock")))
		srt := c.Calls(f, "slices.SortedFunc")
		c.Check(len(srt) == 1, "build-sorted/"+fnName(f), f.Pos(), "the list is produced sorted from the map's keys", "the cached list is not produced by sorting the map's keys")
	}
	if fl := c.Fn(snp, "(*diffLayer).flatten"); fl != nil {
		DL := snp + ".diffLayer."
		al := c.Stores(fl, DL+"accountList")
		sl := c.Stores(fl, DL+"storageList")
		c.Check(len(al) == 0, "flatten-accountlist/"+fnName(fl), fl.Pos(), "the flattened layer starts without a cached account list", "the flattened layer inherits a cached account list although its account set changed")
		okFresh := len(sl) == 1
		if okFresh {
			_, okFresh = strip(sl[0].Instr.(*ssa.Store).Val).(*ssa.MakeMap)
		}
		c.Check(okFresh, "flatten-storagelist/"+fnName(fl), fl.Pos(), "the flattened layer starts with an empty storage-list cache", "the flattened layer inherits cached storage lists although its storage sets changed")
	}

	// ---- seek ------------------------------------------------------------------------------------
	c.Rule("SHAPE/C22.seek")
	ns := 0
	for _, rel := range []string{pdb, snp} {
		for _, name := range []string{"newDiffAccountIterator", "newDiffStorageIterator"} {
			f := c.TryFn(rel, name)
			if f == nil {
				continue
			}
			for _, an := range f.AnonFuncs {
				// sort.Search predicate: Compare(seek, list[n]) <= 0
				for _, r := range c.Returns(an) {
					ns++
					v := retVal(r.Instr.(*ssa.Return), 0)
					b, ok := v.(*ssa.BinOp)
					okShape := false
					if ok {
						if call, isCall := b.X.(*ssa.Call); isCall && calleeName(&call.Call) == "bytes.Compare" && ConstInt(0)(b.Y) {
							seekFirst := Mentions(FreeVar("seek"))(call.Call.Args[0])
							okShape = (seekFirst && b.Op == token.LEQ) || (!seekFirst && b.Op == token.GEQ)
						}
					}
					c.Funcs[an] = true
					c.Check(okShape, "predicate/"+fnName(an), r.Pos(), "iteration starts at the first key >= seek", "the seek predicate does not select the first key >= the seek position")
				}
			}
		}
	}
	c.Expect(2, ns, "seek predicates")
}
