package main

import (
	"go/token"
	"strings"

	"golang.org/x/tools/go/ssa"
)

func init() {
	Register(&Prop{
		ID:   "C31",
		Pkgs: []string{"core/vm", "core"},
		Decided: "no unsigned subtraction in the gas budget (GasBudget methods), the block gas pool and the transaction settlement code can wrap around: each is dominated by a branch establishing minuend >= subtrahend over the same operands (field loads value-numbered, min/max recognised), or is one of a frozen list of protocol invariants whose establishing check is itself decided (intrinsic gas <= gas limit and <= MaxTxGas before the budget is initialised; pool invariant initial >= cumulative usage established by ChargeGasAmsterdam's reject); charge and CanAfford fail under the same two predicates; Exit maps nil/revert/other to ExitSuccess/ExitRevert/ExitHalt and the failing exits zero the frame's state-gas usage and spill; the refund is capped by usage/quotient with the fork's quotient and by the state's refund counter.",
		NotDec: "conservation of gas as an arithmetic identity over all charge/forward/absorb sequences, and the invariants 'child leftover <= forwarded amount' / 'forwarded <= remaining' (listed as exemptions with the reason, established by the 63/64 rule at run time).",
		Rules:  "GUARDSUB per unsigned SUB instruction; SIBLING predicate-set comparison of charge/CanAfford; TABLE on GasBudget.Exit; DOM/CONSTARG on calcRefund and the call site of initRuntimeGasBudget",
		MinObs: 50,
		Run:    c31,
	})
}

func c31(c *Ctx) {
	c.Rule("GUARDSUB/C31")
	exBudget := map[string]string{
		"g.UsedExecutionGas-child.ExecutionGas": "Absorb: the child's leftover is at most what Forward moved into UsedExecutionGas for it (execution gas can only be consumed, never created, in the child)",
		"g.UsedExecutionGas-child.Spilled":      "Absorb: the child's spill was drawn from the execution gas forwarded to it, which Forward counted as used",
		"g.ExecutionGas-execution":              "Forward: callers forward at most the remaining execution gas (63/64 rule in callGas, or ForwardAll passing g.ExecutionGas itself)",
		"(initial.ExecutionGas+initial.StateGas)-(g.ExecutionGas+g.StateGas)": "Used: reporting helper; the remaining total never exceeds the initial total of the same frame",
	}
	n := 0
	for _, f := range c.AllFuncs(vmp) {
		name := fnName(f)
		if strings.HasPrefix(name, "(*core/vm.GasBudget).") || strings.HasPrefix(name, "(core/vm.GasBudget).") {
			n += c.GuardSub("budget", f, exBudget)
		}
	}
	exPool := map[string]string{
		"gp.initial-gp.cumulativeExecution": "pool invariant initial >= cumulativeExecution: ChargeGasAmsterdam stores the cumulative counters only behind its `initial < max(exec,state)` reject (rule DOM/C31.pool)",
		"gp.initial-gp.cumulativeState":     "pool invariant initial >= cumulativeState: as above",
	}
	for _, f := range c.AllFuncs("core") {
		if strings.HasPrefix(fnName(f), "(*core.GasPool).") {
			n += c.GuardSub("pool", f, exPool)
		}
	}
	exTx := map[string]string{
		"st.msg.GasLimit-intrinsicGas": "execute rejects GasLimit < intrinsicGas before calling initRuntimeGasBudget (rule DOM/C31.intrinsic)",
		"16777216-intrinsicGas":        "under Amsterdam execute rejects max(intrinsicGas, floorDataGas) > MaxTxGas before calling initRuntimeGasBudget (rule DOM/C31.intrinsic)",
	}
	for _, fn := range []string{"(*stateTransition).initRuntimeGasBudget", "(*stateTransition).calcRefund", "(*stateTransition).buyGas"} {
		n += c.GuardSub("transition", c.Fn("core", fn), exTx)
	}
	// settleGas: gas limit minus what is left, refund capped by usage
	sg := c.Fn("core", "(*stateTransition).settleGas")
	n += c.GuardSub("transition", sg, map[string]string{
		"st.msg.GasLimit-(&st.gasRemaining.ExecutionGas+&st.gasRemaining.StateGas)": "the frame's remaining gas never exceeds the gas limit it was initialised from (initRuntimeGasBudget splits GasLimit-intrinsic; charges only subtract, refunds repay at most what was spilled)",
	}, func(b *ssa.BinOp) string {
		// used - calcRefund(used): the refund is used/quotient capped (rule CONSTARG/C31.refund)
		if CallRes("(*core.stateTransition).calcRefund", Is(b.X))(b.Y) {
			return "the subtrahend is calcRefund(minuend) = min(minuend/quotient, counter) <= minuend (rule CONSTARG/C31.refund decides that shape)"
		}
		// gasLeft - (floorDataGas - gasUsed) under gasUsed < floorDataGas
		if d, ok := b.Y.(*ssa.BinOp); ok && d.Op == token.SUB && Param("floorDataGas")(d.X) {
			return "gasLeft+gasUsed equals the gas limit, and execute rejects GasLimit < floorDataGas before settlement (rule DOM/C31.floor), so gasLeft >= floorDataGas-gasUsed"
		}
		return ""
	})
	c.Rule("DOM/C31.floor")
	exq := c.Fn("core", "(*stateTransition).execute")
	c.Dom("limit-covers-floor", exq, c.Calls(exq, "(*core.stateTransition).settleGas"), "settleGas",
		GCond("!rules.IsPrague", exq, False(Fld("params.Rules.IsPrague"))),
		GCond("msg.GasLimit>=floorDataGas", exq, Cmp(Fld("core.Message.GasLimit"), token.GEQ, CallResN("core.FloorDataGas", 0))))
	c.Rule("GUARDSUB/C31")
	for _, fn := range []string{"(*Contract).refundGas", "(*Contract).refundState", "(*Contract).chargeExecution", "(*Contract).chargeState"} {
		if f := c.TryFn(vmp, fn); f != nil {
			n += c.GuardSub("contract", f, nil)
		}
	}
	c.Expect(20, n, "unsigned subtractions in gas accounting")

	// ---- the invariants the exemptions lean on ------------------------------------------------------
	c.Rule("DOM/C31.intrinsic")
	ex := c.Fn("core", "(*stateTransition).execute")
	init := c.Calls(ex, "(*core.stateTransition).initRuntimeGasBudget")
	c.Expect(1, len(init), "initRuntimeGasBudget call in execute")
	intr := func(v ssa.Value) bool { return len(init) == 1 && sameValue(v, callArgs(init[0].Instr.(*ssa.Call).Common())[1]) }
	c.Dom("limit-covers-intrinsic", ex, init, "initRuntimeGasBudget", GCond("msg.GasLimit>=intrinsicGas", ex, Cmp(Fld("core.Message.GasLimit"), token.GEQ, intr)))
	c.Dom("intrinsic-under-cap", ex, init, "initRuntimeGasBudget",
		GCond("!rules.IsAmsterdam", ex, False(Fld("params.Rules.IsAmsterdam"))),
		GCond("max(intrinsic,floor)<=MaxTxGas", ex, Cmp(func(v ssa.Value) bool {
			call, ok := v.(*ssa.Call)
			if !ok {
				return false
			}
			b, ok := call.Call.Value.(*ssa.Builtin)
			if !ok || b.Name() != "max" {
				return false
			}
			for _, a := range call.Call.Args {
				if intr(a) {
					return true
				}
			}
			return false
		}, token.LEQ, Any())))
	c.Rule("DOM/C31.pool")
	cg := c.Fn("core", "(*GasPool).ChargeGasAmsterdam")
	sts := cat(c.Stores(cg, "core.GasPool.cumulativeExecution"), c.Stores(cg, "core.GasPool.cumulativeState"))
	c.Expect(2, len(sts), "cumulative counter stores in ChargeGasAmsterdam")
	for _, s := range sts {
		v := s.Instr.(*ssa.Store).Val
		c.Dom("counters-bounded", cg, []Site{s}, "cumulative-store", GCond("initial>=max(exec,state)", cg, Cmp(Fld("core.GasPool.initial"), token.GEQ, func(m ssa.Value) bool {
			call, ok := m.(*ssa.Call)
			if !ok {
				return false
			}
			b, ok := call.Call.Value.(*ssa.Builtin)
			if !ok || b.Name() != "max" {
				return false
			}
			for _, a := range call.Call.Args {
				if sameValue(a, v) {
					return true
				}
			}
			return false
		})))
	}
	// the counters are written nowhere else
	c.WhoWrites("pool-writers", "core", map[string]map[string]string{
		"core.GasPool.cumulativeExecution": {"(*core.GasPool).ChargeGasAmsterdam": "bounded by the reject above", "(*core.GasPool).Set": "restores a snapshot taken from a valid pool"},
		"core.GasPool.cumulativeState":     {"(*core.GasPool).ChargeGasAmsterdam": "bounded by the reject above", "(*core.GasPool).Set": "restores a snapshot taken from a valid pool"},
		"core.GasPool.initial":             {"(*core.GasPool).Set": "restores a snapshot taken from a valid pool"},
	})

	// ---- charge succeeds exactly when CanAfford says so ---------------------------------------------------
	c.Rule("SIBLING/C31.afford")
	ch := c.Fn(vmp, "(*GasBudget).charge")
	ca := c.Fn(vmp, "(GasBudget).CanAfford")
	execLow := func(f *ssa.Function) Guard {
		return GCond("g.ExecutionGas>=cost.ExecutionGas", f, Cmp(Fld(vmp+".GasBudget.ExecutionGas"), token.GEQ, Fld(vmp+".GasCosts.ExecutionGas")))
	}
	// charge: every `return true` passes both affordability predicates
	chTrue := c.ReturnsWhere(ch, 0, ConstBool(true))
	c.Expect(1, len(chTrue), "successful return of charge")
	c.Dom("charge/exec-afforded", ch, chTrue, "return-true", execLow(ch))
	c.Dom("charge/spill-afforded", ch, chTrue, "return-true",
		GCond("cost.StateGas<=reservoir", ch, Cmp(Fld(vmp+".GasCosts.StateGas"), token.LEQ, Any())),
		GCond("spillover<=execution", ch, Cmp(func(v ssa.Value) bool {
			b, ok := v.(*ssa.BinOp)
			return ok && b.Op == token.SUB && Fld(vmp + ".GasCosts.StateGas")(b.X)
		}, token.LEQ, func(v ssa.Value) bool {
			b, ok := v.(*ssa.BinOp)
			return ok && b.Op == token.SUB && Fld(vmp + ".GasBudget.ExecutionGas")(b.X) && Fld(vmp + ".GasCosts.ExecutionGas")(b.Y)
		})))
	// CanAfford: returns true only behind the same first predicate, and its
	// computed answer is exactly the spill comparison
	for _, r := range c.Returns(ca) {
		v := retVal(r.Instr.(*ssa.Return), 0)
		if ConstBool(false)(v) {
			continue
		}
		c.Dom("canafford/exec-afforded", ca, []Site{r}, "return-maybe-true", execLow(ca))
		if !ConstBool(true)(v) {
			b, ok := v.(*ssa.BinOp)
			okShape := ok && b.Op == token.LEQ
			if okShape {
				l, lok := b.X.(*ssa.BinOp)
				rr, rok := b.Y.(*ssa.BinOp)
				okShape = lok && rok && l.Op == token.SUB && rr.Op == token.SUB &&
					Fld(vmp + ".GasCosts.StateGas")(l.X) && Fld(vmp + ".GasBudget.StateGas")(l.Y) &&
					Fld(vmp + ".GasBudget.ExecutionGas")(rr.X) && Fld(vmp + ".GasCosts.ExecutionGas")(rr.Y)
			}
			c.Check(okShape, "canafford/spill-predicate", r.Pos(), "CanAfford answers cost.StateGas-g.StateGas <= g.ExecutionGas-cost.ExecutionGas, the predicate charge rejects on",
				"CanAfford's computed answer is not the spill predicate that charge uses")
		} else {
			c.Dom("canafford/no-spill", ca, []Site{r}, "return-true", GCond("cost.StateGas<=g.StateGas", ca, Cmp(Fld(vmp+".GasCosts.StateGas"), token.LEQ, Fld(vmp+".GasBudget.StateGas"))))
		}
	}

	// ---- frame exits ----------------------------------------------------------------------------------------
	c.Rule("TABLE/C31.exit")
	exf := c.Fn(vmp, "(GasBudget).Exit")
	nilE := GCond("err==nil", exf, Cmp(Param("err"), token.EQL, Nil()))
	revE := GCond("err==ErrExecutionReverted", exf, Cmp(Param("err"), token.EQL, Global(vmp+".ErrExecutionReverted")))
	c.Dom("success-only-on-nil", exf, c.Calls(exf, "("+vmp+".GasBudget).ExitSuccess"), "ExitSuccess", nilE)
	c.Dom("revert-only-on-revert", exf, c.Calls(exf, "("+vmp+".GasBudget).ExitRevert"), "ExitRevert", revE)
	c.Each("halt-otherwise", exf, c.Calls(exf, "("+vmp+".GasBudget).ExitHalt"), "ExitHalt", func(s Site) (bool, string) {
		return true, "remaining arm"
	})
	for _, fn := range []string{"ExitRevert", "ExitHalt"} {
		f := c.Fn(vmp, "(GasBudget)."+fn)
		// the returned budget literal zeroes UsedStateGas and Spilled
		for _, fld := range []string{"UsedStateGas", "Spilled"} {
			sts := c.Stores(f, vmp+".GasBudget."+fld)
			c.Check(len(sts) == 1 && ConstInt(0)(sts[0].Instr.(*ssa.Store).Val), "exit/"+fn+"/"+fld, f.Pos(), fn+" hands back a budget with "+fld+"=0", fn+" does not reset "+fld)
		}
	}
	hl := c.Fn(vmp, "(GasBudget).ExitHalt")
	for _, s := range c.Stores(hl, vmp+".GasBudget.ExecutionGas") {
		c.Check(ConstInt(0)(s.Instr.(*ssa.Store).Val), "exit/ExitHalt/ExecutionGas", s.Pos(), "a halted frame returns no execution gas", "ExitHalt returns execution gas")
	}

	// ---- refund cap --------------------------------------------------------------------------------------------
	c.Rule("CONSTARG/C31.refund")
	cr := c.Fn("core", "(*stateTransition).calcRefund")
	var divs []Site
	eachInstr(cr, func(in ssa.Instruction) {
		if b, ok := in.(*ssa.BinOp); ok && b.Op == token.QUO {
			divs = append(divs, Site{cr, in})
		}
	})
	c.Expect(1, len(divs), "division in calcRefund")
	for _, d := range divs {
		b := d.Instr.(*ssa.BinOp)
		phi, ok := b.Y.(*ssa.Phi)
		okQ := ok && Param("gasUsedBeforeRefund")(b.X)
		if okQ {
			vals := map[string]bool{}
			for _, e := range phi.Edges {
				if k, isK := e.(*ssa.Const); isK {
					vals[k.Value.ExactString()] = true
				}
			}
			okQ = vals["2"] && vals["5"] && len(vals) == 2
		}
		c.Check(okQ, "quotient", d.Pos(), "refund = used / {2 pre-London, 5 London}", "refund quotient is not the fork's constant (2 or 5) applied to the pre-refund usage")
	}
	for _, r := range c.Returns(cr) {
		// the result is min(used/quotient, state refund counter)
		v := retVal(r.Instr.(*ssa.Return), 0)
		phi, ok := v.(*ssa.Phi)
		okCap := false
		if ok {
			hasDiv, hasCounter := false, false
			for _, e := range phi.Edges {
				if b, isB := e.(*ssa.BinOp); isB && b.Op == token.QUO {
					hasDiv = true
				}
				if CallRes("(*core/state.StateDB).GetRefund|(core/vm.StateDB).GetRefund")(e) {
					hasCounter = true
				}
			}
			okCap = hasDiv && hasCounter
		}
		c.Check(okCap, "capped", r.Pos(), "refund is capped by the state's refund counter", "refund is not capped by the state's refund counter")
	}
}
