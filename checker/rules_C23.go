package main

import (
	"go/token"
	"strings"

	"golang.org/x/tools/go/ssa"
)

func init() {
	Register(&Prop{
		ID:   "C23",
		Pkgs: []string{"ethdb/memorydb", "ethdb/pebble", "ethdb/leveldb", "core/rawdb"},
		Decided: "the in-memory backend touches its map only under its lock (writes under the write lock), rejects use after Close before touching the map, and applies a batch inside one critical section (no unlock inside Write); every backend's Replay forwards all three operation kinds its batch can record (put, delete, range delete) and reports a writer that cannot range-delete; the prefixed table view and its batch forward every key-bearing operation with the prefix applied to every key argument (both ends of a range delete), and its replayer strips it again.",
		NotDec: "observational equivalence of the three backends over arbitrary operation sequences and iterator positions (value-level).",
		Rules:  "LOCKSET on memorydb.Database; DOM closed-check per map access; TABLE of operation kinds recorded vs replayed per backend; ARG prefix application per forwarding call in core/rawdb/table.go",
		MinObs: 75,
		Run:    c23,
	})
}

func c23(c *Ctx) {
	m := "ethdb/memorydb"
	c.Lockset(LockSpec{Name: "C23.mem", Pkg: m, Mutex: m + ".Database.lock", RW: true, Fields: []string{m + ".Database.db"},
		Exempt: map[string]string{m + ".New": "constructor", m + ".NewWithCap": "constructor"}, MinSites: 12})

	c.Rule("DOM/C23.closed")
	n := 0
	for _, f := range c.AllFuncs(m) {
		var acc []Site
		eachInstr(f, func(in ssa.Instruction) {
			switch x := in.(type) {
			case *ssa.Lookup:
				if Fld(m + ".Database.db")(x.X) {
					acc = append(acc, Site{f, in})
				}
			case *ssa.MapUpdate:
				if Fld(m + ".Database.db")(x.Map) {
					acc = append(acc, Site{f, in})
				}
			case *ssa.Range:
				if Fld(m + ".Database.db")(x.X) {
					acc = append(acc, Site{f, in})
				}
			case *ssa.Call:
				if b, ok := x.Call.Value.(*ssa.Builtin); ok && b.Name() == "delete" && Fld(m+".Database.db")(x.Call.Args[0]) {
					acc = append(acc, Site{f, in})
				}
			}
		})
		if len(acc) == 0 || strings.HasSuffix(fnName(f), ".Len") || strings.HasSuffix(fnName(f), ".NewIterator") { // read-only over a possibly nil map: yields nothing after Close
			continue
		}
		n += len(acc)
		c.Dom("open", f, acc, "map access", GCond("db.db!=nil", f, Cmp(Fld(m+".Database.db"), token.NEQ, Nil())))
	}
	c.Sites += n
	c.Expect(8, n, "map accesses in memorydb")
	// Write applies the whole batch in one critical section
	w := c.Fn(m, "(*batch).Write")
	unl := c.CallsK(w, "(*sync.RWMutex).Unlock", kCall)
	c.Check(len(unl) == 0 && len(c.CallsK(w, "(*sync.RWMutex).Unlock", kDefer)) == 1, "atomic-write", w.Pos(), "batch.Write holds the write lock from entry to return (single deferred Unlock)", "batch.Write releases the lock before the whole batch is applied")

	// ---- operation kinds: recorded vs replayed ---------------------------------------------------------
	c.Rule("TABLE/C23.replay")
	type be struct{ pkg, replay string }
	for _, b := range []be{{m, "(*batch).Replay"}, {"ethdb/pebble", "(*batch).Replay"}} {
		f := c.Fn(b.pkg, b.replay)
		for _, op := range []string{"(ethdb.KeyValueWriter).Put", "(ethdb.KeyValueWriter).Delete", "(ethdb.KeyValueRangeDeleter).DeleteRange"} {
			calls := c.Calls(f, op)
			c.Check(len(calls) >= 1, "replays/"+b.pkg+"/"+op[strings.LastIndex(op, ".")+1:], f.Pos(), "Replay forwards "+op, "Replay of "+b.pkg+" never forwards "+op+" although its batch can record that operation")
			c.ErrUsed("replay-err/"+b.pkg, f, calls, op[strings.LastIndex(op, ".")+1:])
		}
		// the batch type records all three
		for _, meth := range []string{"Put", "Delete", "DeleteRange"} {
			c.Check(c.TryFn(b.pkg, "(*batch)."+meth) != nil, "records/"+b.pkg+"/"+meth, f.Pos(), "batch."+meth+" exists", "batch."+meth+" missing")
		}
	}
	// leveldb replays through its replayer adapter
	for _, mth := range [][2]string{{"Put", "(ethdb.KeyValueWriter).Put"}, {"Delete", "(ethdb.KeyValueWriter).Delete"}, {"DeleteRange", "(ethdb.KeyValueRangeDeleter).DeleteRange"}} {
		f := c.Fn("ethdb/leveldb", "(*replayer)."+mth[0])
		calls := c.Calls(f, mth[1])
		c.Check(len(calls) == 1, "replays/ethdb/leveldb/"+mth[0], f.Pos(), "replayer."+mth[0]+" forwards to the writer", "leveldb replayer."+mth[0]+" does not forward")
		// the failure is remembered
		for _, s := range calls {
			kept := false
			for _, st := range c.Stores(f, "ethdb/leveldb.replayer.failure") {
				if errValues(s.Instr.(*ssa.Call))[st.Instr.(*ssa.Store).Val] {
					kept = true
				}
			}
			c.Check(kept, "replay-err/ethdb/leveldb/"+mth[0], s.Pos(), "the writer's error is kept in r.failure", "leveldb replayer drops the writer's error")
		}
	}

	// ---- prefixed table forwards with the prefix on every key ---------------------------------------------
	c.Rule("TABLE/C23.table")
	rd := "core/rawdb"
	prefixed := func(pfxField string) VPat {
		return func(v ssa.Value) bool {
			// append([]byte(prefix), key...)
			call, ok := v.(*ssa.Call)
			if !ok {
				return false
			}
			b, ok := call.Call.Value.(*ssa.Builtin)
			return ok && b.Name() == "append" && Mentions(Fld(pfxField))(call.Call.Args[0])
		}
	}
	type fw struct {
		recv, fn, callee string
		keyArgs          []int
		pfx              string
	}
	for _, x := range []fw{
		{"table", "Has", "(ethdb.KeyValueReader).Has", []int{0}, rd + ".table.prefix"},
		{"table", "Get", "(ethdb.KeyValueReader).Get", []int{0}, rd + ".table.prefix"},
		{"table", "Put", "(ethdb.KeyValueWriter).Put", []int{0}, rd + ".table.prefix"},
		{"table", "Delete", "(ethdb.KeyValueWriter).Delete", []int{0}, rd + ".table.prefix"},
		{"table", "DeleteRange", "(ethdb.KeyValueRangeDeleter).DeleteRange", []int{0, 1}, rd + ".table.prefix"},
		{"table", "NewIterator", "(ethdb.Iteratee).NewIterator", []int{0}, rd + ".table.prefix"},
		{"tableBatch", "Put", "(ethdb.KeyValueWriter).Put", []int{0}, rd + ".tableBatch.prefix"},
		{"tableBatch", "Delete", "(ethdb.KeyValueWriter).Delete", []int{0}, rd + ".tableBatch.prefix"},
		{"tableBatch", "DeleteRange", "(ethdb.KeyValueRangeDeleter).DeleteRange", []int{0, 1}, rd + ".tableBatch.prefix"},
	} {
		f := c.Fn(rd, "(*"+x.recv+")."+x.fn)
		calls := c.Calls(f, x.callee)
		c.Check(len(calls) == 1, "forwards/"+x.recv+"."+x.fn, f.Pos(), "forwards to the underlying store", x.recv+"."+x.fn+" does not forward to the underlying store exactly once")
		for _, i := range x.keyArgs {
			c.ArgIs("prefixed/"+x.recv+"."+x.fn, f, calls, x.fn, i, prefixed(x.pfx), "prefix+key")
		}
	}
	for _, mth := range []string{"Put", "Delete"} {
		f := c.Fn(rd, "(*tableReplayer)."+mth)
		calls := c.Calls(f, "(ethdb.KeyValueWriter)."+mth)
		c.ArgIs("stripped", f, calls, "replayer."+mth, 0, func(v ssa.Value) bool {
			sl, ok := v.(*ssa.Slice)
			return ok && sl.Low != nil && Len(Fld(rd + ".tableReplayer.prefix"))(sl.Low) && Param("key")(sl.X)
		}, "key[len(prefix):]")
	}
}
