package main

import (
	"go/token"
	"strings"

	"golang.org/x/tools/go/ssa"
)

func init() {
	Register(&Prop{
		ID:   "C07",
		Pkgs: []string{"trie"},
		Decided: "previous values reach the node set from the tracer that recorded them and under the very path they belong to (both deletion loops of Commit, and committer.store for stored and for embedded nodes); an embedded node emits a deletion only when something was stored at its path before; only paths whose previous value was recorded are reported deleted; insert/delete are the only callers of the operation tracer; Commit marks the trie committed on every exit and hands the committer the prevalue tracer and the node set it returns; the committer short-cuts only clean cached nodes, commits a branch's children before storing it, and its sequential and parallel arms commit exactly the same children (every non-nil, non-hash child) and write the result back to the same slot; stored nodes are entered under the hash cached by hashing.",
		NotDec: "exactness of the emitted node set (no stale, none missing) and equality with the streaming builder's nodes as value-level facts over operation sequences.",
		Rules:  "SAMEVAL prev-value path pairing; WHO tracer callers; DOM committed; SIBLING sequential vs parallel commit arms; ORDER children≺store",
		MinObs: 32,
		Run:    c07,
	})
}

func c07(c *Ctx) {
	T := "trie.Trie."
	c.Rule("SAMEVAL/C07.prev")
	if cm := c.Fn("trie", "(*Trie).Commit"); cm != nil {
		adds := c.Calls(cm, "(*trie/trienode.NodeSet).AddNode")
		c.Expect(2, len(adds), "deletion records added by Commit")
		for _, s := range adds {
			a := s.Instr.(*ssa.Call).Call.Args
			okPrev := false
			if nd, ok := a[2].(*ssa.Call); ok && calleeName(&nd.Call) == "trie/trienode.NewDeletedWithPrev" {
				if g, ok := nd.Call.Args[0].(*ssa.Call); ok && calleeName(&g.Call) == "(*trie.PrevalueTracer).Get" {
					okPrev = sameValue(g.Call.Args[1], a[1]) && Fld(T + "prevalueTracer")(g.Call.Args[0])
				}
			}
			c.Check(okPrev, "deleted-prev/"+fnName(cm), s.Pos(), "a deleted path carries the previous value recorded for that same path", "a deletion record's previous value is not the tracer's value for the path it is recorded under")
			h := innermostLoopHeader(cm, s.Instr.Block())
			okSrc := false
			if h != nil {
				if x := loopRangedSlice(h); x != nil && CallRes("(*trie.Trie).deletedNodes")(x) {
					okSrc = true
				}
			}
			c.Check(okSrc, "deleted-source/"+fnName(cm), s.Pos(), "the deleted paths come from deletedNodes()", "deletion records are not generated from deletedNodes()")
		}
		nc := c.Calls(cm, "trie.newCommitter")
		c.ArgIs("committer-tracer", cm, nc, "newCommitter(tracer)", 1, Fld(T+"prevalueTracer"), "the trie's prevalue tracer")
		for _, r := range c.Returns(cm) {
			if r.Instr.Block() == cm.Recover {
				continue
			}
			v := retVal(r.Instr.(*ssa.Return), 1)
			if Nil()(v) {
				continue
			}
			c.Check(CallRes("trie/trienode.NewNodeSet")(v), "returns-set/"+fnName(cm), r.Pos(), "the node set returned is the one that was filled", "Commit returns a node set other than the one it filled")
		}
		for _, s := range nc {
			c.Check(CallRes("trie/trienode.NewNodeSet")(s.Instr.(*ssa.Call).Call.Args[0]), "committer-set/"+fnName(cm), s.Pos(), "the committer fills the returned node set", "the committer fills a different node set")
		}
		// committed on every exit
		var df []Site
		eachInstr(cm, func(in ssa.Instruction) {
			if d, ok := in.(*ssa.Defer); ok {
				if mc, ok := d.Call.Value.(*ssa.MakeClosure); ok {
					if fn := mc.Fn.(*ssa.Function); len(c.Stores(fn, T+"committed")) == 1 {
						df = append(df, Site{cm, in})
					}
				}
			}
		})
		c.Check(len(df) == 1 && df[0].Instr.Block() == cm.Blocks[0], "committed-flag/"+fnName(cm), cm.Pos(), "the trie is marked committed on every exit", "Commit does not mark the trie committed on every exit")
		// hashed before committing
		c.Dom("hashed-first", cm, nc, "newCommitter", GCall("t.Hash()", c.Calls(cm, "(*trie.Trie).Hash")))
	}
	if dn := c.Fn("trie", "(*Trie).deletedNodes"); dn != nil {
		hl := c.Calls(dn, "(*trie.PrevalueTracer).HasList")
		dl := c.Calls(dn, "(*trie.opTracer).deletedList")
		c.Check(len(hl) == 1 && len(dl) == 1, "filter/"+fnName(dn), dn.Pos(), "deleted paths are filtered by what was loaded from the database", "deletedNodes does not filter the operation tracer's list by recorded previous values")
		if len(hl) == 1 && len(dl) == 1 {
			c.Check(hl[0].Instr.(*ssa.Call).Call.Args[1] == dl[0].Instr.(ssa.Value), "filter-same-list/"+fnName(dn), hl[0].Pos(), "the flags belong to the same list", "the presence flags are computed for a different list")
		}
	}
	if st := c.Fn("trie", "(*committer).store"); st != nil {
		adds := c.Calls(st, "(*trie/trienode.NodeSet).AddNode")
		c.Expect(2, len(adds), "node records added by store")
		for _, s := range adds {
			a := s.Instr.(*ssa.Call).Call.Args
			c.Check(Param("path")(a[1]), "path/"+fnName(st), s.Pos(), "the record is stored under the node's own path", "a node record is stored under a different path")
			nd, _ := a[2].(*ssa.Call)
			okPrev := false
			if nd != nil {
				prev := nd.Call.Args[len(nd.Call.Args)-1]
				if g, ok := prev.(*ssa.Call); ok && calleeName(&g.Call) == "(*trie.PrevalueTracer).Get" {
					okPrev = Param("path")(g.Call.Args[1]) && Fld("trie.committer.tracer")(g.Call.Args[0])
				}
			}
			c.Check(okPrev, "prev/"+fnName(st), s.Pos(), "the previous value is the tracer's value for the same path", "a node record's previous value is not the tracer's value for its own path")
			if nd != nil && calleeName(&nd.Call) == "trie/trienode.NewDeletedWithPrev" {
				c.Dom("SAMEVAL/C07.prev/embedded", st, []Site{s}, "deletion of an embedded node's old copy",
					GCond("no hash (embedded)", st, Cmp(Any(), token.EQL, Nil())).Then(GCond("len(origin) != 0", st, Cmp(Len(CallRes("(*trie.PrevalueTracer).Get")), token.NEQ, ConstInt(0)))))
			}
			if nd != nil && calleeName(&nd.Call) == "trie/trienode.NewNodeWithPrev" {
				c.Check(CallRes("common.BytesToHash")(nd.Call.Args[0]) && CallRes("trie.nodeToBytes", Param("n"))(nd.Call.Args[1]), "stored-under-hash/"+fnName(st), s.Pos(), "the node's encoding is stored under its cached hash", "a dirty node is not recorded as (cached hash, its own encoding)")
			}
		}
	}
	c.Rule("WHO/C07.tracer")
	nt := 0
	for _, f := range c.AllFuncs("trie") {
		for _, s := range cat(c.Calls(f, "(*trie.opTracer).onInsert"), c.Calls(f, "(*trie.opTracer).onDelete")) {
			nt++
			n := fnName(f)
			c.Funcs[f] = true
			c.Check(n == "(*trie.Trie).insert" || n == "(*trie.Trie).delete", "caller/"+n, s.Pos(), "structural changes are recorded by insert/delete", n+" records insertions/deletions in the operation tracer outside insert/delete")
		}
	}
	c.Expect(5, nt, "operation tracer calls")

	// ---- committer arms -------------------------------------------------------------------------------
	c.Rule("SIBLING/C07.arms")
	if cc := c.Fn("trie", "(*committer).commitChildren"); cc != nil {
		c.Funcs[cc] = true
		seqC := c.Calls(cc, "(*trie.committer).commit")
		var gos []Site
		eachInstr(cc, func(in ssa.Instruction) {
			if _, ok := in.(*ssa.Go); ok {
				gos = append(gos, Site{cc, in})
			}
		})
		if c.Check(len(seqC) == 1 && len(gos) == 1, "arms/"+fnName(cc), cc.Pos(), "one sequential commit and one parallel spawn", "commitChildren lost its sequential or parallel arm") {
			// the parallel arm is taken exactly when the sequential is not: from the `parallel` test both outcomes commit the child
			par := EdgesWhere(cc, True(Param("parallel")))
			seq := EdgesWhere(cc, False(Param("parallel")))
			var loopTest *ssa.If
			for e := range par {
				if iff, ok := e.From.Instrs[len(e.From.Instrs)-1].(*ssa.If); ok && innermostLoopHeader(cc, e.From) != nil {
					loopTest = iff
				}
			}
			if c.Check(loopTest != nil, "arm-test/"+fnName(cc), cc.Pos(), "the arms split on `parallel` inside the child loop", "the sequential/parallel split inside the child loop was not found") {
				blk := loopTest.Block()
				for e := range par {
					if e.From != blk {
						continue
					}
					first := e.From.Succs[e.Succ].Instrs[0]
					stop := sitesToSet(gos)
					// every path from the parallel edge reaches the spawn before the next iteration
					hdr := innermostLoopHeader(cc, blk)
					tgt := map[ssa.Instruction]bool{hdr.Instrs[0]: true}
					hit := ReachesBefore(first, stop, nil, tgt)
					if first == gos[0].Instr {
						hit = nil
					}
					c.Check(hit == nil, "parallel-commits-all/"+fnName(cc), loopTest.Pos(), "in parallel mode every child that reaches the split is committed by a worker", "the parallel arm skips children that the sequential arm commits: their subtree is not collapsed/recorded the same way in the two modes")
				}
				for e := range seq {
					if e.From != blk {
						continue
					}
					first := e.From.Succs[e.Succ].Instrs[0]
					hdr := innermostLoopHeader(cc, blk)
					hit := ReachesBefore(first, sitesToSet(seqC), nil, map[ssa.Instruction]bool{hdr.Instrs[0]: true})
					c.Check(hit == nil || instrDominates(first, seqC[0].Instr) && first.Block() == seqC[0].Instr.Block(), "sequential-commits-all/"+fnName(cc), loopTest.Pos(), "in sequential mode every child that reaches the split is committed", "the sequential arm skips children")
				}
			}
			// children reaching the split: non-nil and not already a hash
			c.Dom("skip-nil", cc, []Site{{cc, loopTest}}, "commit of a child", GCond("child != nil", cc, Cmp(Any(), token.NEQ, Nil())))
			// result written back to the same slot in both arms
			for _, s := range seqC {
				okSlot := false
				for _, r := range *s.Instr.(*ssa.Call).Referrers() {
					if st, ok := r.(*ssa.Store); ok {
						if ia, ok := st.Addr.(*ssa.IndexAddr); ok && Fld("trie.fullNode.Children")(ia.X) || ok && strings.Contains(ia.X.Type().String(), "node") {
							okSlot = true
						}
					}
				}
				c.Check(okSlot, "write-back/"+fnName(cc), s.Pos(), "the committed child replaces the child in its slot", "the committed child is not written back to its slot")
			}
		}
	}
	c.Rule("ORDER/C07.commit")
	if cf := c.Fn("trie", "(*committer).commit"); cf != nil {
		st := c.Calls(cf, "(*trie.committer).store")
		cch := c.Calls(cf, "(*trie.committer).commitChildren")
		c.Expect(2, len(st), "store calls in commit")
		// the branch arm stores after its children were committed
		for _, s := range st {
			a := s.Instr.(*ssa.Call).Call.Args
			if _, isFull := a[2].Type().(interface{ Elem() interface{} }); isFull {
				_ = isFull
			}
		}
		okOrder := false
		for _, s := range st {
			for _, ch := range cch {
				if instrDominates(ch.Instr, s.Instr) {
					okOrder = true
				}
			}
		}
		c.Check(okOrder && len(cch) == 1, "children-first/"+fnName(cf), cf.Pos(), "a branch is stored after its children were committed", "a branch is stored before its children are committed")
		// clean nodes short-cut
		var early []Site
		for _, r := range c.Returns(cf) {
			if r.Instr.Block() == cf.Blocks[0] || len(r.Instr.Block().Preds) == 1 && r.Instr.Block().Preds[0] == cf.Blocks[0] {
				early = append(early, r)
			}
		}
		c.Dom("clean-shortcut", cf, cat(st, cch), "store / child commit", GCond("hash == nil || dirty", cf, Cmp(Any(), token.EQL, Nil())), GCond("dirty", cf, True(func(v ssa.Value) bool {
			e, ok := v.(*ssa.Extract)
			return ok && e.Index == 1
		})))
	}
}
