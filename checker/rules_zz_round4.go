package main

import (
	"go/token"
	"strings"

	"golang.org/x/tools/go/ssa"
)

// Rules added during the fourth round of seeded changes (seeded/<id>-r4).

func callsOnValue(c *Ctx, f *ssa.Function, recv VPat, names ...string) []Site {
	var out []Site
	eachInstr(f, func(in ssa.Instruction) {
		call, ok := in.(*ssa.Call)
		if !ok || call.Call.IsInvoke() || len(call.Call.Args) == 0 {
			return
		}
		cal := call.Call.StaticCallee()
		if cal == nil || cal.Signature.Recv() == nil || !recv(call.Call.Args[0]) {
			return
		}
		for _, n := range names {
			if cal.Name() == n {
				out = append(out, Site{f, in})
			}
		}
	})
	return out
}

func init() {
	extendProp("C01", "Integer decoders always overwrite their target: every successful return of ReadUint256 (and of decodeBigInt) lies behind a Set… call on the destination, so decoding a zero into a reused value yields zero, not the value's previous content.", nil, func(c *Ctx) {
		c.Rule("DOM/C01.overwrite")
		for _, x := range []struct{ fn, param string }{{"(*Stream).ReadUint256", "dst"}, {"(*Stream).decodeBigInt", "dst"}} {
			f := c.TryFn("rlp", x.fn)
			if f == nil {
				continue
			}
			sets := callsOnValue(c, f, Param(x.param), "SetBytes", "SetUint64", "Clear", "SetBytes32", "Set", "SetInt64", "SetBits")
			c.Dom("target-written/"+x.fn, f, c.SuccessReturns(f), "successful decode", GSites(x.param+".Set…(…)", sets))
		}
	})

	extendProp("C03", "A sender is cached only when recovery succeeded: in types.Sender the store into the transaction's sender cache lies behind the error of signer.Sender being nil, so a rejected transaction is rejected again on every later call.", nil, func(c *Ctx) {
		c.Rule("DOM/C03.cache")
		ct := "core/types"
		f := c.Fn(ct, "Sender")
		if f == nil {
			return
		}
		var stores []Site
		eachInstr(f, func(in ssa.Instruction) {
			call, ok := in.(*ssa.Call)
			if !ok || len(call.Call.Args) == 0 {
				return
			}
			if cal := call.Call.StaticCallee(); cal != nil && cal.Name() == "Store" {
				if fa, ok := call.Call.Args[0].(*ssa.FieldAddr); ok && fieldAddrName(fa) == ct+".Transaction.from" {
					stores = append(stores, Site{f, in})
				}
			}
		})
		c.Expect(1, len(stores), "sender cache store in types.Sender")
		c.Dom("only-on-success", f, stores, "sender cached", GErrChecked("signer.Sender(tx)", c.Calls(f, "(core/types.Signer).Sender")))
	})

	extendProp("C04", "Restoring a marshalled state restores all of it: every successful return of UnmarshalBinary lies behind stores of the buffer index and of the sponge direction (and the copy of the state bytes), so a snapshot taken while squeezing continues squeezing.", nil, func(c *Ctx) {
		c.Rule("DOM/C04.unmarshal")
		k := "crypto/keccak"
		f := c.Fn(k, "(*state).UnmarshalBinary")
		if f == nil {
			return
		}
		succ := c.SuccessReturns(f)
		for _, fld := range []string{"n", "state"} {
			c.Dom("restored/"+fld, f, succ, "state accepted", GSites("d."+fld+" = …", c.Stores(f, k+".state."+fld)))
		}
		var copies []Site
		eachInstr(f, func(in ssa.Instruction) {
			if call, ok := in.(*ssa.Call); ok {
				if b, ok := call.Call.Value.(*ssa.Builtin); ok && b.Name() == "copy" {
					copies = append(copies, Site{f, in})
				}
			}
		})
		c.Dom("restored/a", f, succ, "state accepted", GSites("copy(d.a[:], b)", copies))
	})

	extendProp("C05", "The gnark pairing glue keeps the two argument lists aligned: getInnerG1s/getInnerG2s drop an entry only for being nil — every non-nil point is appended — so a pair with one point at infinity is not split.", []string{"crypto/bn256/gnark"}, func(c *Ctx) {
		c.Rule("LOOPALL/C05.pairs")
		g := "crypto/bn256/gnark"
		n := 0
		for _, fn := range []string{"getInnerG1s", "getInnerG2s"} {
			f := c.TryFn(g, fn)
			if f == nil {
				continue
			}
			n++
			c.Funcs[f] = true
			var apps []Site
			eachInstr(f, func(in ssa.Instruction) {
				if call, ok := in.(*ssa.Call); ok {
					if b, ok := call.Call.Value.(*ssa.Builtin); ok && b.Name() == "append" {
						apps = append(apps, Site{f, in})
					}
				}
			})
			var targets []Site
			nilE := EdgesWhere(f, Cmp(Any(), token.EQL, Nil()))
			for _, b := range f.Blocks {
				for _, h := range b.Succs {
					if h.Dominates(b) && h != b { // back edge b -> h
						skip := false
						for i, sc := range b.Succs {
							if sc == h && nilE[Edge{b, i}] {
								skip = true
							}
						}
						if !skip {
							targets = append(targets, Site{f, b.Instrs[len(b.Instrs)-1]})
						}
					}
				}
			}
			c.Dom("non-nil-kept/"+fn, f, targets, "end of one iteration", GSites("append(out, point)", apps), Guard{Desc: "ptr == nil", Steps: []Step{{Edges: nilE}}, Sites: len(nilE)})
		}
		c.Expect(2, n, "gnark pairing argument converters")
	})

	extendProp("C06", "The streaming builder owns the values it keeps: in StackTrie.update the caller's value slice is only copied (copy/append/len), never stored or handed on, so reusing the slice after Update cannot change an unhashed leaf.", nil, func(c *Ctx) {
		c.Rule("ALIAS/C06.stackvalue")
		f := c.TryFn("trie", "(*StackTrie).update")
		if f == nil {
			f = c.Fn("trie", "(*StackTrie).Update")
		}
		if f == nil {
			return
		}
		c.Funcs[f] = true
		var val *ssa.Parameter
		for _, p := range f.Params {
			if p.Name() == "value" {
				val = p
			}
		}
		if val == nil {
			c.Undecided("value-param", f.Pos(), "no `value` parameter in "+fnName(f))
			return
		}
		bad := ""
		var walk func(v ssa.Value, d int)
		seen := map[ssa.Value]bool{}
		walk = func(v ssa.Value, d int) {
			if seen[v] || d > 6 {
				return
			}
			seen[v] = true
			for _, r := range *v.Referrers() {
				switch x := r.(type) {
				case *ssa.Call:
					if b, ok := x.Call.Value.(*ssa.Builtin); ok && (b.Name() == "copy" || b.Name() == "len" || b.Name() == "append" || b.Name() == "cap") {
						if b.Name() == "append" && x.Call.Args[0] == v {
							bad = "appended to (result shares the caller's array)"
						}
						continue
					}
					if nm := calleeName(&x.Call); nm == "common.CopyBytes" || nm == "bytes.Clone" || nm == "slices.Clone" {
						continue // copying helpers
					}
					bad = "passed to " + calleeName(&x.Call)
				case *ssa.Slice:
					walk(x, d+1)
				case *ssa.Phi:
					bad = "merged into a value that is kept"
				case *ssa.Store:
					if x.Val == v {
						bad = "stored"
					}
				case *ssa.BinOp, *ssa.If, *ssa.DebugRef:
				}
			}
		}
		walk(val, 0)
		c.Check(bad == "", "value-copied/"+fnName(f), f.Pos(), "the value is only read through copy/append/len", "the caller's value slice is "+bad+" without a copy: the leaf keeps a reference to memory the caller may reuse before the leaf is hashed (DeriveSha re-encodes every item into one shared buffer)")
	})

	extendProp("C07", "Merging node sets keeps the previous values of both: in NodeSet.MergeDisjoint every maps.Copy copies from the other set's field into the receiver's same field.", []string{"trie/trienode"}, func(c *Ctx) {
		c.Rule("SAMEVAL/C07.merge")
		tn := "trie/trienode"
		f := c.Fn(tn, "(*NodeSet).MergeDisjoint")
		if f == nil {
			return
		}
		c.Funcs[f] = true
		fieldOn := func(v ssa.Value, param string) string {
			u, ok := v.(*ssa.UnOp)
			if !ok {
				return ""
			}
			fa, ok := u.X.(*ssa.FieldAddr)
			if !ok || !Param(param)(fa.X) {
				return ""
			}
			return fieldAddrName(fa)
		}
		n := 0
		eachInstr(f, func(in ssa.Instruction) {
			call, ok := in.(*ssa.Call)
			if !ok || !strings.HasPrefix(calleeName(&call.Call), "maps.Copy") {
				return
			}
			n++
			dst, src := fieldOn(call.Call.Args[0], "set"), fieldOn(call.Call.Args[1], "other")
			c.Check(dst != "" && dst == src, "into-receiver/"+fnName(f), in.Pos(), "copies other."+dst[strings.LastIndex(dst, ".")+1:]+" into the receiver", "maps.Copy in MergeDisjoint does not copy from the other set into the receiver's same field: the merged set loses the other set's entries (previous values of the nodes committed by the parallel children)")
		})
		c.Expect(2, n, "maps.Copy calls in MergeDisjoint")
	})

	extendProp("C09", "Whether entries lie to the right of a forking short node is decided on the whole remaining key: hasRightElement returns bytes.Compare(rn.Key, key[pos:]) > 0 there, not a comparison of single nibbles.", nil, func(c *Ctx) {
		c.Rule("SAMEVAL/C09.rightfork")
		f := c.Fn("trie", "hasRightElement")
		if f == nil {
			return
		}
		c.Funcs[f] = true
		ok := false
		for _, s := range c.Calls(f, "bytes.Compare") {
			a := s.Instr.(*ssa.Call).Call.Args
			u, isLoad := a[0].(*ssa.UnOp)
			if !isLoad {
				continue
			}
			fa, isFA := u.X.(*ssa.FieldAddr)
			if !isFA || fieldAddrName(fa) != "trie.shortNode.Key" {
				continue
			}
			if _, isSlice := a[1].(*ssa.Slice); !isSlice {
				continue
			}
			for _, r := range c.Returns(f) {
				if b, isB := retVal(r.Instr.(*ssa.Return), 0).(*ssa.BinOp); isB && b.Op == token.GTR && b.X == ssa.Value(s.Instr.(*ssa.Call)) && constIs(b.Y, 0) {
					ok = true
				}
			}
		}
		c.Check(ok, "full-compare/"+fnName(f), f.Pos(), "the forking short node is compared with the whole remaining key", "hasRightElement no longer decides a forking short node by bytes.Compare(rn.Key, key[pos:]) > 0: a node sharing its first nibble with the path but sorting after it is not seen, and an empty run before the right-most entry is accepted")
	})

	extendProp("C10", "Nibble paths convert back to bytes only when they are whole: hexToKeybytes recognises the terminator by value (hasTerm) and refuses (panics on) an odd number of nibbles instead of dropping one.", nil, func(c *Ctx) {
		c.Rule("SHAPE/C10.keybytes")
		f := c.Fn("trie", "hexToKeybytes")
		if f == nil {
			return
		}
		c.Funcs[f] = true
		panics := 0
		eachInstr(f, func(in ssa.Instruction) {
			if _, ok := in.(*ssa.Panic); ok {
				panics++
			}
		})
		c.Check(len(c.Calls(f, "trie.hasTerm")) == 1, "terminator-by-value/"+fnName(f), f.Pos(), "the terminator is recognised by hasTerm", "hexToKeybytes no longer recognises the terminator by value: it decides by the parity of the length, so [1,16] keeps the terminator as data and [1,2,3] loses a nibble")
		c.Check(panics >= 1, "odd-refused/"+fnName(f), f.Pos(), "an odd number of nibbles is refused", "hexToKeybytes no longer refuses an odd number of nibbles")
	})

	extendProp("C11", "Cancellation is always reported: in generatePartition every wait on the cancel channel / context whose cancel arm is taken leads to a return with an error (and any helper returning such an error has its result tested), so a cancelled run can never report success with dangling storage left.", nil, func(c *Ctx) {
		c.Rule("DOM/C11.cancel")
		f := c.Fn("triedb", "generatePartition")
		if f == nil {
			return
		}
		c.Funcs[f] = true
		n := 0
		eachInstr(f, func(in ssa.Instruction) {
			sel, ok := in.(*ssa.Select)
			if !ok {
				return
			}
			n++
			// every non-default case of the select is a cancellation: the block taken for it returns an error
			for _, r := range *sel.Referrers() {
				ex, ok := r.(*ssa.Extract)
				if !ok || ex.Index != 0 {
					continue
				}
				for _, r2 := range *ex.Referrers() {
					b, ok := r2.(*ssa.BinOp)
					if !ok || b.Op != token.EQL {
						continue
					}
					for _, r3 := range *b.Referrers() {
						iff, ok := r3.(*ssa.If)
						if !ok {
							continue
						}
						tb := iff.Block().Succs[0]
						ret, isRet := tb.Instrs[len(tb.Instrs)-1].(*ssa.Return)
						good := isRet && len(ret.Results) >= 2 && !Nil()(retVal(ret, len(ret.Results)-1))
						c.Check(good, "cancel-returns-error/"+fnName(f), iff.Pos(), "the cancel arm returns an error", "a cancel arm of a select in generatePartition does not return an error")
					}
				}
			}
		})
		// helpers that report cancellation must have their result tested
		for _, g := range c.AllFuncs("triedb") {
			if g == f || g.Signature.Results().Len() != 1 || g.Signature.Results().At(0).Type().String() != "error" {
				continue
			}
			hasSel := false
			eachInstr(g, func(in ssa.Instruction) {
				if _, ok := in.(*ssa.Select); ok {
					hasSel = true
				}
			})
			if !hasSel {
				continue
			}
			for _, s := range c.Calls(f, fnName(g)) {
				n++
				c.Check(ErrCheckedSite(s) && len(EdgesWhere(f, Cmp(Is(s.Instr.(*ssa.Call)), token.NEQ, Nil()))) > 0 && returnsOnErr(f, s.Instr.(*ssa.Call)), "cancel-helper-tested/"+fnName(f), s.Pos(), "the cancellation helper's error is returned", "generatePartition calls the cancellation helper "+fnName(g)+" without returning its error: the loop merely ends and the partition reports success")
			}
		}
		c.Expect(3, n, "cancellation points in generatePartition")
	})
}

// returnsOnErr: on the err != nil edge of call the function returns (a non-nil error).
func returnsOnErr(f *ssa.Function, call *ssa.Call) bool {
	for e := range EdgesWhere(f, Cmp(Is(call), token.NEQ, Nil())) {
		tb := e.From.Succs[e.Succ]
		if ret, ok := tb.Instrs[len(tb.Instrs)-1].(*ssa.Return); ok && len(ret.Results) > 0 && !Nil()(retVal(ret, len(ret.Results)-1)) {
			return true
		}
	}
	return false
}

func init() {
	extendProp("C02", "Envelope canonicality rests on canonical RLP integers: the C01 rule set over package rlp (single-byte, leading-zero and size rejects of every integer/bytes decoder) is evaluated for C02 as well, since a non-canonical integer field accepted by the decoder makes two byte strings share one transaction hash.", []string{"rlp"}, func(c *Ctx) {
		if p := registry["C01"]; p != nil {
			p.Run(c)
		}
	})
}

func init() {
	extendProp("C03", "A signer treats chain id zero the same way when it hashes and when it encodes the signature: among EIP155Signer's Hash and SignatureValues either both or neither special-case a zero chain id (otherwise the V it writes marks the transaction unprotected while the hash it signed was the protected one, and recovery returns another address).", nil, func(c *Ctx) {
		c.Rule("SIBLING/C03.chainzero")
		ct := "core/types"
		special := func(f *ssa.Function) bool {
			if f == nil {
				return false
			}
			c.Funcs[f] = true
			found := false
			eachInstr(f, func(in ssa.Instruction) {
				call, ok := in.(*ssa.Call)
				if !ok || calleeName(&call.Call) != "(*math/big.Int).Sign" {
					return
				}
				if matchField(fieldOfLoad(call.Call.Args[0]), ct+".EIP155Signer.chainId") || Mentions(func(v ssa.Value) bool {
					fl, ok := v.(*ssa.Field)
					return ok && fieldName(fl) == ct+".EIP155Signer.chainId"
				})(call.Call.Args[0]) {
					found = true
				}
			})
			return found
		}
		h := c.TryFn(ct, "(EIP155Signer).Hash")
		sv := c.TryFn(ct, "(EIP155Signer).SignatureValues")
		if h == nil || sv == nil {
			c.Undecided("methods", token.NoPos, "EIP155Signer.Hash / SignatureValues not found")
			return
		}
		a, b := special(h), special(sv)
		c.Check(a == b, "hash-vs-values/EIP155Signer", sv.Pos(), "Hash and SignatureValues agree on the treatment of chain id zero", "EIP155Signer.SignatureValues special-cases chain id zero (plain V = 27/28) while EIP155Signer.Hash always signs the replay-protected form: a transaction signed with NewEIP155Signer(0) is recovered, without error, to a different address")
	})
}
