package main

import (
	"go/types"
	"sort"
	"strconv"
	"strings"

	"golang.org/x/tools/go/ssa"
)

// Pkg returns the loaded package or fails the anchor.
func (c *Ctx) Pkg(rel string) *ssa.Package {
	p := c.SSA[rel]
	if p == nil {
		c.failAnchor("package %q not loaded (add it to Prop.Pkgs)", rel)
	}
	return p
}

// Fn resolves "Func", "(*T).M", "T.M" and closures "Func$1", "(*T).M$2$1" in
// the module-relative package. An unresolvable anchor aborts the property with
// UNDECIDED.
func (c *Ctx) Fn(rel, name string) *ssa.Function {
	f := c.TryFn(rel, name)
	if f == nil {
		c.failAnchor("anchor %s.%s does not resolve", rel, name)
	}
	if len(f.Blocks) == 0 {
		c.failAnchor("anchor %s.%s has no body", rel, name)
	}
	c.Funcs[f] = true
	return f
}

func (c *Ctx) TryFn(rel, name string) *ssa.Function {
	p := c.Pkg(rel)
	parts := strings.Split(name, "$")
	base := parts[0]
	var f *ssa.Function
	if strings.Contains(base, ".") {
		ptr := false
		var tn, mn string
		if strings.HasPrefix(base, "(*") {
			ptr = true
			i := strings.Index(base, ")")
			tn, mn = base[2:i], base[i+2:]
		} else {
			i := strings.Index(base, ".")
			tn, mn = strings.Trim(base[:i], "()"), base[i+1:]
		}
		obj, _ := p.Pkg.Scope().Lookup(tn).(*types.TypeName)
		if obj == nil {
			return nil
		}
		var T types.Type = obj.Type()
		if ptr {
			T = types.NewPointer(T)
		}
		sel := c.Prog.MethodSets.MethodSet(T).Lookup(p.Pkg, mn)
		if sel == nil {
			// generic type: look up declared method on the origin
			if named, ok := obj.Type().(*types.Named); ok {
				for i := 0; i < named.NumMethods(); i++ {
					if named.Method(i).Name() == mn {
						f = c.Prog.FuncValue(named.Method(i))
					}
				}
			}
			if f == nil {
				return nil
			}
		} else {
			if fo, ok := sel.Obj().(*types.Func); ok {
				f = c.Prog.FuncValue(fo)
			}
			if f == nil {
				f = c.Prog.MethodValue(sel)
			}
		}
	} else {
		f = p.Func(base)
	}
	if f == nil {
		return nil
	}
	for _, a := range parts[1:] {
		n, err := strconv.Atoi(a)
		if err != nil || n < 1 || n > len(f.AnonFuncs) {
			return nil
		}
		f = f.AnonFuncs[n-1]
	}
	return f
}

// Type resolves a named type.
func (c *Ctx) Type(rel, name string) *types.Named {
	p := c.Pkg(rel)
	obj, _ := p.Pkg.Scope().Lookup(name).(*types.TypeName)
	if obj == nil {
		c.failAnchor("type %s.%s does not resolve", rel, name)
	}
	n, ok := obj.Type().(*types.Named)
	if !ok {
		c.failAnchor("type %s.%s is not a named type", rel, name)
	}
	return n
}

// Struct returns the underlying struct of a named type.
func (c *Ctx) Struct(rel, name string) (*types.Named, *types.Struct) {
	n := c.Type(rel, name)
	s, ok := n.Underlying().(*types.Struct)
	if !ok {
		c.failAnchor("type %s.%s is not a struct", rel, name)
	}
	return n, s
}

// AllFuncs lists every function with a body in the package, including
// methods and nested closures.
func (c *Ctx) AllFuncs(rel string) []*ssa.Function {
	p := c.Pkg(rel)
	var out []*ssa.Function
	seen := map[*ssa.Function]bool{}
	var add func(f *ssa.Function)
	add = func(f *ssa.Function) {
		if f == nil || seen[f] || len(f.Blocks) == 0 {
			return
		}
		seen[f] = true
		out = append(out, f)
		for _, a := range f.AnonFuncs {
			add(a)
		}
	}
	for _, m := range p.Members {
		switch m := m.(type) {
		case *ssa.Function:
			add(m)
		case *ssa.Type:
			for _, T := range []types.Type{m.Type(), types.NewPointer(m.Type())} {
				ms := c.Prog.MethodSets.MethodSet(T)
				for i := 0; i < ms.Len(); i++ {
					fo, ok := ms.At(i).Obj().(*types.Func)
					if !ok || fo.Pkg() != p.Pkg {
						continue
					}
					add(c.Prog.FuncValue(fo))
				}
			}
			// methods of generic types are not in method sets of the origin
			if named, ok := m.Type().(*types.Named); ok && named.TypeParams().Len() > 0 {
				for i := 0; i < named.NumMethods(); i++ {
					add(c.Prog.FuncValue(named.Method(i)))
				}
			}
		}
	}
	sortFuncs(out)
	return out
}

func sortFuncs(fs []*ssa.Function) {
	sort.Slice(fs, func(i, j int) bool { return fs[i].String() < fs[j].String() })
}

// derefNamed returns the named type behind pointers.
func derefNamed(t types.Type) *types.Named {
	for {
		switch tt := t.(type) {
		case *types.Pointer:
			t = tt.Elem()
		case *types.Alias:
			t = types.Unalias(tt)
		case *types.Named:
			return tt
		default:
			return nil
		}
	}
}

func namedName(t types.Type) string {
	n := derefNamed(t)
	if n == nil {
		return ""
	}
	if n.Obj().Pkg() == nil {
		return n.Obj().Name()
	}
	return relPkg(n.Obj().Pkg().Path()) + "." + n.Obj().Name()
}
