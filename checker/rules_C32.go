package main

import (
	"go/token"
	"sort"
	"strings"

	"golang.org/x/tools/go/ssa"
)

func init() {
	Register(&Prop{
		ID:   "C32",
		Pkgs: []string{"core", "core/vm"},
		Decided: "every two-sided balance move debits and credits the same amount value between the intended parties (core.Transfer; both SELFDESTRUCT variants: every credit of the beneficiary is paired with a debit of the destructed contract of the same GetBalance(this) value, and the beneficiary is credited only when it differs from the contract); the set of functions that may credit a balance in core and core/vm is closed (transfer, gas refund, tip, self-destruct, zero-value touch) and the touch credits a fresh zero; value only moves after the sender's funds were checked (CanTransfer before Transfer in Call; createFramePreCheck before create's Transfer, in create itself before Amsterdam and through chargeAccountCreation's halt flag — honoured unconditionally by CREATE/CREATE2 — since); the gas purchase tests every overflow flag, checks the balance against the fee-cap total before debiting, and debits gasLimit×gasPrice (+blob fee) from the sender; the refund is leftover-gas × the same gas price to the same sender; the tip is the settled gasUsed × effective tip, paid to the block's coinbase, and the reported UsedGas is that same gasUsed.",
		NotDec: "the conservation sum over a block as a value-level fact; withdrawals and consensus rewards (credited in consensus engines); base-fee burn amounts; the refund counter arithmetic.",
		Rules:  "SAMEVAL transfer/selfdestruct/refund/tip; WHO AddBalance callers; DOM funds-check before transfer; OVFUSED buyGas",
		MinObs: 65,
		Run:    c32,
	})
}

func c32(c *Ctx) {
	add, sub := "(core/vm.StateDB).AddBalance", "(core/vm.StateDB).SubBalance"
	addS, subS := "(*core/state.StateDB).AddBalance", "(*core/state.StateDB).SubBalance"
	args := func(s Site) []ssa.Value { return callArgs(s.Instr.(ssa.CallInstruction).Common()) }

	// ---- two-sided moves -------------------------------------------------------------------------
	c.Rule("SAMEVAL/C32.transfer")
	if tr := c.Fn(corep, "Transfer"); tr != nil {
		c.Funcs[tr] = true
		as, ss := c.Calls(tr, add), c.Calls(tr, sub)
		if c.Check(len(as) == 1 && len(ss) == 1, "shape/"+fnName(tr), tr.Pos(), "one debit and one credit", "Transfer does not consist of exactly one debit and one credit") {
			a, s := args(as[0]), args(ss[0])
			c.Check(Param("amount")(a[1]) && Param("amount")(s[1]), "amount/"+fnName(tr), as[0].Pos(), "debit and credit use the same amount", "Transfer debits and credits different amounts")
			c.Check(Param("sender")(s[0]) && Param("recipient")(a[0]), "parties/"+fnName(tr), ss[0].Pos(), "debits the sender, credits the recipient", "Transfer debits/credits the wrong party")
			c.Dom("SAMEVAL/C32.transfer/unconditional", tr, c.Returns(tr), "return", GCall("SubBalance", ss).Then(GCall("AddBalance", as)))
		}
	}
	for _, name := range []string{"opSelfdestruct", "opSelfdestruct6780"} {
		f := c.Fn(vmp, name)
		if f == nil {
			continue
		}
		c.Funcs[f] = true
		as, ss := c.Calls(f, add), c.Calls(f, sub)
		bal := c.Calls(f, "(core/vm.StateDB).GetBalance")
		if !c.Check(len(bal) == 1 && len(ss) >= 1, "shape/"+fnName(f), f.Pos(), "reads the contract's balance once and debits it", "self-destruct does not read the balance once / never debits the contract") {
			continue
		}
		this := args(bal[0])[0]
		c.Check(CallRes("(*core/vm.Contract).Address")(this), "this/"+fnName(f), bal[0].Pos(), "the balance read is the executing contract's", "self-destruct reads the balance of something other than the executing contract")
		balV := bal[0].Instr.(ssa.Value)
		for _, s := range ss {
			a := args(s)
			c.Check(sameValue(a[0], this) && derefOf(a[1], balV), "debit/"+fnName(f), s.Pos(), "debits the contract by its full balance", "self-destruct debits the wrong account or amount")
		}
		neq := EdgesWhere(f, Cmp(Is(this), token.NEQ, Any()))
		for _, s := range as {
			a := args(s)
			c.Check(!sameValue(a[0], this) && derefOf(a[1], balV), "credit/"+fnName(f), s.Pos(), "credits the beneficiary with the contract's balance", "self-destruct credits the wrong account or amount")
			// paired with a debit of the same amount
			okp := false
			for _, d := range ss {
				if d.Instr.Block() == s.Instr.Block() || instrDominates(d.Instr, s.Instr) {
					okp = true
				}
			}
			if !okp {
				okp = ReachesBefore(s.Instr, sitesToSet(ss), nil, sitesToSet(c.Returns(f))) == nil
			}
			c.Check(okp, "paired/"+fnName(f), s.Pos(), "the credit is accompanied by a debit of the contract on every path", "the beneficiary is credited without the contract being debited: ether is created")
			dom := false
			for e := range neq {
				if edgeDominates(e, s.Instr.Block()) {
					dom = true
				}
			}
			c.Check(dom, "not-self/"+fnName(f), s.Pos(), "the credit happens only when beneficiary != contract", "the contract can be credited with its own balance before being debited (doubling it if the debit is skipped)")
		}
	}

	// ---- who may credit --------------------------------------------------------------------------
	c.Rule("WHO/C32.mint")
	allowed := map[string]string{
		"core.Transfer":                       "two-sided transfer (SAMEVAL/C32.transfer)",
		"(*core.stateTransition).execute":     "tip to the coinbase (SAMEVAL/C32.tip)",
		"(*core.stateTransition).settleGas":   "refund of unused gas (SAMEVAL/C32.refund)",
		"core/vm.opSelfdestruct":              "self-destruct transfer",
		"core/vm.opSelfdestruct6780":          "self-destruct transfer",
		"(*core/vm.EVM).StaticCall":           "zero-value touch (checked to be a fresh zero)",
		"core.hashAlloc":                      "genesis allocation (not block execution)",
		"core.flushAlloc":                     "genesis allocation (not block execution)",
	}
	var creditors []string
	seen := map[string]bool{}
	for _, rel := range []string{corep, vmp} {
		for _, f := range c.AllFuncs(rel) {
			sites := cat(c.Calls(f, add), c.Calls(f, addS))
			if len(sites) == 0 {
				continue
			}
			n := fnName(f)
			if !seen[n] {
				seen[n] = true
				creditors = append(creditors, n)
			}
			for _, s := range sites {
				why, ok := allowed[n]
				c.Check(ok && why != "", "creditor/"+n, s.Pos(), "balance credit in an audited function: "+why, n+" credits a balance but is not one of the audited ether sources (transfer, refund, tip, self-destruct, touch)")
			}
		}
	}
	sort.Strings(creditors)
	c.Expect(8, len(creditors), "functions crediting balances in core, core/vm: "+strings.Join(creditors, ", "))
	if call := c.Fn(vmp, "(*EVM).StaticCall"); call != nil {
		for _, s := range c.Calls(call, add) {
			v := args(s)[1]
			al, isAlloc := v.(*ssa.Alloc)
			fresh := isAlloc
			if isAlloc {
				for _, r := range *al.Referrers() {
					if r != s.Instr {
						if _, isDbg := r.(*ssa.DebugRef); !isDbg {
							fresh = false
						}
					}
				}
			}
			c.Check(fresh, "touch-zero/"+fnName(call), s.Pos(), "the touch credits a fresh zero value", "the account touch credits a non-zero amount")
		}
	}

	// ---- funds are checked before value moves ------------------------------------------------------
	c.Rule("DOM/C32.funds")
	canT, xfer := "field:core/vm.BlockContext.CanTransfer", "field:core/vm.BlockContext.Transfer"
	if call := c.Fn(vmp, "(*EVM).Call"); call != nil {
		c.Dom("call", call, c.Calls(call, xfer), "Context.Transfer",
			GCond("CanTransfer(caller, value)", call, True(CallRes(canT))),
			GCond("value.IsZero()", call, True(CallRes("(*github.com/holiman/uint256.Int).IsZero"))),
			GCond("syscall", call, True(Param("syscall"))))
		for _, s := range c.Calls(call, canT) {
			a := args(s)
			c.Check(Param("caller")(a[1]) && Param("value")(a[2]), "call-args/"+fnName(call), s.Pos(), "checks the caller's funds against the transferred value", "the funds check looks at a different account or amount than the transfer")
		}
		for _, s := range c.Calls(call, xfer) {
			a := args(s)
			c.Check(Param("caller")(a[1]) && Param("addr")(a[2]) && Param("value")(a[3]), "call-xfer/"+fnName(call), s.Pos(), "transfers value from caller to callee", "Call moves value between the wrong parties")
		}
	}
	pre := "(*core/vm.EVM).createFramePreCheck"
	if cr := c.Fn(vmp, "(*EVM).create"); cr != nil {
		c.Dom("create", cr, c.Calls(cr, xfer), "Context.Transfer",
			GErrChecked("createFramePreCheck succeeded", c.Calls(cr, pre)),
			GCond("IsAmsterdam (precheck done by the CREATE opcode through chargeAccountCreation)", cr, True(Fld("params.Rules.IsAmsterdam"))))
	}
	if pc := c.Fn(vmp, "(*EVM).createFramePreCheck"); pc != nil {
		c.Dom("precheck", pc, c.SuccessReturns(pc), "nil return", GCond("CanTransfer(caller, value)", pc, True(CallRes(canT))))
	}
	if ch := c.Fn(vmp, "(*EVM).chargeAccountCreation"); ch != nil {
		// halt == false is only reported before Amsterdam or after the precheck passed
		var noHalt []Site
		for _, r := range c.Returns(ch) {
			if !ConstBool(true)(retVal(r.Instr.(*ssa.Return), 1)) {
				noHalt = append(noHalt, r)
			}
		}
		c.Expect(3, len(noHalt), "non-halting returns of chargeAccountCreation")
		c.Dom("charge", ch, noHalt, "return halt=false",
			GCond("!IsAmsterdam", ch, False(Fld("params.Rules.IsAmsterdam"))),
			GErrChecked("createFramePreCheck succeeded", c.Calls(ch, pre)))
	}
	nop := 0
	for _, name := range []string{"opCreate", "opCreate2"} {
		f := c.Fn(vmp, name)
		if f == nil {
			continue
		}
		cr := c.Calls(f, "(*core/vm.EVM).create")
		nop += len(cr)
		c.Dom("opcode", f, cr, "evm.create", GCond("!halt (chargeAccountCreation)", f, False(CallResN("(*core/vm.EVM).chargeAccountCreation", 1))))
	}
	c.Expect(2, nop, "evm.create calls in the CREATE opcodes")

	// ---- gas purchase ----------------------------------------------------------------------------
	c.Rule("OVFUSED/C32.buygas")
	st := "(*core.stateTransition)."
	if bg := c.Fn(corep, "(*stateTransition).buyGas"); bg != nil {
		n := c.OvfUsed("ovf", bg, "(*github.com/holiman/uint256.Int).MulOverflow", 1)
		n += c.OvfUsed("ovf", bg, "(*github.com/holiman/uint256.Int).AddOverflow", 1)
		n += c.OvfUsed("ovf", bg, "github.com/holiman/uint256.FromBig", 1)
		c.Expect(8, n, "overflow-reporting operations in buyGas")
		sb := cat(c.Calls(bg, subS), c.Calls(bg, sub))
		c.Expect(1, len(sb), "SubBalance in buyGas")
		c.Dom("balance-check", bg, sb, "SubBalance", GCond("balance >= required", bg, Cmp(CallRes("(*github.com/holiman/uint256.Int).Cmp"), token.GEQ, ConstInt(0))))
		// every overflow reject precedes the debit
		for _, spec := range []string{"(*github.com/holiman/uint256.Int).MulOverflow", "(*github.com/holiman/uint256.Int).AddOverflow"} {
			for _, s := range c.Calls(bg, spec) {
				call := s.Instr.(*ssa.Call)
				// on the overflow edge the function returns an error without debiting
				for e := range ResultTrueEdges(call, 1) {
					b := e.From.Succs[e.Succ]
					reach := ReachesBefore(b.Instrs[0], nil, nil, sitesToSet(sb))
					first := false
					for _, d := range sb {
						if d.Instr == b.Instrs[0] {
							first = true
						}
					}
					c.Check(reach == nil && !first, "ovf-rejects/"+fnName(bg), s.Pos(), "an overflow leads to an error return without debiting", "the purchase continues to the debit after an arithmetic overflow")
				}
			}
		}
		for _, s := range sb {
			a := args(s)
			c.Check(Fld("core.Message.From")(a[0]), "payer/"+fnName(bg), s.Pos(), "debits msg.From", "the gas purchase debits someone other than the sender")
			// amount: the value that received gasLimit × gasPrice
			okAmt := false
			for _, m := range c.Calls(bg, "(*github.com/holiman/uint256.Int).MulOverflow") {
				ma := m.Instr.(*ssa.Call).Call.Args
				if sameValue(ma[0], a[1]) && Fld("core.Message.GasPrice")(ma[2]) {
					okAmt = true
				}
			}
			c.Check(okAmt, "amount/"+fnName(bg), s.Pos(), "debits gasLimit × gasPrice (plus blob fee)", "the debited amount is not the product with msg.GasPrice")
		}
	}

	// ---- refund and tip ----------------------------------------------------------------------------
	c.Rule("SAMEVAL/C32.refund")
	if sg := c.Fn(corep, "(*stateTransition).settleGas"); sg != nil {
		as := cat(c.Calls(sg, addS), c.Calls(sg, add))
		c.Expect(1, len(as), "AddBalance in settleGas")
		for _, s := range as {
			a := args(s)
			c.Check(Fld("core.Message.From")(a[0]), "payee/"+fnName(sg), s.Pos(), "refunds msg.From", "the gas refund goes to someone other than the sender")
			okAmt := false
			if m, ok := a[1].(*ssa.Call); ok && calleeName(&m.Call) == "(*github.com/holiman/uint256.Int).Mul" {
				okAmt = CallRes("github.com/holiman/uint256.NewInt")(m.Call.Args[1]) && Fld("core.Message.GasPrice")(m.Call.Args[2])
			}
			c.Check(okAmt, "amount/"+fnName(sg), s.Pos(), "refund = leftover gas × msg.GasPrice (the price it was bought at)", "the refund is not leftover gas × the purchase price")
		}
		// gasUsed returned = gasLimit - gasLeft - refund path: the returned gasUsed and the refunded gasLeft come from the same gasRemaining
		c.Check(len(c.Calls(sg, st+"calcRefund")) == 1, "refund-counter/"+fnName(sg), sg.Pos(), "the refund counter is applied once", "the refund counter is applied more than once or never")
	}
	c.Rule("SAMEVAL/C32.tip")
	if ex := c.Fn(corep, "(*stateTransition).execute"); ex != nil {
		as := cat(c.Calls(ex, addS), c.Calls(ex, add))
		c.Expect(1, len(as), "AddBalance in execute")
		used := CallResN(st+"settleGas", 0)
		for _, s := range as {
			a := args(s)
			c.Check(Fld("core/vm.BlockContext.Coinbase")(a[0]), "payee/"+fnName(ex), s.Pos(), "the tip goes to the block's coinbase", "the tip is paid to something other than the block context's coinbase")
			// fee := SetUint64(gasUsed); fee.Mul(fee, effectiveTip)
			var setOK, mulOK bool
			for _, m := range c.Calls(ex, "(*github.com/holiman/uint256.Int).SetUint64") {
				ma := m.Instr.(*ssa.Call).Call.Args
				if (sameValue(ma[0], a[1]) || m.Instr.(ssa.Value) == a[1]) && used(ma[1]) {
					setOK = true
				}
			}
			for _, m := range c.Calls(ex, "(*github.com/holiman/uint256.Int).Mul") {
				ma := m.Instr.(*ssa.Call).Call.Args
				if sameValue(ma[1], a[1]) || sameValue(ma[0], a[1]) {
					tip := ma[2]
					if phi, ok := tip.(*ssa.Phi); ok {
						good := len(phi.Edges) == 2
						for _, e := range phi.Edges {
							isPrice := Fld("core.Message.GasPrice")(e)
							isSub := false
							if sc, ok := e.(*ssa.Call); ok && calleeName(&sc.Call) == "(*github.com/holiman/uint256.Int).Sub" {
								isSub = Fld("core.Message.GasPrice")(sc.Call.Args[1]) && CallRes("github.com/holiman/uint256.FromBig")(sc.Call.Args[2])
							}
							if !isPrice && !isSub {
								good = false
							}
						}
						mulOK = good
					}
				}
			}
			c.Check(setOK, "gas/"+fnName(ex), s.Pos(), "the fee is computed from the gasUsed that settleGas returned", "the tip is not computed from the settled gas usage")
			c.Check(mulOK, "tip/"+fnName(ex), s.Pos(), "fee = gasUsed × (gasPrice, or gasPrice − baseFee after London)", "the tip multiplier is not the effective tip")
		}
		// reported UsedGas is the same value
		for _, s := range c.Stores(ex, "core.ExecutionResult.UsedGas") {
			c.Check(used(s.Instr.(*ssa.Store).Val), "reported/"+fnName(ex), s.Pos(), "ExecutionResult.UsedGas is settleGas' gasUsed", "the reported gas usage differs from the one the fee was computed from")
		}
		c.Dom("SAMEVAL/C32.tip/settled", ex, as, "tip payment", GErrChecked("settleGas succeeded", c.Calls(ex, st+"settleGas")))
	}
}

// derefOf: v is (the address of a copy of) the call result w — StateDB.GetBalance
// returns a value that is spilled to take its address.
func derefOf(v ssa.Value, w ssa.Value) bool {
	if v == w || sameValue(v, w) {
		return true
	}
	if al, ok := v.(*ssa.Alloc); ok {
		n, hit := 0, false
		for _, r := range *al.Referrers() {
			if st, ok := r.(*ssa.Store); ok && st.Addr == al {
				n++
				if st.Val == w {
					hit = true
				}
			}
		}
		return n == 1 && hit
	}
	return false
}

